#!/bin/bash
exit 0
