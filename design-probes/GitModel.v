From Coq Require Import List Arith Bool Lia.
Import ListNotations.

(* ---------- abstract repository ---------- *)
(* paths and contents are abstract with decidable equality; a tree is a total function to option *)
Section Git.
Variable path content digest : Type.
Variable path_eqb : path -> path -> bool.
Hypothesis path_eqb_eq : forall a b, path_eqb a b = true <-> a = b.
Variable content_eqb : content -> content -> bool.
Hypothesis content_eqb_eq : forall a b, content_eqb a b = true <-> a = b.
Variable digest_eqb : digest -> digest -> bool.
Hypothesis digest_eqb_eq : forall a b, digest_eqb a b = true <-> a = b.

(* SHA-256, idealised: injective, and never the empty string used for "no file" *)
Variable sha : content -> digest.
Variable empty_digest : digest.
Hypothesis sha_inj : forall a b, sha a = sha b -> a = b.
Hypothesis sha_nonempty : forall a, sha a <> empty_digest.

Definition tree := path -> option content.
Definition ocontent_eqb (a b : option content) : bool :=
  match a, b with
  | None, None => true
  | Some x, Some y => content_eqb x y
  | _, _ => false
  end.
Lemma ocontent_eqb_eq a b : ocontent_eqb a b = true <-> a = b.
Proof.
  destruct a, b; simpl; try (split; congruence).
  rewrite content_eqb_eq. split; congruence.
Qed.

Record repo := {
  universe : list path;          (* every path that exists anywhere: commit, index or worktree *)
  head : tree;                   (* tree of the commit HEAD resolves to *)
  index : tree;
  work : tree;
  ignored : path -> bool
}.

Definition checksum (r : repo) (p : path) : digest :=
  match work r p with Some c => sha c | None => empty_digest end.

Definition tracked (r : repo) (p : path) : bool := match index r p with Some _ => true | None => false end.

(* git diff --name-only --no-renames -z <commit>  (commit tree against the working tree) *)
Definition diff1 (r : repo) (c : tree) : list path :=
  filter (fun p => negb (ocontent_eqb (c p) (if tracked r p then work r p else None))) (universe r).
(* git ls-files --others --exclude-standard -z *)
Definition others (r : repo) : list path :=
  filter (fun p => match work r p with Some _ => negb (tracked r p) && negb (ignored r p) | None => false end)
         (universe r).

Definition pending := list (path * digest).
Fixpoint plookup (pn : pending) (p : path) : option digest :=
  match pn with
  | [] => None
  | (q, d) :: rest => if path_eqb q p then Some d else plookup rest p
  end.

(* get_git_all_changes for a checkpoint whose id resolves to tree c *)
Definition all_changes (r : repo) (c : tree) (pn : option pending) : list path :=
  let raw := others r ++ diff1 r c in
  match pn with
  | Some ((_ :: _) as m) =>
      filter (fun p => match plookup m p with
                       | Some d => negb (digest_eqb d (checksum r p))
                       | None => true end) raw
  | _ => raw
  end.

(* checkpoint update --pending: id := HEAD, pending := checksums of the changes against HEAD *)
Definition update_p (r : repo) (old : option pending) : tree * option pending :=
  let ch := all_changes r (head r) None in
  (head r, match ch with [] => old | _ => Some (map (fun p => (p, checksum r p)) ch) end).

Lemma plookup_map r l p : In p l -> plookup (map (fun q => (q, checksum r q)) l) p = Some (checksum r p).
Proof.
  induction l as [|q l IH]; intros H; [destruct H|]. simpl.
  destruct (path_eqb q p) eqn:E.
  - apply path_eqb_eq in E. subst. reflexivity.
  - destruct H as [->|H]; [|auto]. assert (path_eqb p p = true) by (apply path_eqb_eq; reflexivity). congruence.
Qed.

Lemma filter_none {A} (f : A -> bool) l : (forall x, In x l -> f x = false) -> filter f l = [].
Proof.
  induction l as [|a l IH]; intros H; [reflexivity|]. simpl.
  rewrite (H a (or_introl eq_refl)). apply IH. intros x Hx. apply H. right. exact Hx.
Qed.

(* C07, first half: immediately after `checkpoint update -p` nothing is changed *)
Theorem C07_fixpoint r old :
  let '(c, pn) := update_p r old in all_changes r c pn = [].
Proof.
  unfold update_p. destruct (all_changes r (head r) None) as [|p0 l] eqn:E.
  - (* nothing pending: the old map is kept; the raw list is empty, so any filter of it is empty *)
    unfold all_changes in *. simpl in E. destruct old as [[|x m]|]; try exact E. rewrite E. reflexivity.
  - unfold all_changes at 1. cbn [map].
    change (others r ++ diff1 r (head r)) with (all_changes r (head r) None). rewrite E.
    apply filter_none. intros p Hp.
    pose proof (plookup_map r (p0 :: l) p Hp) as Hl. cbn [map] in Hl. rewrite Hl.
    assert (H : digest_eqb (checksum r p) (checksum r p) = true) by (apply digest_eqb_eq; reflexivity).
    rewrite H. reflexivity.
Qed.


(* C07, second half: a path brought into a state that differs from the checkpoint commit and from every
   checksum the checkpoint recorded for it is reported *)
Theorem C07_reflag r' (c : tree) (pn : option pending) p :
  In p (universe r') -> ignored r' p = false ->
  work r' p <> c p ->
  (forall m d, pn = Some m -> plookup m p = Some d -> d <> checksum r' p) ->
  In p (all_changes r' c pn).
Proof.
  intros Hu Hi Hne Hnovel.
  assert (Hraw : In p (others r' ++ diff1 r' c)).
  { apply in_or_app. unfold others, diff1. rewrite !filter_In.
    destruct (tracked r' p) eqn:Et.
    - right. split; auto. apply negb_true_iff. apply not_true_iff_false.
      intro H. apply ocontent_eqb_eq in H. congruence.
    - destruct (work r' p) as [w|] eqn:Ew.
      + left. split; auto. rewrite Hi. reflexivity.
      + right. split; auto. apply negb_true_iff. apply not_true_iff_false.
        intro H. apply ocontent_eqb_eq in H. congruence. }
  unfold all_changes. destruct pn as [[|x m]|]; auto.
  apply filter_In. split; auto.
  destruct (plookup (x :: m) p) as [d|] eqn:El; auto.
  apply negb_true_iff. apply not_true_iff_false. intro H. apply digest_eqb_eq in H.
  exact (Hnovel (x :: m) d eq_refl El H).
Qed.

(* and nothing else is: a reported path differs from the checkpoint commit or is untracked,
   and is not masked by a recorded checksum *)
Theorem C07_only r' (c : tree) (pn : option pending) p :
  In p (all_changes r' c pn) ->
  ((tracked r' p = true /\ work r' p <> c p) \/
   (tracked r' p = false /\ (c p <> None \/ (work r' p <> None /\ ignored r' p = false)))) /\
  (forall m d, pn = Some m -> m <> [] -> plookup m p = Some d -> d <> checksum r' p).
Proof.
  intros H. unfold all_changes in H.
  assert (Hraw : In p (others r' ++ diff1 r' c) /\
                 (forall m d, pn = Some m -> m <> [] -> plookup m p = Some d -> d <> checksum r' p)).
  { destruct pn as [[|x m]|].
    - split; auto. intros m d E Hm. inversion E; subst. congruence.
    - apply filter_In in H as [H1 H2]. split; auto. intros m' d E _ El. inversion E; subst.
      rewrite El in H2. apply negb_true_iff, not_true_iff_false in H2. intro Hd. apply H2.
      apply digest_eqb_eq. exact Hd.
    - split; auto. intros m d E. discriminate. }
  destruct Hraw as [Hraw Hmask]. split; auto.
  apply in_app_or in Hraw as [Ho|Hd].
  - unfold others in Ho. apply filter_In in Ho as [_ Ho]. destruct (work r' p) eqn:Ew; [|discriminate].
    apply andb_true_iff in Ho as [H1 H2]. apply negb_true_iff in H1, H2.
    right. split; auto. right. split; [discriminate | exact H2].
  - unfold diff1 in Hd. apply filter_In in Hd as [_ Hd]. apply negb_true_iff, not_true_iff_false in Hd.
    destruct (tracked r' p) eqn:Et.
    + left. split; auto. intro E. apply Hd. apply ocontent_eqb_eq. congruence.
    + right. split; auto. left. intro E. apply Hd. apply ocontent_eqb_eq. congruence.
Qed.

End Git.

Print Assumptions C07_fixpoint.
Print Assumptions C07_reflag.
