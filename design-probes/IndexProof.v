From Coq Require Import List Arith NArith Bool Lia.
From Probe Require Import PathLemma.
Import ListNotations.

(* ---------- configuration and the repaired lookup ---------- *)
Record target := { tpath : str; uses : list str; ignores : list str }.
Definition config := list target.

Definition trie_prefixes (keys : list str) (q : str) : list str :=
  filter (fun k => match k with [] => false | _ => byte_prefix k q end) keys.
Definition lookup (keys : list str) (q : str) : list str :=
  filter (fun k => on_boundary k q) (trie_prefixes keys q).

Definition mem_str (s : str) (l : list str) := existsb (str_eqb s) l.

Lemma mem_str_In s l : mem_str s l = true <-> In s l.
Proof.
  unfold mem_str. rewrite existsb_exists. split.
  - intros (x & Hx & E). apply str_eqb_eq in E. subst. exact Hx.
  - intros H. exists s. split; auto. apply str_eqb_eq. reflexivity.
Qed.

Lemma wf_nonempty k : wf_path k -> k <> [].
Proof. intros [H _]. exact H. Qed.

Lemma lookup_spec keys q k :
  (forall k, In k keys -> wf_path k) -> wf_path q ->
  (In k (lookup keys q) <-> In k keys /\ inside q k = true).
Proof.
  intros Hk Hq. unfold lookup, trie_prefixes. rewrite !filter_In. split.
  - intros [[Hin Hp] Hb]. split; auto. rewrite <- path_lemma by auto.
    unfold path_prefix. destruct k; [discriminate|]. rewrite Hp, Hb. reflexivity.
  - intros [Hin Hi]. rewrite <- path_lemma in Hi by auto.
    unfold path_prefix in Hi. apply andb_true_iff in Hi as [Hp Hb].
    pose proof (wf_nonempty k (Hk k Hin)). destruct k; [congruence|]. auto.
Qed.

Definition target_paths (cfg : config) := map tpath cfg.
Definition all_uses (cfg : config) := flat_map uses cfg.
Definition all_ignores (cfg : config) := flat_map ignores cfg.

Definition wf_config (cfg : config) : Prop :=
  NoDup (map tpath cfg) /\
  forall t, In t cfg -> wf_path (tpath t) /\ (forall u, In u (uses t) -> wf_path u) /\
                        (forall i, In i (ignores t) -> wf_path i).

Lemma wf_targets cfg : wf_config cfg -> forall k, In k (target_paths cfg) -> wf_path k.
Proof. intros [_ H] k Hk. apply in_map_iff in Hk as (t & <- & Ht). apply H. exact Ht. Qed.
Lemma wf_uses cfg : wf_config cfg -> forall k, In k (all_uses cfg) -> wf_path k.
Proof. intros [_ H] k Hk. apply in_flat_map in Hk as (t & Ht & Hu). destruct (H t Ht) as (_ & H2 & _). apply H2. exact Hu. Qed.
Lemma wf_ignores cfg : wf_config cfg -> forall k, In k (all_ignores cfg) -> wf_path k.
Proof. intros [_ H] k Hk. apply in_flat_map in Hk as (t & Ht & Hu). destruct (H t Ht) as (_ & _ & H3). apply H3. exact Hu. Qed.

Lemma tpath_inj cfg t u : wf_config cfg -> In t cfg -> In u cfg -> tpath t = tpath u -> t = u.
Proof.
  intros [Hnd _]. revert Hnd. induction cfg as [|a cfg IH]; simpl; intros Hnd Ht Hu E; [destruct Ht|].
  inversion Hnd as [|? ? Hn Hnd']; subst.
  destruct Ht as [->|Ht], Hu as [->|Hu]; auto.
  - exfalso. apply Hn. rewrite E. apply in_map. exact Hu.
  - exfalso. apply Hn. rewrite <- E. apply in_map. exact Ht.
Qed.

(* ---------- C10: edges ---------- *)
Definition edges_of (cfg : config) (t : target) : list str :=
  let self p := negb (str_eqb p (tpath t)) in
  filter self (lookup (target_paths cfg) (tpath t)) ++
  flat_map (fun u => filter self (lookup (target_paths cfg) u)) (uses t).

Definition dep (t u : target) : Prop :=
  tpath u <> tpath t /\
  (inside (tpath t) (tpath u) = true \/ exists m, In m (uses t) /\ inside m (tpath u) = true).

Theorem C10_edges cfg t u : wf_config cfg -> In t cfg -> In u cfg ->
  (In (tpath u) (edges_of cfg t) <-> dep t u).
Proof.
  intros Hwf Ht Hu. pose proof (wf_targets cfg Hwf) as Hk.
  destruct Hwf as [Hnd Hw]. destruct (Hw t Ht) as (Hpt & Hut & _).
  assert (Hself : forall p, negb (str_eqb p (tpath t)) = true <-> p <> tpath t).
  { intros p. rewrite negb_true_iff. rewrite <- not_true_iff_false, str_eqb_eq. tauto. }
  assert (Huin : In (tpath u) (target_paths cfg)) by (apply in_map; exact Hu).
  unfold edges_of, dep. rewrite in_app_iff, filter_In, in_flat_map. split.
  - intros [[Hl Hs]|(m & Hm & Hf)].
    + apply lookup_spec in Hl as [_ Hi]; auto. apply Hself in Hs. tauto.
    + apply filter_In in Hf as [Hl Hs]. apply lookup_spec in Hl as [_ Hi]; auto.
      apply Hself in Hs. split; auto. right. eauto.
  - intros [Hne [Hi|(m & Hm & Hi)]].
    + left. split; [apply lookup_spec; auto | apply Hself; auto].
    + right. exists m. split; auto. apply filter_In. split; [apply lookup_spec; auto | apply Hself; auto].
Qed.

(* only configured targets are ever edge labels *)
Lemma edges_are_targets cfg t p : wf_config cfg -> In t cfg -> In p (edges_of cfg t) -> In p (target_paths cfg).
Proof.
  intros Hwf Ht. pose proof (wf_targets cfg Hwf) as Hk. destruct Hwf as [_ Hw].
  destruct (Hw t Ht) as (Hpt & Hut & _).
  unfold edges_of. rewrite in_app_iff, filter_In, in_flat_map.
  intros [[Hl _]|(m & Hm & Hf)].
  - apply lookup_spec in Hl; tauto.
  - apply filter_In in Hf as [Hl _]. apply lookup_spec in Hl; auto. tauto.
Qed.

(* ---------- C01: analysis of one change, repaired code ---------- *)
Definition use2targets (cfg : config) (u : str) : list str :=
  map tpath (filter (fun t => mem_str u (uses t)) cfg).
Definition ignore2targets (cfg : config) (i : str) : list str :=
  map tpath (filter (fun t => mem_str i (ignores t)) cfg).
Definition ignore_targets (cfg : config) (p : str) : list str :=
  flat_map (ignore2targets cfg) (lookup (all_ignores cfg) p).

Definition analyze_change (cfg : config) (p : str) : list str :=
  let ign := ignore_targets cfg p in
  let direct := lookup (target_paths cfg) p in
  let d_sum := filter (fun t => negb (mem_str t ign)) direct in
  let via :=
    flat_map (fun m =>
      if mem_str m ign then [] else
      flat_map (fun u =>
        if mem_str u ign then [] else lookup (target_paths cfg) u)
      (use2targets cfg m))
    (lookup (all_uses cfg) p) in
  d_sum ++ filter (fun t2 => negb (mem_str t2 ign)) via.

Definition summary (cfg : config) (changes : list str) : list str :=
  flat_map (analyze_change cfg) changes.   (* before sort + dedup: membership is what matters *)

(* specification *)
Definition ignored (t : target) (p : str) : bool := existsb (fun i => inside p i) (ignores t).
Definition uses_entry_ignored (cfg : config) (m p : str) : bool :=
  existsb (fun t => str_eqb (tpath t) m && ignored t p) cfg.
Definition affected_via_uses (dc : bool) (cfg : config) (n : target) (p : str) : bool :=
  negb (ignored n p) &&
  existsb (fun m => inside p m && negb (dc && uses_entry_ignored cfg m p)) (uses n).
Definition spec_changed1 (dc : bool) (cfg : config) (p : str) (t : target) : bool :=
  negb (ignored t p) &&
  (inside p (tpath t) ||
   existsb (fun n => inside (tpath n) (tpath t) && affected_via_uses dc cfg n p) cfg).
Definition spec_changed (dc : bool) (cfg : config) (changes : list str) (t : target) : bool :=
  existsb (fun p => spec_changed1 dc cfg p t) changes.

Lemma ign_spec cfg p T : wf_config cfg -> wf_path p ->
  (In T (ignore_targets cfg p) <-> exists t, In t cfg /\ tpath t = T /\ ignored t p = true).
Proof.
  intros Hwf Hp. pose proof (wf_ignores cfg Hwf) as Hk.
  unfold ignore_targets, ignore2targets. rewrite in_flat_map. split.
  - intros (i & Hi & HT). apply lookup_spec in Hi as [Hi1 Hi2]; auto.
    apply in_map_iff in HT as (t & <- & Ht). apply filter_In in Ht as [Ht Hm]. apply mem_str_In in Hm.
    exists t. repeat split; auto. unfold ignored. apply existsb_exists. eauto.
  - intros (t & Ht & <- & Hig). unfold ignored in Hig. apply existsb_exists in Hig as (i & Hi & Hin).
    exists i. split.
    + apply lookup_spec; auto. split; auto. unfold all_ignores. apply in_flat_map. eauto.
    + apply in_map. apply filter_In. split; auto. apply mem_str_In. exact Hi.
Qed.

Lemma ign_target cfg p t : wf_config cfg -> wf_path p -> In t cfg ->
  (mem_str (tpath t) (ignore_targets cfg p) = true <-> ignored t p = true).
Proof.
  intros Hwf Hp Ht. rewrite mem_str_In, ign_spec by auto. split.
  - intros (t' & Ht' & E & H). rewrite (tpath_inj cfg t t' Hwf Ht Ht') by auto. exact H.
  - intros H. eauto.
Qed.

Lemma ign_entry cfg p m : wf_config cfg -> wf_path p ->
  (mem_str m (ignore_targets cfg p) = true <-> uses_entry_ignored cfg m p = true).
Proof.
  intros Hwf Hp. rewrite mem_str_In, ign_spec by auto. unfold uses_entry_ignored. rewrite existsb_exists. split.
  - intros (t & Ht & E & H). exists t. split; auto. rewrite H, andb_true_r. apply str_eqb_eq. exact E.
  - intros (t & Ht & H). apply andb_true_iff in H as [E H]. apply str_eqb_eq in E. eauto.
Qed.

Lemma negb_mem_iff s l (P : Prop) : (mem_str s l = true <-> P) -> (negb (mem_str s l) = true <-> ~ P).
Proof. intros H. rewrite negb_true_iff, <- not_true_iff_false. tauto. Qed.

Theorem C01_change cfg p t : wf_config cfg -> wf_path p -> In t cfg ->
  (In (tpath t) (analyze_change cfg p) <-> spec_changed1 true cfg p t = true).
Proof.
  intros Hwf Hp Ht.
  pose proof (wf_targets cfg Hwf) as Hkt. pose proof (wf_uses cfg Hwf) as Hku.
  assert (HtT : In (tpath t) (target_paths cfg)) by (apply in_map; exact Ht).
  assert (Hnig : negb (mem_str (tpath t) (ignore_targets cfg p)) = true <-> ignored t p <> true)
    by (apply negb_mem_iff, ign_target; auto).
  assert (Hvia : In (tpath t)
     (flat_map (fun m => if mem_str m (ignore_targets cfg p) then [] else
        flat_map (fun u => if mem_str u (ignore_targets cfg p) then [] else lookup (target_paths cfg) u)
                 (use2targets cfg m)) (lookup (all_uses cfg) p))
     <-> existsb (fun n => inside (tpath n) (tpath t) && affected_via_uses true cfg n p) cfg = true).
  { rewrite in_flat_map, existsb_exists. split.
    - intros (m & Hm & Hin). apply lookup_spec in Hm as [Hm1 Hm2]; auto.
      destruct (mem_str m (ignore_targets cfg p)) eqn:Em; [destruct Hin|].
      apply in_flat_map in Hin as (u & Hu & Hin).
      unfold use2targets in Hu. apply in_map_iff in Hu as (n & <- & Hn). apply filter_In in Hn as [Hn Hmn].
      apply mem_str_In in Hmn.
      destruct (mem_str (tpath n) (ignore_targets cfg p)) eqn:En; [destruct Hin|].
      destruct Hwf as [Hnd Hw]. destruct (Hw n Hn) as (Hpn & _ & _).
      apply lookup_spec in Hin as [_ Hi]; auto.
      exists n. split; auto. rewrite Hi. simpl. unfold affected_via_uses.
      apply andb_true_iff. split.
      + apply negb_true_iff. apply not_true_iff_false. intro Hig.
        apply (ign_target cfg p n (conj Hnd Hw) Hp Hn) in Hig. congruence.
      + apply existsb_exists. exists m. split; auto. rewrite Hm2. simpl.
        apply negb_true_iff. apply not_true_iff_false. intro Hig.
        apply (ign_entry cfg p m (conj Hnd Hw) Hp) in Hig. congruence.
    - intros (n & Hn & H). apply andb_true_iff in H as [Hi Ha].
      unfold affected_via_uses in Ha. apply andb_true_iff in Ha as [Hni Hex].
      apply existsb_exists in Hex as (m & Hm & Hmm). apply andb_true_iff in Hmm as [Hpm Hdc].
      simpl in Hdc.
      assert (Hmall : In m (all_uses cfg)) by (unfold all_uses; apply in_flat_map; eauto).
      exists m. split; [apply lookup_spec; auto|].
      destruct (mem_str m (ignore_targets cfg p)) eqn:Em.
      { apply (ign_entry cfg p m Hwf Hp) in Em. rewrite Em in Hdc. discriminate. }
      apply in_flat_map. exists (tpath n). split.
      + unfold use2targets. apply in_map. apply filter_In. split; auto. apply mem_str_In. exact Hm.
      + destruct (mem_str (tpath n) (ignore_targets cfg p)) eqn:En.
        { apply (ign_target cfg p n Hwf Hp Hn) in En. rewrite En in Hni. discriminate. }
        destruct Hwf as [Hnd Hw]. destruct (Hw n Hn) as (Hpn & _ & _).
        apply lookup_spec; auto. }
  unfold analyze_change, spec_changed1.
  rewrite in_app_iff, !filter_In, !Hnig, Hvia. rewrite lookup_spec by auto.
  rewrite andb_true_iff, orb_true_iff, negb_true_iff, <- not_true_iff_false. tauto.
Qed.

Theorem C01_membership cfg changes t :
  wf_config cfg -> (forall p, In p changes -> wf_path p) -> In t cfg ->
  (In (tpath t) (summary cfg changes) <-> spec_changed true cfg changes t = true).
Proof.
  intros Hwf Hch Ht. unfold summary, spec_changed. rewrite in_flat_map, existsb_exists.
  split; intros (p & Hp & H); exists p; (split; [exact Hp|]); apply (C01_change cfg p t Hwf (Hch p Hp) Ht); exact H.
Qed.

(* the don't-care band: reading "true" implies reading "false" *)
Lemma spec_band cfg changes t : spec_changed true cfg changes t = true -> spec_changed false cfg changes t = true.
Proof.
  unfold spec_changed. rewrite !existsb_exists. intros (p & Hp & H). exists p. split; auto.
  unfold spec_changed1 in *. apply andb_true_iff in H as [H1 H2]. rewrite H1. simpl.
  apply orb_true_iff in H2 as [H2|H2]; [rewrite H2; reflexivity|]. apply orb_true_iff. right.
  apply existsb_exists in H2 as (n & Hn & H2). apply existsb_exists. exists n. split; auto.
  apply andb_true_iff in H2 as [H2 H3]. rewrite H2. simpl. unfold affected_via_uses in *.
  apply andb_true_iff in H3 as [H3 H4]. rewrite H3. simpl.
  apply existsb_exists in H4 as (m & Hm & H4). apply existsb_exists. exists m. split; auto.
  apply andb_true_iff in H4 as [H4 _]. rewrite H4. reflexivity.
Qed.

Print Assumptions C10_edges.
Print Assumptions C01_membership.
