From Coq Require Import List Arith Bool Lia Permutation Relations.
Import ListNotations.

(* ---------- model of src/core/graph.rs ---------- *)
Record dag := { adj : list (list nat); vis : list bool }.
Definition size (g : dag) := length (adj g).
Definition deps (g : dag) n := nth n (adj g) [].
Definition visible (g : dag) n := nth n (vis g) false.

Fixpoint upd {A} (l : list A) (n : nat) (f : A -> A) : list A :=
  match l, n with
  | [], _ => []
  | x :: r, 0 => f x :: r
  | x :: r, S k => x :: upd r k f
  end.

Inductive res (A : Type) := Ok (a : A) | ErrCycle (n : nat) | Panic.
Arguments Ok {A}. Arguments ErrCycle {A}. Arguments Panic {A}.

(* current (buggy) set_subtree_visibility: BFS with "active" set *)
Definition mem n l := existsb (Nat.eqb n) l.
Definition remove1 n l := filter (fun m => negb (Nat.eqb n m)) l.

Fixpoint scan_deps (ds : list nat) (visited active work : list nat)
  : option (list nat * list nat) (* None = cycle *) * nat :=
  match ds with
  | [] => (Some (active, work), 0)
  | d :: r =>
      if mem d active then (None, d)
      else if mem d visited then scan_deps r visited active work
      else scan_deps r visited (d :: active) (work ++ [d])
  end.

Fixpoint bfs_old (fuel : nat) (g : dag) (work visited active : list nat) (v : list bool) (b : bool)
  : res (list bool) :=
  match fuel with
  | 0 => Panic
  | S f =>
      match work with
      | [] => Ok v
      | n :: w =>
          let v' := upd v n (fun _ => b) in
          let visited' := n :: visited in
          let active' := remove1 n active in
          match scan_deps (deps g n) visited' active' w with
          | (None, d) => ErrCycle d
          | (Some (a, w'), _) => bfs_old f g w' visited' a v' b
          end
      end
  end.

Definition set_subtree_visibility_old (g : dag) (n : nat) (b : bool) : res dag :=
  match bfs_old (S (size g * size g)) g [n] [] [] (vis g) b with
  | Ok v => Ok {| adj := adj g; vis := v |}
  | ErrCycle d => ErrCycle d
  | Panic => Panic
  end.

(* get_groups *)
Definition init_indeg (g : dag) : list nat :=
  fold_left (fun acc i =>
               if visible g i then fold_left (fun a n => upd a n S) (deps g i) acc else acc)
            (seq 0 (size g)) (repeat 0 (size g)).

Definition relax (g : dag) (st : option (list nat * list nat)) (n2 : nat) :=
  match st with
  | None => None
  | Some (indeg, next) =>
      match nth n2 indeg 0 with
      | 0 => None (* usize underflow: panic *)
      | S k =>
          let indeg' := upd indeg n2 (fun _ => k) in
          if (k =? 0) && visible g n2 then Some (indeg', n2 :: next) else Some (indeg', next)
      end
  end.

Fixpoint process_work (g : dag) (work : list nat) (indeg next group : list nat) :=
  match work with
  | [] => Some (indeg, next, rev group)
  | n1 :: w =>
      match fold_left (relax g) (deps g n1) (Some (indeg, next)) with
      | None => None
      | Some (indeg', next') => process_work g w indeg' next' (n1 :: group)
      end
  end.

Fixpoint kahn (fuel : nat) (g : dag) (work indeg : list nat) : option (list (list nat) * list nat) :=
  match work with
  | [] => Some ([], indeg)
  | _ =>
      match fuel with
      | 0 => None
      | S f =>
          match process_work g work indeg [] [] with
          | None => None
          | Some (indeg', next, group) =>
              match kahn f g next indeg' with
              | None => None
              | Some (gs, fin) => Some (group :: gs, fin)
              end
          end
      end
  end.

Definition get_groups (g : dag) : res (list (list nat)) :=
  let indeg := init_indeg g in
  let work := filter (fun n => (nth n indeg 0 =? 0) && visible g n) (seq 0 (size g)) in
  match kahn (S (size g)) g work indeg with
  | None => Panic
  | Some (gs, fin) =>
      match find (fun i => visible g i && negb (nth i fin 0 =? 0)) (seq 0 (size g)) with
      | Some i => ErrCycle i
      | None => Ok gs
      end
  end.

Definition get_labeled_groups g := match get_groups g with Ok gs => Ok (rev gs) | ErrCycle n => ErrCycle n | Panic => Panic end.

Fixpoint set_roots_old (g : dag) (roots : list nat) : res dag :=
  match roots with
  | [] => Ok g
  | r :: rs => match set_subtree_visibility_old g r true with
               | Ok g' => set_roots_old g' rs
               | ErrCycle d => ErrCycle d | Panic => Panic end
  end.

Definition api_groups_old (a : list (list nat)) (roots : list nat) :=
  match set_roots_old {| adj := a; vis := repeat false (length a) |} roots with
  | Ok g => get_labeled_groups g
  | ErrCycle d => ErrCycle d | Panic => Panic
  end.

(* observed on the real binary *)
Eval vm_compute in api_groups_old [[1;2];[2];[]] [0;1;2].   (* a,b,c order: false cycle at 2 *)
Eval vm_compute in api_groups_old [[];[0];[0;1]] [0;1;2].   (* c,b,a order: [[0];[1];[2]] *)
Eval vm_compute in api_groups_old [[1];[0];[]] [0;1;2].     (* 2-cycle: caught by Kahn, node 0 *)
Eval vm_compute in api_groups_old [[];[0];[0];[];[3]] [0;1;2;3;4]. (* app/app2/app-web/lib/lib-inner *)

(* ---------- specification ---------- *)
Definition wf (g : dag) := length (vis g) = size g /\ forall i j, In j (deps g i) -> j < size g.
Definition edge (g : dag) i j := i < size g /\ In j (deps g i).
Definition reach g := clos_refl_trans nat (edge g).
Definition path g := clos_trans nat (edge g).
Definition reachable_from g roots n := exists r, In r roots /\ reach g r n.
Definition cyclic_from g roots := exists n, reachable_from g roots n /\ path g n n.

Fixpoint layer_of (n : nat) (gs : list (list nat)) : option nat :=
  match gs with
  | [] => None
  | l :: r => if mem n l then Some 0 else option_map S (layer_of n r)
  end.

Definition valid_layering (g : dag) (roots : list nat) (gs : list (list nat)) :=
  NoDup (concat gs) /\
  (forall n, In n (concat gs) <-> reachable_from g roots n) /\
  (forall l, In l gs -> l <> []) /\
  (forall i j, reachable_from g roots i -> edge g i j ->
     exists li lj, layer_of i gs = Some li /\ layer_of j gs = Some lj /\ lj < li).

(* C03 (graph level), to be proved for the FIXED visibility walk *)
Definition C03_dag_statement (api : list (list nat) -> list nat -> res (list (list nat))) :=
  forall a roots, let g := {| adj := a; vis := repeat false (length a) |} in
    wf g -> (forall r, In r roots -> r < length a) ->
    ~ cyclic_from g roots ->
    exists gs, api a roots = Ok gs /\ valid_layering g roots gs.

(* C09 (graph level) *)
Definition C09_dag_statement (api : list (list nat) -> list nat -> res (list (list nat))) :=
  forall a roots, let g := {| adj := a; vis := repeat false (length a) |} in
    wf g -> (forall r, In r roots -> r < length a) ->
    cyclic_from g roots ->
    exists n, api a roots = ErrCycle n.

(* the old walk refutes C03 *)
Lemma C03_old_refuted : ~ C03_dag_statement api_groups_old.
Proof.
  intro H. specialize (H [[1;2];[2];[]] [0;1;2]). cbv zeta in H.
  assert (E: forall x y, edge {| adj := [[1;2];[2];[]]; vis := repeat false 3 |} x y -> x < y /\ y < 3).
  { intros x y [_ E]. unfold deps in E; simpl in E.
    destruct x as [|[|[|[|x]]]]; simpl in E; intuition; subst; lia. }
  destruct H as [gs [R _]].
  - split; [reflexivity|]. intros i j Hj. apply (E i j). split; [|exact Hj].
    unfold size; simpl. destruct i as [|[|[|i]]]; simpl; try lia. unfold deps in Hj; simpl in Hj. destruct i; contradiction.
  - simpl; intuition; subst; lia.
  - intros [n [_ P]].
    assert (forall x y, path {| adj := [[1;2];[2];[]]; vis := repeat false 3 |} x y -> x < y).
    { induction 1 as [x y Exy|]; [apply E in Exy|]; lia. }
    apply H in P. lia.
  - vm_compute in R. discriminate.
Qed.
Print Assumptions C03_old_refuted.
