From Coq Require Import List Arith Bool Lia.
Import ListNotations.

(* ---------- model of process_plan / schedule_task / process_task_results ---------- *)
Inductive defn := Defined | Undefined | NotExec.
Definition group := list defn.            (* members, by index; names are irrelevant to scheduling *)
Definition cmdplan := list group.         (* the target groups of one command, dependencies first *)
Definition plan := list cmdplan.          (* commands in execution order *)

Definition task := (nat * nat * nat)%type. (* command index, group index, member index *)
Definition task_eqb (a b : task) : bool :=
  let '(a1, a2, a3) := a in let '(b1, b2, b3) := b in (a1 =? b1) && (a2 =? b2) && (a3 =? b3).
Definition tmem (t : task) (l : list task) := existsb (task_eqb t) l.
Definition tremove (t : task) (l : list task) := filter (fun x => negb (task_eqb t x)) l.

Inductive status := Success | Error (code : option nat) | SUndefined | SNotExec | Skipped.
Inductive event := Spawn (t : task) | Exit (t : task) (code : nat).
Inductive phase := Spawning (k : nat) | Waiting | Finished.

Record st := {
  cpos : nat; gpos : nat; ph : phase;
  failed : bool;            (* the latch of process_plan *)
  cancelled : bool;         (* the group's CancellationToken *)
  tracked : list task;      (* tasks in the JoinSet *)
  running : list task;      (* children spawned and not yet exited (tracked or orphaned) *)
  exited : list task;       (* children that exited *)
  results : list (task * status);
  trace : list event        (* newest first *)
}.

Inductive choice := SchedStep | ChildExit (t : task) | Reap (t : task) | ReapCancelled (t : task).

Section Run.
Variable P : plan.
Variable fail_on_undefined : bool.
Variable code : task -> nat.     (* exit code each child will produce *)

Definition init : st :=
  {| cpos := 0; gpos := 0; ph := Spawning 0; failed := false; cancelled := false;
     tracked := []; running := []; exited := []; results := []; trace := [] |}.

Definition cur_group (s : st) : option group :=
  match nth_error P (cpos s) with
  | Some cp => nth_error cp (gpos s)
  | None => None
  end.

Definition skip_command (c : nat) (cp : cmdplan) : list (task * status) :=
  flat_map (fun '(g, grp) => map (fun k => ((c, g, k), Skipped)) (seq 0 (length grp)))
           (combine (seq 0 (length cp)) cp).

(* advance to the next group, or the next command, skipping whole commands once failed *)
Definition next_position (s : st) : st :=
  match nth_error P (cpos s) with
  | None => {| cpos := cpos s; gpos := gpos s; ph := Finished; failed := failed s; cancelled := false;
               tracked := tracked s; running := running s; exited := exited s;
               results := results s; trace := trace s |}
  | Some cp =>
      if S (gpos s) <? length cp then
        {| cpos := cpos s; gpos := S (gpos s); ph := Spawning 0; failed := failed s; cancelled := false;
           tracked := tracked s; running := running s; exited := exited s;
           results := results s; trace := trace s |}
      else
        {| cpos := S (cpos s); gpos := 0; ph := Spawning 0; failed := failed s; cancelled := false;
           tracked := tracked s; running := running s; exited := exited s;
           results := results s; trace := trace s |}
  end.

Definition with_result (s : st) (t : task) (r : status) (f : bool) (k' : nat) : st :=
  {| cpos := cpos s; gpos := gpos s; ph := Spawning k'; failed := failed s || f; cancelled := cancelled s;
     tracked := tracked s; running := running s; exited := exited s;
     results := (t, r) :: results s; trace := trace s |}.

Definition sched_step (s : st) : st :=
  match ph s with
  | Finished => s
  | Waiting => match tracked s with [] => next_position s | _ => s end
  | Spawning k =>
      match nth_error P (cpos s) with
      | None => {| cpos := cpos s; gpos := gpos s; ph := Finished; failed := failed s; cancelled := cancelled s;
                   tracked := tracked s; running := running s; exited := exited s;
                   results := results s; trace := trace s |}
      | Some cp =>
          if failed s && (gpos s =? 0) && (k =? 0) then
            (* `if failed { results.push(create_skipped_result(..)); continue; }` *)
            {| cpos := S (cpos s); gpos := 0; ph := Spawning 0; failed := true; cancelled := false;
               tracked := tracked s; running := running s; exited := exited s;
               results := skip_command (cpos s) cp ++ results s; trace := trace s |}
          else
          match nth_error cp (gpos s) with
          | None => next_position s       (* command without groups *)
          | Some grp =>
              match nth_error grp k with
              | None => {| cpos := cpos s; gpos := gpos s; ph := Waiting; failed := failed s; cancelled := cancelled s;
                           tracked := tracked s; running := running s; exited := exited s;
                           results := results s; trace := trace s |}
              | Some d =>
                  let t := (cpos s, gpos s, k) in
                  if failed s then with_result s t Skipped false (S k)
                  else match d with
                       | Undefined => with_result s t SUndefined fail_on_undefined (S k)
                       | NotExec => with_result s t SNotExec true (S k)
                       | Defined =>
                           {| cpos := cpos s; gpos := gpos s; ph := Spawning (S k); failed := false;
                              cancelled := cancelled s;
                              tracked := t :: tracked s; running := t :: running s; exited := exited s;
                              results := results s; trace := Spawn t :: trace s |}
                       end
              end
          end
      end
  end.

Definition step (s : st) (c : choice) : st :=
  match c with
  | SchedStep => sched_step s
  | ChildExit t =>
      if tmem t (running s) then
        {| cpos := cpos s; gpos := gpos s; ph := ph s; failed := failed s; cancelled := cancelled s;
           tracked := tracked s; running := tremove t (running s); exited := t :: exited s;
           results := results s; trace := Exit t (code t) :: trace s |}
      else s
  | Reap t =>
      match ph s with
      | Waiting =>
          if tmem t (tracked s) && tmem t (exited s) then
            let ok := code t =? 0 in
            {| cpos := cpos s; gpos := gpos s; ph := Waiting; failed := failed s || negb ok;
               cancelled := cancelled s || negb ok;
               tracked := tremove t (tracked s); running := running s; exited := exited s;
               results := (t, if ok then Success else Error (Some (code t))) :: results s; trace := trace s |}
          else s
      | _ => s
      end
  | ReapCancelled t =>
      match ph s with
      | Waiting =>
          if cancelled s && tmem t (tracked s) then
            {| cpos := cpos s; gpos := gpos s; ph := Waiting; failed := true; cancelled := true;
               tracked := tremove t (tracked s); running := running s; exited := exited s;
               results := (t, Error None) :: results s; trace := trace s |}
          else s
      | _ => s
      end
  end.

Definition run (cs : list choice) : st := fold_left step cs init.

End Run.


(* ---------- C04: ordering invariant, for every choice list ---------- *)
Section Order.
Variable P : plan.
Variable fou : bool.
Variable code : task -> nat.

Definition lexlt (t : task) (c g k : nat) : Prop :=
  let '(tc, tg, tk) := t in tc < c \/ (tc = c /\ tg < g) \/ (tc = c /\ tg = g /\ tk < k).
Definition poslt (t : task) (c g : nat) : Prop :=
  let '(tc, tg, _) := t in tc < c \/ (tc = c /\ tg <= g).
Definition bound (s : st) (t : task) : Prop :=
  match ph s with
  | Spawning k => lexlt t (cpos s) (gpos s) k
  | _ => poslt t (cpos s) (gpos s)
  end.
Definition pos (t : task) : nat * nat := let '(c, g, _) := t in (c, g).

Lemma task_eqb_eq a b : task_eqb a b = true <-> a = b.
Proof.
  destruct a as [[a1 a2] a3], b as [[b1 b2] b3]. simpl.
  rewrite !andb_true_iff, !Nat.eqb_eq. split; [intros [[-> ->] ->]; reflexivity | intros E; inversion E; auto].
Qed.
Lemma tmem_In t l : tmem t l = true <-> In t l.
Proof.
  unfold tmem. rewrite existsb_exists. split.
  - intros (x & Hx & E). apply task_eqb_eq in E. subst. exact Hx.
  - intros H. exists t. split; auto. apply task_eqb_eq. reflexivity.
Qed.
Lemma tremove_In t x l : In x (tremove t l) <-> In x l /\ x <> t.
Proof.
  unfold tremove. rewrite filter_In, negb_true_iff, <- not_true_iff_false, task_eqb_eq.
  split; intros [H1 H2]; split; auto.
Qed.

Record SInv (s : st) : Prop := {
  i_tpos : forall t, In t (tracked s) -> pos t = (cpos s, gpos s);
  i_sp0 : ph s = Spawning 0 -> tracked s = [];
  i_orph : failed s = false -> forall t, In t (running s) -> In t (tracked s);
  i_sp : forall t, In (Spawn t) (trace s) -> In t (running s) \/ exists c, In (Exit t c) (trace s);
  i_ex : forall t, In t (exited s) -> ~ In t (running s);
  i_bound : forall t, In t (running s) \/ In t (exited s) \/ In t (tracked s) -> bound s t;
  i_grp : forall k, ph s = Spawning (S k) -> cur_group P s <> None
}.

Lemma SInv_init : SInv init.
Proof. constructor; simpl; intros; try tauto; try discriminate; intuition. Qed.

Ltac inv_fields I :=
  pose proof (i_tpos _ I) as Htpos; pose proof (i_sp0 _ I) as Hsp0; pose proof (i_orph _ I) as Horph;
  pose proof (i_sp _ I) as Hsp; pose proof (i_ex _ I) as Hex; pose proof (i_bound _ I) as Hbound;
  pose proof (i_grp _ I) as Hgrp.

Lemma bound_weaken s t : bound s t -> poslt t (cpos s) (gpos s).
Proof.
  unfold bound. destruct (ph s); auto. destruct t as [[tc tg] tk]. simpl. lia.
Qed.

Lemma next_position_inv s : SInv s -> tracked s = [] -> SInv (next_position P s).
Proof.
  intros I Htr. inv_fields I. unfold next_position.
  assert (Hb : forall t, In t (running s) \/ In t (exited s) \/ In t (tracked s) -> poslt t (cpos s) (gpos s))
    by (intros t Ht; apply bound_weaken; auto).
  destruct (nth_error P (cpos s)) as [cp|] eqn:Ecp; [destruct (S (gpos s) <? length cp) eqn:El|];
    constructor; simpl.
  - rewrite Htr. intros t [].
  - intros _. exact Htr.
  - exact Horph.
  - exact Hsp.
  - exact Hex.
  - intros t Ht. specialize (Hb t Ht). unfold bound; simpl. destruct t as [[tc tg] tk]. simpl in *. lia.
  - discriminate.
  - rewrite Htr. intros t [].
  - intros _. exact Htr.
  - exact Horph.
  - exact Hsp.
  - exact Hex.
  - intros t Ht. specialize (Hb t Ht). unfold bound; simpl. destruct t as [[tc tg] tk]. simpl in *. lia.
  - discriminate.
  - rewrite Htr. intros t [].
  - discriminate.
  - exact Horph.
  - exact Hsp.
  - exact Hex.
  - intros t Ht. specialize (Hb t Ht). unfold bound; simpl. exact Hb.
  - discriminate.
Qed.

(* a group index that does not exist is never given members *)
Lemma spawning_pos_inv s k : SInv s -> ph s = Spawning k ->
  forall t, In t (running s) \/ In t (exited s) \/ In t (tracked s) -> lexlt t (cpos s) (gpos s) k.
Proof. intros I Eph t Ht. pose proof (i_bound _ I t Ht) as Hb. unfold bound in Hb. rewrite Eph in Hb. exact Hb. Qed.

Lemma step_inv s c : SInv s -> SInv (step P fou code s c).
Proof.
  intros I. inv_fields I. destruct c as [|t|t|t]; cbn [step].
  - (* SchedStep *)
    unfold sched_step. destruct (ph s) as [k| |] eqn:Eph; [| |exact I].
    + pose proof (spawning_pos_inv s k I Eph) as Hlex.
      destruct (nth_error P (cpos s)) as [cp|] eqn:Ecp.
      2:{ constructor; simpl; auto; try discriminate.
          intros t Ht. unfold bound; simpl. apply bound_weaken. auto. }
      destruct (failed s && (gpos s =? 0) && (k =? 0)) eqn:Eskip.
      * apply andb_true_iff in Eskip as [Eskip Ek]. apply andb_true_iff in Eskip as [Ef Eg].
        apply Nat.eqb_eq in Ek, Eg. subst k.
        constructor; simpl.
        -- rewrite (Hsp0 eq_refl). intros t [].
        -- intros _. apply Hsp0. reflexivity.
        -- discriminate.
        -- exact Hsp.
        -- exact Hex.
        -- intros t Ht. specialize (Hlex t Ht). unfold bound; simpl.
           destruct t as [[tc tg] tk]. simpl in *. lia.
        -- discriminate.
      * destruct (nth_error cp (gpos s)) as [grp|] eqn:Egrp.
        2:{ (* the command has no such group: nothing was ever tracked here *)
            apply next_position_inv; auto.
            destruct k as [|k']; [apply Hsp0; reflexivity|]. exfalso.
            apply (Hgrp k' eq_refl). unfold cur_group. rewrite Ecp. exact Egrp. }
        destruct (nth_error grp k) as [d|] eqn:Ed.
        2:{ constructor; simpl; auto; try discriminate.
            intros t Ht. unfold bound; simpl. apply bound_weaken. auto. }
        assert (Hbnd' : forall t, In t (running s) \/ In t (exited s) \/ In t (tracked s) ->
                                  lexlt t (cpos s) (gpos s) (S k)).
        { intros t Ht. specialize (Hlex t Ht). destruct t as [[tc tg] tk]. simpl in *. lia. }
        destruct (failed s) eqn:Ef.
        -- unfold with_result. constructor; simpl; rewrite ?Ef; simpl; auto; try discriminate;
             try solve [intros t0 Ht0; unfold bound; simpl; auto];
             try (intros k0 _; unfold cur_group; simpl; rewrite Ecp, Egrp; discriminate).
        -- destruct d; unfold with_result.
           ++ (* Defined: spawn *)
              set (t := (cpos s, gpos s, k)).
              assert (Hfresh : ~ (In t (running s) \/ In t (exited s) \/ In t (tracked s))).
              { intros Ht. specialize (Hlex t Ht). unfold t in Hlex. simpl in Hlex. lia. }
              constructor; simpl.
              ** intros t' [<-|Ht']; [reflexivity | auto].
              ** discriminate.
              ** intros _ t' [<-|Ht']; [left; reflexivity | right; auto].
              ** intros t' [E|Ht'].
                 --- inversion E; subst. left. left. reflexivity.
                 --- destruct (Hsp t' Ht') as [Hr|[c Hc]]; [left; right; exact Hr | right; exists c; right; exact Hc].
              ** intros t' Ht' [<-|Hr]; [apply Hfresh; tauto | eapply Hex; eauto].
              ** intros t' Ht'. unfold bound; simpl.
                 assert (t = t' \/ (In t' (running s) \/ In t' (exited s) \/ In t' (tracked s))) as [<-|H] by tauto.
                 --- unfold t. simpl. lia.
                 --- auto.
              ** intros k0 _. unfold cur_group; simpl. rewrite Ecp, Egrp. discriminate.
           ++ destruct fou; constructor; simpl; rewrite ?Ef; simpl; auto; try discriminate;
                try solve [intros t0 Ht0; unfold bound; simpl; auto];
                try (intros k0 _; unfold cur_group; simpl; rewrite Ecp, Egrp; discriminate).
           ++ constructor; simpl; rewrite ?Ef; simpl; auto; try discriminate;
                try solve [intros t0 Ht0; unfold bound; simpl; auto];
                try (intros k0 _; unfold cur_group; simpl; rewrite Ecp, Egrp; discriminate).
    + destruct (tracked s) eqn:Etr; [|exact I]. apply next_position_inv; auto.
  - (* ChildExit *)
    destruct (tmem t (running s)) eqn:Em; [|exact I]. apply tmem_In in Em.
    constructor; simpl.
    + exact Htpos.
    + exact Hsp0.
    + intros Hf t' Ht'. apply tremove_In in Ht' as [Ht' _]. auto.
    + intros t' [E|Ht']; [discriminate|].
      destruct (Hsp t' Ht') as [Hr|[c Hc]].
      * destruct (task_eqb t t') eqn:E.
        -- apply task_eqb_eq in E. subst. right. exists (code t'). left. reflexivity.
        -- left. apply tremove_In. split; auto. intros ->.
           assert (task_eqb t t = true) by (apply task_eqb_eq; reflexivity). congruence.
      * right. exists c. right. exact Hc.
    + intros t' [<-|Ht'] Hr; apply tremove_In in Hr as [Hr Hne]; [congruence | eapply Hex; eauto].
    + intros t' Ht'. assert (Hb : bound s t').
      { apply Hbound. destruct Ht' as [Hr|[[<-|He]|Ht]]; auto. apply tremove_In in Hr as [Hr _]. auto. }
      unfold bound in *. simpl. exact Hb.
    + exact Hgrp.
  - (* Reap *)
    destruct (ph s) eqn:Eph; try exact I.
    destruct (tmem t (tracked s) && tmem t (exited s)) eqn:Em; [|exact I].
    apply andb_true_iff in Em as [Em1 Em2]. apply tmem_In in Em1, Em2.
    constructor; simpl.
    + intros t' Ht'. apply tremove_In in Ht' as [Ht' _]. auto.
    + discriminate.
    + intros Hf t' Hr. apply orb_false_iff in Hf as [Hf _]. apply tremove_In. split; auto.
      intros ->. eapply Hex; eauto.
    + exact Hsp.
    + exact Hex.
    + intros t' Ht'. assert (Hb : bound s t').
      { apply Hbound. destruct Ht' as [Hr|[He|Ht]]; auto. apply tremove_In in Ht as [Ht _]. auto. }
      unfold bound in *. rewrite Eph in Hb. simpl. exact Hb.
    + discriminate.
  - (* ReapCancelled *)
    destruct (ph s) eqn:Eph; try exact I.
    destruct (cancelled s && tmem t (tracked s)) eqn:Em; [|exact I].
    constructor; simpl.
    + intros t' Ht'. apply tremove_In in Ht' as [Ht' _]. auto.
    + discriminate.
    + discriminate.
    + exact Hsp.
    + exact Hex.
    + intros t' Ht'. assert (Hb : bound s t').
      { apply Hbound. destruct Ht' as [Hr|[He|Ht]]; auto. apply tremove_In in Ht as [Ht _]. auto. }
      unfold bound in *. rewrite Eph in Hb. simpl. exact Hb.
    + discriminate.
Qed.


Fixpoint ordered (tr : list event) : Prop :=      (* newest event first *)
  match tr with
  | [] => True
  | Spawn t :: rest =>
      (forall t', In (Spawn t') rest -> pos t' <> pos t -> exists c, In (Exit t' c) rest) /\ ordered rest
  | Exit _ _ :: rest => ordered rest
  end.

Lemma step_ordered s c : SInv s -> ordered (trace s) -> ordered (trace (step P fou code s c)).
Proof.
  intros I Ho. inv_fields I. destruct c as [|t|t|t]; cbn [step].
  - unfold sched_step. destruct (ph s) as [k| |] eqn:Eph; [| |exact Ho].
    + destruct (nth_error P (cpos s)) as [cp|] eqn:Ecp; [|exact Ho].
      destruct (failed s && (gpos s =? 0) && (k =? 0)); [exact Ho|].
      destruct (nth_error cp (gpos s)) as [grp|] eqn:Egrp.
      2:{ unfold next_position. rewrite Ecp. destruct (S (gpos s) <? length cp); exact Ho. }
      destruct (nth_error grp k) as [d|]; [|exact Ho].
      destruct (failed s) eqn:Ef; [exact Ho|]. destruct d; try exact Ho.
      simpl. split; [|exact Ho].
      intros t' Hin Hne. destruct (Hsp t' Hin) as [Hr|He]; [|exact He]. exfalso.
      apply Hne. apply Htpos. apply Horph; auto.
    + destruct (tracked s); [|exact Ho]. unfold next_position.
      destruct (nth_error P (cpos s)) as [cp|]; [destruct (S (gpos s) <? length cp)|]; exact Ho.
  - destruct (tmem t (running s)); exact Ho.
  - destruct (ph s); try exact Ho. destruct (tmem t (tracked s) && tmem t (exited s)); exact Ho.
  - destruct (ph s); try exact Ho. destruct (cancelled s && tmem t (tracked s)); exact Ho.
Qed.

Theorem run_inv cs : SInv (run P fou code cs) /\ ordered (trace (run P fou code cs)).
Proof.
  unfold run. rewrite <- (rev_involutive cs). induction (rev cs) as [|c l IH]; simpl.
  - split; [apply SInv_init | exact I].
  - rewrite fold_left_app. simpl. destruct IH as [I1 O1]. split; [apply step_inv; exact I1 | apply step_ordered; assumption].
Qed.

(* C04, scheduler part: whatever the schedule, a task is spawned only after every task spawned
   earlier at a different (command, group) position has exited *)
Theorem C04_order cs : ordered (trace (run P fou code cs)).
Proof. apply run_inv. Qed.

End Order.

(* a 2-command plan: group sizes [2;1] then [1]; second member of the first group fails with 3 *)
Definition P1 : plan := [[[Defined; Defined]; [Defined]]; [[Defined]]].
Definition code1 (t : task) : nat := match t with (0, 0, 1) => 3 | _ => 0 end.
Definition sched n := repeat SchedStep n.
Eval vm_compute in
  let s := run P1 false code1
     (sched 3 ++ [ChildExit (0,0,1); ChildExit (0,0,0); Reap (0,0,1); Reap (0,0,0)] ++ sched 12) in
  (ph s, failed s, rev (trace s), rev (results s)).

Print Assumptions C04_order.
