From Coq Require Import List Arith NArith Bool Lia Sorting.Sorted.
Import ListNotations.

(* ---------- byte strings and paths ---------- *)
Definition byte := N.
Definition str := list byte.
Definition slash : byte := 47%N.

Fixpoint str_eqb (a b : str) : bool :=
  match a, b with
  | [], [] => true
  | x :: a', y :: b' => N.eqb x y && str_eqb a' b'
  | _, _ => false
  end.

Fixpoint byte_prefix (a b : str) : bool :=
  match a, b with
  | [], _ => true
  | x :: a', y :: b' => N.eqb x y && byte_prefix a' b'
  | _ :: _, [] => false
  end.

(* trie-rs common_prefix_search: stored keys that are non-empty byte prefixes of the query *)
Definition trie_prefixes (keys : list str) (q : str) : list str :=
  filter (fun k => match k with [] => false | _ => byte_prefix k q end) keys.

(* component boundary test (the repaired lookup) *)
Definition on_boundary (k q : str) : bool :=
  match skipn (length k) q with
  | [] => true
  | c :: _ => N.eqb c slash
  end.
Definition path_prefix (k q : str) : bool := byte_prefix k q && on_boundary k q.

(* the lookup is a parameter: byte-level (as found) or component-level (repaired) *)
Definition lookup_old (keys : list str) (q : str) := trie_prefixes keys q.
Definition lookup_new (keys : list str) (q : str) := filter (fun k => on_boundary k q) (trie_prefixes keys q).

(* components *)
Fixpoint split_aux (cur : str) (s : str) : list str :=
  match s with
  | [] => [rev cur]
  | c :: r => if N.eqb c slash then rev cur :: split_aux [] r else split_aux (c :: cur) r
  end.
Definition comps (s : str) : list str := split_aux [] s.
Definition wf_path (s : str) : Prop := s <> [] /\ ~ In [] (comps s).

Fixpoint comp_prefix (a b : list str) : bool :=
  match a, b with
  | [], _ => true
  | x :: a', y :: b' => str_eqb x y && comp_prefix a' b'
  | _ :: _, [] => false
  end.
Definition inside (p d : str) : bool := comp_prefix (comps d) (comps p).  (* p is d or lies under d *)

Definition path_lemma_statement :=
  forall k q, wf_path k -> wf_path q -> path_prefix k q = inside q k.

(* ---------- configuration ---------- *)
Record target := { tpath : str; uses : list str; ignores : list str }.
Definition config := list target.

Definition mem_str (s : str) (l : list str) := existsb (str_eqb s) l.

Section WithLookup.
Variable lookup : list str -> str -> list str.

Definition target_paths (cfg : config) := map tpath cfg.
Definition all_uses (cfg : config) := flat_map uses cfg.
Definition all_ignores (cfg : config) := flat_map ignores cfg.
Definition use2targets (cfg : config) (u : str) : list str :=
  map tpath (filter (fun t => mem_str u (uses t)) cfg).
Definition ignore2targets (cfg : config) (i : str) : list str :=
  map tpath (filter (fun t => mem_str i (ignores t)) cfg).

Definition ignore_targets (cfg : config) (p : str) : list str :=
  flat_map (ignore2targets cfg) (lookup (all_ignores cfg) p).

Inductive reason := RTarget | RUses | RIgnores.

(* analyze_change: returns (targets added to the summary, per-change breakdown).
   [bug_insert_user]: the as-found code inserts the using target, not its ancestor. *)
Definition analyze_change (bug_insert_user : bool) (cfg : config) (p : str)
  : list str * list (str * reason) :=
  let ign := ignore_targets cfg p in
  let direct := lookup (target_paths cfg) p in
  let d_sum := filter (fun t => negb (mem_str t ign)) direct in
  let d_brk := map (fun t => (t, if mem_str t ign then RIgnores else RTarget)) direct in
  let via :=
    flat_map (fun m =>
      if mem_str m ign then [] else
      flat_map (fun u =>
        if mem_str u ign then [] else
        map (fun t2 => (u, t2)) (lookup (target_paths cfg) u))
      (use2targets cfg m))
    (lookup (all_uses cfg) p) in
  let u_sum := flat_map (fun '(u, t2) => if mem_str t2 ign then [] else [if bug_insert_user then u else t2]) via in
  let u_brk := map (fun '(u, t2) => (t2, if mem_str t2 ign then RIgnores else RUses)) via in
  (d_sum ++ u_sum, d_brk ++ u_brk).
End WithLookup.

(* ---------- specification (component-wise) ---------- *)
Definition ignored (t : target) (p : str) : bool := existsb (fun i => inside p i) (ignores t).
Definition nested_or_self (n t : target) : bool := inside (tpath n) (tpath t).
(* don't-care: the uses entry m names a target that itself ignores p *)
Definition uses_entry_ignored (cfg : config) (m p : str) : bool :=
  existsb (fun t => str_eqb (tpath t) m && ignored t p) cfg.

Definition affected_via_uses (dc : bool) (cfg : config) (n : target) (p : str) : bool :=
  negb (ignored n p) &&
  existsb (fun m => inside p m && negb (dc && uses_entry_ignored cfg m p)) (uses n).

Definition spec_changed (dc : bool) (cfg : config) (changes : list str) (t : target) : bool :=
  existsb (fun p =>
    negb (ignored t p) &&
    (inside p (tpath t) ||
     existsb (fun n => nested_or_self n t && affected_via_uses dc cfg n p) cfg))
  changes.

Definition wf_config (cfg : config) : Prop :=
  NoDup (map tpath cfg) /\
  forall t, In t cfg -> wf_path (tpath t) /\ (forall u, In u (uses t) -> wf_path u) /\ (forall i, In i (ignores t) -> wf_path i).

(* C01, membership part: the summary lies between the two readings of the don't-care case *)
Definition C01_membership_statement (summary : config -> list str -> list str) :=
  forall cfg changes, wf_config cfg -> (forall p, In p changes -> wf_path p) ->
  forall t, In t cfg ->
    (spec_changed true cfg changes t = true -> In (tpath t) (summary cfg changes)) /\
    (In (tpath t) (summary cfg changes) -> spec_changed false cfg changes t = true).

(* a tiny sanity run: app / app2, change app2/f *)
Definition s (l : list nat) : str := map N.of_nat l.
Definition APP := s [97;112;112]. Definition APP2 := s [97;112;112;50].
Definition F := s [97;112;112;50;47;102].
Definition cfg1 : config := [ {| tpath := APP; uses := []; ignores := [] |}; {| tpath := APP2; uses := []; ignores := [] |} ].
Eval vm_compute in fst (analyze_change lookup_old true cfg1 F).  (* as found: app and app2 *)
Eval vm_compute in fst (analyze_change lookup_new false cfg1 F). (* repaired: app2 only *)
Eval vm_compute in map (spec_changed true cfg1 [F]) cfg1.        (* spec: [false; true] *)
