From Coq Require Import List Arith NArith Bool Lia.
Import ListNotations.

(* ---------- model of log::process_reader (one stream) ---------- *)
Definition bytes := list N.
Definition nl : N := 10%N.

(* split off the first line (delimiter included) if there is one *)
Fixpoint take_line (acc : bytes) (s : bytes) : option (bytes * bytes) :=
  match s with
  | [] => None
  | c :: r => if N.eqb c nl then Some (rev (c :: acc), r) else take_line (c :: acc) r
  end.

Record rst := {
  inner : bytes;        (* written by the child, not yet consumed by read_until *)
  closed : bool;        (* the child closed its end *)
  cur : bytes;          (* the caller's `buf`: bytes of the line being assembled *)
  nread : nat;          (* bytes consumed by the read_until future currently alive *)
  lines : list bytes;   (* `bufs`: complete lines not yet flushed *)
  out : bytes;          (* everything handed to the compressor so far *)
  ended : bool
}.

Inductive ev := Arrive (b : bytes) | Close | Poll | Tick.

Section R.
Variable keep_partial : bool.   (* false: as found (buf is local to one select! round); true: repaired *)

Definition flush (s : rst) (fin : bool) : rst :=
  {| inner := inner s; closed := closed s; cur := cur s; nread := nread s; lines := [];
     out := out s ++ concat (lines s); ended := fin |}.

Definition step (s : rst) (e : ev) : rst :=
  if ended s then s else
  match e with
  | Arrive b => if closed s then s else
      {| inner := inner s ++ b; closed := false; cur := cur s; nread := nread s; lines := lines s;
         out := out s; ended := false |}
  | Close =>
      {| inner := inner s; closed := true; cur := cur s; nread := nread s; lines := lines s;
         out := out s; ended := false |}
  | Tick =>
      (* the tick branch wins: the read_until future is dropped, bufs are flushed *)
      let s' := flush s false in
      {| inner := inner s'; closed := closed s';
         cur := if keep_partial then cur s' else [];
         nread := 0; lines := lines s'; out := out s'; ended := false |}
  | Poll =>
      match take_line [] (inner s) with
      | Some (l, rest) =>        (* delimiter found: Ok(n), the line is pushed, a fresh buf starts *)
          {| inner := rest; closed := closed s; cur := []; nread := 0;
             lines := lines s ++ [cur s ++ l]; out := out s; ended := false |}
      | None =>
          if closed s then
            match inner s, nread s with
            | [], 0 =>             (* Ok(0): end of stream *)
                let s1 := if keep_partial
                          then {| inner := []; closed := true; cur := []; nread := 0;
                                  lines := (if cur s then lines s else lines s ++ [cur s]);
                                  out := out s; ended := false |}
                          else s in
                flush s1 true
            | _, _ =>              (* Ok(n>0) without delimiter: the unterminated tail *)
                {| inner := []; closed := true; cur := []; nread := 0;
                   lines := lines s ++ [cur s ++ inner s]; out := out s; ended := false |}
            end
          else                     (* Pending: everything available moves into buf *)
            {| inner := []; closed := false; cur := cur s ++ inner s;
               nread := nread s + length (inner s); lines := lines s; out := out s; ended := false |}
      end
  end.

Definition init : rst :=
  {| inner := []; closed := false; cur := []; nread := 0; lines := []; out := []; ended := false |}.
Definition run (es : list ev) : rst := fold_left step es init.
End R.

Definition arrived (es : list ev) : bytes :=
  concat (map (fun e => match e with Arrive b => b | _ => [] end) es).

(* "AAA " <tick> "BBB\n" <eof> *)
Definition A := [65;65;65;32]%N. Definition B := [66;66;66;10]%N.
Definition script := [Arrive A; Poll; Tick; Arrive B; Poll; Close; Poll].
Eval vm_compute in out (run false script).   (* as found: only BBB\n *)
Eval vm_compute in out (run true script).    (* repaired: AAA BBB\n *)

(* conservation: nothing is lost or invented, whatever the event order *)
Lemma take_line_spec s : forall acc l rest, take_line acc s = Some (l, rest) -> rev acc ++ s = l ++ rest.
Proof.
  induction s as [|c s IH]; intros acc l rest H; simpl in H; [discriminate|].
  destruct (N.eqb c nl).
  - inversion H; subst. simpl. rewrite <- !app_assoc. reflexivity.
  - apply IH in H. simpl in H. rewrite <- app_assoc in H. exact H.
Qed.

Definition wf_events (es : list ev) : Prop :=
  (* no bytes arrive after the writer closed *)
  forall pre post, es = pre ++ Close :: post -> forall b, ~ In (Arrive b) post.

Definition conserved (s : rst) (total : bytes) : Prop :=
  out s ++ concat (lines s) ++ cur s ++ inner s = total.

Lemma step_conserved s e total :
  conserved s total -> ended s = false ->
  conserved (step true s e) (match e with Arrive b => if closed s then total else total ++ b | _ => total end).
Proof.
  unfold conserved. intros H He. unfold step. rewrite He. destruct e as [b| | |].
  - destruct (closed s); [exact H|]. simpl. rewrite <- H. rewrite <- !app_assoc. reflexivity.
  - simpl. exact H.
  - destruct (take_line [] (inner s)) as [[l rest]|] eqn:E.
    + apply take_line_spec in E. simpl in E. simpl. rewrite <- H, E.
      rewrite concat_app. simpl. rewrite <- !app_assoc. reflexivity.
    + destruct (closed s).
      * destruct (inner s) as [|i0 ir] eqn:Ei; [destruct (nread s)|].
        -- simpl. destruct (cur s) eqn:Ec; simpl; rewrite <- H, ?Ec; rewrite ?concat_app; simpl;
             rewrite <- ?app_assoc, ?app_nil_r; reflexivity.
        -- simpl. rewrite <- H. rewrite concat_app. simpl. rewrite <- !app_assoc, !app_nil_r. reflexivity.
        -- simpl. rewrite <- H. rewrite concat_app. simpl. rewrite <- !app_assoc, !app_nil_r. reflexivity.
      * simpl. rewrite <- H. rewrite <- !app_assoc, app_nil_r. reflexivity.
  - simpl. rewrite <- H. rewrite <- !app_assoc. reflexivity.
Qed.

(* the as-found reader loses bytes *)
Lemma C08_as_found_refuted : out (run false script) <> arrived script.
Proof. vm_compute. discriminate. Qed.
Print Assumptions C08_as_found_refuted.
