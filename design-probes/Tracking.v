From Coq Require Import List Arith Bool Lia.
Import ListNotations.

(* ---------- model of the run pointer, the run slots, and a run's file-system effects ---------- *)
Definition record := nat.          (* what `result show` / `log show` return for a run (abstract id) *)
Section T.
Variable M : nat.                  (* max_retained_runs *)

Inductive ptr := PAbsent | PEmpty | PVal (id : nat).      (* run.json: missing, truncated, or {"id":n} *)
Inductive slot := SAbsent | SPartial | SFull (r : record). (* run/<id>: missing, being written, complete *)

Record fs := { pointer : ptr; tmp : option nat; slots : nat -> slot }.

Definition set_slot (f : fs) (i : nat) (v : slot) : fs :=
  {| pointer := pointer f; tmp := tmp f; slots := fun j => if j =? i then v else slots f j |}.

(* get_next_tracking_run: None = the command fails before doing anything *)
Definition next_id (f : fs) : option nat :=
  match pointer f with
  | PAbsent => Some 1
  | PEmpty => None                                   (* serde error on an empty file *)
  | PVal id => Some (if M <=? id then 1 else S id)
  end.

Inductive op := Wipe (i : nat) | Mkdir (i : nat) | WriteResult (i : nat) (r : record)
              | Truncate | WritePtr (i : nat) | WriteTmp (i : nat) | Rename.

Definition apply (f : fs) (o : op) : fs :=
  match o with
  | Wipe i => set_slot f i SAbsent
  | Mkdir i => set_slot f i SPartial
  | WriteResult i r => set_slot f i (SFull r)
  | Truncate => {| pointer := PEmpty; tmp := tmp f; slots := slots f |}
  | WritePtr i => {| pointer := PVal i; tmp := tmp f; slots := slots f |}
  | WriteTmp i => {| pointer := pointer f; tmp := Some i; slots := slots f |}
  | Rename => match tmp f with
              | Some i => {| pointer := PVal i; tmp := None; slots := slots f |}
              | None => f end
  end.

Variable atomic_save : bool.       (* false: as found (truncate, then write); true: repaired *)

Definition run_ops (i : nat) (r : record) : list op :=
  [Wipe i; Mkdir i; WriteResult i r] ++
  (if atomic_save then [WriteTmp i; Rename] else [Truncate; WritePtr i]).

(* what the user can observe *)
Inductive shown := NoRun | Broken | Shows (r : record).
Definition show (f : fs) : shown :=
  match pointer f with
  | PAbsent => NoRun
  | PEmpty => Broken
  | PVal id => match slots f id with SFull r => Shows r | _ => Broken end
  end.

Definition healthy (f : fs) : Prop :=
  match pointer f with
  | PAbsent => True
  | PEmpty => False
  | PVal id => 1 <= id <= M /\ exists r, slots f id = SFull r
  end.

Definition crash (f : fs) (i : nat) (r : record) (k : nat) : fs := fold_left apply (firstn k (run_ops i r)) f.

End T.

(* C13: with the repaired save, a crash after any prefix of a run's effects leaves `show` unchanged
   and the store healthy (so the next run starts normally) *)
Theorem C13_crash_safe (M : nat) (f : fs) i (r : record) k :
  2 <= M -> healthy M f -> next_id M f = Some i -> k < length (run_ops true i r) ->
  show (crash true f i r k) = show f /\ healthy M (crash true f i r k).
Proof.
  intros HM Hh Hn Hk. unfold next_id in Hn. unfold healthy in Hh. unfold show, healthy, crash.
  destruct (pointer f) as [| |id] eqn:Ep; try contradiction.
  - (* no run yet *)
    inversion Hn; subst i. simpl in Hk.
    do 5 (destruct k as [|k]; [simpl; rewrite ?Ep; simpl; rewrite ?Ep; auto|]). lia.
  - destruct Hh as [Hid [r0 Hs]].
    assert (Hne : i <> id).
    { inversion Hn; subst i. destruct (M <=? id) eqn:E; [apply Nat.leb_le in E; lia | lia]. }
    assert (Hneb : (id =? i) = false) by (apply Nat.eqb_neq; auto).
    simpl in Hk.
    do 5 (destruct k as [|k]; [simpl; rewrite ?Ep; simpl; rewrite ?Hneb, ?Hs; eauto|]). lia.
Qed.

(* as found: the crash between truncate and write breaks `show` and blocks every later run *)
Theorem C13_as_found_refuted :
  exists (f : fs) i r k, healthy 3 f /\ next_id 3 f = Some i /\ k < length (run_ops false i r) /\
    show (crash false f i r k) <> show f /\ next_id 3 (crash false f i r k) = None.
Proof.
  exists {| pointer := PVal 1; tmp := None; slots := fun j => if j =? 1 then SFull 7 else SAbsent |}.
  exists 2, 8, 4. repeat split; try (vm_compute; lia); try (vm_compute; eauto); try discriminate.
Qed.
Print Assumptions C13_crash_safe.
