From Coq Require Import List Arith NArith Bool Lia.
Import ListNotations.

Definition byte := N.
Definition str := list byte.
Definition slash : byte := 47%N.

Fixpoint str_eqb (a b : str) : bool :=
  match a, b with
  | [], [] => true
  | x :: a', y :: b' => N.eqb x y && str_eqb a' b'
  | _, _ => false
  end.

Lemma str_eqb_eq a b : str_eqb a b = true <-> a = b.
Proof.
  revert b; induction a as [|x a IH]; intros [|y b]; simpl; split; intro H; try congruence; try discriminate.
  - apply andb_true_iff in H as [H1 H2]. apply N.eqb_eq in H1. apply IH in H2. congruence.
  - inversion H; subst. rewrite N.eqb_refl. simpl. apply IH. reflexivity.
Qed.

Fixpoint byte_prefix (a b : str) : bool :=
  match a, b with
  | [], _ => true
  | x :: a', y :: b' => N.eqb x y && byte_prefix a' b'
  | _ :: _, [] => false
  end.

Lemma byte_prefix_app a b : byte_prefix a b = true <-> exists r, b = a ++ r.
Proof.
  revert b; induction a as [|x a IH]; intros b; simpl.
  - split; eauto.
  - destruct b as [|y b]; simpl.
    + split; [discriminate | intros [r H]; discriminate].
    + rewrite andb_true_iff, N.eqb_eq, IH. split.
      * intros [-> [r ->]]. eauto.
      * intros [r H]. inversion H; subst. eauto.
Qed.

Definition on_boundary (k q : str) : bool :=
  match skipn (length k) q with
  | [] => true
  | c :: _ => N.eqb c slash
  end.
Definition path_prefix (k q : str) : bool := byte_prefix k q && on_boundary k q.

(* components: split on slash *)
Fixpoint split_aux (cur : str) (s : str) : list str :=
  match s with
  | [] => [rev cur]
  | c :: r => if N.eqb c slash then rev cur :: split_aux [] r else split_aux (c :: cur) r
  end.
Definition comps (s : str) : list str := split_aux [] s.

(* a cleaner characterisation: join *)
Fixpoint join (cs : list str) : str :=
  match cs with
  | [] => []
  | [c] => c
  | c :: r => c ++ slash :: join r
  end.

Definition noslash (c : str) := ~ In slash c.

Lemma split_aux_noslash cur c : noslash c -> forall r,
  split_aux cur (c ++ r) = match r with
                           | [] => [rev cur ++ c]
                           | _ => split_aux (rev c ++ cur) r
                           end.
Proof.
  revert cur; induction c as [|x c IH]; intros cur Hn r; simpl.
  - destruct r; simpl; [rewrite app_nil_r|]; reflexivity.
  - assert (x <> slash) by (intro; apply Hn; left; auto).
    apply N.eqb_neq in H. rewrite H.
    rewrite IH by (intro; apply Hn; right; auto).
    destruct r; simpl; rewrite <- ?app_assoc; reflexivity.
Qed.

Lemma comps_join cs : cs <> [] -> Forall noslash cs -> comps (join cs) = cs.
Proof.
  unfold comps. induction cs as [|c cs IH]; intros Hne Hf; [congruence|].
  inversion Hf as [|? ? Hc Hcs]; subst.
  destruct cs as [|c2 cs].
  - simpl. replace c with (c ++ []) at 1 by apply app_nil_r.
    rewrite split_aux_noslash by assumption. simpl. reflexivity.
  - change (join (c :: c2 :: cs)) with (c ++ slash :: join (c2 :: cs)).
    rewrite split_aux_noslash by assumption.
    cbn [split_aux]. change (N.eqb slash slash) with true. cbv iota. rewrite app_nil_r, rev_involutive.
    f_equal. apply IH; [congruence | assumption].
Qed.

(* every string is the join of its components, and components have no slash *)
Lemma split_aux_spec s : forall cur,
  Forall noslash (tl (split_aux cur s)) /\
  (noslash cur -> noslash (hd [] (split_aux cur s))) /\
  rev cur ++ s = join (split_aux cur s) /\ split_aux cur s <> [].
Proof.
  induction s as [|c s IH]; intros cur.
  - cbn [split_aux tl hd join]. split; [constructor|]. split; [|split].
    + intros H Hin. apply H. apply in_rev. exact Hin.
    + rewrite app_nil_r. reflexivity.
    + congruence.
  - cbn [split_aux]. destruct (N.eqb_spec c slash) as [->|Hne].
    + destruct (IH []) as (H1 & H2 & H3 & H4).
      destruct (split_aux [] s) as [|s0 l] eqn:E; [congruence|].
      cbn [tl hd rev app] in H1, H2, H3.
      cbn [tl hd]. split; [|split; [|split]].
      * constructor; [apply H2; intros []| exact H1].
      * intros H Hin. apply H. apply in_rev. exact Hin.
      * rewrite H3. reflexivity.
      * congruence.
    + destruct (IH (c :: cur)) as (H1 & H2 & H3 & H4). split; [|split; [|split]].
      * exact H1.
      * intros H. apply H2. intros [->|Hin]; [congruence | exact (H Hin)].
      * cbn [rev] in H3. rewrite <- app_assoc in H3. exact H3.
      * exact H4.
Qed.

Lemma comps_spec s : Forall noslash (comps s) /\ s = join (comps s) /\ comps s <> [].
Proof.
  destruct (split_aux_spec s []) as (H1 & H2 & H3 & H4). unfold comps.
  destruct (split_aux [] s) eqn:E; [congruence|]. repeat split; auto; try congruence.
  constructor; [apply H2; intros [] | exact H1].
Qed.

Definition wf_path (s : str) : Prop := s <> [] /\ ~ In [] (comps s).

Fixpoint comp_prefix (a b : list str) : bool :=
  match a, b with
  | [], _ => true
  | x :: a', y :: b' => str_eqb x y && comp_prefix a' b'
  | _ :: _, [] => false
  end.
Definition inside (p d : str) : bool := comp_prefix (comps d) (comps p).

(* helper lemmas *)
Lemma byte_prefix_app_same x u v : byte_prefix (x ++ u) (x ++ v) = byte_prefix u v.
Proof. induction x as [|c x IH]; simpl; [reflexivity|]. rewrite N.eqb_refl. exact IH. Qed.

Lemma skipn_app_same {A} (x u v : list A) : skipn (length (x ++ u)) (x ++ v) = skipn (length u) v.
Proof. induction x as [|c x IH]; simpl; [reflexivity|exact IH]. Qed.

Lemma path_prefix_app_same x u v : path_prefix (x ++ u) (x ++ v) = path_prefix u v.
Proof. unfold path_prefix, on_boundary. rewrite byte_prefix_app_same, skipn_app_same. reflexivity. Qed.

Definition slash_or_nil (t : str) := t = [] \/ exists r, t = slash :: r.

Lemma app_noslash_inj x : forall y ta tb, noslash x -> noslash y -> slash_or_nil ta -> slash_or_nil tb ->
  x ++ ta = y ++ tb -> x = y /\ ta = tb.
Proof.
  induction x as [|c x IH]; intros y ta tb Hx Hy Ha Hb E.
  - destruct y as [|d y]; [auto|]. simpl in E. exfalso.
    destruct Ha as [->|[r ->]]; [discriminate|]. inversion E; subst. apply Hy. left. reflexivity.
  - destruct y as [|d y]; simpl in E.
    + exfalso. destruct Hb as [->|[r ->]]; [discriminate|]. inversion E; subst. apply Hx. left. reflexivity.
    + inversion E; subst. destruct (IH y ta tb) as [-> ->]; auto.
      * intro Hin; apply Hx; right; exact Hin.
      * intro Hin; apply Hy; right; exact Hin.
Qed.

Lemma join_cons c r : r <> [] -> join (c :: r) = c ++ slash :: join r.
Proof. destruct r; [congruence|reflexivity]. Qed.

Lemma join_tail c r : exists t, join (c :: r) = c ++ t /\ slash_or_nil t /\ (r = [] -> t = []) /\ (r <> [] -> t = slash :: join r).
Proof.
  destruct r as [|c2 r].
  - exists []. simpl. rewrite app_nil_r. repeat split; auto; [left; auto | congruence].
  - exists (slash :: join (c2 :: r)). repeat split; auto; [right; eauto | congruence].
Qed.

(* core lemma on component lists *)
Lemma join_prefix_boundary a : forall b,
  a <> [] -> b <> [] -> Forall noslash a -> Forall noslash b -> ~ In [] a -> ~ In [] b ->
  path_prefix (join a) (join b) = comp_prefix a b.
Proof.
  induction a as [|x a IH]; intros b Ha Hb Fa Fb Ea Eb; [congruence|].
  destruct b as [|y b]; [congruence|].
  inversion Fa as [|? ? Hx Fa']; inversion Fb as [|? ? Hy Fb']; subst.
  destruct (join_tail x a) as (ta & Eta & Sta & Na & Ca).
  destruct (join_tail y b) as (tb & Etb & Stb & Nb & Cb).
  rewrite Eta, Etb. simpl comp_prefix.
  destruct (str_eqb x y) eqn:Exy.
  - apply str_eqb_eq in Exy; subst y. simpl andb. rewrite path_prefix_app_same.
    destruct a as [|x2 a]; destruct b as [|y2 b].
    + rewrite Na, Nb by reflexivity. reflexivity.
    + rewrite Na by reflexivity. rewrite Cb by congruence. unfold path_prefix, on_boundary. simpl. reflexivity.
    + rewrite Nb by reflexivity. rewrite Ca by congruence. reflexivity.
    + rewrite Ca, Cb by congruence.
      change (slash :: join (x2 :: a)) with ([slash] ++ join (x2 :: a)).
      change (slash :: join (y2 :: b)) with ([slash] ++ join (y2 :: b)).
      rewrite path_prefix_app_same.
      apply IH; try congruence; try assumption;
        intro Hin; [apply Ea | apply Eb]; right; exact Hin.
  - apply not_true_iff_false. intro H. unfold path_prefix in H. apply andb_true_iff in H as [Hp Hbd].
    apply byte_prefix_app in Hp as [r Hr]. rewrite <- app_assoc in Hr.
    unfold on_boundary in Hbd. rewrite Hr in Hbd.
    rewrite app_assoc in Hbd. rewrite skipn_app, skipn_all, Nat.sub_diag in Hbd. simpl in Hbd.
    assert (Sr : slash_or_nil (ta ++ r)).
    { destruct Sta as [->|[t ->]]; simpl.
      - destruct r as [|c r]; [left; reflexivity|]. apply N.eqb_eq in Hbd. subst. right; eauto.
      - right; eauto. }
    symmetry in Hr. destruct (app_noslash_inj x y (ta ++ r) tb Hx Hy Sr Stb Hr) as [-> _].
    assert (str_eqb y y = true) by (apply str_eqb_eq; reflexivity). congruence.
Qed.

Theorem path_lemma k q : wf_path k -> wf_path q -> path_prefix k q = inside q k.
Proof.
  intros [Hk1 Hk2] [Hq1 Hq2]. unfold inside.
  destruct (comps_spec k) as (Fk & Jk & Nk). destruct (comps_spec q) as (Fq & Jq & Nq).
  rewrite Jk at 1. rewrite Jq at 1. apply join_prefix_boundary; assumption.
Qed.

(* a key written with a trailing slash ("lib/") already ends on a component boundary *)
Definition ends_slash (k : str) : bool := match rev k with c :: _ => N.eqb c slash | [] => false end.
Definition on_boundary_or_slash (k q : str) : bool := ends_slash k || on_boundary k q.

Lemma split_aux_trailing_slash s : forall cur, In [] (split_aux cur (s ++ [slash])).
Proof.
  induction s as [|c s IH]; intros cur.
  - cbn [app split_aux]. change (N.eqb slash slash) with true. cbv iota. right. left. reflexivity.
  - cbn [app split_aux]. destruct (N.eqb c slash); [right; apply IH|apply IH].
Qed.

Lemma wf_no_trailing_slash k : wf_path k -> ends_slash k = false.
Proof.
  intros [_ Hk]. unfold ends_slash. destruct (rev k) as [|c r] eqn:E; [reflexivity|].
  destruct (N.eqb_spec c slash) as [->|]; [|reflexivity]. exfalso. apply Hk.
  assert (Ek : k = rev r ++ [slash]) by (rewrite <- (rev_involutive k), E; reflexivity).
  rewrite Ek. unfold comps. apply split_aux_trailing_slash.
Qed.

Lemma on_boundary_or_slash_wf k q : wf_path k -> on_boundary_or_slash k q = on_boundary k q.
Proof. intros H. unfold on_boundary_or_slash. rewrite (wf_no_trailing_slash k H). reflexivity. Qed.

(* ---------- lexicographic order on byte strings (Rust's String Ord) and sorted sets ---------- *)
Fixpoint lex_ltb (a b : str) : bool :=
  match a, b with
  | [], [] => false
  | [], _ :: _ => true
  | _ :: _, [] => false
  | x :: a', y :: b' => if N.ltb x y then true else if N.eqb x y then lex_ltb a' b' else false
  end.
Definition lex_lt (a b : str) : Prop := lex_ltb a b = true.

Lemma lex_ltb_irrefl a : lex_ltb a a = false.
Proof. induction a as [|x a IH]; simpl; auto. rewrite N.ltb_irrefl, N.eqb_refl. exact IH. Qed.

Lemma lex_ltb_trans a : forall b c, lex_ltb a b = true -> lex_ltb b c = true -> lex_ltb a c = true.
Proof.
  induction a as [|x a IH]; intros [|y b] [|z c]; simpl; auto; try discriminate.
  destruct (N.ltb_spec x y), (N.ltb_spec y z), (N.ltb_spec x z), (N.eqb_spec x y), (N.eqb_spec y z), (N.eqb_spec x z);
    subst; auto; try discriminate; try lia; intros; eauto.
Qed.

Lemma lex_ltb_total a : forall b, lex_ltb a b = false -> lex_ltb b a = false -> a = b.
Proof.
  induction a as [|x a IH]; intros [|y b]; simpl; auto; try discriminate.
  destruct (N.ltb_spec x y), (N.ltb_spec y x), (N.eqb_spec x y), (N.eqb_spec y x); subst; try discriminate; try lia.
  intros H1 H2. f_equal. apply IH; auto.
Qed.

Fixpoint sset_insert (x : str) (l : list str) : list str :=
  match l with
  | [] => [x]
  | y :: r => if lex_ltb x y then x :: l else if str_eqb x y then l else y :: sset_insert x r
  end.
Definition sset_of (l : list str) : list str := fold_right sset_insert [] l.

Lemma sset_insert_In x l z : In z (sset_insert x l) <-> z = x \/ In z l.
Proof.
  induction l as [|y r IH]; simpl; [intuition|].
  destruct (lex_ltb x y); simpl; [intuition|].
  destruct (str_eqb x y) eqn:E; simpl.
  - apply str_eqb_eq in E. subst. intuition.
  - rewrite IH. intuition.
Qed.

Lemma sset_of_In l z : In z (sset_of l) <-> In z l.
Proof. induction l as [|x l IH]; simpl; [tauto|]. rewrite sset_insert_In, IH. intuition. Qed.

Require Import Coq.Sorting.Sorted.

Lemma sset_insert_sorted x l : StronglySorted lex_lt l -> StronglySorted lex_lt (sset_insert x l).
Proof.
  induction 1 as [|y r Hs IH Hf]; simpl; [repeat constructor|].
  destruct (lex_ltb x y) eqn:E1.
  - constructor; [constructor; auto|]. constructor; [exact E1|].
    rewrite Forall_forall in *. intros z Hz. eapply lex_ltb_trans; [exact E1| apply Hf; auto].
  - destruct (str_eqb x y) eqn:E2; [constructor; auto|].
    constructor; auto. rewrite Forall_forall in *. intros z Hz. apply sset_insert_In in Hz as [->|Hz]; auto.
    unfold lex_lt. destruct (lex_ltb y x) eqn:E3; auto.
    exfalso. assert (x = y) by (apply lex_ltb_total; auto). subst.
    assert (str_eqb y y = true) by (apply str_eqb_eq; reflexivity). congruence.
Qed.

Lemma sset_of_sorted l : StronglySorted lex_lt (sset_of l).
Proof. induction l; simpl; [constructor | apply sset_insert_sorted; auto]. Qed.

(* two strongly sorted lists with the same elements are equal *)
Lemma sorted_ext (l1 : list str) : forall l2,
  StronglySorted lex_lt l1 -> StronglySorted lex_lt l2 -> (forall z, In z l1 <-> In z l2) -> l1 = l2.
Proof.
  induction l1 as [|x l1 IH]; intros [|y l2] H1 H2 Hext; auto.
  - exfalso. apply (Hext y). left; auto.
  - exfalso. apply (Hext x). left; auto.
  - inversion H1 as [|? ? S1 F1]; inversion H2 as [|? ? S2 F2]; subst.
    rewrite Forall_forall in F1, F2.
    assert (x = y).
    { destruct (proj1 (Hext x) (or_introl eq_refl)) as [->|Hx]; auto.
      destruct (proj2 (Hext y) (or_introl eq_refl)) as [->|Hy]; auto.
      pose proof (F2 _ Hx). pose proof (F1 _ Hy).
      pose proof (lex_ltb_trans _ _ _ H H0). rewrite lex_ltb_irrefl in H3. discriminate. }
    subst y. f_equal. apply IH; auto. intros z. split; intro Hz.
    + destruct (proj1 (Hext z) (or_intror Hz)) as [->|]; auto.
      pose proof (F1 _ Hz). unfold lex_lt in H. rewrite lex_ltb_irrefl in H. discriminate.
    + destruct (proj2 (Hext z) (or_intror Hz)) as [->|]; auto.
      pose proof (F2 _ Hz). unfold lex_lt in H. rewrite lex_ltb_irrefl in H. discriminate.
Qed.

Lemma sset_of_ext l1 l2 : (forall z, In z l1 <-> In z l2) -> sset_of l1 = sset_of l2.
Proof.
  intros H. apply sorted_ext; try apply sset_of_sorted. intros z. rewrite !sset_of_In. apply H.
Qed.
