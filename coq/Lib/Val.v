(* A tiny untyped value language used as the wire format between the harness and the
   extracted model: numbers and lists.  Decoders are total (a malformed value decodes to
   a default) and non-recursive on [val] beyond fixed depth, so they need no fuel. *)
From Coq Require Import List NArith Bool String Ascii.
From MR Require Import Lib.Bytes.
Import ListNotations.

Inductive val := VN (n : N) | VL (l : list val).

Definition dN (v : val) : N := match v with VN n => n | VL _ => 0%N end.
Definition dnat (v : val) : nat := N.to_nat (dN v).
Definition dB (v : val) : bool := negb (N.eqb (dN v) 0).
Definition dL (v : val) : list val := match v with VL l => l | VN _ => [] end.
Definition dStr (v : val) : str := map dN (dL v).
Definition dStrs (v : val) : list str := map dStr (dL v).
Definition dNats (v : val) : list nat := map dnat (dL v).
Definition dNth (v : val) (i : nat) : val := nth i (dL v) (VL []).
Definition dOpt {A} (d : val -> A) (v : val) : option A :=
  match dL v with [] => None | x :: _ => Some (d x) end.

Definition eN (n : N) : val := VN n.
Definition enat (n : nat) : val := VN (N.of_nat n).
Definition eB (b : bool) : val := VN (if b then 1 else 0)%N.
Definition eStr (s : str) : val := VL (map VN s).
Definition eStrs (l : list str) : val := VL (map eStr l).
Definition eNats (l : list nat) : val := VL (map enat l).
Definition eOpt {A} (e : A -> val) (o : option A) : val :=
  match o with None => VL [] | Some a => VL [e a] end.

(* byte string of a Coq string literal (for dispatch names) *)
Definition bs (s : string) : str := map (fun a => N_of_ascii a) (list_ascii_of_string s).
