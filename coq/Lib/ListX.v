From Coq Require Import List Arith Lia.
Import ListNotations.

Lemma in_combine_seq {A} (l : list A) : forall s n x, In (n, x) (combine (seq s (length l)) l) <-> (s <= n /\ nth_error l (n - s) = Some x).
Proof.
  induction l as [|y l IH]; intros s n x; simpl.
  - split; [intros []|]. intros [_ H]. destruct (n - s); discriminate.
  - split.
    + intros [E|H]; [inversion E; subst; rewrite Nat.sub_diag; auto|].
      apply IH in H as [H1 H2]. split; [lia|]. replace (n - s) with (S (n - S s)) by lia. exact H2.
    + intros [H1 H2]. destruct (Nat.eq_dec n s) as [->|Hne].
      * rewrite Nat.sub_diag in H2. inversion H2; auto.
      * right. apply IH. split; [lia|]. replace (n - s) with (S (n - S s)) in H2 by lia. exact H2.
Qed.
