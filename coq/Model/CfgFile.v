(* Executable model of configuration loading and `config generate`
   (src/core/mod.rs Config::new / Config::check / ConfigLockfile, src/app/config.rs config_generate).
   JSON (serde_json), pretty-printing and SHA-256 are Section variables; what is modelled is which bytes
   are read, hashed and compared.  [window]: the part of the file Config::new actually reads -
   the whole file now, one BufReader::fill_buf (the first 8192 bytes) in the pinned commit.  No proofs here. *)
From Coq Require Import List Bool.
Import ListNotations.

Section Cfg.
Variable byte digest value : Type.
Notation bytes := (list byte).
Variable digest_eqb : digest -> digest -> bool.
Variable sha : bytes -> digest.
Variable parse : bytes -> option value.            (* serde_json::from_str into Config *)
Variable render : value -> bytes.                  (* serde_json::to_vec_pretty *)
Variable with_sum : value -> digest -> value.      (* insert source.algorithm / source.checksum *)
Variable get_sum : value -> option digest.         (* source.checksum, None when there is no `source` *)
Variable has_source : value -> bool.
Variable window : bytes -> bytes.

(* Config::new: parse what was read, remember its checksum *)
Definition load (file : bytes) : option (value * digest) :=
  match parse (window file) with
  | Some v => Some (v, sha (window file))
  | None => None
  end.

(* config generate: (generated file, lockfile checksum) *)
Definition generate (input : value) (src : bytes) : bytes * digest :=
  let g := render (with_sum input (sha src)) in (g, sha g).

(* Config::check for a config with a `source`: source unchanged, generated file unchanged *)
Definition check (v : value) (c : digest) (src : option bytes) (lock : option digest) : bool :=
  if has_source v then
    match src, lock, get_sum v with
    | Some s, Some l, Some sum => digest_eqb (sha s) sum && digest_eqb c l
    | _, _, _ => false
    end
  else true.

(* every config-reading API: Config::new, then check, then act *)
Definition usable (src : option bytes) (gen : bytes) (lock : option digest) : bool :=
  match load gen with
  | Some (v, c) => check v c src lock
  | None => false
  end.

(* what any API computes from the file is a function of this *)
Definition loaded_value (file : bytes) : option value := option_map fst (load file).
End Cfg.
