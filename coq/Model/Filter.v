(* Executable model of how a run decides which of its readers get a log-stream client:
   src/app/log.rs is_log_allowed (empty target / command sets admit everything) and
   src/app/run.rs CommandTask::run (include_stdout / include_stderr select the stream).
   A task is a (stream, target, command) triple; [attach] yields the [streams] argument of Model.Reader.mrun.
   No proofs here. *)
From Coq Require Import List Bool.
From MR Require Import Lib.Bytes.
Import ListNotations.

Record filt := { want_stdout : bool; want_stderr : bool; ftargets : list str; fcommands : list str }.
Record task := { is_stdout : bool; ttarget : str; tcommand : str }.

Definition in_set (x : str) (s : list str) : bool :=
  match s with [] => true | _ => existsb (str_eqb x) s end.

Definition is_log_allowed (f : filt) (target command : str) : bool :=
  in_set target (ftargets f) && in_set command (fcommands f).

Definition admitted (f : filt) (t : task) : bool :=
  is_log_allowed f (ttarget t) (tcommand t) && (if is_stdout t then want_stdout f else want_stderr f).

(* no listener: the connection attempt fails and no task gets a client *)
Definition admitted_opt (f : option filt) (t : task) : bool :=
  match f with None => false | Some f' => admitted f' t end.

Definition attach (f : option filt) (ts : list task) : list bool := map (admitted_opt f) ts.
