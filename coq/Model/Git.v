(* Executable model of src/core/git.rs (get_git_diff_changes, get_git_all_changes), src/core/file.rs
   (checksum_is_equal) and src/app/checkpoint.rs (checkpoint_update_git), over an abstract repository state.
   Paths, contents and digests are Section variables; SHA-256 appears only as an injective function [sha]
   that never returns the digest [empty_digest] used for "no such file" (assumptions of C02/C07/C17, listed
   in the trusted base).  git itself is modelled by [diff1], [diff2], [others] (documented semantics of
   `git diff --name-only --no-renames -z [<a> [<b>]]` and `git ls-files --others --exclude-standard -z`);
   that model is validated against the real git on every run of the correspondence.  No proofs here. *)
From Coq Require Import List Arith Bool.
Import ListNotations.

Section Git.
Variable path content digest : Type.
Variable path_eqb : path -> path -> bool.
Variable content_eqb : content -> content -> bool.
Variable digest_eqb : digest -> digest -> bool.
Variable sha : content -> digest.
Variable empty_digest : digest.

Definition tree := path -> option content.
Definition ocontent_eqb (a b : option content) : bool :=
  match a, b with
  | None, None => true
  | Some x, Some y => content_eqb x y
  | _, _ => false
  end.

Record repo := {
  universe : list path;          (* every path that exists anywhere: commits involved, index or worktree *)
  head : tree;                   (* tree of the commit HEAD resolves to *)
  tracked : path -> bool;        (* path is in the index *)
  work : tree;                   (* working tree (a tracked path missing on disk is None) *)
  ignored : path -> bool
}.

Definition checksum (r : repo) (p : path) : digest :=
  match work r p with Some c => sha c | None => empty_digest end.

(* git diff --name-only <commit>: commit tree against the working tree, for tracked paths *)
Definition diff1 (r : repo) (c : tree) : list path :=
  filter (fun p => negb (ocontent_eqb (c p) (if tracked r p then work r p else None))) (universe r).
(* git diff --name-only <a> <b> *)
Definition diff2 (r : repo) (a b : tree) : list path :=
  filter (fun p => negb (ocontent_eqb (a p) (b p))) (universe r).
(* git ls-files --others --exclude-standard *)
Definition others (r : repo) : list path :=
  filter (fun p => match work r p with Some _ => negb (tracked r p) && negb (ignored r p) | None => false end)
         (universe r).

Definition pending := list (path * digest).
Fixpoint plookup (pn : pending) (p : path) : option digest :=
  match pn with
  | [] => None
  | (q, d) :: rest => if path_eqb q p then Some d else plookup rest p
  end.

(* get_git_diff_changes: which diff is asked for.  [cp_tree]: tree of the checkpoint id (None when the id
   is empty, i.e. the default checkpoint); [b], [e]: trees of --begin / --end when given *)
Definition diff_changes (r : repo) (cp_tree b e : option tree) : list path :=
  let begin := match b with Some t => Some t | None => cp_tree end in
  match begin with
  | Some tb => match e with Some te => diff2 r tb te | None => diff1 r tb end
  | None => diff1 r (head r)         (* `git diff HEAD` *)
  end.

Definition filter_pending (r : repo) (pn : option pending) (raw : list path) : list path :=
  match pn with
  | Some ((_ :: _) as m) =>
      filter (fun p => match plookup m p with
                       | Some d => negb (digest_eqb d (checksum r p))
                       | None => true end) raw
  | _ => raw
  end.

(* get_git_all_changes, before the final sort *)
Definition all_changes_opts (r : repo) (cp_tree b e : option tree) (pn : option pending) : list path :=
  filter_pending r pn (others r ++ diff_changes r cp_tree b e).

(* the common case: checkpoint (c, pn), no --begin/--end *)
Definition all_changes (r : repo) (c : tree) (pn : option pending) : list path :=
  all_changes_opts r (Some c) None None pn.

(* checkpoint update [--pending]: with --pending, pending := checksums of the changes against the DEFAULT
   checkpoint (empty id => `git diff HEAD`), or nothing when nothing is pending; without --pending the stored
   map is left as it is.  [keep_stale]: the pinned commit kept the previous map when nothing was pending. *)
Definition update_pending_with (keep_stale : bool) (r : repo) (with_pending : bool) (old : option pending) : option pending :=
  if with_pending then
    match all_changes_opts r None None None None with
    | [] => if keep_stale then old else None
    | ch => Some (map (fun p => (p, checksum r p)) ch)
    end
  else old.
Definition update_pending := update_pending_with false.

Definition update_p_with (keep_stale : bool) (r : repo) (old : option pending) : tree * option pending :=
  (head r, update_pending_with keep_stale r true old).
Definition update_p := update_p_with false.

(* ---- the pinned commit passed --find-renames: with exact-content renames, `git diff --name-only` lists only
   the new name, so the deleted old path of a staged move is hidden (similarity-based detection is not modelled) *)
Definition diff1_find_renames (r : repo) (c : tree) : list path :=
  let d := diff1 r c in
  let cur p := if tracked r p then work r p else None in
  filter (fun p =>
    negb (match c p, cur p with
          | Some x, None => existsb (fun q => match c q, cur q with
                                              | None, Some y => content_eqb x y
                                              | _, _ => false end) d
          | _, _ => false end)) d.
Definition all_changes_as_found (r : repo) (c : tree) (pn : option pending) : list path :=
  filter_pending r pn (others r ++ diff1_find_renames r c).
End Git.

Arguments universe {path content}. Arguments head {path content}. Arguments tracked {path content}.
Arguments work {path content}. Arguments ignored {path content}.
