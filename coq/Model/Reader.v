(* Executable model of src/app/log.rs process_reader / process_bufs for one stream of one task, with the
   optional log-stream client, and of several such readers sharing one connection.
   Events: bytes arrive on the pipe, the writer closes it, the reader is polled (tokio's read_until: moves what is
   available into the caller's buffer up to and including a newline; the per-call byte counter restarts after a
   cancelled call), the 500 ms flush tick wins the select!.
   [keep_partial]: true = the line buffer survives a tick and the tail is flushed at end of stream (code now),
                   false = the buffer is local to one select! round (pinned commit: partial lines are dropped).
   [tolerant]:     true = a failing stream write drops the stream client and the task carries on (code now),
                   false = the error fails the reader, hence the task (pinned commit).
   No proofs here. *)
From Coq Require Import List Arith NArith Bool.
Import ListNotations.

Definition bytes := list N.
Definition nl : N := 10%N.

Fixpoint take_line (acc : bytes) (s : bytes) : option (bytes * bytes) :=
  match s with
  | [] => None
  | c :: r => if N.eqb c nl then Some (rev_append (c :: acc) [], r) else take_line (c :: acc) r
  end.

Record rst := {
  inner : bytes;        (* written by the child, not yet consumed by read_until *)
  closed : bool;        (* the child closed its end *)
  cur : bytes;          (* `buf`: bytes of the line being assembled *)
  nread : nat;          (* bytes consumed by the read_until future currently alive *)
  lines : list bytes;   (* `bufs`: complete lines not yet flushed *)
  out : bytes;          (* everything handed to the compressor so far *)
  ended : bool;         (* the reader returned *)
  failed : bool;        (* ... with an error *)
  stream_on : bool;     (* a log-stream client is attached and admits this task *)
  nwrites : nat;        (* stream writes attempted so far *)
  sent : list bytes     (* blocks written to the stream connection (each preceded by this task's header) *)
}.

Inductive ev := Arrive (b : bytes) | Close | Poll | Tick.

Section R.
Variable keep_partial : bool.
Variable tolerant : bool.
Variable sink_ok : nat -> bool.     (* does the n-th stream write succeed? (listener gone => false from then on) *)

(* process_bufs: hand the accumulated lines to the compressor and, if attached, to the stream *)
Definition flush (s : rst) (fin : bool) : rst :=
  match lines s with
  | [] => {| inner := inner s; closed := closed s; cur := cur s; nread := nread s; lines := []; out := out s;
             ended := fin; failed := false; stream_on := stream_on s; nwrites := nwrites s; sent := sent s |}
  | _ =>
      let data := concat (lines s) in
      if stream_on s then
        if sink_ok (nwrites s) then
          {| inner := inner s; closed := closed s; cur := cur s; nread := nread s; lines := []; out := out s ++ data;
             ended := fin; failed := false; stream_on := true; nwrites := S (nwrites s); sent := sent s ++ [data] |}
        else if tolerant then
          {| inner := inner s; closed := closed s; cur := cur s; nread := nread s; lines := []; out := out s ++ data;
             ended := fin; failed := false; stream_on := false; nwrites := S (nwrites s); sent := sent s |}
        else
          {| inner := inner s; closed := closed s; cur := cur s; nread := nread s; lines := []; out := out s ++ data;
             ended := true; failed := true; stream_on := true; nwrites := S (nwrites s); sent := sent s |}
      else
        {| inner := inner s; closed := closed s; cur := cur s; nread := nread s; lines := []; out := out s ++ data;
           ended := fin; failed := false; stream_on := false; nwrites := nwrites s; sent := sent s |}
  end.

Definition with_io (s : rst) (i : bytes) (c : bool) (cu : bytes) (n : nat) (ls : list bytes) : rst :=
  {| inner := i; closed := c; cur := cu; nread := n; lines := ls; out := out s; ended := false; failed := false;
     stream_on := stream_on s; nwrites := nwrites s; sent := sent s |}.

Definition step (s : rst) (e : ev) : rst :=
  if ended s then s else
  match e with
  | Arrive b => if closed s then s else with_io s (inner s ++ b) false (cur s) (nread s) (lines s)
  | Close => with_io s (inner s) true (cur s) (nread s) (lines s)
  | Tick =>
      (* the tick branch wins: the read_until future is dropped, bufs are flushed *)
      let s' := flush s false in
      if ended s' then s' else
      {| inner := inner s'; closed := closed s'; cur := if keep_partial then cur s' else []; nread := 0;
         lines := lines s'; out := out s'; ended := false; failed := false;
         stream_on := stream_on s'; nwrites := nwrites s'; sent := sent s' |}
  | Poll =>
      match take_line [] (inner s) with
      | Some (l, rest) =>        (* delimiter found: Ok(n), the line is pushed, a fresh buf starts *)
          with_io s rest (closed s) [] 0 (lines s ++ [cur s ++ l])
      | None =>
          if closed s then
            match inner s, nread s with
            | [], 0 =>             (* Ok(0): end of stream *)
                let s1 := if keep_partial
                          then with_io s [] true [] 0 (match cur s with [] => lines s | _ => lines s ++ [cur s] end)
                          else s in
                flush s1 true
            | _, _ =>              (* Ok(n>0) without delimiter: the unterminated tail *)
                with_io s [] true [] 0 (lines s ++ [cur s ++ inner s])
            end
          else                     (* Pending: everything available moves into buf *)
            with_io s [] false (cur s ++ inner s) (nread s + length (inner s)) (lines s)
      end
  end.

Definition init (stream : bool) : rst :=
  {| inner := []; closed := false; cur := []; nread := 0; lines := []; out := []; ended := false; failed := false;
     stream_on := stream; nwrites := 0; sent := [] |}.
Definition run (stream : bool) (es : list ev) : rst := fold_left step es (init stream).
End R.

(* the bytes the child wrote, i.e. those that arrived before it closed the pipe *)
Fixpoint arrived (es : list ev) : bytes :=
  match es with
  | [] => []
  | Arrive b :: r => b ++ arrived r
  | Close :: _ => []
  | _ :: r => arrived r
  end.

(* ---- several readers (tasks x streams) sharing one stream connection: LogServerClient::data writes
   header + lines under the connection mutex, so each flush is one atomic block tagged with its task ---- *)
Section Multi.
Variable keep_partial tolerant : bool.
Variable sink_ok : nat -> nat -> bool.       (* per reader *)

Record msys := { readers : list rst; conn : list (nat * bytes) }.

Fixpoint upd_nth {A} (l : list A) (n : nat) (v : A) : list A :=
  match l, n with [], _ => [] | _ :: r, 0 => v :: r | x :: r, S k => x :: upd_nth r k v end.

Definition mstep (m : msys) (c : nat * ev) : msys :=
  let '(i, e) := c in
  match nth_error (readers m) i with
  | None => m
  | Some r =>
      let r' := step keep_partial tolerant (sink_ok i) r e in
      let new_blocks := skipn (length (sent r)) (sent r') in
      {| readers := upd_nth (readers m) i r'; conn := conn m ++ map (fun b => (i, b)) new_blocks |}
  end.
Definition minit (streams : list bool) : msys := {| readers := map init streams; conn := [] |}.
Definition mrun (streams : list bool) (cs : list (nat * ev)) : msys := fold_left mstep cs (minit streams).
(* what a listener prints for task i: the concatenation of the blocks carrying its header *)
Definition tail_of (m : msys) (i : nat) : bytes :=
  concat (map snd (filter (fun '(k, _) => Nat.eqb k i) (conn m))).
End Multi.
