(* Executable model of the checkpoint store (src/core/tracking.rs Checkpoint + src/app/checkpoint.rs,
   src/app/out.rs `out delete --all`): a single optional record.  No proofs here. *)
From Coq Require Import List Bool.
Import ListNotations.

Section Store.
Variable cp : Type.                       (* what `checkpoint update` prints and stores: (id, pending) *)

Inductive op :=
| Update (ok : bool) (result : cp)        (* an update; [ok] = it succeeded; [result] = what it returned *)
| Delete                                  (* checkpoint delete *)
| OutDeleteAll                            (* out delete --all *)
| Show.                                   (* checkpoint show (no effect) *)

Definition store := option cp.

Definition step (s : store) (o : op) : store :=
  match o with
  | Update true r => Some r
  | Update false _ => s
  | Delete => None                        (* fails when there is none; either way none afterwards *)
  | OutDeleteAll => None
  | Show => s
  end.

Definition run (ops : list op) : store := fold_left step ops None.

(* `checkpoint show`: the stored record, or an error *)
Definition show (s : store) : option cp := s.

(* the specification: what the most recent successful update returned, unless a delete came after it *)
Fixpoint last_update (ops : list op) (acc : option cp) : option cp :=
  match ops with
  | [] => acc
  | Update true r :: rest => last_update rest (Some r)
  | Update false _ :: rest => last_update rest acc
  | Delete :: rest => last_update rest None
  | OutDeleteAll :: rest => last_update rest None
  | Show :: rest => last_update rest acc
  end.
End Store.
Arguments Update {cp}. Arguments Delete {cp}. Arguments OutDeleteAll {cp}. Arguments Show {cp}.
