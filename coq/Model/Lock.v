(* Executable model of the lock protocol of the four mutating APIs (src/core/server.rs LockServer::acquire,
   src/api/cli.rs handle_run / handle_checkpoint_update / handle_checkpoint_delete / handle_out_delete):
   every such invocation first binds the lock address, performs its effects only if the bind succeeded, and
   releases the address when the process ends (exit or kill).  The operating system provides the bind:
   exclusive per address, released at process death.  No proofs here. *)
From Coq Require Import List Arith Bool.
Import ListNotations.

Inductive pstate :=
| Idle                      (* not started yet *)
| Holding (todo : nat)      (* past lock acquisition, [todo] effects still to perform *)
| Refused                   (* bind failed: exits non-zero, having done nothing *)
| Ended.                    (* exited (normally or by failure) or killed *)

Record sys := {
  holder : option nat;             (* OS: which process has the address bound *)
  procs : list pstate;             (* by pid *)
  effects : list nat               (* pids in the order in which they performed effects *)
}.

Inductive choice :=
| Start (p : nat) (n_effects : nat)   (* process p is started: its first action is the bind *)
| Act (p : nat)                       (* process p performs its next effect, or exits when none is left *)
| Kill (p : nat).                     (* SIGKILL *)

Fixpoint set_nth {A} (l : list A) (n : nat) (v : A) : list A :=
  match l, n with
  | [], _ => []
  | _ :: r, 0 => v :: r
  | x :: r, S k => x :: set_nth r k v
  end.
Definition pget (s : sys) (p : nat) : pstate := nth p (procs s) Ended.

Definition release (s : sys) (p : nat) : option nat :=
  match holder s with Some h => if h =? p then None else Some h | None => None end.

Definition step (s : sys) (c : choice) : sys :=
  match c with
  | Start p n =>
      match pget s p with
      | Idle =>
          match holder s with
          | None => {| holder := Some p; procs := set_nth (procs s) p (Holding n); effects := effects s |}
          | Some _ => {| holder := holder s; procs := set_nth (procs s) p Refused; effects := effects s |}
          end
      | _ => s
      end
  | Act p =>
      match pget s p with
      | Holding (S k) => {| holder := holder s; procs := set_nth (procs s) p (Holding k); effects := effects s ++ [p] |}
      | Holding 0 => {| holder := release s p; procs := set_nth (procs s) p Ended; effects := effects s |}
      | Refused => {| holder := holder s; procs := set_nth (procs s) p Ended; effects := effects s |}
      | _ => s
      end
  | Kill p =>
      match pget s p with
      | Holding _ => {| holder := release s p; procs := set_nth (procs s) p Ended; effects := effects s |}
      | Refused => {| holder := holder s; procs := set_nth (procs s) p Ended; effects := effects s |}
      | _ => s
      end
  end.

Definition init (n : nat) : sys := {| holder := None; procs := repeat Idle n; effects := [] |}.
Definition run (n : nat) (cs : list choice) : sys := fold_left step cs (init n).

Definition holding (s : sys) (p : nat) : bool := match pget s p with Holding _ => true | _ => false end.
Definition holders (s : sys) : list nat := filter (holding s) (seq 0 (length (procs s))).
