(* Executable model of src/core/mod.rs (Index::new: tries, use2targets, ignore2targets, dependency
   edges) and src/app/analyze.rs (analyze_change, analyze's map/reduce + sort).  No proofs here.
   [bnd] selects the lookup: false = raw trie byte-prefix search (code as found),
   true = matches filtered to component boundaries (code after the fix). 
   [ins_user] selects the as-found insertion of the *using* target into the summary. *)
From Coq Require Import List Arith NArith Bool.
From MR Require Import Lib.Bytes.
Import ListNotations.

Record target := { tpath : str; uses : list str; ignores : list str }.
Definition config := list target.

(* trie-rs 0.4.2 common_prefix_search: every stored key that is a non-empty byte prefix of the query *)
Definition trie_prefixes (keys : list str) (q : str) : list str :=
  filter (fun k => match k with [] => false | _ => byte_prefix k q end) keys.
Definition lookup_bytes (keys : list str) (q : str) : list str := trie_prefixes keys q.
(* the query's own directory stored with a trailing slash ("lib/" for the query "lib"): one byte longer than the query, found by exact_match *)
Definition dir_key_of (keys : list str) (q : str) : list str :=
  match q with
  | [] => []
  | _ => if ends_slash q then [] else if existsb (str_eqb (q ++ [slash])) keys then [q ++ [slash]] else []
  end.
Definition lookup (keys : list str) (q : str) : list str :=
  filter (fun k => on_boundary_or_slash k q) (trie_prefixes keys q) ++ dir_key_of keys q.
Definition lookup_sel (bnd : bool) := if bnd then lookup else lookup_bytes.

Definition mem_str (s : str) (l : list str) := existsb (str_eqb s) l.

Definition target_paths (cfg : config) := map tpath cfg.
Definition all_uses (cfg : config) := flat_map uses cfg.
Definition all_ignores (cfg : config) := flat_map ignores cfg.
Definition use2targets (cfg : config) (u : str) : list str :=
  map tpath (filter (fun t => mem_str u (uses t)) cfg).
Definition ignore2targets (cfg : config) (i : str) : list str :=
  map tpath (filter (fun t => mem_str i (ignores t)) cfg).

(* ---------- dependency edges (Index::new, second pass) ---------- *)
Section L.
Variable lk : list str -> str -> list str.

Definition edges_of_with (cfg : config) (t : target) : list str :=
  let self p := negb (str_eqb p (tpath t)) in
  filter self (lk (target_paths cfg) (tpath t)) ++
  flat_map (fun u => filter self (lk (target_paths cfg) u)) (uses t).

Definition ignore_targets_with (cfg : config) (p : str) : list str :=
  flat_map (ignore2targets cfg) (lk (all_ignores cfg) p).

Inductive reason := RTarget | RUses | RIgnores.

(* analyze_change: (targets inserted in the summary set, per-change breakdown entries) *)
Definition analyze_change_with (ins_user : bool) (cfg : config) (p : str)
  : list str * list (str * reason) :=
  let ign := ignore_targets_with cfg p in
  let direct := lk (target_paths cfg) p in
  let d_sum := filter (fun t => negb (mem_str t ign)) direct in
  let d_brk := map (fun t => (t, if mem_str t ign then RIgnores else RTarget)) direct in
  let via :=
    flat_map (fun m =>
      if mem_str m ign then [] else
      flat_map (fun u =>
        if mem_str u ign then [] else
        map (fun t2 => (u, t2)) (lk (target_paths cfg) u))
      (use2targets cfg m))
    (lk (all_uses cfg) p) in
  let u_sum := flat_map (fun '(u, t2) => if mem_str t2 ign then [] else [if ins_user then u else t2]) via in
  let u_brk := map (fun '(u, t2) => (t2, if mem_str t2 ign then RIgnores else RUses)) via in
  (d_sum ++ u_sum, d_brk ++ u_brk).
End L.

Definition edges_of := edges_of_with lookup.
Definition ignore_targets := ignore_targets_with lookup.
Definition analyze_change (cfg : config) (p : str) : list str := fst (analyze_change_with lookup false cfg p).
Definition breakdown_change (cfg : config) (p : str) : list (str * reason) := snd (analyze_change_with lookup false cfg p).

(* node numbering: position in declaration order *)
Fixpoint index_of (p : str) (l : list str) : option nat :=
  match l with
  | [] => None
  | x :: r => if str_eqb p x then Some 0 else option_map S (index_of p r)
  end.

Fixpoint nset_insert (x : nat) (l : list nat) : list nat :=
  match l with
  | [] => [x]
  | y :: r => if x <? y then x :: l else if x =? y then l else y :: nset_insert x r
  end.
Definition nset_of (l : list nat) : list nat := fold_right nset_insert [] l.

Definition opt_list {A} (l : list (option A)) : list A :=
  flat_map (fun o => match o with Some a => [a] | None => [] end) l.

(* adjacency list exactly as Index::new leaves it in the Dag: per node, sorted, deduplicated *)
Definition adj_of_with (bnd : bool) (cfg : config) : list (list nat) :=
  map (fun t => nset_of (opt_list (map (fun p => index_of p (target_paths cfg)) (edges_of_with (lookup_sel bnd) cfg t)))) cfg.
Definition adj_of := adj_of_with true.

Fixpoint has_dup (l : list str) : bool :=
  match l with [] => false | x :: r => mem_str x r || has_dup r end.

(* ---------- analyze: chunked map/reduce into a set, then sort ---------- *)
Fixpoint chunks_fuel {A} (fuel k : nat) (l : list A) : list (list A) :=
  match fuel with
  | 0 => []
  | S f => match l with [] => [] | _ => firstn k l :: chunks_fuel f k (skipn k l) end
  end.
Definition chunks {A} (k : nat) (l : list A) : list (list A) := chunks_fuel (length l) k l.

Definition summary_with (bnd ins_user : bool) (k : nat) (cfg : config) (changes : list str) : list str :=
  let per_chunk := map (fun ch => sset_of (flat_map (fun p => fst (analyze_change_with (lookup_sel bnd) ins_user cfg p)) ch))
                       (chunks k changes) in
  sset_of (concat per_chunk).
Definition summary_k := summary_with true false.
Definition summary := summary_k 50.

Definition breakdown_with (bnd ins_user : bool) (cfg : config) (changes : list str) : list (str * list (str * reason)) :=
  map (fun p => (p, snd (analyze_change_with (lookup_sel bnd) ins_user cfg p))) changes.
Definition breakdown := breakdown_with true false.

(* ---------- specification, component-wise (C01, C10) ---------- *)
Definition ignored (t : target) (p : str) : bool := existsb (fun i => inside p i) (ignores t).
Definition uses_entry_ignored (cfg : config) (m p : str) : bool :=
  existsb (fun t => str_eqb (tpath t) m && ignored t p) cfg.
Definition affected_via_uses (dc : bool) (cfg : config) (n : target) (p : str) : bool :=
  negb (ignored n p) &&
  existsb (fun m => inside p m && negb (dc && uses_entry_ignored cfg m p)) (uses n).
Definition spec_changed1 (dc : bool) (cfg : config) (p : str) (t : target) : bool :=
  negb (ignored t p) &&
  (inside p (tpath t) ||
   existsb (fun n => inside (tpath n) (tpath t) && affected_via_uses dc cfg n p) cfg).
Definition spec_changed (dc : bool) (cfg : config) (changes : list str) (t : target) : bool :=
  existsb (fun p => spec_changed1 dc cfg p t) changes.

Definition dep_b (t u : target) : bool :=
  negb (str_eqb (tpath u) (tpath t)) &&
  (inside (tpath t) (tpath u) || existsb (fun m => inside m (tpath u)) (uses t)).

(* the Props used in the theorems *)
Definition wf_config (cfg : config) : Prop :=
  NoDup (map tpath cfg) /\
  forall t, In t cfg -> wf_path (tpath t) /\ (forall u, In u (uses t) -> wf_path u) /\
                        (forall i, In i (ignores t) -> wf_path i).

(* C10: target t depends on target u *)
Definition dep (t u : target) : Prop :=
  tpath u <> tpath t /\
  (inside (tpath t) (tpath u) = true \/ exists m, In m (uses t) /\ inside m (tpath u) = true).

(* target render: the dot file as a list of abstract lines *)
Inductive dot_line := NodeLine (n : nat) (label : str) | EdgeLine (i j : nat).
Definition render_dot (labels : list str) (a : list (list nat)) : list dot_line :=
  map (fun '(n, l) => NodeLine n l) (combine (seq 0 (length a)) labels) ++
  flat_map (fun '(i, row) => map (EdgeLine i) row) (combine (seq 0 (length a)) a).

(* decidable well-formedness of paths, for the harness (wf_path is the Prop used in theorems) *)
Definition wf_path_b (s : str) : bool :=
  match s with [] => false | _ => negb (existsb (fun c => match c with [] => true | _ => false end) (comps s)) end.
Definition wf_config_b (cfg : config) : bool :=
  negb (has_dup (target_paths cfg)) &&
  forallb (fun t => wf_path_b (tpath t) && forallb wf_path_b (uses t) && forallb wf_path_b (ignores t)) cfg.
