(* Executable model of src/core/graph.rs.  No proofs here.
   [set_subtree_visibility]     : the walk as the code is now (breadth-first, visited marked at push,
                                   then the in-degree cycle detector over the visible nodes)
   [set_subtree_visibility_old] : the walk of the pinned commit (visited marked at pop, "active" set) *)
From Coq Require Import List Arith Bool Relations.
Import ListNotations.

Record dag := { adj : list (list nat); vis : list bool }.
Definition size (g : dag) := length (adj g).
Definition deps (g : dag) n := nth n (adj g) [].
Definition visible (g : dag) n := nth n (vis g) false.

Fixpoint upd {A} (l : list A) (n : nat) (f : A -> A) : list A :=
  match l, n with
  | [], _ => []
  | x :: r, 0 => f x :: r
  | x :: r, S k => x :: upd r k f
  end.

(* Ok | graph cycle error at node n | a Rust panic or fuel exhaustion | any other error (kind k) *)
Inductive res (A : Type) := Ok (a : A) | ErrCycle (n : nat) | Panic | ErrOther (k : nat).
Arguments Ok {A}. Arguments ErrCycle {A}. Arguments Panic {A}. Arguments ErrOther {A}.

Definition mem n l := existsb (Nat.eqb n) l.
Definition remove1 n l := filter (fun m => negb (Nat.eqb n m)) l.

(* ---- as found: BFS with an "active" set ---- *)
Fixpoint scan_deps (ds : list nat) (visited active work : list nat)
  : option (list nat * list nat) * nat :=
  match ds with
  | [] => (Some (active, work), 0)
  | d :: r =>
      if mem d active then (None, d)
      else if mem d visited then scan_deps r visited active work
      else scan_deps r visited (d :: active) (work ++ [d])
  end.

Fixpoint bfs_old (fuel : nat) (g : dag) (work visited active : list nat) (v : list bool) (b : bool)
  : res (list bool) :=
  match fuel with
  | 0 => Panic
  | S f =>
      match work with
      | [] => Ok v
      | n :: w =>
          let v' := upd v n (fun _ => b) in
          let visited' := n :: visited in
          let active' := remove1 n active in
          match scan_deps (deps g n) visited' active' w with
          | (None, d) => ErrCycle d
          | (Some (a, w'), _) => bfs_old f g w' visited' a v' b
          end
      end
  end.

(* fuel: generous but finite; the as-found walk can enqueue a node many times *)
Definition set_subtree_visibility_old (g : dag) (n : nat) (b : bool) : res dag :=
  match bfs_old (S (size g * size g * size g + 64)) g [n] [] [] (vis g) b with
  | Ok v => Ok {| adj := adj g; vis := v |}
  | ErrCycle d => ErrCycle d
  | Panic => Panic
  | ErrOther k => ErrOther k
  end.

(* ---- get_groups: Kahn's algorithm over the visible nodes ---- *)
Definition init_indeg (g : dag) : list nat :=
  fold_left (fun acc i =>
               if visible g i then fold_left (fun a n => upd a n S) (deps g i) acc else acc)
            (seq 0 (size g)) (repeat 0 (size g)).

Definition relax (g : dag) (st : option (list nat * list nat)) (n2 : nat) :=
  match st with
  | None => None
  | Some (indeg, next) =>
      match nth n2 indeg 0 with
      | 0 => None (* usize underflow: panic *)
      | S k =>
          let indeg' := upd indeg n2 (fun _ => k) in
          if (k =? 0) && visible g n2 then Some (indeg', n2 :: next) else Some (indeg', next)
      end
  end.

Fixpoint process_work (g : dag) (work : list nat) (indeg next group : list nat) :=
  match work with
  | [] => Some (indeg, next, rev group)
  | n1 :: w =>
      match fold_left (relax g) (deps g n1) (Some (indeg, next)) with
      | None => None
      | Some (indeg', next') => process_work g w indeg' next' (n1 :: group)
      end
  end.

Fixpoint kahn (fuel : nat) (g : dag) (work indeg : list nat) : option (list (list nat) * list nat) :=
  match work with
  | [] => Some ([], indeg)
  | _ =>
      match fuel with
      | 0 => None
      | S f =>
          match process_work g work indeg [] [] with
          | None => None
          | Some (indeg', next, group) =>
              match kahn f g next indeg' with
              | None => None
              | Some (gs, fin) => Some (group :: gs, fin)
              end
          end
      end
  end.

Definition get_groups (g : dag) : res (list (list nat)) :=
  let indeg := init_indeg g in
  let work := filter (fun n => (nth n indeg 0 =? 0) && visible g n) (seq 0 (size g)) in
  match kahn (S (size g)) g work indeg with
  | None => Panic
  | Some (gs, fin) =>
      match find (fun i => visible g i && negb (nth i fin 0 =? 0)) (seq 0 (size g)) with
      | Some i => ErrCycle i
      | None => Ok gs
      end
  end.

Definition get_labeled_groups g :=
  match get_groups g with Ok gs => Ok (rev gs) | ErrCycle n => ErrCycle n | Panic => Panic | ErrOther k => ErrOther k end.

(* ---- the walk as it is now: breadth-first, visited marked at push ---- *)
Definition scan (st : list nat * list nat) (d : nat) : list nat * list nat :=
  let '(work, visited) := st in
  if mem d visited then (work, visited) else (work ++ [d], d :: visited).

Fixpoint bfs (fuel : nat) (g : dag) (work visited : list nat) (v : list bool) (b : bool)
  : option (list bool) :=
  match fuel with
  | 0 => None
  | S f =>
      match work with
      | [] => Some v
      | n :: w =>
          let v' := upd v n (fun _ => b) in
          let '(w', visited') := fold_left scan (deps g n) (w, visited) in
          bfs f g w' visited' v' b
      end
  end.

Definition mark (g : dag) (root : nat) (b : bool) : option dag :=
  match bfs (S (size g)) g [root] [root] (vis g) b with
  | Some v => Some {| adj := adj g; vis := v |}
  | None => None
  end.

Definition set_subtree_visibility (g : dag) (n : nat) (b : bool) : res dag :=
  if size g <=? n then Panic (* index out of bounds *) else
  match mark g n b with
  | None => Panic
  | Some g' =>
      match get_groups g' with
      | Ok _ => Ok g'
      | ErrCycle d => ErrCycle d
      | Panic => Panic
      | ErrOther k => ErrOther k
      end
  end.

Section Api.
Variable ssv : dag -> nat -> bool -> res dag.
Fixpoint set_roots_with (g : dag) (roots : list nat) : res dag :=
  match roots with
  | [] => Ok g
  | r :: rs => match ssv g r true with
               | Ok g' => set_roots_with g' rs
               | ErrCycle d => ErrCycle d | Panic => Panic | ErrOther k => ErrOther k end
  end.
Definition api_groups_with (a : list (list nat)) (roots : list nat) :=
  match set_roots_with {| adj := a; vis := repeat false (length a) |} roots with
  | Ok g => get_labeled_groups g
  | ErrCycle d => ErrCycle d | Panic => Panic | ErrOther k => ErrOther k
  end.
End Api.
Definition set_roots := set_roots_with set_subtree_visibility.
Definition api_groups := api_groups_with set_subtree_visibility.
Definition api_groups_old := api_groups_with set_subtree_visibility_old.

(* ---------- specification ---------- *)
Definition wf (g : dag) := length (vis g) = size g /\ forall i j, In j (deps g i) -> j < size g.
Definition edge (g : dag) i j := i < size g /\ In j (deps g i).
Definition reach g := clos_refl_trans nat (edge g).
Definition path g := clos_trans nat (edge g).
Definition reachable_from g roots n := exists r, In r roots /\ reach g r n.
Definition cyclic_from g roots := exists n, reachable_from g roots n /\ path g n n.

Fixpoint layer_of (n : nat) (gs : list (list nat)) : option nat :=
  match gs with
  | [] => None
  | l :: r => if mem n l then Some 0 else option_map S (layer_of n r)
  end.

(* groups are listed dependencies-first (as get_labeled_groups returns them):
   every node sits in a strictly later group than everything it depends on *)
Definition valid_layering (g : dag) (roots : list nat) (gs : list (list nat)) :=
  NoDup (concat gs) /\
  (forall n, In n (concat gs) <-> reachable_from g roots n) /\
  (forall l, In l gs -> l <> []) /\
  (forall i j, reachable_from g roots i -> edge g i j ->
     exists li lj, layer_of i gs = Some li /\ layer_of j gs = Some lj /\ lj < li).

(* decidable checker for the harness: applied to the groups the implementation returned *)
Definition wf_b (a : list (list nat)) : bool := forallb (forallb (fun j => j <? length a)) a.
Fixpoint nodup_b (l : list nat) : bool :=
  match l with [] => true | x :: r => negb (mem x r) && nodup_b r end.
Fixpoint mark_all (g : dag) (roots : list nat) : option dag :=
  match roots with
  | [] => Some g
  | r :: rs => match mark g r true with Some g' => mark_all g' rs | None => None end
  end.
Definition valid_layering_b (a : list (list nat)) (roots : list nat) (gs : list (list nat)) : bool :=
  match mark_all {| adj := a; vis := repeat false (length a) |} roots with
  | None => false
  | Some g =>
      let all := concat gs in
      nodup_b all &&
      forallb (fun n => Bool.eqb (mem n all) (visible g n)) (seq 0 (length a)) &&
      forallb (fun n => n <? length a) all &&
      forallb (fun l => match l with [] => false | _ => true end) gs &&
      forallb (fun i => negb (visible g i) ||
                 forallb (fun j => match layer_of i gs, layer_of j gs with
                                   | Some li, Some lj => lj <? li
                                   | _, _ => false end) (deps g i)) (seq 0 (length a))
  end.
