(* Executable model of the grouping entry points built on Index + Dag:
   Index::new with a set of visible targets followed by get_labeled_groups (target show -g, run -t --deps,
   analyze without changes) and analyze's pruning loop (changed targets only).  No proofs here. *)
From Coq Require Import List Arith NArith Bool.
From MR Require Import Lib.Bytes Model.Index Model.Dag.
Import ListNotations.

Definition labels_to_nodes (cfg : config) (ls : list str) : list nat :=
  opt_list (map (fun p => index_of p (target_paths cfg)) ls).
Definition nodes_to_labels (cfg : config) (ns : list nat) : list str :=
  map (fun n => nth n (target_paths cfg) []) ns.

(* error kinds: 2 = duplicate target path, 3 = a visible target that is not configured *)
Definition model_index_groups (cfg : config) (visible : list str) : res (list (list str)) :=
  if has_dup (target_paths cfg) then ErrOther 2
  else if negb (forallb (fun p => mem_str p (target_paths cfg)) visible) then ErrOther 3
  else match api_groups (adj_of cfg) (labels_to_nodes cfg visible) with
       | Ok gs => Ok (map (nodes_to_labels cfg) gs)
       | ErrCycle n => ErrCycle n | Panic => Panic | ErrOther k => ErrOther k
       end.

(* analyze.rs: groups restricted to the changed targets, empty groups dropped, order kept *)
Definition prune (gs : list (list str)) (keep : list str) : list (list str) :=
  filter (fun g => match g with [] => false | _ => true end)
         (map (filter (fun p => mem_str p keep)) gs).

(* the graph Index::new hands to the Dag *)
Definition cfg_graph (cfg : config) : dag := {| adj := adj_of cfg; vis := repeat false (length (adj_of cfg)) |}.
