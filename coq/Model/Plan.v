(* Executable model of argument-map merging and command resolution in src/app/run.rs
   (ArgMap::merge / merge_target_argmap / merge_run_input / get_args, merge_target_argmaps, get_plan's
   command_path) and src/app/target.rs (AppTargetFile::new), src/core/file.rs (find_file_by_stem).
   The file system is an input: which argmap files exist and what they contain, which files a command
   directory holds.  No proofs here. *)
From Coq Require Import List Arith NArith Bool.
From MR Require Import Lib.Bytes.
Import ListNotations.

Definition cmdmap := list (str * list str).           (* command -> arguments *)
Definition table := list (str * cmdmap).              (* target -> command -> arguments *)

Fixpoint assoc_s {B} (l : list (str * B)) (k : str) : option B :=
  match l with [] => None | (q, b) :: r => if str_eqb q k then Some b else assoc_s r k end.
Fixpoint upsert {B} (l : list (str * B)) (k : str) (d : B) (f : B -> B) : list (str * B) :=
  match l with
  | [] => [(k, f d)]
  | (q, b) :: r => if str_eqb q k then (q, f b) :: r else (q, b) :: upsert r k d f
  end.

(* ArgMap::merge for one source target: self.table.entry(target).or_default(), then per command
   .entry(command).or_default().append(args) *)
Definition merge_cmds (cm : cmdmap) (src : cmdmap) : cmdmap :=
  fold_left (fun acc '(c, a) => upsert acc c [] (fun old => old ++ a)) src cm.
Definition merge_target (tb : table) (t : str) (src : cmdmap) : table :=
  upsert tb t [] (fun cm => merge_cmds cm src).
Definition get_args (tb : table) (t c : str) : option (list str) :=
  match assoc_s tb t with Some cm => assoc_s cm c | None => None end.
(* what the child receives: no entry and an empty entry are the same argv *)
Definition argv_of (tb : table) (t c : str) : list str :=
  match get_args tb t c with Some a => a | None => [] end.

(* the loads a run performs, in order: for every run target its base argmap (unless --no-base-argmaps) and
   each --argmaps name in the order given - a missing file contributes nothing -, then --args for the one
   command and the one target *)
Definition target_loads (file : str -> str -> option cmdmap) (use_base : bool) (names : list str) (t : str)
  : list (str * cmdmap) :=
  let one n := match file t n with Some cm => [(t, cm)] | None => [] end in
  (if use_base then one (map N.of_nat [98; 97; 115; 101]) (* "base" *) else []) ++ flat_map one names.
Definition run_loads (file : str -> str -> option cmdmap) (use_base : bool) (names : list str)
           (targets : list str) (run_args : option (str * str * list str)) : list (str * cmdmap) :=
  flat_map (target_loads file use_base names) targets ++
  match run_args with Some (t, c, a) => [(t, [(c, a)])] | None => [] end.
Definition build_table (loads : list (str * cmdmap)) : table :=
  fold_left (fun tb '(t, src) => merge_target tb t src) loads [].

(* ---- command resolution ---- *)
Definition dot : N := 46%N.
(* Path::file_stem: the name up to its last '.', unless that dot is the first character *)
Fixpoint last_dot (s : str) (i : nat) (acc : option nat) : option nat :=
  match s with [] => acc | c :: r => last_dot r (S i) (if N.eqb c dot then Some i else acc) end.
Definition stem (name : str) : str :=
  match last_dot name 0 None with
  | Some (S i) => firstn (S i) name
  | _ => name
  end.
(* definition path non-empty => that path (relative to the repository root); otherwise the file in the
   command directory whose stem equals the command name *)
Definition resolve (def_path : option str) (dir_entries : list str) (cmd : str) : option (bool * str) :=
  match def_path with
  | Some (c :: p) => Some (true, c :: p)                       (* (explicit, path) *)
  | _ => match find (fun f => str_eqb (stem f) cmd) dir_entries with
         | Some f => Some (false, f)
         | None => None end
  end.
