(* Executable model of where a run puts a task's log files: run_path.join(command).join(target_hash) (src/app/run.rs Logs::new),
   with std::path::Path::components / join as they behave on Unix, and of the check that get_all_commands applies to every
   command name (one Normal component equal to the whole name).  No proofs here. *)
From Coq Require Import List NArith Bool.
From Coq Require Import String.
From MR Require Import Lib.Bytes Lib.Val.
Import ListNotations.

Definition dot : byte := 46%N.
Inductive comp := Root | Cur | Parent | Normal (s : str).

(* Path::components: pieces between slashes; empty pieces (repeated or trailing separators) vanish; "." vanishes except as the
   very first piece of a relative path; ".." is ParentDir; a leading slash is RootDir *)
Definition piece_comp (first : bool) (p : str) : list comp :=
  match p with
  | [] => []
  | _ => if str_eqb p [dot] then (if first then [Cur] else [])
         else if str_eqb p [dot; dot] then [Parent] else [Normal p]
  end.
Fixpoint pieces_comps (first : bool) (ps : list str) : list comp :=
  match ps with
  | [] => []
  | p :: rest => piece_comp first p ++ pieces_comps false rest
  end.
Definition components (s : str) : list comp :=
  match s with
  | [] => []
  | c :: _ => if N.eqb c slash then Root :: pieces_comps false (comps s) else pieces_comps true (comps s)
  end.

(* the check in get_all_commands *)
Definition result_file_name : str := bs "result.json.zst"%string.      (* the slot's own file, beside the command directories *)
Definition name_accepted (c : str) : bool :=
  match components c with
  | [Normal x] => str_eqb x c && negb (str_eqb c result_file_name)
  | _ => false
  end.
(* what it amounts to *)
Definition single_component (c : str) : bool :=
  match c with [] => false | _ => true end && negb (existsb (N.eqb slash) c) && negb (str_eqb c [dot]) && negb (str_eqb c [dot; dot]).

(* Path::join + the file system's resolution of the result, from a directory given by its components: an absolute path
   replaces everything, ".." leaves the directory, "." stays *)
Fixpoint walk (dir : list str) (cs : list comp) : list str :=
  match cs with
  | [] => dir
  | Root :: r => walk [] r
  | Cur :: r => walk dir r
  | Parent :: r => walk (removelast dir) r
  | Normal x :: r => walk (dir ++ [x]) r
  end.
(* run/<slot>/<command>/<hash> *)
Definition log_dir (runs : list str) (slot command hash : str) : list str :=
  walk (walk (walk runs (components slot)) (components command)) (components hash).
