(* Executable model of the run pointer (tracking/run.json), the run slots (run/<id>/) and the file-system
   effects of one `monorail run` (src/app/run.rs get_next_tracking_run, setup_run_path, Logs::new,
   store_run_output; src/core/tracking.rs Run::open/save; src/app/result.rs; log show's slot lookup).
   [atomic_save]: true = pointer saved by temp file + rename (code as it is now),
                  false = truncate in place, then write (pinned commit).  No proofs here. *)
From Coq Require Import List Arith Bool.
Import ListNotations.

(* what a run leaves in its slot: its log files and its result document (abstract ids) *)
Record run_rec := { rlogs : list nat; rresult : nat }.

Inductive ptr := PAbsent | PEmpty | PVal (id : nat).        (* run.json: missing, empty (truncated), {"id":n} *)
(* run/<id>: directory absent, or present with some log files and possibly a result file *)
Definition slot := option (list nat * option nat).

Record fs := { pointer : ptr; tmp : option nat; slots : nat -> slot }.

Definition set_slot (f : fs) (i : nat) (v : slot) : fs :=
  {| pointer := pointer f; tmp := tmp f; slots := fun j => if j =? i then v else slots f j |}.

Section T.
Variable M : nat.                  (* max_retained_runs *)

(* get_next_tracking_run: None = the invocation fails before doing anything (unparsable pointer) *)
Definition next_id (f : fs) : option nat :=
  match pointer f with
  | PAbsent => Some 1
  | PEmpty => None
  | PVal id => Some (if M <=? id then 1 else S id)
  end.

Inductive op := Wipe (i : nat)              (* remove_dir_all(run/<i>), errors ignored *)
              | Mkdir (i : nat)             (* create_dir_all(run/<i>): no effect on an existing directory *)
              | AddLog (i : nat) (l : nat)  (* a log file of this run is created in the slot *)
              | WriteResult (i : nat) (r : nat)
              | Truncate | WritePtr (i : nat)      (* Run::save as found *)
              | WriteTmp (i : nat) | Rename.       (* Run::save now *)

Definition apply (f : fs) (o : op) : fs :=
  match o with
  | Wipe i => set_slot f i None
  | Mkdir i => match slots f i with None => set_slot f i (Some ([], None)) | Some _ => f end
  | AddLog i l => match slots f i with
                  | Some (ls, r) => set_slot f i (Some (if existsb (Nat.eqb l) ls then ls else ls ++ [l], r))
                  | None => f end
  | WriteResult i r => match slots f i with Some (ls, _) => set_slot f i (Some (ls, Some r)) | None => f end
  | Truncate => {| pointer := PEmpty; tmp := tmp f; slots := slots f |}
  | WritePtr i => {| pointer := PVal i; tmp := tmp f; slots := slots f |}
  | WriteTmp i => {| pointer := pointer f; tmp := Some i; slots := slots f |}
  | Rename => match tmp f with
              | Some i => {| pointer := PVal i; tmp := None; slots := slots f |}
              | None => f end
  end.

Variable atomic_save : bool.

Definition run_ops (i : nat) (r : run_rec) : list op :=
  [Wipe i; Mkdir i] ++ map (AddLog i) (rlogs r) ++ [WriteResult i (rresult r)] ++
  (if atomic_save then [WriteTmp i; Rename] else [Truncate; WritePtr i]).

(* one complete run; an unparsable pointer makes the invocation fail without effects *)
Definition do_run (f : fs) (r : run_rec) : fs :=
  match next_id f with
  | Some i => fold_left apply (run_ops i r) f
  | None => f
  end.

Definition fs0 : fs := {| pointer := PAbsent; tmp := None; slots := fun _ => None |}.
Definition history (rs : list run_rec) : fs := fold_left do_run rs fs0.

(* what the user can observe: result show / log show (latest), log show --id n *)
Inductive shown := NoRun | Broken | Shows (logs : list nat) (result : nat).
Definition show_slot (f : fs) (id : nat) : shown :=
  match slots f id with Some (ls, Some r) => Shows ls r | _ => Broken end.
Definition show (f : fs) : shown :=
  match pointer f with
  | PAbsent => NoRun
  | PEmpty => Broken
  | PVal id => show_slot f id
  end.

(* a run killed after k of its effects *)
Definition crash (f : fs) (i : nat) (r : run_rec) (k : nat) : fs := fold_left apply (firstn k (run_ops i r)) f.

(* the slot of the n-th run (1-based) *)
Definition slot_of_run (n : nat) : nat := S ((n - 1) mod M).
End T.

(* a history during which max_retained_runs was edited between runs: each run comes with the limit it ran under *)
Definition history_var (atomic_save : bool) (rs : list (nat * run_rec)) : fs :=
  fold_left (fun f mr => do_run (fst mr) atomic_save f (snd mr)) rs fs0.

(* invocations of `run` that are rejected before anything is executed (unknown target or sequence, invalid argmap, ...) interleaved with
   completed runs.  [early_wipe] = true: the slot of the next run is recycled before the invocation is validated (pinned commit);
   false: only a valid invocation touches the store (code as it is now). *)
Inductive invocation := Completes (r : run_rec) | Rejected.
Definition do_invocation (M : nat) (early_wipe : bool) (f : fs) (v : invocation) : fs :=
  match v with
  | Completes r => do_run M true f r
  | Rejected => if early_wipe then match next_id M f with Some i => fold_left apply [Wipe i; Mkdir i] f | None => f end else f
  end.
Definition invocations (M : nat) (early_wipe : bool) (vs : list invocation) : fs := fold_left (do_invocation M early_wipe) vs fs0.
Definition completed (vs : list invocation) : list run_rec :=
  flat_map (fun v => match v with Completes r => [r] | Rejected => [] end) vs.
