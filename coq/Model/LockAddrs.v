(* The lock address is host:port, and a host name may resolve to K >= 1 socket addresses (localhost = ::1 + 127.0.0.1).
   Executable model of LockServer::acquire over such an address, with the two acquisition policies:
     bind_all = true   (code now)      bind every resolved address in order; AddrInUse on any of them fails the acquisition
                                       and releases what was bound so far
     bind_all = false  (pinned commit) TcpListener::bind(host:port): try the addresses in order, the first that binds is "the lock"
   Every process resolves the host to the same addresses in the same order.  No proofs here. *)
From Coq Require Import List Arith Bool.
Import ListNotations.

Inductive mstate :=
| MIdle
| MBinding (i : nat)      (* bound the first i addresses (bind_all) / found the first i in use (first-free); about to try address i *)
| MHolding                (* past lock acquisition *)
| MRefused
| MEnded.

Record msys := {
  owner : list (option nat);     (* per socket address: the process that has it bound *)
  mprocs : list mstate
}.

Inductive mchoice := MStart (p : nat) | MBind (p : nat) | MExit (p : nat).

Fixpoint set_at {A} (l : list A) (n : nat) (v : A) : list A :=
  match l, n with
  | [], _ => []
  | _ :: r, 0 => v :: r
  | x :: r, S k => x :: set_at r k v
  end.
Definition mget (s : msys) (p : nat) : mstate := nth p (mprocs s) MEnded.
Definition release_all (o : list (option nat)) (p : nat) : list (option nat) :=
  map (fun x => match x with Some q => if q =? p then None else Some q | None => None end) o.

Section Policy.
Variable bind_all : bool.

Definition mstep (s : msys) (c : mchoice) : msys :=
  let K := length (owner s) in
  match c with
  | MStart p =>
      match mget s p with
      | MIdle => {| owner := owner s; mprocs := set_at (mprocs s) p (if K =? 0 then MRefused else MBinding 0) |}
      | _ => s
      end
  | MBind p =>
      match mget s p with
      | MBinding i =>
          match nth i (owner s) (Some p) with
          | None =>          (* the address is free: bind it *)
              let o := set_at (owner s) i (Some p) in
              if bind_all then {| owner := o; mprocs := set_at (mprocs s) p (if S i =? K then MHolding else MBinding (S i)) |}
              else {| owner := o; mprocs := set_at (mprocs s) p MHolding |}
          | Some _ =>        (* AddrInUse *)
              if bind_all then {| owner := release_all (owner s) p; mprocs := set_at (mprocs s) p MRefused |}
              else {| owner := owner s; mprocs := set_at (mprocs s) p (if S i =? K then MRefused else MBinding (S i)) |}
          end
      | _ => s
      end
  | MExit p =>
      match mget s p with
      | MHolding | MRefused | MBinding _ => {| owner := release_all (owner s) p; mprocs := set_at (mprocs s) p MEnded |}
      | _ => s
      end
  end.

Definition minit (K n : nat) : msys := {| owner := repeat None K; mprocs := repeat MIdle n |}.
Definition mrun (K n : nat) (cs : list mchoice) : msys := fold_left mstep cs (minit K n).
End Policy.

Definition mholding (s : msys) (p : nat) : bool := match mget s p with MHolding => true | _ => false end.

(* What the resolver hands to bind_all: a list of socket addresses in which one address may occur more than once (a host name entered
   twice in the hosts file).  [dedup] = true: repeats are bound once (code now); false: every list entry is bound (the first version
   of bind_all).  A lone process, nobody else alive: binding an address it already holds fails with AddrInUse on its own listener. *)
Fixpoint bind_list (held : list nat) (addrs : list nat) : bool :=
  match addrs with
  | [] => true
  | a :: r => if existsb (Nat.eqb a) held then false else bind_list (a :: held) r
  end.
Definition acquire_alone (dedup : bool) (resolved : list nat) : bool :=
  bind_list [] (if dedup then nodup Nat.eq_dec resolved else resolved).
