(* Executable model of how `checkpoint update` writes its record (src/core/tracking.rs Checkpoint::save) when the file system may
   refuse the data.  [atomic] = true: temporary file, flush, sync, rename - an error is returned and the old file is untouched
   (code as it is now); false: truncate in place, the only write happens when the unflushed BufWriter is dropped, which ignores
   errors - the command reports success over an empty file (pinned commit).  No proofs here. *)
From Coq Require Import List Bool.
Import ListNotations.

Section S.
Variable cp : Type.

Inductive file := Absent | Holds (r : cp) | Garbage.      (* checkpoint.json.zst: missing / a complete record / an empty or partial frame *)
Inductive fate := Written | WriteFails.                   (* what the file system does with this save's data *)

Inductive op :=
| Update (r : cp) (w : fate)      (* an update that computed the record r (git worked) and then saves it *)
| UpdateRejected                  (* an update that fails before saving (git cannot be run, the existing file does not parse) *)
| Delete | OutDeleteAll | Show.

(* state after the operation, and whether the command reported success (exit status 0) *)
Definition step (atomic : bool) (f : file) (o : op) : file * bool :=
  match o with
  | Update r Written => match f with Garbage => (f, false) | _ => (Holds r, true) end       (* update opens the existing checkpoint first *)
  | Update r WriteFails => match f with
                           | Garbage => (f, false)
                           | _ => if atomic then (f, false) else (Garbage, true) end
  | UpdateRejected => (f, false)
  | Delete => match f with Absent => (Absent, false) | _ => (Absent, true) end
  | OutDeleteAll => (Absent, true)
  | Show => (f, match f with Holds _ => true | _ => false end)
  end.

Definition show (f : file) : option cp := match f with Holds r => Some r | _ => None end.

Fixpoint run (atomic : bool) (ops : list op) (f : file) : file :=
  match ops with [] => f | o :: rest => run atomic rest (fst (step atomic f o)) end.

(* the specification: the record of the most recent update that REPORTED success, unless a delete came after it *)
Fixpoint last_reported (atomic : bool) (ops : list op) (f : file) (acc : option cp) : option cp :=
  match ops with
  | [] => acc
  | o :: rest =>
    let '(f', ok) := step atomic f o in
    last_reported atomic rest f'
      match o with
      | Update r _ => if ok then Some r else acc
      | Delete | OutDeleteAll => None
      | _ => acc
      end
  end.
End S.
Arguments Absent {cp}. Arguments Holds {cp}. Arguments Garbage {cp}.
Arguments Update {cp}. Arguments UpdateRejected {cp}. Arguments Delete {cp}. Arguments OutDeleteAll {cp}. Arguments Show {cp}.
