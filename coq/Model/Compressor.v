(* Executable model of src/app/log.rs Compressor: `register` hands every log file to one of T threads
   round-robin and returns (thread, encoder index); clients send Data(encoder index, bytes) on their thread's
   FIFO channel; each thread pops requests and appends to the encoder with that index.
   No proofs here. *)
From Coq Require Import List Arith NArith Bool.
From MR Require Import Model.Reader.
Import ListNotations.

Section C.
Variable T : nat.                       (* num_threads (2 in process_plan) *)

(* the r-th registration (r = 0, 1, ...) *)
Definition thread_of (r : nat) : nat := r mod T.
Definition index_of (r : nat) : nat := r / T.

Record cst := {
  queue : nat -> list (nat * bytes);    (* per thread: pending (encoder index, data) *)
  file : nat -> nat -> bytes            (* per thread, per encoder index: what has been written *)
}.

Inductive cchoice :=
| CSend (r : nat) (d : bytes)           (* client r sends a Data request *)
| CRecv (k : nat).                      (* thread k processes its next request *)

Definition cstep (s : cst) (c : cchoice) : cst :=
  match c with
  | CSend r d =>
      {| queue := fun k => if k =? thread_of r then queue s k ++ [(index_of r, d)] else queue s k;
         file := file s |}
  | CRecv k =>
      match queue s k with
      | [] => s
      | (i, d) :: rest =>
          {| queue := fun k' => if k' =? k then rest else queue s k';
             file := fun k' i' => if (k' =? k) && (i' =? i) then file s k i ++ d else file s k' i' |}
      end
  end.

Definition cinit : cst := {| queue := fun _ => []; file := fun _ _ => [] |}.
Definition crun (cs : list cchoice) : cst := fold_left cstep cs cinit.

(* what client r has sent so far, in order *)
Fixpoint sent_by (r : nat) (cs : list cchoice) : bytes :=
  match cs with
  | [] => []
  | CSend r' d :: rest => (if r' =? r then d else []) ++ sent_by r rest
  | CRecv _ :: rest => sent_by r rest
  end.
Definition pending (s : cst) (k i : nat) : bytes :=
  concat (map snd (filter (fun '(i', _) => i' =? i) (queue s k))).
End C.

(* ---- the shutdown protocol (process_plan: every client sends Shutdown after its last message; Compressor::run:
   a thread leaves its loop when it has seen a Shutdown from every client registered with it; a send on a channel
   whose thread has left fails, which aborts the whole run with an internal error) ---- *)
Section Shutdown.
Variable T : nat.                       (* threads *)
Variable n : nat.                       (* registered clients 0 .. n-1; client r talks to thread r mod T *)
Variable count_clients : bool.          (* true: leave after one Shutdown per registered client (code now);
                                           false: leave at the first Shutdown (pinned commit) *)
Inductive smsg := MData | MShutdown.
Record sst := {
  squeue : nat -> list smsg;
  alive : nat -> bool;
  got : nat -> nat;                     (* Shutdowns a thread has processed *)
  cdone : nat -> bool;                  (* the client has sent its Shutdown (it sends nothing afterwards) *)
  send_failed : bool
}.
Inductive schoice := SData (r : nat) | SShutdown (r : nat) | SRecv (k : nat).

Definition nclients (k : nat) : nat := length (filter (fun r => r mod T =? k) (seq 0 n)).

Definition enqueue (s : sst) (k : nat) (m : smsg) : sst :=
  if alive s k then
    {| squeue := fun k' => if k' =? k then squeue s k' ++ [m] else squeue s k'; alive := alive s; got := got s;
       cdone := cdone s; send_failed := send_failed s |}
  else
    {| squeue := squeue s; alive := alive s; got := got s; cdone := cdone s; send_failed := true |}.

Definition sstep (s : sst) (c : schoice) : sst :=
  match c with
  | SData r => if (r <? n) && negb (cdone s r) then enqueue s (r mod T) MData else s
  | SShutdown r =>
      if (r <? n) && negb (cdone s r) then
        let s' := enqueue s (r mod T) MShutdown in
        {| squeue := squeue s'; alive := alive s'; got := got s';
           cdone := fun r' => if r' =? r then true else cdone s r'; send_failed := send_failed s' |}
      else s
  | SRecv k =>
      if alive s k then
        match squeue s k with
        | [] => s
        | MData :: rest =>
            {| squeue := fun k' => if k' =? k then rest else squeue s k'; alive := alive s; got := got s;
               cdone := cdone s; send_failed := send_failed s |}
        | MShutdown :: rest =>
            let g := S (got s k) in
            let leaves := if count_clients then nclients k <=? g else true in
            {| squeue := fun k' => if k' =? k then rest else squeue s k';
               alive := fun k' => if k' =? k then negb leaves else alive s k';
               got := fun k' => if k' =? k then g else got s k';
               cdone := cdone s; send_failed := send_failed s |}
        end
      else s
  end.

Definition sinit : sst :=
  {| squeue := fun _ => []; alive := fun _ => true; got := fun _ => 0; cdone := fun _ => false; send_failed := false |}.
Definition srun (cs : list schoice) : sst := fold_left sstep cs sinit.
End Shutdown.
