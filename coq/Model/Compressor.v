(* Executable model of src/app/log.rs Compressor: `register` hands every log file to one of T threads
   round-robin and returns (thread, encoder index); clients send Data(encoder index, bytes) on their thread's
   FIFO channel; each thread pops requests and appends to the encoder with that index.
   No proofs here. *)
From Coq Require Import List Arith NArith Bool.
From MR Require Import Model.Reader.
Import ListNotations.

Section C.
Variable T : nat.                       (* num_threads (2 in process_plan) *)

(* the r-th registration (r = 0, 1, ...) *)
Definition thread_of (r : nat) : nat := r mod T.
Definition index_of (r : nat) : nat := r / T.

Record cst := {
  queue : nat -> list (nat * bytes);    (* per thread: pending (encoder index, data) *)
  file : nat -> nat -> bytes            (* per thread, per encoder index: what has been written *)
}.

Inductive cchoice :=
| CSend (r : nat) (d : bytes)           (* client r sends a Data request *)
| CRecv (k : nat).                      (* thread k processes its next request *)

Definition cstep (s : cst) (c : cchoice) : cst :=
  match c with
  | CSend r d =>
      {| queue := fun k => if k =? thread_of r then queue s k ++ [(index_of r, d)] else queue s k;
         file := file s |}
  | CRecv k =>
      match queue s k with
      | [] => s
      | (i, d) :: rest =>
          {| queue := fun k' => if k' =? k then rest else queue s k';
             file := fun k' i' => if (k' =? k) && (i' =? i) then file s k i ++ d else file s k' i' |}
      end
  end.

Definition cinit : cst := {| queue := fun _ => []; file := fun _ _ => [] |}.
Definition crun (cs : list cchoice) : cst := fold_left cstep cs cinit.

(* what client r has sent so far, in order *)
Fixpoint sent_by (r : nat) (cs : list cchoice) : bytes :=
  match cs with
  | [] => []
  | CSend r' d :: rest => (if r' =? r then d else []) ++ sent_by r rest
  | CRecv _ :: rest => sent_by r rest
  end.
Definition pending (s : cst) (k i : nat) : bytes :=
  concat (map snd (filter (fun '(i', _) => i' =? i) (queue s k))).
End C.
