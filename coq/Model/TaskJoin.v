(* Executable model of how CommandTask::run (src/app/run.rs) awaits the two log readers of one task when the task's group is
   cancelled.  Each reader then performs its final flush - two steps: the buffered lines go to the compressor (stored log), then the
   same lines are written to the log stream (they wait for the shared connection there) - and returns the error TaskCancelled.
     join_both = true   (code now)      the task future completes when BOTH readers have returned
     join_both = false  (pinned commit) one try_join! over both readers: it completes as soon as ONE reader has returned and drops the
                                        other wherever it is
   A dropped future makes no further step.  No proofs here. *)
From Coq Require Import List Bool.
Import ListNotations.

Inductive fphase := FPending | FCompressed | FDone.    (* nothing done | lines handed to the compressor | also written to the stream *)
Record tjoin := { r0 : fphase; r1 : fphase; completed : bool }.
Inductive jchoice := Adv (second : bool) | PollTask.

Definition adv (p : fphase) : fphase := match p with FPending => FCompressed | FCompressed => FDone | FDone => FDone end.
Definition is_done (p : fphase) : bool := match p with FDone => true | _ => false end.

Section J.
Variable join_both : bool.
Definition jstep (s : tjoin) (c : jchoice) : tjoin :=
  if completed s then s else
  match c with
  | Adv false => {| r0 := adv (r0 s); r1 := r1 s; completed := false |}
  | Adv true => {| r0 := r0 s; r1 := adv (r1 s); completed := false |}
  | PollTask =>
      let ready := if join_both then is_done (r0 s) && is_done (r1 s) else is_done (r0 s) || is_done (r1 s) in
      {| r0 := r0 s; r1 := r1 s; completed := ready |}
  end.
Definition jinit : tjoin := {| r0 := FPending; r1 := FPending; completed := false |}.
Definition jrun (cs : list jchoice) : tjoin := fold_left jstep cs jinit.
End J.

(* a reader's lines are in the stored log but were never relayed *)
Definition torn (p : fphase) : bool := match p with FCompressed => true | _ => false end.
