From Coq Require Import List Arith Bool Lia.
Import ListNotations.

(* Executable model of src/app/run.rs process_plan / schedule_task / process_task_results as a deterministic
   step function over an arbitrary list of choices (which child exits next, which finished task is reaped next,
   when the scheduler itself advances).  A choice that is not enabled is a no-op, so every list is a schedule and
   every real schedule is some list.  No proofs here. *)
Inductive defn := Defined | Undefined | NotExec.
Definition group := list defn.            (* members, by index; names are irrelevant to scheduling *)
Definition cmdplan := list group.         (* the target groups of one command, dependencies first *)
Definition plan := list cmdplan.          (* commands in execution order *)

Definition task := (nat * nat * nat)%type. (* command index, group index, member index *)
Definition task_eqb (a b : task) : bool :=
  let '(a1, a2, a3) := a in let '(b1, b2, b3) := b in (a1 =? b1) && (a2 =? b2) && (a3 =? b3).
Definition tmem (t : task) (l : list task) := existsb (task_eqb t) l.
Definition tremove (t : task) (l : list task) := filter (fun x => negb (task_eqb t x)) l.

Inductive status := Success | Error (code : option nat) | SUndefined | SNotExec | Skipped.
Inductive event := Spawn (t : task) | Exit (t : task) (code : nat).
Inductive phase := Spawning (k : nat) | Waiting | Finished.

Record st := {
  cpos : nat; gpos : nat; ph : phase;
  failed : bool;            (* the latch of process_plan *)
  cancelled : bool;         (* the group's CancellationToken *)
  tracked : list task;      (* tasks in the JoinSet *)
  running : list task;      (* children spawned and not yet exited (tracked or orphaned) *)
  exited : list task;       (* children that exited *)
  results : list (task * status);
  trace : list event        (* newest first *)
}.

Inductive choice := SchedStep | ChildExit (t : task) | Reap (t : task) | ReapCancelled (t : task).

Section Run.
Variable P : plan.
Variable fail_on_undefined : bool.
Variable code : task -> nat.     (* how each child will end: 0..255 = its exit code; >= 256 = killed by a signal
                                    (ExitStatus::success() is false and ExitStatus::code() is None) *)

Definition init : st :=
  {| cpos := 0; gpos := 0; ph := Spawning 0; failed := false; cancelled := false;
     tracked := []; running := []; exited := []; results := []; trace := [] |}.

Definition cur_group (s : st) : option group :=
  match nth_error P (cpos s) with
  | Some cp => nth_error cp (gpos s)
  | None => None
  end.

Definition skip_command (c : nat) (cp : cmdplan) : list (task * status) :=
  flat_map (fun '(g, grp) => map (fun k => ((c, g, k), Skipped)) (seq 0 (length grp)))
           (combine (seq 0 (length cp)) cp).

(* advance to the next group, or the next command, skipping whole commands once failed *)
Definition next_position (s : st) : st :=
  match nth_error P (cpos s) with
  | None => {| cpos := cpos s; gpos := gpos s; ph := Finished; failed := failed s; cancelled := false;
               tracked := tracked s; running := running s; exited := exited s;
               results := results s; trace := trace s |}
  | Some cp =>
      if S (gpos s) <? length cp then
        {| cpos := cpos s; gpos := S (gpos s); ph := Spawning 0; failed := failed s; cancelled := false;
           tracked := tracked s; running := running s; exited := exited s;
           results := results s; trace := trace s |}
      else
        {| cpos := S (cpos s); gpos := 0; ph := Spawning 0; failed := failed s; cancelled := false;
           tracked := tracked s; running := running s; exited := exited s;
           results := results s; trace := trace s |}
  end.

Definition with_result (s : st) (t : task) (r : status) (f : bool) (k' : nat) : st :=
  {| cpos := cpos s; gpos := gpos s; ph := Spawning k'; failed := failed s || f; cancelled := cancelled s;
     tracked := tracked s; running := running s; exited := exited s;
     results := (t, r) :: results s; trace := trace s |}.

Definition sched_step (s : st) : st :=
  match ph s with
  | Finished => s
  | Waiting => match tracked s with [] => next_position s | _ => s end
  | Spawning k =>
      match nth_error P (cpos s) with
      | None => {| cpos := cpos s; gpos := gpos s; ph := Finished; failed := failed s; cancelled := cancelled s;
                   tracked := tracked s; running := running s; exited := exited s;
                   results := results s; trace := trace s |}
      | Some cp =>
          if failed s && (gpos s =? 0) && (k =? 0) then
            (* `if failed { results.push(create_skipped_result(..)); continue; }` *)
            {| cpos := S (cpos s); gpos := 0; ph := Spawning 0; failed := true; cancelled := false;
               tracked := tracked s; running := running s; exited := exited s;
               results := skip_command (cpos s) cp ++ results s; trace := trace s |}
          else
          match nth_error cp (gpos s) with
          | None => next_position s       (* command without groups *)
          | Some grp =>
              match nth_error grp k with
              | None => {| cpos := cpos s; gpos := gpos s; ph := Waiting; failed := failed s; cancelled := cancelled s;
                           tracked := tracked s; running := running s; exited := exited s;
                           results := results s; trace := trace s |}
              | Some d =>
                  let t := (cpos s, gpos s, k) in
                  if failed s then with_result s t Skipped false (S k)
                  else match d with
                       | Undefined => with_result s t SUndefined fail_on_undefined (S k)
                       | NotExec => with_result s t SNotExec true (S k)
                       | Defined =>
                           {| cpos := cpos s; gpos := gpos s; ph := Spawning (S k); failed := false;
                              cancelled := cancelled s;
                              tracked := t :: tracked s; running := t :: running s; exited := exited s;
                              results := results s; trace := Spawn t :: trace s |}
                       end
              end
          end
      end
  end.

Definition step (s : st) (c : choice) : st :=
  match c with
  | SchedStep => sched_step s
  | ChildExit t =>
      if tmem t (running s) then
        {| cpos := cpos s; gpos := gpos s; ph := ph s; failed := failed s; cancelled := cancelled s;
           tracked := tracked s; running := tremove t (running s); exited := t :: exited s;
           results := results s; trace := Exit t (code t) :: trace s |}
      else s
  | Reap t =>
      match ph s with
      | Waiting =>
          if tmem t (tracked s) && tmem t (exited s) then
            let ok := code t =? 0 in
            {| cpos := cpos s; gpos := gpos s; ph := Waiting; failed := failed s || negb ok;
               cancelled := cancelled s || negb ok;
               tracked := tremove t (tracked s); running := running s; exited := exited s;
               results := (t, if ok then Success else Error (if code t <? 256 then Some (code t) else None)) :: results s;
               trace := trace s |}
          else s
      | _ => s
      end
  | ReapCancelled t =>
      match ph s with
      | Waiting =>
          if cancelled s && tmem t (tracked s) then
            {| cpos := cpos s; gpos := gpos s; ph := Waiting; failed := true; cancelled := true;
               tracked := tremove t (tracked s); running := running s; exited := exited s;
               results := (t, Error None) :: results s; trace := trace s |}
          else s
      | _ => s
      end
  end.

Definition run (cs : list choice) : st := fold_left step cs init.

End Run.



(* get_all_commands: expanded sequences first, then --commands, each in the order given;
   None when a named sequence is not defined *)
Fixpoint expand_sequences {C S} (lookup : S -> option (list C)) (seqs : list S) : option (list C) :=
  match seqs with
  | [] => Some []
  | s :: r => match lookup s, expand_sequences lookup r with
              | Some cs, Some rest => Some (cs ++ rest)
              | _, _ => None end
  end.
Definition all_commands {C S} (lookup : S -> option (list C)) (seqs : list S) (commands : list C) : option (list C) :=
  match expand_sequences lookup seqs with Some cs => Some (cs ++ commands) | None => None end.

(* exit status of the invocation: 1 when the run failed, 0 otherwise (an internal error would be 2) *)
Definition exit_status (s : st) : nat := if failed s then 1 else 0.
