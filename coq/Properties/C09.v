(* C09 - Cyclic configurations are always rejected (graph level): never groups, never a panic,
   never fuel exhaustion - termination is part of the statement because the model's loops run on fuel
   and running out of it is the distinct outcome Panic. *)
From Coq Require Import List Arith.
From MR Require Import Model.Dag Proofs.DagApi.
Import ListNotations.

Definition C09_dag_statement (api : list (list nat) -> list nat -> res (list (list nat))) : Prop :=
  forall a roots, let g := {| adj := a; vis := repeat false (length a) |} in
    wf g -> (forall r, In r roots -> r < length a) ->
    cyclic_from g roots ->
    exists n, api a roots = ErrCycle n.

Theorem C09_holds : C09_dag_statement api_groups.
Proof. exact C09_dag. Qed.

(* non-vacuity: a 3-cycle hanging under an acyclic root *)
Example C09_nonvacuous : exists n, api_groups [[1]; [2]; [3]; [1]] [0] = ErrCycle n.
Proof. eexists. vm_compute. reflexivity. Qed.

Print Assumptions C09_holds.
