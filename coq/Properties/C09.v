(* C09 - Cyclic configurations are always rejected (graph level): never groups, never a panic,
   never fuel exhaustion - termination is part of the statement because the model's loops run on fuel
   and running out of it is the distinct outcome Panic. *)
From Coq Require Import List Arith.
From MR Require Import Lib.Bytes Model.Index Model.Dag Model.IndexGroups Proofs.IndexProof Proofs.DagApi Proofs.IndexGroupsProof.
Import ListNotations.

Definition C09_dag_statement (api : list (list nat) -> list nat -> res (list (list nat))) : Prop :=
  forall a roots, let g := {| adj := a; vis := repeat false (length a) |} in
    wf g -> (forall r, In r roots -> r < length a) ->
    cyclic_from g roots ->
    exists n, api a roots = ErrCycle n.

Theorem C09_holds : C09_dag_statement api_groups.
Proof. exact C09_dag. Qed.

(* non-vacuity: a 3-cycle hanging under an acyclic root *)
Example C09_nonvacuous : exists n, api_groups [[1]; [2]; [3]; [1]] [0] = ErrCycle n.
Proof. eexists. vm_compute. reflexivity. Qed.


(* configuration level: a cycle of the DECLARED dependency relation (through `uses` alone or through `uses`
   combined with nesting - dep covers both) reachable from the requested targets is always rejected *)
Definition C09_index_statement (groups : config -> list nat -> res (list (list nat))) : Prop :=
  forall cfg roots, wf_config cfg -> (forall r, In r roots -> r < length cfg) ->
    let g := cfg_graph cfg in
    (forall i j, edge g i j <-> dep_idx cfg i j) /\
    (cyclic_from g roots -> exists n, groups cfg roots = ErrCycle n).

Theorem C09_index_holds : C09_index_statement (fun cfg roots => api_groups (adj_of cfg) roots).
Proof.
  intros cfg roots Hwf Hr. destruct (index_groups_spec cfg roots Hwf Hr) as (H1 & _ & H3). split; assumption.
Qed.

Print Assumptions C09_holds.
Print Assumptions C09_index_holds.
