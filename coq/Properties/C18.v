(* C18 - Configuration meaning depends only on its JSON value. *)
From Coq Require Import List Bool.
From MR Require Import Model.CfgFile Proofs.CfgFileProof.
Import ListNotations.

Section C18.
Variable byte digest value : Type.
Notation bytes := (list byte).
Variable digest_eqb : digest -> digest -> bool.
Variable sha : bytes -> digest.
Variable parse : bytes -> option value.          (* the JSON value a file denotes (None: not a configuration) *)
Variable get_sum : value -> option digest.
Variable has_source : value -> bool.

(* every API computes its output from [loaded_value file] (and, for configs with a source, the check);
   so two serialisations of the same value - any whitespace, key order, size - are indistinguishable *)
Definition C18_statement (window : bytes -> bytes) : Prop :=
  (forall b1 b2, parse b1 = parse b2 ->
     loaded_value byte digest value sha parse window b1 = loaded_value byte digest value sha parse window b2) /\
  (forall b, (exists v, loaded_value byte digest value sha parse window b = Some v) <-> (exists v, parse b = Some v)) /\
  (forall b v src lock, parse b = Some v -> has_source v = false ->
     usable byte digest value digest_eqb sha parse get_sum has_source window src b lock = true).

Theorem C18_holds : C18_statement (fun b => b).
Proof.
  split; [|split].
  - apply C18_value_only.
  - apply C18_accept_iff.
  - intros. eapply C18_sourceless; eauto.
Qed.
End C18.
Print Assumptions C18_holds.
