(* C08 - Stored logs are byte-exact and isolated per task. *)
From Coq Require Import List Arith NArith Bool.
From MR Require Import Model.Reader Model.Compressor Proofs.ReaderProof Proofs.CompressorProof.
Import ListNotations.

Definition C08_statement
  (reader : bool -> (nat -> bool) -> bool -> list ev -> rst)                 (* tolerant, sink, stream attached, events *)
  (compressor : nat -> list cchoice -> cst) : Prop :=
  (* byte-exact: for every sequence of write chunks, pauses (ticks) and polls - any line lengths, no trailing
     newline, pauses in the middle of a line, any bytes -, once the reader has returned without error the
     compressor has been handed exactly the bytes the process wrote, in order *)
  (forall tolerant sink stream es, let s := reader tolerant sink stream es in
     ended s = true -> failed s = false -> out s = arrived es) /\
  (* isolated: with T >= 1 compressor threads and any interleaving of the tasks' sends and the threads' work,
     what is written to (plus what is still queued for) a log file is exactly what its own client sent *)
  (forall T cs r, 0 < T ->
     file (compressor T cs) (thread_of T r) (index_of T r) ++ pending (compressor T cs) (thread_of T r) (index_of T r)
     = sent_by r cs).

Theorem C08_holds : C08_statement (run true) crun.
Proof.
  split.
  - intros tolerant sink stream es. apply reader_exact.
  - intros T cs r HT. apply compressor_isolated. exact HT.
Qed.

(* non-vacuity: "AAA " <flush tick> "BBB\n" <eof>, the schedule that loses bytes in the pinned commit *)
Example C08_nonvacuous :
  let es := [Arrive [65;65;65;32]; Poll; Tick; Arrive [66;66;66;10]; Poll; Close; Poll; Poll]%N in
  let s := run true true (fun _ => true) false es in
  ended s = true /\ failed s = false /\ out s = [65;65;65;32;66;66;66;10]%N.
Proof. vm_compute. auto. Qed.

(* liveness (supporting the first clause): its premise [ended s = true] is met by every run - after the child has
   closed the pipe, any continuation (ticks, late events, in any order) that polls at least (bytes still unread + 2)
   times makes the reader return *)
Definition C08_liveness_statement (reader : bool -> (nat -> bool) -> bool -> list ev -> rst) : Prop :=
  forall tolerant sink stream es es',
    2 + length (inner (reader tolerant sink stream (es ++ [Close]))) <= polls es' ->
    ended (reader tolerant sink stream (es ++ Close :: es')) = true.

Theorem C08_liveness_holds : C08_liveness_statement (run true).
Proof. intros tolerant sink stream es es'. apply reader_terminates. Qed.

(* liveness (supporting the second clause): the queues drain - after as many receives by its thread as there are
   requests queued for it, a log file holds exactly the bytes its own client sent *)
Definition C08_drain_statement (compressor : nat -> list cchoice -> cst) : Prop :=
  forall T cs r, 0 < T ->
    let k := thread_of T r in
    file (compressor T (cs ++ repeat (CRecv k) (length (queue (compressor T cs) k)))) k (index_of T r) = sent_by r cs.

Theorem C08_drain_holds : C08_drain_statement crun.
Proof. intros T cs r HT. apply compressor_drains. exact HT. Qed.

Print Assumptions C08_holds.
Print Assumptions C08_liveness_holds.
Print Assumptions C08_drain_holds.
