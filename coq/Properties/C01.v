(* C01 - Change-to-target mapping is exact.
   Statement, theorem for the current model, non-vacuity example, assumptions. *)
From Coq Require Import List NArith Sorting.Sorted String.
From MR Require Import Lib.Bytes Lib.Val Model.Index Proofs.IndexProof.
Import ListNotations.
Open Scope string_scope.

(* [spec_changed dc cfg changes t] (Model/Index.v) is the property's sentence, component-wise:
   some changed path p, not inside one of t's ignores, lies inside t's directory, or inside a `uses` entry of a
   target n nested in (or equal to) t that does not itself ignore p.  [dc] selects the reading of the one case
   the documentation leaves open (a `uses` entry naming a target that itself ignores p): dc = true skips such
   an entry, dc = false counts it.  The statement accepts anything between the two readings. *)
Definition C01_statement
  (summary_k : nat -> config -> list str -> list str)
  (breakdown : config -> list str -> list (str * list (str * reason))) : Prop :=
  forall k cfg changes, k > 0 -> wf_config cfg -> (forall p, In p changes -> wf_path p) ->
    (* exactness, up to the documented don't-care *)
    (forall t, In t cfg ->
       (spec_changed true cfg changes t = true -> In (tpath t) (summary_k k cfg changes)) /\
       (In (tpath t) (summary_k k cfg changes) -> spec_changed false cfg changes t = true)) /\
    (* nothing but configured targets *)
    (forall z, In z (summary_k k cfg changes) -> In z (target_paths cfg)) /\
    (* sorted and duplicate-free *)
    StronglySorted lex_lt (summary_k k cfg changes) /\
    (* equal to the union of the non-ignored entries of the per-change breakdown *)
    (forall z, In z (summary_k k cfg changes) <->
       exists p brk r, In (p, brk) (breakdown cfg changes) /\ In (z, r) brk /\ r <> RIgnores) /\
    (* independent of order, multiplicity and batch size *)
    (forall k' changes', k' > 0 -> (forall p, In p changes <-> In p changes') ->
       summary_k k cfg changes = summary_k k' cfg changes').

Theorem C01_holds : C01_statement summary_k breakdown.
Proof. exact C01_all. Qed.

(* non-vacuity: nested target, string-prefix sibling, a uses entry, an ignore; two changes *)
Definition ex_cfg : config :=
  [ {| tpath := bs "app";      uses := [bs "common/log"]; ignores := [bs "app/README.md"] |};
    {| tpath := bs "app2";     uses := [];                ignores := [] |};
    {| tpath := bs "app/core"; uses := [bs "lib"];        ignores := [] |} ].
Example C01_nonvacuous :
  wf_config ex_cfg /\
  summary_k 50 ex_cfg [bs "app2/f.txt"; bs "lib/x.rs"; bs "app/README.md"] = [bs "app"; bs "app/core"; bs "app2"].
Proof. split; [apply wf_config_b_spec|]; vm_compute; reflexivity. Qed.

Print Assumptions C01_holds.
