(* C07 - After `checkpoint update --pending` nothing is changed; later edits re-flag exactly. *)
From Coq Require Import List Bool.
From MR Require Import Model.Git Proofs.GitProof.
Import ListNotations.

Section C07.
Variable path content digest : Type.
Variable path_eqb : path -> path -> bool.
Hypothesis path_eqb_eq : forall a b, path_eqb a b = true <-> a = b.
Variable content_eqb : content -> content -> bool.
Hypothesis content_eqb_eq : forall a b, content_eqb a b = true <-> a = b.
Variable digest_eqb : digest -> digest -> bool.
Hypothesis digest_eqb_eq : forall a b, digest_eqb a b = true <-> a = b.
Variable sha : content -> digest.
Variable empty_digest : digest.
(* SHA-256 idealised: injective, and never the empty string that stands for "no such file" *)
Hypothesis sha_inj : forall a b, sha a = sha b -> a = b.
Hypothesis sha_nonempty : forall a, sha a <> empty_digest.

Notation repo := (repo path content).
Notation tree := (tree path content).
Notation pending := (pending path digest).

Definition C07_statement
  (update_p : repo -> option pending -> tree * option pending)
  (changes : repo -> tree -> option pending -> list path) : Prop :=
  (* fixpoint: whatever the state r and whatever was stored before, right after the update nothing is changed
     (hence no targets, hence an empty plan) - and this applies again to any later state, which is the
     "updating again clears them" clause *)
  (forall r old, let '(c, pn) := update_p r old in changes r c pn = []) /\
  (* re-flag: in a later state r', a path whose state (content or absence) differs from the checkpoint commit's
     and from its state at update time is reported - whatever any EARLIER update had recorded ... *)
  (forall r old r' p, let '(c, pn) := update_p r old in
     In p (universe r') -> ignored r' p = false ->
     work r' p <> c p -> work r' p <> work r p ->
     In p (changes r' c pn)) /\
  (* ... and a tracked path whose content equals the checkpoint commit's is not *)
  (forall r' c pn p, tracked r' p = true -> work r' p = c p -> ~ In p (changes r' c pn)).

Theorem C07_holds :
  C07_statement (update_p path content digest path_eqb content_eqb digest_eqb sha empty_digest)
                (all_changes path content digest path_eqb content_eqb digest_eqb sha empty_digest).
Proof.
  split; [|split].
  - intros r old. apply (C07_fixpoint path content digest path_eqb path_eqb_eq content_eqb digest_eqb digest_eqb_eq).
  - intros r old r' p.
    pose proof (update_p_records_current path content digest path_eqb path_eqb_eq content_eqb digest_eqb sha empty_digest r old) as Hrec.
    unfold Git.update_p, Git.update_p_with in *. simpl in Hrec. intros Hu Hi Hc Hw.
    apply (C07_reflag path content digest path_eqb content_eqb content_eqb_eq digest_eqb digest_eqb_eq); auto.
    intros m d E El. pose proof (Hrec m p d E El) as Hd.
    apply (novel_checksum path content digest sha empty_digest sha_inj sha_nonempty r r' p d Hd). congruence.
  - intros r' c pn p. apply (C07_unchanged_not_reported path content digest path_eqb content_eqb content_eqb_eq digest_eqb digest_eqb_eq).
Qed.
End C07.

Print Assumptions C07_holds.
