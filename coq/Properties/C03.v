(* C03 - Target groups are a valid dependency layering of every acyclic configuration (graph level).
   Statement, theorem for the current model, non-vacuity example, assumptions. *)
From Coq Require Import List Arith.
From MR Require Import Lib.Bytes Model.Index Model.Dag Model.IndexGroups Proofs.IndexProof Proofs.DagApi Proofs.IndexGroupsProof.
Import ListNotations.

(* [api a roots]: build the graph with adjacency list a, make the subtree of every root visible, group.
   [valid_layering] (Model/Dag.v): the groups are duplicate-free, contain exactly the nodes reachable from
   the roots, none is empty, and every node sits in a strictly later group than each of its dependencies. *)
Definition C03_dag_statement (api : list (list nat) -> list nat -> res (list (list nat))) : Prop :=
  forall a roots, let g := {| adj := a; vis := repeat false (length a) |} in
    wf g -> (forall r, In r roots -> r < length a) ->
    ~ cyclic_from g roots ->
    exists gs, api a roots = Ok gs /\ valid_layering g roots gs.

Theorem C03_holds : C03_dag_statement api_groups.
Proof. exact C03_dag. Qed.

(* non-vacuity: the diamond a -> {b, c}, b -> c, declared a, b, c (the order the pinned commit rejected) *)
Example C03_nonvacuous :
  api_groups [[1; 2]; [2]; []] [0; 1; 2] = Ok [[2]; [1]; [0]] /\
  valid_layering_b [[1; 2]; [2]; []] [0; 1; 2] [[2]; [1]; [0]] = true.
Proof. split; vm_compute; reflexivity. Qed.


(* ---- configuration level: the graph is the one Index::new builds from a well-formed configuration, its edges
   are exactly the declared dependency relation (C10), the roots are the requested targets (all targets, or the
   named ones; their dependency closure is what becomes visible) ---- *)
Definition C03_index_statement (groups : config -> list nat -> res (list (list nat))) : Prop :=
  forall cfg roots, wf_config cfg -> (forall r, In r roots -> r < length cfg) ->
    let g := cfg_graph cfg in
    (forall i j, edge g i j <-> dep_idx cfg i j) /\
    (~ cyclic_from g roots -> exists gs, groups cfg roots = Ok gs /\ valid_layering g roots gs).

Theorem C03_index_holds : C03_index_statement (fun cfg roots => api_groups (adj_of cfg) roots).
Proof.
  intros cfg roots Hwf Hr. destruct (index_groups_spec cfg roots Hwf Hr) as (H1 & H2 & _). split; assumption.
Qed.

(* ---- pruning to the changed targets (analyze --target-groups with a checkpoint, run without targets):
   for ANY set of targets to keep, the pruned groups partition exactly the kept members, have no empty group,
   and a kept target that sat in a strictly earlier group than another kept target still does ---- *)
Definition C03_prune_statement (prune : list (list str) -> list str -> list (list str)) : Prop :=
  forall gs keep, NoDup (concat gs) ->
    NoDup (concat (prune gs keep)) /\
    (forall x, In x (concat (prune gs keep)) <-> In x (concat gs) /\ mem_str x keep = true) /\
    (forall g, In g (prune gs keep) -> g <> []) /\
    (forall x y, before gs x y -> mem_str x keep = true -> mem_str y keep = true -> before (prune gs keep) x y).

Theorem C03_prune_holds : C03_prune_statement prune.
Proof. exact prune_spec. Qed.

Print Assumptions C03_holds.
Print Assumptions C03_index_holds.
Print Assumptions C03_prune_holds.
