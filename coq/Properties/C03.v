(* C03 - Target groups are a valid dependency layering of every acyclic configuration (graph level).
   Statement, theorem for the current model, non-vacuity example, assumptions. *)
From Coq Require Import List Arith.
From MR Require Import Model.Dag Proofs.DagApi.
Import ListNotations.

(* [api a roots]: build the graph with adjacency list a, make the subtree of every root visible, group.
   [valid_layering] (Model/Dag.v): the groups are duplicate-free, contain exactly the nodes reachable from
   the roots, none is empty, and every node sits in a strictly later group than each of its dependencies. *)
Definition C03_dag_statement (api : list (list nat) -> list nat -> res (list (list nat))) : Prop :=
  forall a roots, let g := {| adj := a; vis := repeat false (length a) |} in
    wf g -> (forall r, In r roots -> r < length a) ->
    ~ cyclic_from g roots ->
    exists gs, api a roots = Ok gs /\ valid_layering g roots gs.

Theorem C03_holds : C03_dag_statement api_groups.
Proof. exact C03_dag. Qed.

(* non-vacuity: the diamond a -> {b, c}, b -> c, declared a, b, c (the order the pinned commit rejected) *)
Example C03_nonvacuous :
  api_groups [[1; 2]; [2]; []] [0; 1; 2] = Ok [[2]; [1]; [0]] /\
  valid_layering_b [[1; 2]; [2]; []] [0; 1; 2] [[2]; [1]; [0]] = true.
Proof. split; vm_compute; reflexivity. Qed.

Print Assumptions C03_holds.
