(* C16 - All members of a target group execute concurrently. *)
From Coq Require Import List Arith.
From MR Require Import Model.Sched Proofs.SchedProof Proofs.SchedLive.
Import ListNotations.

(* From the moment the scheduler reaches a group whose members are all defined and executable, scheduler steps
   ALONE - not a single child exit or reap in between - start every member; only then does it begin to wait.
   Hence members that each wait for all the others to have started can all make progress, for any group size. *)
Definition C16_statement (sched_step : plan -> bool -> st -> st) : Prop :=
  forall P fou s grp,
    cur_group P s = Some grp -> ph s = Spawning 0 -> failed s = false ->
    (forall j, j < length grp -> nth_error grp j = Some Defined) ->
    let s' := Nat.iter (S (length grp)) (sched_step P fou) s in
    ph s' = Waiting /\ exited s' = exited s /\
    forall j, j < length grp ->
      In (Spawn (cpos s, gpos s, j)) (trace s') /\ In (cpos s, gpos s, j) (running s').

Theorem C16_holds : C16_statement sched_step.
Proof.
  intros P fou s grp Hg Hph Hf Hall.
  assert (E : forall n x, Nat.iter n (sched_step P fou) x = iter_sched P fou n x).
  { induction n as [|n IH]; intros x; [reflexivity|]. cbn [iter_sched]. rewrite <- IH.
    clear. revert x. induction n as [|n IHn]; intros x; [reflexivity|]. simpl. rewrite <- IHn. reflexivity. }
  cbv zeta. rewrite E. exact (group_started_without_waiting P fou s grp Hg Hph Hf Hall).
Qed.

Example C16_nonvacuous :
  let P := [[[Defined; Defined; Defined; Defined]]] in
  let s' := Nat.iter 5 (sched_step P false) init in
  ph s' = Waiting /\ length (running s') = 4 /\ exited s' = [].
Proof. vm_compute. auto. Qed.

(* "... always completes": in ANY reachable state at the start of such a group there is a schedule in which the scheduler
   first starts every member (no exit or reap before that - so members that wait for all the others to have started
   are never asked to exit early) and then only child exits and reaps follow, after which the group is done: the
   scheduler is waiting with nothing left to reap, at the same position, ready to move on *)
Definition C16_completes_statement (run : plan -> bool -> (task -> nat) -> list choice -> st) : Prop :=
  forall P fou code cs grp, let s := run P fou code cs in
    cur_group P s = Some grp -> ph s = Spawning 0 -> failed s = false ->
    (forall j, j < length grp -> nth_error grp j = Some Defined) ->
    exists d, Forall exit_or_reap d /\
      let s1 := run P fou code (cs ++ repeat SchedStep (S (length grp))) in
      let s2 := run P fou code (cs ++ repeat SchedStep (S (length grp)) ++ d) in
      (forall j, j < length grp -> In (Spawn (cpos s, gpos s, j)) (trace s1)) /\
      exited s1 = exited s /\
      ph s2 = Waiting /\ tracked s2 = [] /\ cpos s2 = cpos s /\ gpos s2 = gpos s.

Theorem C16_completes_holds : C16_completes_statement run.
Proof. intros P fou code cs grp. apply group_completes. Qed.

Print Assumptions C16_holds.
Print Assumptions C16_completes_holds.
