(* C05 - A run covers exactly the selected targets, once each (scheduler part: one result entry per planned
   task, at most one start, exactly one iff defined, executable and reached before any failure). *)
From Coq Require Import List Arith Bool.
From MR Require Import Model.Sched Proofs.SchedProof Proofs.SchedFinal Proofs.SchedLive.
Import ListNotations.

Definition planned (P : plan) (t : task) : Prop := defn_at P t <> None.

Definition C05_statement (run : plan -> bool -> (task -> nat) -> list choice -> st) : Prop :=
  forall P fou code cs, let s := run P fou code cs in
    (* at most one start per task, and only of defined, executable commands *)
    NoDup (spawns (trace s)) /\
    (forall t, In t (spawns (trace s)) -> defn_at P t = Some Defined) /\
    (* result entries: at most one per task, only for planned tasks ... *)
    NoDup (map fst (results s)) /\
    (forall t r, In (t, r) (results s) -> planned P t) /\
    (* ... and when the run has finished, exactly one for every planned task *)
    (ph s = Finished -> forall t, planned P t -> exists r, In (t, r) (results s)) /\
    (* a task with an entry was started iff the entry is success/error; when nothing has failed every defined
       task that was reached has been started *)
    (forall t r, In (t, r) (results s) -> (In t (spawns (trace s)) <-> (r = Success \/ exists c, r = Error c))) /\
    (forall t, In (t, Skipped) (results s) -> failed s = true).

Theorem C05_holds : C05_statement run.
Proof. exact C05_all. Qed.

(* liveness (supporting the clause about finished runs): every schedule prefix can be completed - let the tracked
   children exit, reap them, step the scheduler - so [ph s = Finished] is reachable from every reachable state, for
   every plan, and the scheduler never deadlocks *)
Definition C05_completes_statement (run : plan -> bool -> (task -> nat) -> list choice -> st) : Prop :=
  forall P fou code cs, exists cs', ph (run P fou code (cs ++ cs')) = Finished.

Theorem C05_completes_holds : C05_completes_statement run.
Proof. exact sched_completes. Qed.

Print Assumptions C05_holds.
Print Assumptions C05_completes_holds.
