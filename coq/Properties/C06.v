(* C06 - Failure stops the run; statuses, failed flag and exit code are truthful. *)
From Coq Require Import List Arith Bool.
From MR Require Import Model.Sched Model.Compressor Proofs.SchedProof Proofs.SchedFinal Proofs.CompressorProof.
Import ListNotations.

Definition is_run (r : status) : Prop := r = Success \/ exists c, r = Error c.
Definition bad (fou : bool) (r : status) : Prop :=
  (exists c, r = Error c) \/ r = SNotExec \/ (fou = true /\ r = SUndefined).

(* for every plan, exit-code assignment and schedule (choice list) *)
Definition C06_statement (run : plan -> bool -> (task -> nat) -> list choice -> st) : Prop :=
  forall P fou code cs, let s := run P fou code cs in
    (* the failure latch: failed is set exactly when some entry is a failure *)
    (failed s = true <-> exists t r, In (t, r) (results s) /\ bad fou r) /\
    (* once failed, no schedule ever starts another executable *)
    (forall cs', failed s = true ->
       spawns (trace (run P fou code (cs ++ cs'))) = spawns (trace s) /\ failed (run P fou code (cs ++ cs')) = true) /\
    (* statuses are truthful *)
    (forall t, In (t, Success) (results s) -> In (Exit t 0) (trace s) /\ code t = 0) /\
    (forall t k, In (t, Error (Some k)) (results s) -> In (Exit t k) (trace s) /\ k = code t /\ k <> 0) /\
    (forall t r, In (t, r) (results s) -> ~ is_run r -> ~ In (Spawn t) (trace s)) /\
    (* exit status of the invocation *)
    (exit_status s = if failed s then 1 else 0).

Theorem C06_holds : C06_statement run.
Proof. exact C06_all. Qed.

Example C06_nonvacuous :
  let P := [[[Defined; Defined]; [Defined]]; [[Defined]]] in
  let s := run P false (fun t => match t with (0, 0, 1) => 3 | _ => 0 end)
     (repeat SchedStep 3 ++ [ChildExit (0,0,1); ChildExit (0,0,0); Reap (0,0,0); Reap (0,0,1)] ++ repeat SchedStep 6) in
  failed s = true /\ ph s = Finished /\
  rev (results s) = [((0,0,0), Success); ((0,0,1), Error (Some 3)); ((0,1,0), Skipped); ((1,0,0), Skipped)].
Proof. vm_compute. auto. Qed.

(* a child killed by a signal (code >= 256 in the model: no exit code at all) is never a success: it is recorded as an
   error without a code, the run fails and everything later is skipped - by C06_holds' first clause, since Error None is bad *)
Example C06_signal_death :
  let P := [[[Defined]; [Defined]]] in
  let s := run P false (fun t => match t with (0, 0, 0) => 256 + 9 | _ => 0 end)
     (repeat SchedStep 2 ++ [ChildExit (0,0,0); Reap (0,0,0)] ++ repeat SchedStep 5) in
  failed s = true /\ exit_status s = 1 /\ ph s = Finished /\
  rev (results s) = [((0,0,0), Error None); ((0,1,0), Skipped)].
Proof. vm_compute. auto. Qed.

(* "never an internal error under every timing of its internal tasks": the log compressor's shutdown protocol.
   T threads, n registered clients (client r talks to thread r mod T), every client sends its data and then one
   Shutdown; for EVERY interleaving of sends and receives no send ever finds its channel closed - which is what
   turned four succeeding commands into exit status 2 in the pinned commit. *)
Definition C06_shutdown_statement (srun : nat -> nat -> list schoice -> sst) : Prop :=
  forall T n cs, 0 < T -> send_failed (srun T n cs) = false.

Theorem C06_shutdown_holds : C06_shutdown_statement (fun T n => srun T n true).
Proof. intros T n cs HT. apply shutdown_never_fails. exact HT. Qed.

Print Assumptions C06_holds.
Print Assumptions C06_shutdown_holds.
