(* C15 - Log streaming never affects the outcome of a run. *)
From Coq Require Import List Arith NArith Bool.
From MR Require Import Model.Reader Proofs.ReaderProof.
Import ListNotations.

(* [core_eq a b]: the two reader states agree on everything but the stream bookkeeping: bytes handed to the
   compressor, whether the reader has returned, and whether it returned an error (which is what fails the task
   and thereby decides statuses and the exit status). *)
Definition C15_statement (reader : (nat -> bool) -> bool -> list ev -> rst) : Prop :=
  forall sink1 sink2 attached1 attached2 es,
    core_eq (reader sink1 attached1 es) (reader sink2 attached2 es).
(* in particular sink2 := anything, attached2 := false is the run with no listener; sink1 may fail from any write
   onwards (listener killed before the run, between groups, mid-output) or never *)

Theorem C15_holds : forall keep_partial, C15_statement (run keep_partial true).
Proof. intros kp s1 s2 a1 a2 es. apply stream_irrelevant. Qed.

Example C15_nonvacuous :
  let es := [Arrive [65;10]; Poll; Tick; Arrive [66;10]; Poll; Tick; Close; Poll; Poll]%N in
  let killed := run true true (fun n => Nat.ltb n 1) true es in     (* listener dies after the first block *)
  out killed = [65;10;66;10]%N /\ failed killed = false /\ sent killed = [[65;10]]%N.
Proof. vm_compute. auto. Qed.

Print Assumptions C15_holds.
