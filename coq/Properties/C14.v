(* C14 - Mutating invocations on one repository are mutually exclusive. *)
From Coq Require Import List Arith Bool.
From MR Require Import Model.Lock Proofs.LockProof Model.LockAddrs Proofs.LockAddrsProof.
Import ListNotations.

(* [run n cs]: n processes (each one of run / checkpoint update / checkpoint delete / out delete: "bind the
   lock address, then perform effects, release at exit") under the schedule cs - an arbitrary interleaving of
   starts, effect steps and kills. *)
Definition C14_statement (run : nat -> list choice -> sys) (step : sys -> choice -> sys) : Prop :=
  (* at most one process is past lock acquisition at any time *)
  (forall n cs p q, holding (run n cs) p = true -> holding (run n cs) q = true -> p = q) /\
  (* effects (executables, checkpoint, results, logs) are produced only by the process holding the lock *)
  (forall n cs c p, effects (step (run n cs) c) = effects (run n cs) ++ [p] -> holder (run n cs) = Some p) /\
  (* a process whose bind is refused does nothing but end *)
  (forall n cs p c, pget (run n cs) p = Refused ->
     (pget (step (run n cs) c) p = Refused \/ pget (step (run n cs) c) p = Ended) /\
     (forall q, effects (step (run n cs) c) = effects (run n cs) ++ [q] -> q <> p)) /\
  (* when the holder exits or is killed, the next invocation acquires the lock at once *)
  (forall n cs p q k, holder (run n cs) = Some p -> pget (run n cs) q = Idle -> q <> p -> q < length (procs (run n cs)) ->
     forall c, (c = Kill p \/ (c = Act p /\ pget (run n cs) p = Holding 0)) ->
     holding (step (step (run n cs) c) (Start q k)) q = true).

Theorem C14_holds : C14_statement run step.
Proof.
  split; [|split; [|split]].
  - apply at_most_one_holder.
  - intros n cs c p. apply effects_only_by_holder. apply run_LInv.
  - intros n cs p c. apply refused_does_nothing.
  - intros n cs p q k. apply next_acquires_after_release. apply run_LInv.
Qed.

Example C14_nonvacuous :
  let s := run 3 [Start 0 2; Start 1 1; Act 0; Start 2 5; Kill 0; Act 1; Act 2] in
  holder s = None /\ procs s = [Ended; Ended; Ended] /\ effects s = [0].
Proof. vm_compute. auto. Qed.

(* The lock address is host:port and the host may resolve to K >= 1 socket addresses (all processes resolve it alike).  With the
   acquisition as it is now - bind EVERY resolved address, AddrInUse on any of them fails and releases - at most one process is
   past lock acquisition, for every K, every number of processes and every interleaving of their individual binds and exits. *)
Definition C14_multi_address_statement (mrun : nat -> nat -> list mchoice -> msys) : Prop :=
  forall K n cs p q, 0 < K -> mholding (mrun K n cs) p = true -> mholding (mrun K n cs) q = true -> p = q.

Theorem C14_multi_address_holds : C14_multi_address_statement (mrun true).
Proof. intros K n cs p q. apply multi_address_exclusion. Qed.

Example C14_multi_address_nonvacuous :
  let s := mrun true 2 2 [MStart 0; MBind 0; MStart 1; MBind 1; MBind 0; MBind 1] in
  mholding s 0 = true /\ mget s 1 = MRefused /\ owner s = [Some 0; Some 0].
Proof. vm_compute. auto. Qed.

Print Assumptions C14_holds.
Print Assumptions C14_multi_address_holds.

(* "the next invocation acquires the lock at once" needs a lone invocation to be able to acquire at all: whatever list of socket
   addresses the resolver returns - repeats included - with nobody else alive the acquisition succeeds. *)
Definition C14_lone_acquires_statement (acquire_alone : list nat -> bool) : Prop := forall resolved, acquire_alone resolved = true.
Theorem C14_lone_acquires_holds : C14_lone_acquires_statement (acquire_alone true).
Proof. exact lone_process_acquires. Qed.
Example C14_lone_acquires_nonvacuous : acquire_alone true [7; 7; 3; 7] = true /\ nodup Nat.eq_dec [7; 7; 3; 7] = [3; 7].
Proof. vm_compute. split; reflexivity. Qed.
Print Assumptions C14_lone_acquires_holds.
