(* C19 - The checkpoint store reflects the last update; without one everything is changed. *)
From Coq Require Import List Bool.
From MR Require Import Model.Checkpoint Model.Git Proofs.CheckpointProof.
Import ListNotations.

Definition C19_statement (cp : Type) (run : list (op cp) -> store cp) (show : store cp -> option cp) : Prop :=
  (* for every sequence of update / show / delete / out-delete operations: show returns exactly what the most
     recent successful update returned; after a delete or out delete --all (and before the next update) it fails *)
  (forall ops, show (run ops) = last_update cp ops None) /\
  (forall ops r, show (run (ops ++ [Update true r])) = Some r) /\
  (forall ops, show (run (ops ++ [Delete])) = None) /\
  (forall ops, show (run (ops ++ [OutDeleteAll])) = None).

Theorem C19_holds : forall cp, C19_statement cp (run cp) (show cp).
Proof. exact C19_store. Qed.

(* "without --id an update records the commit HEAD resolves to" and the retained-pending behaviour are part of
   the update model (Model/Git.v update_pending) and are tied by the correspondence (gitscen.do_update). *)
Example C19_nonvacuous :
  show nat (run nat [Update true 1; Show; Update false 2; Delete; Update true 3; Show]) = Some 3.
Proof. reflexivity. Qed.

Print Assumptions C19_holds.

(* The same when the file system may refuse the data of a save (no space left), or an update fails earlier: what `show` returns is the
   record of the most recent update that REPORTED success (unless a delete came after it) - a save whose data was refused reports
   failure and changes nothing.  [run_save atomic] / [last_reported]: Model/CheckpointSave.v. *)
From MR Require Import Model.CheckpointSave Proofs.CheckpointSaveProof.
Definition C19_save_statement (cp : Type) (run : list (CheckpointSave.op cp) -> file cp -> file cp)
    (reported : list (CheckpointSave.op cp) -> file cp -> option cp -> option cp) : Prop :=
  forall ops, CheckpointSave.show cp (run ops Absent) = reported ops Absent None.

Theorem C19_save_holds : forall cp, C19_save_statement cp (CheckpointSave.run cp true) (last_reported cp true).
Proof. intros cp ops. apply C19_save. Qed.

Example C19_save_nonvacuous :
  CheckpointSave.show nat (CheckpointSave.run nat true [CheckpointSave.Update 1 Written; CheckpointSave.Update 2 WriteFails; CheckpointSave.Show] Absent) = Some 1 /\
  last_reported nat true [CheckpointSave.Update 1 Written; CheckpointSave.Update 2 WriteFails; CheckpointSave.Show] Absent None = Some 1.
Proof. split; reflexivity. Qed.

Print Assumptions C19_save_holds.
