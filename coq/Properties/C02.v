(* C02 - The reported change set is exactly the difference from the checkpoint.
   Stated over the abstract repository of Model/Git.v: paths, contents and digests are arbitrary types with
   decidable equality, SHA-256 is any injective [sha] that never yields [empty_digest].  git's three commands
   are modelled (diff1/diff2/others); the theorem is about what monorail makes of them. *)
From Coq Require Import List Bool.
From MR Require Import Model.Git Proofs.GitProof.
Import ListNotations.

Section C02.
Variable path content digest : Type.
Variable path_eqb : path -> path -> bool.
Hypothesis path_eqb_eq : forall a b, path_eqb a b = true <-> a = b.
Variable content_eqb : content -> content -> bool.
Hypothesis content_eqb_eq : forall a b, content_eqb a b = true <-> a = b.
Variable digest_eqb : digest -> digest -> bool.
Hypothesis digest_eqb_eq : forall a b, digest_eqb a b = true <-> a = b.
Variable sha : content -> digest.
Variable empty_digest : digest.

Notation repo := (repo path content).
Notation tree := (tree path content).
Notation pending := (pending path digest).

(* vocabulary (Proofs/GitProof.v): 
   differs_from r c p        : p's state in the commit tree c differs from its working-tree state
                               (a tracked path missing on disk, or a path no longer tracked, counts as deleted)
   untracked_unignored r p   : p exists on disk, is not in the index and is not excluded by gitignore
   masked r pn p             : the non-empty pending map pn records for p exactly its current checksum *)
Definition C02_statement
  (changes : repo -> option tree -> option tree -> option tree -> option pending -> list path) : Prop :=
  (* checkpoint (commit tree c, pending pn), no --begin/--end *)
  (forall r c pn p,
     In p (changes r (Some c) None None pn) <->
     In p (universe r) /\
     (differs_from path content r c p \/ untracked_unignored path content r p) /\
     ~ masked path content digest path_eqb sha empty_digest r pn p) /\
  (* explicit --begin b --end e: the tracked part is the difference between those two commits *)
  (forall r cp b e pn p,
     In p (changes r cp (Some b) (Some e) pn) <->
     In p (universe r) /\
     (b p <> e p \/ untracked_unignored path content r p) /\
     ~ masked path content digest path_eqb sha empty_digest r pn p) /\
  (* a moved file is a deletion of the old path plus a creation of the new one *)
  (forall r c pn old new x,
     In old (universe r) -> In new (universe r) ->
     c old = Some x -> work r old = None -> c new = None -> work r new = Some x -> ignored r new = false ->
     ~ masked path content digest path_eqb sha empty_digest r pn old ->
     ~ masked path content digest path_eqb sha empty_digest r pn new ->
     In old (changes r (Some c) None None pn) /\ In new (changes r (Some c) None None pn)).

Theorem C02_holds :
  C02_statement (all_changes_opts path content digest path_eqb content_eqb digest_eqb sha empty_digest).
Proof.
  split; [|split].
  - intros. apply (C02_changes path content digest path_eqb content_eqb content_eqb_eq digest_eqb digest_eqb_eq).
  - intros. apply (C02_changes_range path content digest path_eqb content_eqb content_eqb_eq digest_eqb digest_eqb_eq).
  - intros. eapply (C02_move path content digest path_eqb content_eqb content_eqb_eq digest_eqb digest_eqb_eq); eauto.
Qed.
End C02.

(* non-vacuity on a concrete instance: one committed file edited, one untracked file, one masked path *)
From Coq Require Import NArith.
Definition ex_repo : Git.repo nat N :=
  {| universe := [1; 2; 3];
     head := fun p => if Nat.eqb p 1 then Some 10%N else if Nat.eqb p 3 then Some 30%N else None;
     tracked := fun p => Nat.eqb p 1 || Nat.eqb p 3;
     work := fun p => if Nat.eqb p 1 then Some 11%N else if Nat.eqb p 2 then Some 20%N else if Nat.eqb p 3 then Some 31%N else None;
     ignored := fun _ => false |}.
Example C02_nonvacuous :
  all_changes_opts nat N (option N) Nat.eqb N.eqb
     (fun a b => match a, b with Some x, Some y => N.eqb x y | None, None => true | _, _ => false end) Some None
     ex_repo (Some (head ex_repo)) None None (Some [(3, Some 31%N)]) = [2; 1].
Proof. vm_compute. reflexivity. Qed.

Print Assumptions C02_holds.
