(* C04 - Commands run in dependency order under every schedule. *)
From Coq Require Import List Arith.
From MR Require Import Model.Sched Proofs.SchedProof.
Import ListNotations.

(* [run P fou code cs]: the scheduler of `monorail run` executing plan P (commands in order; per command the
   target groups, dependencies first - C03) under the schedule cs, an arbitrary list of choices: which child
   exits next, which finished task is reaped, when the scheduler itself advances.
   [ordered tr] (newest event first): whenever a task is spawned, every task spawned earlier at a different
   (command, group) position has already exited.  Since a target's dependencies sit in strictly earlier groups
   and earlier commands occupy earlier positions, this is the property's sentence. *)
Definition C04_statement
  (run : plan -> bool -> (task -> nat) -> list choice -> st)
  (all_commands : (nat -> option (list nat)) -> list nat -> list nat -> option (list nat)) : Prop :=
  (forall P fou code cs, ordered (trace (run P fou code cs))) /\
  (* commands are ordered as documented: expanded sequences first, then --commands, each in the order given *)
  (forall lookup seqs cmds, (forall s, In s seqs -> lookup s <> None) ->
     all_commands lookup seqs cmds =
     Some (flat_map (fun s => match lookup s with Some l => l | None => [] end) seqs ++ cmds)).

Theorem C04_holds : C04_statement run all_commands.
Proof. split; [exact C04_order | exact all_commands_spec]. Qed.

Example C04_nonvacuous :
  let P := [[[Defined; Defined]; [Defined]]; [[Defined]]] in
  let s := run P false (fun _ => 0)
             ([SchedStep; SchedStep; SchedStep; ChildExit (0,0,1); ChildExit (0,0,0); Reap (0,0,1); Reap (0,0,0)] ++ repeat SchedStep 4) in
  rev (trace s) = [Spawn (0,0,0); Spawn (0,0,1); Exit (0,0,1) 0; Exit (0,0,0) 0; Spawn (0,1,0)].
Proof. vm_compute. reflexivity. Qed.

Print Assumptions C04_holds.
