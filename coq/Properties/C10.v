(* C10 - The dependency relation is exactly what the configuration declares.
   Statement, the theorem for the current model, a non-vacuity example, assumptions.  Nothing else. *)
From Coq Require Import List NArith String.
Open Scope string_scope.
From MR Require Import Lib.Bytes Lib.Val Model.Index Proofs.IndexProof Proofs.RenderProof.
Import ListNotations.

Definition C10_statement (adjf : config -> list (list nat)) : Prop :=
  forall cfg, wf_config cfg ->
    (* node i -> node j  iff  target i depends on target j (whole path components; dep is in Model/Index.v) *)
    (forall i j ti tj, nth_error cfg i = Some ti -> nth_error cfg j = Some tj ->
        (In j (nth i (adjf cfg) []) <-> dep ti tj)) /\
    (* nothing else: one row per target, rows duplicate-free, every edge points at a configured target *)
    List.length (adjf cfg) = List.length cfg /\
    (forall i, NoDup (nth i (adjf cfg) [])) /\
    (forall i j, In j (nth i (adjf cfg) []) -> j < List.length cfg) /\
    (* target render: one node line per configured target, one edge line per dependency, nothing else *)
    (forall n l, In (NodeLine n l) (render_dot (target_paths cfg) (adjf cfg)) <-> nth_error (target_paths cfg) n = Some l) /\
    (forall i j, In (EdgeLine i j) (render_dot (target_paths cfg) (adjf cfg)) <-> In j (nth i (adjf cfg) [])).

Theorem C10_holds : C10_statement adj_of.
Proof. exact C10_all. Qed.

(* non-vacuity: a well-formed configuration with a nested target, a string-prefix sibling and a uses edge *)
Definition ex_cfg : config :=
  [ {| tpath := bs "app";      uses := [];              ignores := [] |};
    {| tpath := bs "app2";     uses := [bs "app/src"]; ignores := [] |};
    {| tpath := bs "app/core"; uses := [];              ignores := [] |} ].
Example C10_nonvacuous : wf_config ex_cfg /\ adj_of ex_cfg = [[]; [0]; [0]].
Proof. split; [apply wf_config_b_spec|]; vm_compute; reflexivity. Qed.

Print Assumptions C10_holds.
