(* C12 - Latest-run addressing and bounded retention hold over any run history. *)
From Coq Require Import List Arith.
From MR Require Import Model.Tracking Proofs.TrackingProof.
Import ListNotations.

(* [history M a rs]: the store after the completed runs rs (oldest first), each leaving its log files and its
   result; run n uses slot ((n-1) mod M)+1.  [norm_logs]: a run's log files, first occurrences in order. *)
Definition C12_statement (history : nat -> list run_rec -> fs) : Prop :=
  forall M rs, 1 <= M -> rs <> [] ->
    let f := history M rs in let k := length rs in
    (* result show / log show: exactly the most recent run, with nothing left over in its slot *)
    show f = Shows (norm_logs (rlogs (rec_at rs k))) (rresult (rec_at rs k)) /\
    (* log show --id: each of the last max_retained_runs runs is still there, intact *)
    (forall n, 1 <= n <= k -> k - n < M ->
       show_slot f (slot_of_run M n) = Shows (norm_logs (rlogs (rec_at rs n))) (rresult (rec_at rs n))) /\
    (* no more than max_retained_runs run directories: only slots 1..M ever exist *)
    (forall i, slots f i <> None -> 1 <= i <= M).

Theorem C12_holds : C12_statement (fun M => history M true).
Proof.
  intros M rs HM Hne. destruct (C12_history M HM true rs Hne) as (_ & H2 & H3 & H4). cbv zeta. auto.
Qed.

Example C12_nonvacuous :
  show (history 2 true [ {| rlogs := [1;2]; rresult := 10 |}; {| rlogs := [3]; rresult := 11 |}; {| rlogs := [4;4]; rresult := 12 |} ])
  = Shows [4] 12.
Proof. vm_compute. reflexivity. Qed.

Print Assumptions C12_holds.

(* The same over every sequence of INVOCATIONS: completed runs with, anywhere in between, invocations that are rejected before
   anything is executed.  A rejected invocation is not a run: the statement is about the completed ones alone. *)
Definition C12_invocations_statement (store_after : nat -> list invocation -> fs) : Prop :=
  forall M vs, 1 <= M -> completed vs <> [] ->
    let f := store_after M vs in let rs := completed vs in let k := length rs in
    show f = Shows (norm_logs (rlogs (rec_at rs k))) (rresult (rec_at rs k)) /\
    (forall n, 1 <= n <= k -> k - n < M ->
       show_slot f (slot_of_run M n) = Shows (norm_logs (rlogs (rec_at rs n))) (rresult (rec_at rs n))) /\
    (forall i, slots f i <> None -> 1 <= i <= M).

Theorem C12_invocations_holds : C12_invocations_statement (fun M => invocations M false).
Proof.
  intros M vs HM Hne. cbv zeta. rewrite invocations_completed.
  destruct (C12_history M HM true (completed vs) Hne) as (_ & H2 & H3 & H4). auto.
Qed.

Example C12_invocations_nonvacuous :
  let rr n := {| rlogs := [n]; rresult := 10 + n |} in
  let f := invocations 3 false [Completes (rr 1); Completes (rr 2); Rejected; Completes (rr 3); Completes (rr 4); Rejected] in
  show f = Shows [4] 14 /\ show_slot f 2 = Shows [2] 12.
Proof. vm_compute. split; reflexivity. Qed.

Print Assumptions C12_invocations_holds.

(* A run's files stay inside its own slot: the log directory of (command, target hash) is run_path.join(command).join(hash), so the
   statement above (which lets a run touch its own slot only) needs every ACCEPTED command name to keep that path inside the slot,
   exactly two levels down - where `log show` looks for it.  [log_dir], [components] (std::path on Unix): Model/RunPaths.v. *)
From Coq Require Import String.
From MR Require Import Lib.Bytes Lib.Val Model.RunPaths Proofs.RunPathsProof.
Definition C12_confinement_statement (accepted : str -> bool) : Prop :=
  forall runs slot command hash, single_component slot = true -> single_component hash = true -> accepted command = true ->
    log_dir runs slot command hash = runs ++ [slot; command; hash] /\
    runs ++ [slot; command] <> runs ++ [slot; result_file_name].     (* nor does the command's directory take the result file's place *)

Theorem C12_confinement_holds : C12_confinement_statement name_accepted.
Proof.
  intros runs slot command hash Hs Hh Ha. split; [|apply command_dir_not_result_file; exact Ha].
  apply log_dir_in_slot; auto. apply name_accepted_iff. exact Ha.
Qed.

Example C12_confinement_nonvacuous :
  name_accepted (bs "build"%string) = true /\ name_accepted (bs "ok.name"%string) = true /\
  name_accepted (bs "../4/hello"%string) = false /\ name_accepted (bs "x/y"%string) = false /\ name_accepted (bs "a/"%string) = false /\
  name_accepted (bs "result.json.zst"%string) = false /\ name_accepted (bs ".."%string) = false /\ name_accepted (bs "."%string) = false /\ name_accepted (bs "/abs"%string) = false /\ name_accepted [] = false.
Proof. vm_compute. repeat split. Qed.

Print Assumptions C12_confinement_holds.
