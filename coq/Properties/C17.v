(* C17 - A generated config is usable iff source, output and lockfile are untouched. *)
From Coq Require Import List Bool.
From MR Require Import Model.CfgFile Proofs.CfgFileProof.
Import ListNotations.

Section C17.
Variable byte digest value : Type.
Notation bytes := (list byte).
Variable digest_eqb : digest -> digest -> bool.
Hypothesis digest_eqb_eq : forall a b, digest_eqb a b = true <-> a = b.
Variable sha : bytes -> digest.
Hypothesis sha_inj : forall a b, sha a = sha b -> a = b.        (* SHA-256 idealised *)
Variable parse : bytes -> option value.
Variable render : value -> bytes.
Hypothesis parse_render : forall v, parse (render v) = Some v.  (* serde_json round trip *)
Variable with_sum : value -> digest -> value.
Variable get_sum : value -> option digest.
Variable has_source : value -> bool.
Hypothesis get_with : forall v d, get_sum (with_sum v d) = Some d.
Hypothesis has_with : forall v d, has_source (with_sum v d) = true.

(* [window]: which part of the configuration file the loader reads (the model parameter) *)
Definition C17_statement (window : bytes -> bytes) : Prop :=
  let usable := usable byte digest value digest_eqb sha parse get_sum has_source window in
  forall input src, let '(g, l) := generate byte digest value sha render with_sum input src in
    (* untouched: every API that reads the configuration goes ahead, whatever the sizes *)
    usable (Some src) g (Some l) = true /\
    (* any change of the source file (or its removal) *)
    (forall src', src' <> src -> usable (Some src') g (Some l) = false) /\
    usable None g (Some l) = false /\
    (* any change of the generated file - at any offset, truncation, append - that still is a config with a source *)
    (forall g', g' <> g -> (forall v, parse g' = Some v -> has_source v = true) -> usable (Some src) g' (Some l) = false) /\
    (* any change of the lockfile checksum (or a missing lockfile) *)
    (forall l', l' <> Some l -> usable (Some src) g l' = false).

Theorem C17_holds : C17_statement (fun b => b).
Proof.
  unfold C17_statement, CfgFile.generate. intros input src. cbv zeta beta iota.
  split; [|split; [|split; [|split]]].
  - exact (C17_untouched byte digest value digest_eqb digest_eqb_eq sha parse render parse_render with_sum get_sum has_source get_with has_with input src).
  - intros src'. exact (C17_source_tampered byte digest value digest_eqb digest_eqb_eq sha sha_inj parse render parse_render with_sum get_sum has_source get_with has_with input src src').
  - exact (C17_source_missing byte digest value digest_eqb sha parse render parse_render with_sum get_sum has_source has_with input src).
  - intros g'. exact (C17_generated_tampered byte digest value digest_eqb digest_eqb_eq sha sha_inj parse render with_sum get_sum has_source input src g').
  - intros l'. exact (C17_lock_tampered byte digest value digest_eqb digest_eqb_eq sha parse render parse_render with_sum get_sum has_source get_with has_with input src l').
Qed.
End C17.
Print Assumptions C17_holds.
