(* C11 - Executables get the documented argv, working directory and resolution. *)
From Coq Require Import List NArith Bool.
From MR Require Import Lib.Bytes Model.Plan Proofs.PlanProof.
Import ListNotations.

(* [file t n]: the contents of target t's argmap file n.json (command -> arguments), None when it does not exist.
   [file_args file t n c]: what that file says about command c (nothing when missing or silent about c). *)
Definition C11_statement
  (argv : (str -> str -> option cmdmap) -> bool -> list str -> list str -> option (str * str * list str) -> str -> str -> list str)
  (resolve : option str -> list str -> str -> option (bool * str)) : Prop :=
  (* arguments: base (unless --no-base-argmaps), then each --argmaps file in the order given, then --args;
     verbatim - arguments are opaque byte strings end to end -, nothing from another target or command *)
  (forall file use_base names targets run_args t c, NoDup targets -> In t targets ->
     argv file use_base names targets run_args t c =
     (if use_base then file_args file t base_name c else []) ++
     flat_map (fun n => file_args file t n c) names ++
     match run_args with Some (t0, c0, a) => if str_eqb t0 t && str_eqb c0 c then a else [] | None => [] end) /\
  (* resolution: the configured definition path when one is given ... *)
  (forall p0 p dir cmd, resolve (Some (p0 :: p)) dir cmd = Some (true, p0 :: p)) /\
  (* ... otherwise the file of the command directory whose stem equals the command name *)
  (forall def dir cmd f, (def = None \/ def = Some []) ->
     (resolve def dir cmd = Some (false, f) -> In f dir /\ stem f = cmd) /\
     ((forall g, In g dir -> stem g = cmd -> g = f) -> In f dir -> stem f = cmd -> resolve def dir cmd = Some (false, f))).

Theorem C11_holds :
  C11_statement (fun file ub names targets ra t c => argv_of (build_table (run_loads file ub names targets ra)) t c) resolve.
Proof.
  split; [|split].
  - intros. apply C11_argv; assumption.
  - intros. reflexivity.
  - intros. apply C11_resolve_by_stem. assumption.
Qed.
(* The working directory (the target's directory) is a single assignment in get_plan (command_work_path =
   work_path.join(target)); it is tied by the correspondence, there is nothing to prove about it. *)

Print Assumptions C11_holds.
