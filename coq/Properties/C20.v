(* C20 - What `log tail` prints reassembles to each task's log, within its filters. *)
From Coq Require Import List Arith NArith Bool.
From MR Require Import Model.Reader Proofs.ReaderProof.
Import ListNotations.

Definition C20_statement
  (mrun : (nat -> nat -> bool) -> list bool -> list (nat * ev) -> msys)
  (reader : (nat -> bool) -> bool -> list ev -> rst) : Prop :=
  (* every interleaving of the tasks' flushes onto the shared connection is a sequence of header-tagged blocks;
     concatenating the blocks that carry task i's header gives exactly what reader i wrote to the stream ... *)
  (forall sink streams cs i r, nth_error (readers (mrun sink streams cs)) i = Some r ->
     tail_of (mrun sink streams cs) i = concat (sent r)) /\
  (* ... which, while the listener stays up, is exactly the bytes handed to the compressor (the stored log) ... *)
  (forall es, let s := reader (fun _ => true) true es in concat (sent s) = out s) /\
  (* ... and a task the filters do not admit (no stream client attached) contributes no block at all *)
  (forall sink es, sent (reader sink false es) = []).

Theorem C20_holds : forall kp tol, C20_statement (mrun kp tol) (run kp tol).
Proof.
  intros kp tol. split; [|split].
  - intros sink streams cs i r. apply tail_reassembles.
  - intros es. apply stream_complete.
  - intros sink es. apply unattached_silent.
Qed.

Print Assumptions C20_holds.
