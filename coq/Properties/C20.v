(* C20 - What `log tail` prints reassembles to each task's log, within its filters. *)
From Coq Require Import List Arith NArith Bool String.
From MR Require Import Lib.Bytes Lib.Val Model.Reader Model.Filter Model.TaskJoin Proofs.ReaderProof Proofs.FilterProof.
Import ListNotations.
Open Scope string_scope.

Definition C20_statement
  (mrun : (nat -> nat -> bool) -> list bool -> list (nat * ev) -> msys)
  (reader : (nat -> bool) -> bool -> list ev -> rst) : Prop :=
  (* every interleaving of the tasks' flushes onto the shared connection is a sequence of header-tagged blocks;
     concatenating the blocks that carry task i's header gives exactly what reader i wrote to the stream ... *)
  (forall sink streams cs i r, nth_error (readers (mrun sink streams cs)) i = Some r ->
     tail_of (mrun sink streams cs) i = List.concat (sent r)) /\
  (* ... which, while the listener stays up, is exactly the bytes handed to the compressor (the stored log) ... *)
  (forall es, let s := reader (fun _ => true) true es in List.concat (sent s) = out s) /\
  (* ... and a task the filters do not admit (no stream client attached) contributes no block at all *)
  (forall sink es, sent (reader sink false es) = []).

Theorem C20_holds : forall kp tol, C20_statement (mrun kp tol) (run kp tol).
Proof.
  intros kp tol. split; [|split].
  - intros sink streams cs i r. apply tail_reassembles.
  - intros es. apply stream_complete.
  - intros sink es. apply unattached_silent.
Qed.

(* the filter clause in full: the attachment rule of the run (Model.Filter: is_log_allowed + include_stdout /
   include_stderr) composed with the shared connection, for every filter, task list and interleaving *)
Definition C20_filter_statement
  (mrun : (nat -> nat -> bool) -> list bool -> list (nat * ev) -> msys)
  (attach : option filt -> list task -> list bool) : Prop :=
  forall f ts cs i t, nth_error ts i = Some t ->
    let m := mrun (fun _ _ => true) (attach f ts) cs in
    exists r, nth_error (readers m) i = Some r /\
      (admitted_opt f t = true -> tail_of m i = out r) /\
      (admitted_opt f t = false -> blocks_of m i = []).

Theorem C20_filter_holds : forall kp tol, C20_filter_statement (mrun kp tol) attach.
Proof. intros kp tol f ts cs i t. apply tail_within_filters. Qed.

(* non-vacuity: a listener for stdout of command "build" only; task 0 = (stdout, t, build) is relayed in full,
   task 1 = (stdout, t, lint) gets no block although it wrote and stored the same bytes *)
Example C20_filter_nonvacuous :
  let f := Some {| want_stdout := true; want_stderr := false; ftargets := []; fcommands := [bs "build"] |} in
  let ts := [ {| is_stdout := true; ttarget := bs "t"; tcommand := bs "build" |};
              {| is_stdout := true; ttarget := bs "t"; tcommand := bs "lint" |} ] in
  let line := [104; 105; 10]%N in
  let cs := [(0, Arrive line); (1, Arrive line); (1, Poll); (0, Poll); (1, Tick); (0, Tick); (0, Close); (1, Close);
             (0, Poll); (1, Poll); (0, Poll); (1, Poll)] in
  let m := mrun true true (fun _ _ => true) (attach f ts) cs in
  attach f ts = [true; false] /\ tail_of m 0 = line /\ blocks_of m 1 = [] /\
  option_map out (nth_error (readers m) 1) = Some line.
Proof. vm_compute. repeat split. Qed.

(* cancellation (a sibling failed): both readers of a task make their final flush - to the compressor, then to the stream - and the
   task ends with an error.  Whatever the interleaving of the two flushes and of the polls of the task, when the task has completed no
   reader is left with lines that went to the stored log but not to the stream. *)
Definition C20_cancel_statement (jrun : list jchoice -> tjoin) : Prop :=
  forall cs, completed (jrun cs) = true -> torn (r0 (jrun cs)) = false /\ torn (r1 (jrun cs)) = false.

Theorem C20_cancel_holds : C20_cancel_statement (jrun true).
Proof.
  intros cs. unfold jrun.
  assert (H : forall s, (completed s = true -> is_done (r0 s) = true /\ is_done (r1 s) = true) ->
              completed (fold_left (jstep true) cs s) = true ->
              is_done (r0 (fold_left (jstep true) cs s)) = true /\ is_done (r1 (fold_left (jstep true) cs s)) = true).
  { induction cs as [|c cs IH]; intros s Hs; simpl; [exact Hs|]. apply IH.
    unfold jstep. destruct (completed s) eqn:Ec; [intros _; apply Hs; reflexivity|]. destruct c as [[|]|]; simpl; try discriminate.
    intros Hr. apply andb_true_iff in Hr. exact Hr. }
  intros Hc. destruct (H jinit (fun E => ltac:(discriminate E)) Hc) as [H0 H1].
  unfold torn. destruct (r0 (fold_left (jstep true) cs jinit)); try discriminate;
  destruct (r1 (fold_left (jstep true) cs jinit)); try discriminate; auto.
Qed.

Example C20_cancel_nonvacuous :
  let s := jrun true [Adv false; Adv false; PollTask; Adv true; PollTask; Adv true; PollTask] in
  completed s = true /\ r0 s = FDone /\ r1 s = FDone.
Proof. vm_compute. auto. Qed.

Print Assumptions C20_holds.
Print Assumptions C20_filter_holds.
Print Assumptions C20_cancel_holds.
