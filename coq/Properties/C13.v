(* C13 - A crash during `run` never damages previously recorded state. *)
From Coq Require Import List Arith.
From MR Require Import Model.Tracking Proofs.TrackingProof.
Import ListNotations.

(* [crash f i r k]: the run that would use slot i and leave record r is killed after k of its file-system
   effects (k ranges over every strict prefix: slot wipe, mkdir, each log file, the result file, the temp
   pointer file).  The checkpoint is not among a run's effects at all (run_ops has no such operation). *)
Definition C13_statement (crash : fs -> nat -> run_rec -> nat -> fs) (n_effects : nat -> run_rec -> nat) : Prop :=
  forall M f i r k, 2 <= M -> healthy M f -> next_id M f = Some i -> k < n_effects i r ->
    let f' := crash f i r k in
    show f' = show f /\                       (* result show / log show: the last completed run, unchanged *)
    healthy M f' /\ next_id M f' = Some i /\  (* the next run starts normally, in the same slot *)
    (forall j, j <> i -> slots f' j = slots f j).   (* every other retained run is untouched *)

Theorem C13_holds : C13_statement (crash true) (fun i r => length (run_ops true i r)).
Proof. intros M f i r k. apply C13_crash_safe. Qed.

Example C13_nonvacuous :
  let f := history 3 true [ {| rlogs := [1]; rresult := 10 |} ] in
  healthy 3 f /\ next_id 3 f = Some 2 /\ show (crash true f 2 {| rlogs := [2;3]; rresult := 11 |} 4) = Shows [1] 10.
Proof. vm_compute. repeat split; eauto. Qed.

Print Assumptions C13_holds.

(* The same when max_retained_runs was changed between runs (each earlier run ran under a limit of its own, any value; the run that
   is killed runs under M >= 2): the store is whatever those runs left, the pointer may name a slot above the present limit. *)
Definition C13_any_limit_statement (crash : fs -> nat -> run_rec -> nat -> fs) (n_effects : nat -> run_rec -> nat) : Prop :=
  forall (earlier : list (nat * run_rec)) M i r k, 2 <= M ->
    let f := history_var true earlier in
    next_id M f = Some i -> k < n_effects i r ->
    let f' := crash f i r k in
    show f' = show f /\ next_id M f' = Some i /\ (forall j, j <> i -> slots f' j = slots f j).

Theorem C13_any_limit_holds : C13_any_limit_statement (crash true) (fun i r => length (run_ops true i r)).
Proof.
  intros earlier M i r k HM f Hn Hk.
  destruct (C13_crash_safe_any_limit M f i r k HM (history_var_recorded earlier) Hn Hk) as (H1 & _ & H3 & H4).
  auto.
Qed.

Example C13_any_limit_nonvacuous :
  let rr n := {| rlogs := [n]; rresult := 10 + n |} in
  let f := history_var true [(5, rr 1); (5, rr 2); (5, rr 3); (5, rr 4)] in
  pointer f = PVal 4 /\ next_id 3 f = Some 1 /\ show (crash true f 1 (rr 5) 3) = Shows [4] 14.
Proof. vm_compute. repeat split. Qed.

Print Assumptions C13_any_limit_holds.
