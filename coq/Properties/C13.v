(* C13 - A crash during `run` never damages previously recorded state. *)
From Coq Require Import List Arith.
From MR Require Import Model.Tracking Proofs.TrackingProof.
Import ListNotations.

(* [crash f i r k]: the run that would use slot i and leave record r is killed after k of its file-system
   effects (k ranges over every strict prefix: slot wipe, mkdir, each log file, the result file, the temp
   pointer file).  The checkpoint is not among a run's effects at all (run_ops has no such operation). *)
Definition C13_statement (crash : fs -> nat -> run_rec -> nat -> fs) (n_effects : nat -> run_rec -> nat) : Prop :=
  forall M f i r k, 2 <= M -> healthy M f -> next_id M f = Some i -> k < n_effects i r ->
    let f' := crash f i r k in
    show f' = show f /\                       (* result show / log show: the last completed run, unchanged *)
    healthy M f' /\ next_id M f' = Some i /\  (* the next run starts normally, in the same slot *)
    (forall j, j <> i -> slots f' j = slots f j).   (* every other retained run is untouched *)

Theorem C13_holds : C13_statement (crash true) (fun i r => length (run_ops true i r)).
Proof. intros M f i r k. apply C13_crash_safe. Qed.

Example C13_nonvacuous :
  let f := history 3 true [ {| rlogs := [1]; rresult := 10 |} ] in
  healthy 3 f /\ next_id 3 f = Some 2 /\ show (crash true f 2 {| rlogs := [2;3]; rresult := 11 |} 4) = Shows [1] 10.
Proof. vm_compute. repeat split; eauto. Qed.

Print Assumptions C13_holds.
