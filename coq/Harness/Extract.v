From Coq Require Extraction.
From Coq Require Import ExtrOcamlBasic.
From MR Require Import Harness.Glue.
Extraction "model.ml" dispatch.
