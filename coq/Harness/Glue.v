(* Glue between the wire format (Lib/Val.v) and the models/specs: one [check_*] function per
   correspondence.  Each takes the generated input together with the implementation's answer and
   returns  VL [in_scope; model_answer; agree; spec_ok]  where
     in_scope : the input lies inside the property's quantifier (well-formed config, ...)
     agree    : implementation answer = model answer, compared as coarsely as the property is
     spec_ok  : the decidable specification, evaluated on the IMPLEMENTATION's answer
   Nothing here is proved; it is extracted to OCaml and run by the harness. *)
From Coq Require Import List Arith NArith Bool.
From MR Require Import Lib.Bytes Lib.Val Model.Index Model.Dag Model.IndexGroups Model.Git Model.Tracking Model.CfgFile Model.Sched Model.Plan Model.RunPaths.
From MR Require Model.Lock Model.Reader Model.Filter.
Import ListNotations.
Open Scope nat_scope.

(* ---------- decoders ---------- *)
Definition dTarget (v : val) : target :=
  {| tpath := dStr (dNth v 0); uses := dStrs (dNth v 1); ignores := dStrs (dNth v 2) |}.
Definition dConfig (v : val) : config := map dTarget (dL v).
Definition dNatss (v : val) : list (list nat) := map dNats (dL v).
Definition eNatss (l : list (list nat)) : val := VL (map eNats l).
Definition eStrss (l : list (list str)) : val := VL (map eStrs l).
Definition dStrss (v : val) : list (list str) := map dStrs (dL v).

(* implementation answers: VL [VN tag; payload]; tag 1 = ok, 0 = error (payload VN kind), 2 = panic.
   error kinds: 1 = graph cycle, 2 = duplicate label, 3 = anything else *)
Definition tag (v : val) : nat := dnat (dNth v 0).
Definition payload (v : val) : val := dNth v 1.
Definition eRes {A} (e : A -> val) (r : res A) : val :=
  match r with
  | Ok a => VL [VN 1; e a]
  | ErrCycle _ => VL [VN 0; VN 1]
  | Panic => VL [VN 2; VN 0]
  | ErrOther k => VL [VN 0; enat k]
  end%N.

Definition nset_eqb (a b : list nat) : bool :=
  let a' := nset_of a in let b' := nset_of b in
  (length a' =? length b') && forallb (fun '(x, y) => x =? y) (combine a' b').
Fixpoint natss_set_eqb (a b : list (list nat)) : bool :=
  match a, b with
  | [], [] => true
  | x :: a', y :: b' => nset_eqb x y && natss_set_eqb a' b'
  | _, _ => false
  end.
Definition strs_eqb (a b : list str) : bool :=
  (length a =? length b) && forallb (fun '(x, y) => str_eqb x y) (combine a b).
Definition sset_eqb (a b : list str) : bool := strs_eqb (sset_of a) (sset_of b).
Fixpoint strss_set_eqb (a b : list (list str)) : bool :=
  match a, b with
  | [], [] => true
  | x :: a', y :: b' => sset_eqb x y && strss_set_eqb a' b'
  | _, _ => false
  end.
Definition res_same_kind (a b : val) : bool := (tag a =? tag b) && ((negb (tag a =? 0)) || (dnat (payload a) =? dnat (payload b))).

(* ---------- C03 / C09: graph level ---------- *)
(* independent decision of "a cycle is reachable from the roots" for the spec oracle:
   nodes reachable in >= 1 step, by iterating the successor relation |a| times *)
Definition succs (a : list (list nat)) (s : list nat) : list nat := nset_of (s ++ flat_map (fun i => nth i a []) s).
Fixpoint iter_succs (k : nat) (a : list (list nat)) (s : list nat) : list nat :=
  match k with 0 => s | S k' => iter_succs k' a (succs a s) end.
Definition reach_plus (a : list (list nat)) (n : nat) : list nat := iter_succs (length a) a (nset_of (nth n a [])).
Definition reach_star (a : list (list nat)) (roots : list nat) : list nat := iter_succs (length a) a (nset_of roots).
Definition cyclic_b (a : list (list nat)) (roots : list nat) : bool :=
  existsb (fun n => mem n (reach_plus a n)) (reach_star a roots).

Definition spec_groups (a : list (list nat)) (roots : list nat) (impl : val) : bool :=
  if cyclic_b a roots then (tag impl =? 0) && (dnat (payload impl) =? 1)
  else (tag impl =? 1) && valid_layering_b a roots (dNatss (payload impl)).

Definition check_dag (v : val) : val :=
  let a := dNatss (dNth v 0) in
  let roots := dNats (dNth v 1) in
  let impl := dNth v 2 in
  let in_scope := wf_b a && forallb (fun r => r <? length a) roots in
  let m := api_groups a roots in
  let mv := eRes eNatss m in
  let agree := res_same_kind impl mv &&
               match m with Ok gs => natss_set_eqb (dNatss (payload impl)) gs | _ => true end in
  VL [eB in_scope; mv; eB agree; eB (spec_groups a roots impl); eB (cyclic_b a roots)].

(* ---------- C03 / C09: index level (labels) ---------- *)


(* the spec at index level is phrased over the DECLARED dependency relation dep_b, not over adj_of *)
Definition spec_adj (cfg : config) : list (list nat) :=
  map (fun ti => filter (fun j => dep_b ti (nth j cfg {| tpath := []; uses := []; ignores := [] |})) (seq 0 (length cfg))) cfg.

Definition check_index_groups (v : val) : val :=
  let cfg := dConfig (dNth v 0) in
  let visible := dStrs (dNth v 1) in
  let impl := dNth v 2 in
  let in_scope := wf_config_b cfg && forallb (fun p => mem_str p (target_paths cfg)) visible in
  let m := model_index_groups cfg visible in
  let mv := eRes eStrss m in
  let agree := res_same_kind impl mv &&
               match m with Ok gs => strss_set_eqb (dStrss (payload impl)) gs | _ => true end in
  let a := spec_adj cfg in
  let roots := labels_to_nodes cfg visible in
  let impl_nodes := VL [dNth impl 0;
                        if tag impl =? 1 then eNatss (map (labels_to_nodes cfg) (dStrss (payload impl))) else payload impl] in
  let labels_ok := (negb (tag impl =? 1)) ||
                   forallb (forallb (fun p => mem_str p (target_paths cfg))) (dStrss (payload impl)) in
  VL [eB in_scope; mv; eB agree; eB (labels_ok && spec_groups a roots impl_nodes); eB (cyclic_b a roots)].

(* ---------- C10: dependency edges ---------- *)
(* Index::new: duplicate labels are rejected, then every target's subtree is made visible, which
   rejects configurations with a dependency cycle *)
Definition model_edges (cfg : config) : res (list str * list (list nat)) :=
  if has_dup (target_paths cfg) then ErrOther 2
  else match set_roots {| adj := adj_of cfg; vis := repeat false (length cfg) |} (seq 0 (length cfg)) with
       | Ok _ => Ok (target_paths cfg, adj_of cfg)
       | ErrCycle n => ErrCycle n | Panic => Panic | ErrOther k => ErrOther k
       end.

Definition spec_edges (cfg : config) (labels : list str) (a : list (list nat)) : bool :=
  strs_eqb labels (target_paths cfg) && (length a =? length cfg) &&
  forallb (fun i =>
    let ti := nth i cfg {| tpath := []; uses := []; ignores := [] |} in
    let row := nth i a [] in
    nodup_b row &&
    forallb (fun j => j <? length cfg) row &&
    forallb (fun j =>
      let tj := nth j cfg {| tpath := []; uses := []; ignores := [] |} in
      Bool.eqb (mem j row) (dep_b ti tj)) (seq 0 (length cfg)))
  (seq 0 (length cfg)).

Definition check_C10 (v : val) : val :=
  let cfg := dConfig (dNth v 0) in
  let impl := dNth v 1 in
  let m := model_edges cfg in
  let mv := eRes (fun '(l, a) => VL [eStrs l; eNatss a]) m in
  let agree :=
    res_same_kind impl mv &&
    match m with
    | Ok (l, a) => strs_eqb (dStrs (dNth (payload impl) 0)) l && natss_set_eqb (dNatss (dNth (payload impl) 1)) a
    | _ => true
    end in
  let spec :=
    if cyclic_b (spec_adj cfg) (seq 0 (length cfg)) then (tag impl =? 0) && (dnat (payload impl) =? 1)
    else (tag impl =? 1) && spec_edges cfg (dStrs (dNth (payload impl) 0)) (dNatss (dNth (payload impl) 1)) in
  VL [eB (wf_config_b cfg); mv; eB agree; eB spec].

(* ---------- C01: analyze ---------- *)
Definition reason_code (r : reason) : N := match r with RTarget => 0 | RUses => 1 | RIgnores => 2 end%N.
(* breakdown entries as byte strings "target\000code" so that they can be compared as sorted sets *)
Definition brk_key (e : str * reason) : str := fst e ++ [0%N; reason_code (snd e)].
Definition dBrkEntry (v : val) : str := dStr (dNth v 0) ++ [0%N; dN (dNth v 1)].
Definition dBreakdown (v : val) : list (str * list str) :=
  map (fun c => (dStr (dNth c 0), map dBrkEntry (dL (dNth c 1)))) (dL v).

Fixpoint sorted_strict (l : list str) : bool :=
  match l with
  | [] => true
  | x :: r => match r with [] => true | y :: _ => lex_ltb x y && sorted_strict r end
  end.

Definition spec_C01 (cfg : config) (changes : list str) (targets : list str)
           (brk : option (list (str * list str))) : bool :=
  sorted_strict targets &&
  forallb (fun z => mem_str z (target_paths cfg)) targets &&
  forallb (fun t =>
     (negb (spec_changed true cfg changes t) || mem_str (tpath t) targets) &&
     (negb (mem_str (tpath t) targets) || spec_changed false cfg changes t)) cfg &&
  match brk with
  | None => true
  | Some b =>
      (* summary = union of the non-ignored breakdown entries *)
      let non_ign := flat_map (fun '(_, es) =>
                       flat_map (fun e => match rev e with
                                          | c :: z :: r => if N.eqb c 2 then [] else [rev r]
                                          | _ => [] end) es) b in
      sset_eqb non_ign targets
  end.

Definition check_C01 (v : val) : val :=
  let cfg := dConfig (dNth v 0) in
  let changes := dStrs (dNth v 1) in
  let with_brk := dB (dNth v 2) in
  let impl := dNth v 3 in
  let in_scope := wf_config_b cfg && forallb wf_path_b changes in
  let m_targets := summary cfg changes in
  let m_brk := map (fun '(p, es) => (p, map brk_key es)) (breakdown cfg changes) in
  let i_targets := dStrs (dNth (payload impl) 0) in
  let i_brk := dBreakdown (dNth (payload impl) 1) in
  let idx := model_edges cfg in
  let idx_ok := match idx with Ok _ => true | _ => false end in
  let in_scope := in_scope && idx_ok in
  let agree :=
    if negb idx_ok then res_same_kind impl (eRes (fun _ => VL []) idx) else
    (tag impl =? 1) && strs_eqb i_targets m_targets &&
    (negb with_brk ||
     ((length i_brk =? length m_brk) &&
      forallb (fun '((p1, e1), (p2, e2)) => str_eqb p1 p2 && sset_eqb e1 e2) (combine i_brk m_brk))) in
  let spec := (tag impl =? 1) && spec_C01 cfg changes i_targets (if with_brk then Some i_brk else None) in
  VL [eB in_scope; VL [eStrs m_targets]; eB agree; eB spec].

(* pruning loop of analyze (changed targets only): groups restricted to a set, empty groups dropped *)


(* ---------- C03: analyze --target-groups (all targets, or pruned to the changed ones) ---------- *)
Definition valid_pruned_b (a : list (list nat)) (keep : list nat) (gs : list (list nat)) : bool :=
  let all := concat gs in
  nodup_b all && nset_eqb all keep &&
  forallb (fun l => match l with [] => false | _ => true end) gs &&
  forallb (fun i => forallb (fun j =>
     negb (mem j (reach_plus a i)) ||
     match layer_of i gs, layer_of j gs with Some li, Some lj => lj <? li | _, _ => false end) keep) keep.

Definition check_analyze_groups (v : val) : val :=
  let cfg := dConfig (dNth v 0) in
  let changes := dOpt dStrs (dNth v 1) in
  let impl := dNth v 2 in     (* payload: VL [targets; groups] *)
  let in_scope := wf_config_b cfg && match changes with Some ch => forallb wf_path_b ch | None => true end in
  let all_labels := target_paths cfg in
  let m :=
    match model_index_groups cfg all_labels with
    | Ok gs => match changes with
               | None => Ok (sset_of all_labels, gs)
               | Some ch => let sm := summary cfg ch in Ok (sm, prune gs sm)
               end
    | ErrCycle n => ErrCycle n | Panic => Panic | ErrOther k => ErrOther k
    end in
  let mv := eRes (fun '(t, gs) => VL [eStrs t; eStrss gs]) m in
  let i_targets := dStrs (dNth (payload impl) 0) in
  let i_groups := dStrss (dNth (payload impl) 1) in
  let agree := res_same_kind impl mv &&
               match m with Ok (t, gs) => strs_eqb i_targets t && strss_set_eqb i_groups gs | _ => true end in
  let a := spec_adj cfg in
  let cyc := cyclic_b a (seq 0 (length cfg)) in
  let spec :=
    if cyc then (tag impl =? 0) && (dnat (payload impl) =? 1)
    else (tag impl =? 1) &&
         forallb (forallb (fun p => mem_str p all_labels)) i_groups &&
         valid_pruned_b a (labels_to_nodes cfg i_targets) (map (labels_to_nodes cfg) i_groups) in
  VL [eB in_scope; mv; eB agree; eB spec; eB cyc].


(* ---------- C02 / C07 / C19: git changes and checkpoint update, concrete instance of Model/Git.v ---------- *)
(* paths are byte strings, contents are content ids handed out by the harness (distinct ids for distinct
   bytes), a digest is the content id it is the SHA-256 of, or None for the empty checksum *)
Definition cdigest := option N.
Definition cdigest_eqb (a b : cdigest) : bool :=
  match a, b with None, None => true | Some x, Some y => N.eqb x y | _, _ => false end.
Definition csha (c : N) : cdigest := Some c.
Fixpoint assoc {B} (l : list (str * B)) (p : str) : option B :=
  match l with [] => None | (q, b) :: r => if str_eqb q p then Some b else assoc r p end.
Definition dTree (v : val) : str -> option N := assoc (map (fun e => (dStr (dNth e 0), dN (dNth e 1))) (dL v)).
Definition dDigest (v : val) : cdigest := dOpt dN v.
Definition dPending (v : val) : option (list (str * cdigest)) :=
  dOpt (fun m => map (fun e => (dStr (dNth e 0), dDigest (dNth e 1))) (dL m)) v.
Definition ePending (pn : option (list (str * cdigest))) : val :=
  eOpt (fun m => VL (map (fun '(p, d) => VL [eStr p; eOpt eN d]) m)) pn.
Definition dRepo (v : val) : Git.repo str N :=
  Git.Build_repo str N
    (dStrs (dNth v 0)) (dTree (dNth v 1)) (fun p => mem_str p (dStrs (dNth v 2))) (dTree (dNth v 3))
    (fun p => mem_str p (dStrs (dNth v 4))).

Definition c_all_changes_opts := all_changes_opts str N cdigest str_eqb N.eqb cdigest_eqb csha None.
Definition c_update_pending := update_pending str N cdigest str_eqb N.eqb cdigest_eqb csha None.

Fixpoint sorted_nonstrict (l : list str) : bool :=
  match l with
  | [] => true
  | x :: r => match r with [] => true | y :: _ => negb (lex_ltb y x) && sorted_nonstrict r end
  end.

(* input: repo, cp_tree option, begin tree option, end tree option, pending option, impl (tag, names) *)
Definition check_git_changes (v : val) : val :=
  let r := dRepo (dNth v 0) in
  let cp := dOpt dTree (dNth v 1) in
  let b := dOpt dTree (dNth v 2) in
  let e := dOpt dTree (dNth v 3) in
  let pn := dPending (dNth v 4) in
  let impl := dNth v 5 in
  let m := sset_of (c_all_changes_opts r cp b e pn) in
  let names := dStrs (payload impl) in
  let same := (tag impl =? 1) && sset_eqb names m in
  (* sorted, each path once *)
  VL [eB true; eStrs m; eB same; eB (same && sorted_strict names)].

(* input: repo, with_pending flag, old pending option, impl pending option *)
Definition pending_key (e : str * cdigest) : str :=
  fst e ++ [0%N] ++ match snd e with None => [] | Some c => [1%N; c] end.
Definition check_cp_pending (v : val) : val :=
  let r := dRepo (dNth v 0) in
  let flag := dB (dNth v 1) in
  let old := dPending (dNth v 2) in
  let impl := dPending (dNth v 3) in
  let m := c_update_pending r flag old in
  let same := match m, impl with
              | None, None => true
              | Some a, Some b => sset_eqb (map pending_key a) (map pending_key b)
              | _, _ => false end in
  VL [eB true; ePending m; eB same; eB same].


(* ---------- C12 / C13: run pointer and slots ---------- *)
Definition dRec (v : val) : run_rec := {| rlogs := dNats (dNth v 0); rresult := dnat (dNth v 1) |}.
Definition eSlot (s : slot) : val :=
  match s with None => VL [] | Some (ls, r) => VL [eNats (nset_of ls); eOpt enat r] end.
Definition ePtr (p : ptr) : val := match p with PAbsent => VL [] | PEmpty => VL [VN 0] | PVal i => VL [VN 1; enat i] end%N.
Definition eFs (M : nat) (f : fs) : val := VL [ePtr (pointer f); VL (map (fun i => eSlot (slots f i)) (seq 0 (M + 3)))].
Fixpoint val_eqb_fuel (fuel : nat) (a b : val) : bool :=
  match fuel with 0 => false | S k =>
    match a, b with
    | VN x, VN y => N.eqb x y
    | VL x, VL y => (length x =? length y) && forallb (fun '(p, q) => val_eqb_fuel k p q) (combine x y)
    | _, _ => false
    end end.
Definition val_eqb := val_eqb_fuel 12.

(* observed: VL [ptr; slots 0..M+2] in the same shape as eFs *)
Definition slot_shows (v : val) : option (val * val) :=   (* (logs, result) when the slot has a result *)
  match dL v with [ls; r] => match dL r with [x] => Some (ls, x) | _ => None end | _ => None end.
Definition check_tracking (v : val) : val :=
  let M := dnat (dNth v 0) in
  let rs := map dRec (dL (dNth v 1)) in
  let obs := dNth v 2 in
  let f := history M true rs in
  let mv := eFs M f in
  let agree := val_eqb obs mv in
  let k := length rs in
  let obs_ptr := dNth obs 0 in
  let obs_slots := dL (dNth obs 1) in
  let obs_slot i := nth i obs_slots (VL []) in
  let want n := let r := nth (n - 1) rs {| rlogs := []; rresult := 0 |} in (eNats (nset_of (rlogs r)), enat (rresult r)) in
  let shows_run i n := match slot_shows (obs_slot i) with
                       | Some (ls, x) => val_eqb ls (fst (want n)) && val_eqb x (snd (want n))
                       | None => false end in
  let spec :=
    match k with
    | 0 => match dL obs_ptr with [] => true | _ => false end
    | _ =>
      match dL obs_ptr with
      | [_; i] => shows_run (dnat i) k
      | _ => false end &&
      forallb (fun n => (M <=? k - n) || shows_run (slot_of_run M n) n) (seq 1 k) &&
      forallb (fun i => ((1 <=? i) && (i <=? M)) || match dL (obs_slot i) with [] => true | _ => false end) (seq 0 (M + 3))
    end in
  VL [eB (1 <=? M); mv; eB agree; eB spec].

(* a run killed part-way: observed state must equal the model after SOME strict prefix of the run's effects;
   spec: the property's clauses evaluated on the observed state *)
Definition check_crash (v : val) : val :=
  let M := dnat (dNth v 0) in
  let rs := map dRec (dL (dNth v 1)) in
  let r := dRec (dNth v 2) in
  let obs := dNth v 3 in
  let f := history M true rs in
  match next_id M f with
  | None => VL [eB false; VL []; eB false; eB false]
  | Some i =>
    (* every strict crash prefix leaves the pointer and all slots but i as they were (C13_holds); the slot being
       written may hold any part of the new run's files, so it is compared by the harness, not here *)
    let n := length (run_ops true i r) in
    let cands := map (fun k => eFs M (crash true f i r k)) (seq 0 n) in
    let agree := forallb (fun c => val_eqb (dNth c 0) (dNth obs 0) &&
                   forallb (fun j => (j =? i) || val_eqb (nth j (dL (dNth obs 1)) (VL [])) (nth j (dL (dNth c 1)) (VL []))) (seq 0 (M + 3))) cands in
    let before := eFs M f in
    let same_ptr := val_eqb (dNth obs 0) (dNth before 0) in
    let others_same := forallb (fun j => (j =? i) || val_eqb (nth j (dL (dNth obs 1)) (VL [])) (nth j (dL (dNth before 1)) (VL []))) (seq 0 (M + 3)) in
    VL [eB (2 <=? M); before; eB agree; eB (same_ptr && others_same)]
  end.


(* the same with a limit that changed between runs: v = [size; [[M_1; rec_1]; ...]; M; rec; observed] *)
Definition check_crash_var (v : val) : val :=
  let size := dnat (dNth v 0) in
  let rs := map (fun x => (dnat (dNth x 0), dRec (dNth x 1))) (dL (dNth v 1)) in
  let M := dnat (dNth v 2) in
  let r := dRec (dNth v 3) in
  let obs := dNth v 4 in
  let f := history_var true rs in
  match next_id M f with
  | None => VL [eB false; VL []; eB false; eB false]
  | Some i =>
    let n := length (run_ops true i r) in
    let cands := map (fun k => eFs size (crash true f i r k)) (seq 0 n) in
    let agree := forallb (fun c => val_eqb (dNth c 0) (dNth obs 0) &&
                   forallb (fun j => (j =? i) || val_eqb (nth j (dL (dNth obs 1)) (VL [])) (nth j (dL (dNth c 1)) (VL []))) (seq 0 (size + 3))) cands in
    let before := eFs size f in
    let same_ptr := val_eqb (dNth obs 0) (dNth before 0) in
    let others_same := forallb (fun j => (j =? i) || val_eqb (nth j (dL (dNth obs 1)) (VL [])) (nth j (dL (dNth before 1)) (VL []))) (seq 0 (size + 3)) in
    VL [eB (2 <=? M); VL [before; enat i]; eB agree; eB (same_ptr && others_same)]
  end.


(* the command-name check of get_all_commands: v = the name *)
Definition check_cmdname (v : val) : val := let c := dStr (dNth v 0) in VL [eB (name_accepted c); eB (single_component c)].

(* ---------- C17 / C18: configuration file loading ---------- *)
(* files are content ids (distinct bytes, distinct ids; sha = identity on ids); the harness supplies, for the
   file being loaded, whether it parses as a Config, whether it has a `source` and which checksum it embeds *)
Definition cfgvalue := (bool * option N)%type.
Definition check_cfgfile (v : val) : val :=
  let parses := dB (dNth v 0) in
  let has_src := dB (dNth v 1) in
  let sum := dOpt dN (dNth v 2) in
  let src := dOpt dN (dNth v 3) in
  let gen := dN (dNth v 4) in
  let lock := dOpt dN (dNth v 5) in
  let impl_ok := dB (dNth v 6) in
  let parse (b : list N) : option cfgvalue := if parses then Some (has_src, sum) else None in
  let m := usable N N cfgvalue N.eqb (fun b => hd 0%N b) parse snd fst (fun b => b)
             (option_map (fun x => [x]) src) [gen] lock in
  VL [eB true; eB m; eB (Bool.eqb m impl_ok); eB (Bool.eqb m impl_ok)].


(* ---------- C04 / C05 / C06 / C16: the scheduler ---------- *)
Definition dDefn (v : val) : defn := match dnat v with 0 => Defined | 1 => Undefined | _ => NotExec end.
Definition dPlan (v : val) : plan := map (fun c => map (fun g => map dDefn (dL g)) (dL c)) (dL v).
Definition dTask (v : val) : task := (dnat (dNth v 0), dnat (dNth v 1), dnat (dNth v 2)).
Definition eTask (t : task) : val := let '(c, g, k) := t in VL [enat c; enat g; enat k].
Definition dChoice (v : val) : choice :=
  let t := dTask (dNth v 1) in
  match dnat (dNth v 0) with 0 => SchedStep | 1 => ChildExit t | 2 => Reap t | _ => ReapCancelled t end.
Definition eStatus (r : status) : val :=
  match r with
  | Success => VL [VN 0; VL [VN 0]]
  | Error c => VL [VN 1; eOpt enat c]
  | SUndefined => VL [VN 2; VL []]
  | SNotExec => VL [VN 3; VL []]
  | Skipped => VL [VN 4; VL []]
  end%N.
Fixpoint iter_sched (P : plan) (fou : bool) (fuel : nat) (s : st) : st :=
  match fuel with 0 => s | S k => iter_sched P fou k (sched_step P fou s) end.
Definition plan_size (P : plan) : nat :=
  fold_left (fun acc c => acc + 2 + fold_left (fun a g => a + 2 + length g) c 0) P 4.
Definition task_leb (a b : task) : bool :=
  let '(a1, a2, a3) := a in let '(b1, b2, b3) := b in
  (a1 <? b1) || ((a1 =? b1) && ((a2 <? b2) || ((a2 =? b2) && (a3 <=? b3)))).
Definition results_sorted (l : list (task * val)) : list (task * val) :=
  (* insertion sort, lexicographic on (command, group, member) *)
  fold_right (fun x acc =>
     (fix ins (l : list (task * val)) := match l with
        | [] => [x]
        | y :: r => if task_leb (fst x) (fst y) then x :: l else y :: ins r end) acc) [] l.

(* input: plan, fail_on_undefined, exit codes [(task, code)], choices, impl results [(task, status)], impl failed *)
Definition check_sched (v : val) : val :=
  let P := dPlan (dNth v 0) in
  let fou := dB (dNth v 1) in
  let codes := map (fun e => (dTask (dNth e 0), dnat (dNth e 1))) (dL (dNth v 2)) in
  let code (t : task) : nat :=
    match find (fun e => task_eqb t (fst e)) codes with Some e => snd e | None => 0 end in
  let choices := map dChoice (dL (dNth v 3)) in
  let impl_res := results_sorted (map (fun e => (dTask (dNth e 0), dNth e 1)) (dL (dNth v 4))) in
  let impl_failed := dB (dNth v 5) in
  let fuel := plan_size P in
  let s := fold_left (fun s c => step P fou code (iter_sched P fou fuel s) c) choices (init) in
  let s := iter_sched P fou fuel s in
  let m_res := results_sorted (map (fun '(t, r) => (t, eStatus r)) (results s)) in
  let finished := match ph s with Finished => true | _ => false end in
  let enc l := VL (map (fun '(t, r) => VL [eTask t; r]) l) in
  let agree := finished && Bool.eqb (failed s) impl_failed && val_eqb (enc m_res) (enc impl_res) in
  VL [eB true; VL [enc m_res; eB (failed s); eB finished; enat (exit_status s)]; eB agree; eB agree].


(* ---------- C11: argv and command resolution ---------- *)
Definition dCmdmap (v : val) : cmdmap := map (fun e => (dStr (dNth e 0), dStrs (dNth e 1))) (dL v).
(* input: files [(target, name, cmdmap)], use_base, names, targets, run_args option (t, c, args),
          queries [(t, c, impl argv, def path option, dir entries, impl resolved (option (explicit?, path/name)), compare argv?)] *)
Definition check_plan (v : val) : val :=
  let files := map (fun e => (dStr (dNth e 0), dStr (dNth e 1), dCmdmap (dNth e 2))) (dL (dNth v 0)) in
  let file (t n : str) : option cmdmap :=
    match find (fun '(t', n', _) => str_eqb t' t && str_eqb n' n) files with Some (_, _, cm) => Some cm | None => None end in
  let use_base := dB (dNth v 1) in
  let names := dStrs (dNth v 2) in
  let targets := dStrs (dNth v 3) in
  let run_args := dOpt (fun e => (dStr (dNth e 0), dStr (dNth e 1), dStrs (dNth e 2))) (dNth v 4) in
  let tb := build_table (run_loads file use_base names targets run_args) in
  let answers := map (fun q =>
      let t := dStr (dNth q 0) in let c := dStr (dNth q 1) in
      let m_argv := argv_of tb t c in
      let m_res := resolve (dOpt dStr (dNth q 3)) (dStrs (dNth q 4)) c in
      let i_res := dOpt (fun e => (dB (dNth e 0), dStr (dNth e 1))) (dNth q 5) in
      let res_ok := match m_res, i_res with
                    | None, None => true
                    | Some (e1, p1), Some (e2, p2) => Bool.eqb e1 e2 && str_eqb p1 p2
                    | _, _ => false end in
      (((negb (dB (dNth q 6))) || strs_eqb m_argv (dStrs (dNth q 2))) && res_ok, VL [eStrs m_argv; eOpt (fun '(e, p) => VL [eB e; eStr p]) m_res])) (dL (dNth v 5)) in
  let ok := forallb fst answers in
  VL [eB true; VL (map snd answers); eB ok; eB ok].


(* ---------- C14: the lock ---------- *)
(* input: n processes, choices [(kind, pid, n_effects)], observed refused pids, observed effect-performing pids *)
Definition check_lock (v : val) : val :=
  let n := dnat (dNth v 0) in
  let cs := map (fun e => match dnat (dNth e 0) with
                          | 0 => Lock.Start (dnat (dNth e 1)) (dnat (dNth e 2))
                          | 1 => Lock.Act (dnat (dNth e 1))
                          | _ => Lock.Kill (dnat (dNth e 1)) end) (dL (dNth v 1)) in
  let s := fold_left (fun '(s, refused) c =>
             let s' := Lock.step s c in
             (s', match c with Lock.Start p _ => match Lock.pget s' p with Lock.Refused => p :: refused | _ => refused end | _ => refused end))
             cs (Lock.init n, []) in
  let m_refused := nset_of (snd s) in
  let m_acted := nset_of (Lock.effects (fst s)) in
  let agree := nset_eqb m_refused (dNats (dNth v 2)) && nset_eqb m_acted (dNats (dNth v 3)) in
  VL [eB true; VL [eNats m_refused; eNats m_acted]; eB agree; eB agree].


(* ---------- C08 / C15 / C20: one reader ---------- *)
(* input: events [(kind, bytes)] kind 0 Arrive 1 Close 2 Poll 3 Tick; stream attached; sink fails from write n
   (option); impl stored bytes; impl streamed bytes (option) *)
Definition check_reader (v : val) : val :=
  let es := map (fun e => match dnat (dNth e 0) with
                          | 0 => Reader.Arrive (dStr (dNth e 1)) | 1 => Reader.Close | 2 => Reader.Poll | _ => Reader.Tick end)
                (dL (dNth v 0)) in
  let attached := dB (dNth v 1) in
  let fail_from := dOpt dnat (dNth v 2) in
  let sink (n : nat) : bool := match fail_from with Some k => n <? k | None => true end in
  let s := Reader.run true true sink attached es in
  let stored_ok := str_eqb (Reader.out s) (dStr (dNth v 3)) in
  let streamed_ok := match dOpt dStr (dNth v 4) with
                     | Some b => str_eqb (concat (Reader.sent s)) b
                     | None => true end in
  let arrived_ok := str_eqb (Reader.arrived es) (dStr (dNth v 3)) in
  VL [eB (Reader.ended s); VL [eStr (Reader.out s); eB (Reader.failed s)]; eB (stored_ok && streamed_ok && negb (Reader.failed s)); eB arrived_ok].

(* ---------- C20: which readers get a stream client ---------- *)
(* input: listener present; want_stdout; want_stderr; targets; commands; tasks [(is_stdout, target, command)] *)
Definition check_filter (v : val) : val :=
  let f := if dB (dNth v 0)
           then Some {| Filter.want_stdout := dB (dNth v 1); Filter.want_stderr := dB (dNth v 2);
                        Filter.ftargets := dStrs (dNth v 3); Filter.fcommands := dStrs (dNth v 4) |}
           else None in
  let ts := map (fun e => {| Filter.is_stdout := dB (dNth e 0); Filter.ttarget := dStr (dNth e 1); Filter.tcommand := dStr (dNth e 2) |})
                (dL (dNth v 5)) in
  VL (map eB (Filter.attach f ts)).

(* ---------- dispatch ---------- *)
From Coq Require Import String.
Open Scope string_scope.
Definition dispatch (name : str) (v : val) : val :=
  if str_eqb name (bs "C10") then check_C10 v
  else if str_eqb name (bs "C01") then check_C01 v
  else if str_eqb name (bs "dag") then check_dag v
  else if str_eqb name (bs "index_groups") then check_index_groups v
  else if str_eqb name (bs "analyze_groups") then check_analyze_groups v
  else if str_eqb name (bs "git_changes") then check_git_changes v
  else if str_eqb name (bs "cp_pending") then check_cp_pending v
  else if str_eqb name (bs "tracking") then check_tracking v
  else if str_eqb name (bs "crash") then check_crash v
  else if str_eqb name (bs "crash_var") then check_crash_var v
  else if str_eqb name (bs "cmdname") then check_cmdname v
  else if str_eqb name (bs "cfgfile") then check_cfgfile v
  else if str_eqb name (bs "sched") then check_sched v
  else if str_eqb name (bs "plan") then check_plan v
  else if str_eqb name (bs "lock") then check_lock v
  else if str_eqb name (bs "reader") then check_reader v
  else if str_eqb name (bs "filter") then check_filter v
  else VL [].
