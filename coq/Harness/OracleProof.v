(* The decision procedures the correspondence checks use as specification oracles for C03/C09
   (Glue.cyclic_b, Dag.valid_layering_b) are proved equivalent to the Prop-level notions the property
   theorems are stated with (cyclic_from, valid_layering).  So "spec_ok" as computed by the extracted
   model IS the statement of C03/C09 applied to the implementation's output - the oracles leave the
   trusted base.  cyclic_b is independent of the model's Kahn algorithm: it iterates the successor
   relation |a| times; the proof that this reaches the closure is a counting argument. *)
From Coq Require Import List Arith NArith Bool Lia Relations Sorted.
From MR Require Import Lib.Bytes Model.Index Model.Dag Proofs.IndexProof Proofs.Walk Proofs.DagApi Harness.Glue.
Import ListNotations.

Lemma ssorted_NoDup (l : list nat) : StronglySorted lt l -> NoDup l.
Proof.
  induction 1 as [|x l Hs IH Hf]; constructor; auto.
  intro Hin. rewrite Forall_forall in Hf. specialize (Hf x Hin). lia.
Qed.

Lemma nodup_b_NoDup (l : list nat) : nodup_b l = true <-> NoDup l.
Proof.
  induction l as [|x l IH]; simpl.
  - split; [constructor|reflexivity].
  - rewrite andb_true_iff, negb_true_iff, IH. split.
    + intros [Hm Hn]. constructor; auto. intro Hin. apply mem_In in Hin. congruence.
    + intros Hn. inversion Hn as [|? ? Hx Hl]; subst. split; auto.
      destruct (mem x l) eqn:E; auto. apply mem_In in E. contradiction.
Qed.

Lemma ssorted_ext (l1 : list nat) : forall l2, StronglySorted lt l1 -> StronglySorted lt l2 ->
  (forall x, In x l1 <-> In x l2) -> l1 = l2.
Proof.
  induction l1 as [|x1 l1 IH]; intros l2 H1 H2 Hext.
  - destruct l2 as [|x2 l2]; auto. exfalso. apply (Hext x2). left; reflexivity.
  - destruct l2 as [|x2 l2]; [exfalso; apply (Hext x1); left; reflexivity|].
    inversion H1 as [|? ? Hs1 Hf1]; subst. inversion H2 as [|? ? Hs2 Hf2]; subst.
    rewrite Forall_forall in Hf1, Hf2.
    assert (E : x1 = x2).
    { destruct (proj1 (Hext x1) (or_introl eq_refl)) as [E|Hin]; auto.
      destruct (proj2 (Hext x2) (or_introl eq_refl)) as [E|Hin2]; auto.
      specialize (Hf2 _ Hin). specialize (Hf1 _ Hin2). lia. }
    subst x2. f_equal. apply IH; auto. intros z. split; intros Hz.
    + destruct (proj1 (Hext z) (or_intror Hz)) as [E|Hin]; auto. specialize (Hf1 _ Hz). lia.
    + destruct (proj2 (Hext z) (or_intror Hz)) as [E|Hin]; auto. specialize (Hf2 _ Hz). lia.
Qed.

Lemma list_eqb_combine (l1 : list nat) : forall l2,
  (length l1 =? length l2) && forallb (fun '(x, y) => x =? y) (combine l1 l2) = true <-> l1 = l2.
Proof.
  induction l1 as [|x l1 IH]; intros [|y l2]; simpl; try (split; [discriminate|discriminate]).
  - split; reflexivity.
  - split.
    + intros H. apply andb_true_iff in H as [Hl H]. apply andb_true_iff in H as [Hxy Hf].
      apply Nat.eqb_eq in Hxy. subst y. f_equal. apply IH. apply andb_true_iff. split; auto.
    + intros E. injection E as -> ->. assert (H : l2 = l2) by reflexivity. apply IH in H.
      apply andb_true_iff in H as [Hl Hf]. rewrite Hl, Nat.eqb_refl, Hf. reflexivity.
Qed.

Lemma nset_eqb_iff (a b : list nat) : nset_eqb a b = true <-> (forall x, In x a <-> In x b).
Proof.
  unfold nset_eqb. rewrite list_eqb_combine. split.
  - intros E x. rewrite <- (nset_of_In a), <- (nset_of_In b), E. tauto.
  - intros Hext. apply ssorted_ext; try apply nset_of_sorted.
    intros x. rewrite !nset_of_In. apply Hext.
Qed.

Section Oracle.
Variable a : list (list nat).
Let g0 := {| adj := a; vis := repeat false (length a) |}.
Hypothesis Hwf : wf g0.

Lemma deps_lt i j : In j (nth i a []) -> j < length a.
Proof. destruct Hwf as [_ Hd]. intros H. apply (Hd i j). exact H. Qed.

Lemma edge_iff i j : edge g0 i j <-> In j (nth i a []).
Proof.
  unfold edge, size, deps; simpl. split; [tauto|]. intros H. split; auto.
  destruct (Nat.lt_ge_cases i (length a)) as [Hl|Hl]; auto.
  rewrite nth_overflow in H by lia. destruct H.
Qed.

Definition below (s : list nat) := forall x, In x s -> x < length a.
Definition closed (s : list nat) := forall i j, In i s -> In j (nth i a []) -> In j s.

Lemma succs_In s x : In x (succs a s) <-> In x s \/ exists i, In i s /\ In x (nth i a []).
Proof. unfold succs. rewrite nset_of_In, in_app_iff, in_flat_map. tauto. Qed.

Lemma succs_NoDup s : NoDup (succs a s).
Proof. apply ssorted_NoDup. apply nset_of_sorted. Qed.

Lemma succs_below s : below s -> below (succs a s).
Proof. intros Hb x Hx. apply succs_In in Hx as [Hx|(i & _ & Hx)]; [auto|eapply deps_lt; eauto]. Qed.

Lemma iter_incl k : forall s x, In x s -> In x (iter_succs k a s).
Proof.
  induction k as [|k IH]; intros s x Hx; simpl; auto.
  apply IH. apply succs_In. left. exact Hx.
Qed.

Lemma iter_sound k : forall s x, In x (iter_succs k a s) -> exists r, In r s /\ reach g0 r x.
Proof.
  induction k as [|k IH]; intros s x Hx; simpl in Hx.
  - exists x. split; auto. apply rt_refl.
  - apply IH in Hx as (r & Hr & Hreach). apply succs_In in Hr as [Hr|(i & Hi & Hr)].
    + exists r. split; auto.
    + exists i. split; auto. eapply rt_trans; [|exact Hreach]. apply rt_step. apply edge_iff. exact Hr.
Qed.

Lemma iter_below k : forall s, below s -> below (iter_succs k a s).
Proof. induction k as [|k IH]; intros s Hb; simpl; auto. apply IH. apply succs_below. exact Hb. Qed.

Lemma iter_NoDup k : forall s, NoDup s -> NoDup (iter_succs k a s).
Proof. induction k as [|k IH]; intros s Hn; simpl; auto. apply IH. apply succs_NoDup. Qed.

Lemma iter_closed_stable k : forall s, closed s -> forall x, In x (iter_succs k a s) -> In x s.
Proof.
  induction k as [|k IH]; intros s Hc x Hx; simpl in Hx; auto.
  assert (Hsub : forall y, In y (succs a s) -> In y s).
  { intros y Hy. apply succs_In in Hy as [Hy|(i & Hi & Hy)]; [auto|eapply Hc; eauto]. }
  apply Hsub. apply (IH (succs a s)); auto.
  intros i j Hi Hj. apply succs_In. left. eapply Hc; [apply Hsub; exact Hi|exact Hj].
Qed.

Lemma closed_iter k s : closed s -> closed (iter_succs k a s).
Proof.
  intros Hc i j Hi Hj. apply iter_incl. eapply Hc; [|exact Hj]. eapply iter_closed_stable; eauto.
Qed.

(* each round either has reached a closed set or has gained at least one node *)
Lemma iter_progress k : forall s, NoDup s ->
  closed (iter_succs k a s) \/ length s + k <= length (iter_succs k a s).
Proof.
  induction k as [|k IH]; intros s Hn; simpl.
  - right. lia.
  - pose proof (succs_NoDup s) as Hn'.
    assert (Hincl : incl s (succs a s)) by (intros x Hx; apply succs_In; left; exact Hx).
    pose proof (NoDup_incl_length Hn Hincl) as Hle.
    destruct (Nat.eq_dec (length (succs a s)) (length s)) as [E|E].
    + left. assert (Hback : incl (succs a s) s) by (apply NoDup_length_incl; auto; lia).
      apply closed_iter. intros i j Hi Hj. apply succs_In. left.
      apply Hback. apply succs_In. right. exists i. split; auto.
    + destruct (IH (succs a s) Hn') as [Hc|Hl]; [left; exact Hc|right; lia].
Qed.

Lemma iter_full_closed s : NoDup s -> below s -> closed (iter_succs (length a) a s).
Proof.
  intros Hn Hb. destruct (iter_progress (length a) s Hn) as [Hc|Hl]; auto.
  assert (Hall : incl (seq 0 (length a)) (iter_succs (length a) a s)).
  { apply NoDup_length_incl.
    - apply iter_NoDup. exact Hn.
    - rewrite seq_length. lia.
    - intros x Hx. apply in_seq. split; [lia|]. simpl. eapply iter_below; eauto. }
  intros i j _ Hj. apply Hall. apply in_seq. split; [lia|]. simpl. eapply deps_lt; eauto.
Qed.

Lemma iter_complete s : NoDup s -> below s ->
  forall r x, In r s -> reach g0 r x -> In x (iter_succs (length a) a s).
Proof.
  intros Hn Hb r x Hr Hreach. induction Hreach as [|y z _ IH He] using clos_refl_trans_ind_left.
  - apply iter_incl. exact Hr.
  - apply (iter_full_closed s Hn Hb y z IH). exact (proj1 (edge_iff y z) He).
Qed.

Lemma nset_NoDup l : NoDup (nset_of l).
Proof. apply ssorted_NoDup. apply nset_of_sorted. Qed.

Theorem reach_star_spec roots : (forall r, In r roots -> r < length a) ->
  forall x, In x (reach_star a roots) <-> reachable_from g0 roots x.
Proof.
  intros Hr x. unfold reach_star, reachable_from. split.
  - intros Hx. apply iter_sound in Hx as (r & Hin & Hreach). exists r. split; auto. rewrite nset_of_In in Hin. exact Hin.
  - intros (r & Hin & Hreach). eapply iter_complete; eauto.
    + apply nset_NoDup.
    + intros y Hy. apply Hr. rewrite nset_of_In in Hy. exact Hy.
    + rewrite nset_of_In. exact Hin.
Qed.

Lemma step_reach_path m r x : edge g0 m r -> reach g0 r x -> path g0 m x.
Proof.
  intros He Hreach. induction Hreach as [|y z _ IH He2] using clos_refl_trans_ind_left.
  - apply t_step. exact He.
  - eapply t_trans; [exact IH|apply t_step; exact He2].
Qed.

Lemma path_reach m x : path g0 m x -> reach g0 m x.
Proof. induction 1; [apply rt_step; assumption|eapply rt_trans; eassumption]. Qed.

Lemma path_step_reach m x : path g0 m x -> exists r, edge g0 m r /\ reach g0 r x.
Proof.
  intros P. induction P as [m x He|m y z P1 IH1 P2 _].
  - exists x. split; auto. apply rt_refl.
  - destruct IH1 as (r & He & Hreach). exists r. split; auto.
    eapply rt_trans; [exact Hreach|]. apply path_reach. exact P2.
Qed.

Theorem reach_plus_spec m x : In x (reach_plus a m) <-> path g0 m x.
Proof.
  unfold reach_plus. split.
  - intros Hx. apply iter_sound in Hx as (r & Hin & Hreach). rewrite nset_of_In in Hin.
    eapply step_reach_path; [apply edge_iff; exact Hin|exact Hreach].
  - intros P. apply path_step_reach in P as (r & He & Hreach). apply edge_iff in He.
    eapply iter_complete; eauto.
    + apply nset_NoDup.
    + intros y Hy. rewrite nset_of_In in Hy. eapply deps_lt; eauto.
    + rewrite nset_of_In. exact He.
Qed.

(* the cycle oracle decides exactly the notion C09 is stated with *)
Theorem cyclic_b_iff roots : (forall r, In r roots -> r < length a) ->
  (cyclic_b a roots = true <-> cyclic_from g0 roots).
Proof.
  intros Hr. unfold cyclic_b, cyclic_from. rewrite existsb_exists. split.
  - intros (m & Hm & Hc). exists m. split; [apply reach_star_spec; auto|].
    apply reach_plus_spec. apply mem_In. exact Hc.
  - intros (m & Hm & P). exists m. split; [apply reach_star_spec; auto|].
    apply mem_In. apply reach_plus_spec. exact P.
Qed.

(* ---------- the layering oracle ---------- *)
Lemma reachable_lt roots x : (forall r, In r roots -> r < length a) -> reachable_from g0 roots x -> x < length a.
Proof.
  intros Hr (r & Hin & Hreach). induction Hreach as [|y z _ IH He] using clos_refl_trans_ind_left; auto.
  apply edge_iff in He. eapply deps_lt; eauto.
Qed.

Lemma mark_all_spec roots : forall v done, length v = length a ->
  (forall x, nth x v false = true <-> reachable_from g0 done x) ->
  (forall r, In r roots -> r < length a) ->
  exists v', mark_all (with_vis a v) roots = Some (with_vis a v') /\ length v' = length a /\
             forall x, nth x v' false = true <-> reachable_from g0 (done ++ roots) x.
Proof.
  induction roots as [|r rs IH]; intros v done Hl Hv Hr.
  - exists v. rewrite app_nil_r. repeat split; auto; apply Hv.
  - assert (Hrr : r < length a) by (apply Hr; left; reflexivity).
    destruct (mark_spec (with_vis a v) r true (wf_with a Hwf v Hl) Hrr) as (v' & E & Hl' & H1 & H2 & H3).
    unfold size in Hl'; simpl in Hl'.
    assert (Hv' : forall x, nth x v' false = true <-> reachable_from g0 (done ++ [r]) x).
    { intros x. unfold g0. rewrite (reachable_snoc a). fold g0. split.
      - intros Hx. destruct (H3 x) as [Hre|Hre]; [right; exact Hre|].
        left. apply Hv. rewrite <- Hx. symmetry. apply (H2 x Hre).
      - intros [Hx|Hx]; [|apply (H1 x Hx)].
        destruct (H3 x) as [Hre|Hre]; [apply (H1 x Hre)|]. rewrite (H2 x Hre). apply Hv. exact Hx. }
    cbn [mark_all]. simpl in E. rewrite E. fold (with_vis a v').
    destruct (IH v' (done ++ [r]) Hl' Hv') as (v'' & E2 & Hl2 & Hv2).
    { intros q Hq. apply Hr. right. exact Hq. }
    exists v''. rewrite <- app_assoc in Hv2. simpl in Hv2. repeat split; auto; apply Hv2.
Qed.

Lemma layer_of_In n gs : (exists k, layer_of n gs = Some k) <-> In n (concat gs).
Proof.
  induction gs as [|l gs IH]; simpl.
  - split; [intros (k & E); discriminate|tauto].
  - rewrite in_app_iff. destruct (mem n l) eqn:E.
    + split; [intros _; left; apply mem_In; exact E|intros _; eexists; reflexivity].
    + split.
      * intros (k & Ek). right. apply IH. destruct (layer_of n gs) as [k'|]; [eexists; reflexivity|discriminate].
      * intros [Hin|Hin]; [apply mem_In in Hin; congruence|].
        apply IH in Hin as (k & Ek). rewrite Ek. eexists; reflexivity.
Qed.

Theorem valid_layering_b_iff roots gs : (forall r, In r roots -> r < length a) ->
  (valid_layering_b a roots gs = true <-> valid_layering g0 roots gs).
Proof.
  intros Hr. unfold valid_layering_b.
  destruct (mark_all_spec roots (repeat false (length a)) [] (repeat_length _ _)) as (v & E & Hl & Hv); auto.
  { destruct (RInv_init a) as (_ & H & _). exact H. }
  simpl in Hv. change {| adj := a; vis := repeat false (length a) |} with (with_vis a (repeat false (length a))).
  rewrite E. unfold visible, deps; simpl.
  rewrite !andb_true_iff, !forallb_forall, nodup_b_NoDup. unfold valid_layering. split.
  - intros ((((Hnd & Hmem) & Hlt) & Hne) & Hlay). repeat split.
    + exact Hnd.
    + intros Hin. apply Hv. specialize (Hlt n Hin). apply Nat.ltb_lt in Hlt.
      specialize (Hmem n). rewrite in_seq in Hmem. specialize (Hmem (conj (Nat.le_0_l _) Hlt)).
      apply eqb_prop in Hmem. rewrite <- Hmem. apply mem_In. exact Hin.
    + intros Hre. pose proof (reachable_lt roots n Hr Hre) as Hn.
      specialize (Hmem n). rewrite in_seq in Hmem. specialize (Hmem (conj (Nat.le_0_l _) Hn)).
      apply eqb_prop in Hmem. apply mem_In. rewrite Hmem. apply Hv. exact Hre.
    + intros l Hin Hl0. specialize (Hne l Hin). subst l. discriminate.
    + intros i j Hi He. pose proof (reachable_lt roots i Hr Hi) as Hi'.
      specialize (Hlay i). rewrite in_seq in Hlay. specialize (Hlay (conj (Nat.le_0_l _) Hi')).
      apply orb_true_iff in Hlay as [Hlay|Hlay].
      * apply negb_true_iff in Hlay. apply Hv in Hi. congruence.
      * rewrite forallb_forall in Hlay. apply edge_iff in He. specialize (Hlay j He).
        destruct (layer_of i gs) as [li|]; [|discriminate]. destruct (layer_of j gs) as [lj|]; [|discriminate].
        exists li, lj. repeat split; auto. apply Nat.ltb_lt. exact Hlay.
  - intros (Hnd & Hmem & Hne & Hlay). repeat split.
    + exact Hnd.
    + intros n _. apply Bool.eqb_true_iff. apply eq_true_iff_eq. rewrite mem_In, Hmem, Hv. tauto.
    + intros n Hin. apply Nat.ltb_lt. apply (reachable_lt roots n Hr). apply Hmem. exact Hin.
    + intros l Hin. destruct l; auto. exfalso. apply (Hne [] Hin). reflexivity.
    + intros i Hi. destruct (nth i v false) eqn:Ev; [|reflexivity]. simpl.
      apply forallb_forall. intros j Hj.
      destruct (Hlay i j) as (li & lj & E1 & E2 & Hlt).
      * apply Hv. exact Ev.
      * apply edge_iff. exact Hj.
      * rewrite E1, E2. apply Nat.ltb_lt. exact Hlt.
Qed.

(* what the harness computes as "the implementation's answer meets C03/C09" is the Prop-level statement *)
Theorem spec_groups_ok_iff roots gs : (forall r, In r roots -> r < length a) ->
  ((cyclic_b a roots = false /\ valid_layering_b a roots gs = true) <->
   (~ cyclic_from g0 roots /\ valid_layering g0 roots gs)).
Proof.
  intros Hr. rewrite <- (valid_layering_b_iff roots gs Hr), <- (cyclic_b_iff roots Hr).
  destruct (cyclic_b a roots); intuition congruence.
Qed.
(* ---------- the pruned-layering oracle (analyze --target-groups restricted to the changed targets) ---------- *)
Definition valid_pruned (keep : list nat) (gs : list (list nat)) : Prop :=
  NoDup (concat gs) /\
  (forall x, In x (concat gs) <-> In x keep) /\
  (forall l, In l gs -> l <> []) /\
  (forall i j, In i keep -> In j keep -> path g0 i j ->
     exists li lj, layer_of i gs = Some li /\ layer_of j gs = Some lj /\ lj < li).

Theorem valid_pruned_b_iff keep gs : valid_pruned_b a keep gs = true <-> valid_pruned keep gs.
Proof.
  unfold valid_pruned_b, valid_pruned.
  rewrite !andb_true_iff, !forallb_forall, nodup_b_NoDup, nset_eqb_iff. split.
  - intros (((Hnd & Hext) & Hne) & Hlay). split; [exact Hnd|]. split; [exact Hext|]. split.
    + intros l Hin Hl0. specialize (Hne l Hin). subst l. discriminate.
    + intros i j Hi Hj P. specialize (Hlay i Hi). rewrite forallb_forall in Hlay. specialize (Hlay j Hj).
      apply orb_true_iff in Hlay as [Hlay|Hlay].
      * apply negb_true_iff in Hlay. apply reach_plus_spec in P. apply mem_In in P. congruence.
      * destruct (layer_of i gs) as [li|]; [|discriminate]. destruct (layer_of j gs) as [lj|]; [|discriminate].
        exists li, lj. repeat split; auto. apply Nat.ltb_lt. exact Hlay.
  - intros (Hnd & Hext & Hne & Hlay). split; [split; [split; [exact Hnd|exact Hext]|]|].
    + intros l Hin. destruct l; auto. exfalso. apply (Hne [] Hin). reflexivity.
    + intros i Hi. apply forallb_forall. intros j Hj.
      destruct (mem j (reach_plus a i)) eqn:E; [|reflexivity]. simpl.
      apply mem_In in E. apply reach_plus_spec in E.
      destruct (Hlay i j Hi Hj E) as (li & lj & E1 & E2 & Hlt). rewrite E1, E2. apply Nat.ltb_lt. exact Hlt.
Qed.
End Oracle.

(* ---------- C10: the edge oracle is the statement of C10 (its graph clauses) applied to the implementation's answer ---------- *)
Lemma strs_eqb_eq (l1 : list str) : forall l2, strs_eqb l1 l2 = true <-> l1 = l2.
Proof.
  unfold strs_eqb. induction l1 as [|x l1 IH]; intros [|y l2]; simpl; try (split; discriminate).
  - split; reflexivity.
  - split.
    + intros H. apply andb_true_iff in H as [Hl H]. apply andb_true_iff in H as [Hxy Hf].
      apply str_eqb_eq in Hxy. subst y. f_equal. apply IH. apply andb_true_iff. split; auto.
    + intros E. injection E as -> ->. assert (H : l2 = l2) by reflexivity. apply IH in H.
      apply andb_true_iff in H as [Hl Hf]. simpl in Hl. rewrite Hl, Hf.
      assert (Hy : str_eqb y y = true) by (apply str_eqb_eq; reflexivity). rewrite Hy. reflexivity.
Qed.

Definition edges_meet_C10 (cfg : config) (labels : list str) (a : list (list nat)) : Prop :=
  labels = target_paths cfg /\ length a = length cfg /\
  forall i ti, nth_error cfg i = Some ti ->
    NoDup (nth i a []) /\ (forall j, In j (nth i a []) -> j < length cfg) /\
    (forall j tj, nth_error cfg j = Some tj -> (In j (nth i a []) <-> dep ti tj)).

Theorem spec_edges_iff cfg labels a : spec_edges cfg labels a = true <-> edges_meet_C10 cfg labels a.
Proof.
  unfold spec_edges, edges_meet_C10.
  rewrite !andb_true_iff, strs_eqb_eq, Nat.eqb_eq, forallb_forall.
  set (dflt := {| tpath := []; uses := []; ignores := [] |}).
  split.
  - intros ((Hlab & Hlen) & Hrows). split; [exact Hlab|]. split; [exact Hlen|].
    intros i ti Hi. assert (Hil : i < length cfg) by (apply nth_error_Some; congruence).
    specialize (Hrows i). rewrite in_seq in Hrows. specialize (Hrows (conj (Nat.le_0_l _) Hil)).
    apply andb_true_iff in Hrows as [Hrows Hdep]. apply andb_true_iff in Hrows as [Hnd Hlt].
    rewrite (nth_error_nth _ _ dflt Hi) in Hdep.
    split; [apply nodup_b_NoDup; exact Hnd|]. split.
    + intros j Hj. rewrite forallb_forall in Hlt. apply Nat.ltb_lt. apply Hlt. exact Hj.
    + intros j tj Hj. assert (Hjl : j < length cfg) by (apply nth_error_Some; congruence).
      rewrite forallb_forall in Hdep. specialize (Hdep j). rewrite in_seq in Hdep.
      specialize (Hdep (conj (Nat.le_0_l _) Hjl)). rewrite (nth_error_nth _ _ dflt Hj) in Hdep.
      apply Bool.eqb_prop in Hdep. rewrite <- mem_In, Hdep. apply dep_b_spec.
  - intros (Hlab & Hlen & Hrows). split; [split; assumption|].
    intros i Hi. apply in_seq in Hi as [_ Hi]. simpl in Hi.
    destruct (nth_error cfg i) as [ti|] eqn:Ei; [|apply nth_error_None in Ei; lia].
    destruct (Hrows i ti Ei) as (Hnd & Hlt & Hdep). rewrite (nth_error_nth _ _ dflt Ei).
    apply andb_true_iff. split; [apply andb_true_iff; split|].
    + apply nodup_b_NoDup. exact Hnd.
    + apply forallb_forall. intros j Hj. apply Nat.ltb_lt. apply Hlt. exact Hj.
    + apply forallb_forall. intros j Hj. apply in_seq in Hj as [_ Hj]. simpl in Hj.
      destruct (nth_error cfg j) as [tj|] eqn:Ej; [|apply nth_error_None in Ej; lia].
      rewrite (nth_error_nth _ _ dflt Ej). apply Bool.eqb_true_iff. apply eq_true_iff_eq.
      rewrite mem_In, dep_b_spec. apply Hdep. exact Ej.
Qed.

(* ---------- C01: the summary oracle is the statement of C01 (its clauses about one answer) ---------- *)
Lemma mem_str_In z l : mem_str z l = true <-> In z l.
Proof.
  unfold mem_str. rewrite existsb_exists. split.
  - intros (x & Hx & E). apply str_eqb_eq in E. subst. exact Hx.
  - intros H. exists z. split; auto. apply str_eqb_eq. reflexivity.
Qed.

Lemma sorted_strict_iff l : sorted_strict l = true <-> StronglySorted lex_lt l.
Proof.
  induction l as [|x l IH].
  - split; [constructor|reflexivity].
  - destruct l as [|y r].
    + split; [intros _; constructor; constructor|reflexivity].
    + change (sorted_strict (x :: y :: r)) with (lex_ltb x y && sorted_strict (y :: r)).
      rewrite andb_true_iff, IH. split.
      * intros [Hxy Hs]. constructor; auto. inversion Hs as [|? ? Hs' Hf]; subst.
        constructor; [exact Hxy|]. rewrite Forall_forall in *. intros z Hz.
        eapply lex_ltb_trans; [exact Hxy|apply Hf; exact Hz].
      * intros Hs. inversion Hs as [|? ? Hs' Hf]; subst. split; auto.
        rewrite Forall_forall in Hf. apply Hf. left; reflexivity.
Qed.

Lemma sset_eqb_iff l1 l2 : sset_eqb l1 l2 = true <-> (forall z, In z l1 <-> In z l2).
Proof.
  unfold sset_eqb. rewrite strs_eqb_eq. split.
  - intros E z. rewrite <- (sset_of_In l1), <- (sset_of_In l2), E. tauto.
  - apply sset_of_ext.
Qed.

Definition meets_C01 (cfg : config) (changes targets : list str) : Prop :=
  StronglySorted lex_lt targets /\
  (forall z, In z targets -> In z (target_paths cfg)) /\
  (forall t, In t cfg ->
     (spec_changed true cfg changes t = true -> In (tpath t) targets) /\
     (In (tpath t) targets -> spec_changed false cfg changes t = true)).

Theorem spec_C01_summary_iff cfg changes targets :
  spec_C01 cfg changes targets None = true <-> meets_C01 cfg changes targets.
Proof.
  unfold spec_C01, meets_C01. rewrite !andb_true_iff, sorted_strict_iff, !forallb_forall. split.
  - intros (((Hs & Hsub) & Hex) & _). split; [exact Hs|]. split.
    + intros z Hz. apply mem_str_In. apply Hsub. exact Hz.
    + intros t Ht. specialize (Hex t Ht). apply andb_true_iff in Hex as [H1 H2]. split.
      * intros Hc. rewrite Hc in H1. simpl in H1. apply mem_str_In. exact H1.
      * intros Hin. apply mem_str_In in Hin. rewrite Hin in H2. simpl in H2. exact H2.
  - intros (Hs & Hsub & Hex). split; [split; [split; [exact Hs|]|]|reflexivity].
    + intros z Hz. apply mem_str_In. apply Hsub. exact Hz.
    + intros t Ht. destruct (Hex t Ht) as [H1 H2]. apply andb_true_iff. split.
      * destruct (spec_changed true cfg changes t); [|reflexivity]. simpl. apply mem_str_In. apply H1. reflexivity.
      * destruct (mem_str (tpath t) targets) eqn:E; [|reflexivity]. simpl. apply H2. apply mem_str_In. exact E.
Qed.

(* with a breakdown: additionally the summary is the set of non-ignored breakdown entries (entries are the byte strings
   target ++ [0; reason code]; the decoding below is the one spec_C01 uses) *)
Definition brk_non_ignored (b : list (str * list str)) : list str :=
  flat_map (fun '(_, es) =>
     flat_map (fun e => match rev e with
                        | c :: z :: r => if N.eqb c 2 then [] else [rev r]
                        | _ => [] end) es) b.

Theorem spec_C01_breakdown_iff cfg changes targets b :
  spec_C01 cfg changes targets (Some b) = true <->
  meets_C01 cfg changes targets /\ (forall z, In z (brk_non_ignored b) <-> In z targets).
Proof.
  rewrite <- spec_C01_summary_iff. unfold spec_C01. fold (brk_non_ignored b).
  rewrite !andb_true_iff, sset_eqb_iff. tauto.
Qed.

Print Assumptions cyclic_b_iff.
Print Assumptions spec_C01_summary_iff.
Print Assumptions spec_C01_breakdown_iff.
Print Assumptions spec_edges_iff.
Print Assumptions valid_layering_b_iff.
Print Assumptions valid_pruned_b_iff.
