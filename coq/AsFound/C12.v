(* The pinned commit recycled the slot of the next run before the invocation had been validated: a rejected invocation
   (unknown target, undefined sequence, invalid argmap) emptied the slot of the oldest retained run.  The statement over
   invocation sequences is false of that model. *)
From Coq Require Import List Arith Lia.
From MR Require Import Model.Tracking Proofs.TrackingProof Properties.C12.
Import ListNotations.

Lemma C12_as_found_refuted : ~ C12_invocations_statement (fun M => invocations M true).
Proof.
  intro H.
  pose (rr := fun n => {| rlogs := [n]; rresult := 10 + n |}).
  specialize (H 3 [Completes (rr 1); Completes (rr 2); Completes (rr 3); Completes (rr 4); Rejected]).
  cbv zeta in H. destruct H as (_ & H2 & _).
  - lia.
  - discriminate.
  - specialize (H2 2). vm_compute in H2. assert (E : Broken = Shows [2] 12) by (apply H2; lia). discriminate.
Qed.
Print Assumptions C12_as_found_refuted.
