(* The pinned commit recycled the slot of the next run before the invocation had been validated: a rejected invocation
   (unknown target, undefined sequence, invalid argmap) emptied the slot of the oldest retained run.  The statement over
   invocation sequences is false of that model. *)
From Coq Require Import List Arith Lia.
From MR Require Import Model.Tracking Proofs.TrackingProof Properties.C12.
Import ListNotations.

Lemma C12_as_found_refuted : ~ C12_invocations_statement (fun M => invocations M true).
Proof.
  intro H.
  pose (rr := fun n => {| rlogs := [n]; rresult := 10 + n |}).
  specialize (H 3 [Completes (rr 1); Completes (rr 2); Completes (rr 3); Completes (rr 4); Rejected]).
  cbv zeta in H. destruct H as (_ & H2 & _).
  - lia.
  - discriminate.
  - specialize (H2 2). vm_compute in H2. assert (E : Broken = Shows [2] 12) by (apply H2; lia). discriminate.
Qed.
Print Assumptions C12_as_found_refuted.

(* The pinned commit accepted every command name: `../4/hello` puts the logs of the run in slot 5 into slot 4. *)
From Coq Require Import String.
From MR Require Import Lib.Bytes Lib.Val Model.RunPaths.
Lemma C12_confinement_as_found_refuted : ~ C12_confinement_statement (fun _ => true).
Proof.
  intro H. specialize (H [bs "run"%string] (bs "5"%string) (bs "../4/hello"%string) (bs "h"%string) eq_refl eq_refl eq_refl).
  destruct H as [H _]. vm_compute in H. discriminate.
Qed.
Print Assumptions C12_confinement_as_found_refuted.
