(* The pinned commit's compressor threads left their loop at the FIRST Shutdown although several clients share
   a thread: with 2 threads and 4 clients, client 0 shuts down, thread 0 processes it and leaves, client 2's
   Shutdown then fails - the run aborts with "channel closed". *)
From Coq Require Import List Arith.
From MR Require Import Model.Compressor Properties.C06.
Import ListNotations.

Lemma C06_as_found_refuted : ~ C06_shutdown_statement (fun T n => srun T n false).
Proof.
  intro H. specialize (H 2 4 [SShutdown 0; SRecv 0; SShutdown 2]). 
  assert (E : send_failed (srun 2 4 false [SShutdown 0; SRecv 0; SShutdown 2]) = true) by reflexivity.
  rewrite H in E; [discriminate|repeat constructor].
Qed.
Print Assumptions C06_as_found_refuted.
