(* The pinned commit read and hashed only the first 8192 bytes of the configuration file.
   Concrete instance: a value is (payload, optional checksum), rendered as [len checksum] ++ checksum ++ payload;
   sha is the identity (injective).  (1) C18: a file whose meaning lies beyond byte 8192 is read differently;
   (2) C17: appending to a generated file of exactly 8192 bytes goes unnoticed. *)
From Coq Require Import List Bool Arith NArith Lia.
From MR Require Import Model.CfgFile Properties.C17 Properties.C18.
Import ListNotations.

Definition W := Nat.pow 2 13.                        (* 8192 *)
Definition cval := (list nat * option (list nat))%type.
Fixpoint leqb (a b : list nat) : bool :=
  match a, b with [], [] => true | x :: a', y :: b' => Nat.eqb x y && leqb a' b' | _, _ => false end.
Lemma leqb_eq a : forall b, leqb a b = true <-> a = b.
Proof.
  induction a as [|x a IH]; intros [|y b]; simpl; split; try congruence; try discriminate.
  - rewrite andb_true_iff, Nat.eqb_eq, IH. intros [-> ->]. reflexivity.
  - intros [= -> ->]. rewrite Nat.eqb_refl. apply IH. reflexivity.
Qed.
Definition cparse (b : list nat) : option cval :=
  match b with [] => None | n :: r => if length r <? n then None else Some (skipn n r, Some (firstn n r)) end.
Definition crender (v : cval) : list nat :=
  match snd v with Some d => length d :: d ++ fst v | None => 0 :: fst v end.
Definition cwith (v : cval) (d : list nat) : cval := (fst v, Some d).
Definition cget (v : cval) : option (list nat) := snd v.
Definition chas (v : cval) : bool := match snd v with Some _ => true | None => false end.

(* a generated file of exactly 8192 bytes: 1 length byte + 1 checksum byte + 8190 payload bytes *)
Definition payload := repeat 7 (W - 2).

Lemma cparse_has b v : cparse b = Some v -> chas v = true.
Proof. destruct b as [|n r]; unfold cparse; [discriminate|]. destruct (_ <? _); intros H; inversion H; reflexivity. Qed.
Lemma snoc_neq {A} (l : list A) x : l ++ [x] <> l.
Proof. induction l as [|y l IH]; simpl; [discriminate|]. intros H. inversion H. auto. Qed.

Lemma C17_as_found_refuted :
  ~ C17_statement nat (list nat) cval leqb (fun b => b) cparse crender cwith cget chas (firstn W).
Proof.
  intro H. specialize (H (payload, None) [3]). cbv zeta in H.
  unfold CfgFile.generate in H. destruct H as (_ & _ & _ & H & _).
  specialize (H (crender (cwith (payload, None) [3]) ++ [9]) (snoc_neq _ _) (cparse_has _)).
  assert (E : usable nat (list nat) cval leqb (fun b => b) cparse cget chas (firstn W) (Some [3])
                (crender (cwith (payload, None) [3]) ++ [9]) (Some (crender (cwith (payload, None) [3]))) = true)
    by (vm_compute; reflexivity).
  rewrite H in E. discriminate.
Qed.

Lemma C18_as_found_refuted :
  ~ C18_statement nat (list nat) cval leqb (fun b => b)
      (fun b => match b with 0 :: r => Some (filter (fun x => negb (Nat.eqb x 32)) r, None) | _ => None end)
      cget chas (firstn W).
Proof.
  intros (H & _).
  specialize (H (0 :: [5]) (0 :: repeat 32 W ++ [5])).
  assert (E : filter (fun x => negb (Nat.eqb x 32)) (repeat 32 W ++ [5]) = [5]) by (vm_compute; reflexivity).
  cbv beta iota in H. rewrite E in H. specialize (H eq_refl). vm_compute in H. discriminate.
Qed.
Print Assumptions C17_as_found_refuted.
Print Assumptions C18_as_found_refuted.
