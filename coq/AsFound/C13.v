(* The pinned commit saved the run pointer by truncating run.json in place: killed between the truncation
   and the write, `result show` breaks and every later run fails.  The statement is false of that model. *)
From Coq Require Import List Arith Lia.
From MR Require Import Model.Tracking Proofs.TrackingProof Properties.C13.
Import ListNotations.

Lemma C13_as_found_refuted' : ~ C13_statement (crash false) (fun i r => length (run_ops false i r)).
Proof.
  intro H.
  specialize (H 3 {| pointer := PVal 1; tmp := None; slots := fun j => if j =? 1 then Some ([5], Some 7) else None |}
                2 {| rlogs := [6]; rresult := 8 |} 5).
  cbv zeta in H. destruct H as (H1 & _).
  - lia.
  - vm_compute. split; [lia|eauto].
  - reflexivity.
  - vm_compute. lia.
  - vm_compute in H1. discriminate.
Qed.
Print Assumptions C13_as_found_refuted'.
