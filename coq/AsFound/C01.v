(* The pinned commit inserted the *using* target into the summary where its enclosing targets are meant
   (analyze.rs: `targets.insert(target)` inside the loop over `target2`), and matched raw byte prefixes.
   Each alone falsifies the C01 statement for the model of that code. *)
From Coq Require Import List NArith Sorting.Sorted String.
From MR Require Import Lib.Bytes Lib.Val Model.Index Proofs.IndexProof Properties.C01.
Import ListNotations.
Open Scope string_scope.

(* lib/inner uses other; change other/f: the breakdown lists lib, the summary does not *)
Definition w1 : config :=
  [ {| tpath := bs "lib"; uses := []; ignores := [] |};
    {| tpath := bs "lib/inner"; uses := [bs "other"]; ignores := [] |} ].

Lemma C01_as_found_insert_refuted : ~ C01_statement (summary_with true true) (breakdown_with true true).
Proof.
  intro H. destruct (H 50 w1 [bs "other/f"]) as (H1 & _).
  - repeat constructor.
  - apply wf_config_b_spec. vm_compute. reflexivity.
  - intros p [<-|[]]. apply wf_path_b_spec. vm_compute. reflexivity.
  - destruct (H1 {| tpath := bs "lib"; uses := []; ignores := [] |}) as [Hin _]; [left; reflexivity|].
    assert (E : spec_changed true w1 [bs "other/f"] {| tpath := bs "lib"; uses := []; ignores := [] |} = true) by (vm_compute; reflexivity).
    specialize (Hin E). vm_compute in Hin. intuition discriminate.
Qed.

(* app / app2, change app2/f: app is reported *)
Definition w2 : config :=
  [ {| tpath := bs "app"; uses := []; ignores := [] |}; {| tpath := bs "app2"; uses := []; ignores := [] |} ].

Lemma C01_as_found_prefix_refuted : ~ C01_statement (summary_with false false) (breakdown_with false false).
Proof.
  intro H. destruct (H 50 w2 [bs "app2/f"]) as (H1 & _).
  - repeat constructor.
  - apply wf_config_b_spec. vm_compute. reflexivity.
  - intros p [<-|[]]. apply wf_path_b_spec. vm_compute. reflexivity.
  - destruct (H1 {| tpath := bs "app"; uses := []; ignores := [] |}) as [_ Hout]; [left; reflexivity|].
    assert (Hin : In (bs "app") (summary_with false false 50 w2 [bs "app2/f"])) by (vm_compute; auto).
    specialize (Hout Hin). vm_compute in Hout. discriminate.
Qed.
Print Assumptions C01_as_found_insert_refuted.
Print Assumptions C01_as_found_prefix_refuted.
