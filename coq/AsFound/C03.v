(* The visibility walk of the pinned commit reports shared dependencies as cycles, depending on
   declaration order: the C03 statement is false of its model. *)
From Coq Require Import List Arith Lia Relations.
From MR Require Import Model.Dag Properties.C03.
Import ListNotations.

Lemma C03_as_found_refuted : ~ C03_dag_statement api_groups_old.
Proof.
  intro H. specialize (H [[1;2];[2];[]] [0;1;2]). cbv zeta in H.
  assert (E: forall x y, edge {| adj := [[1;2];[2];[]]; vis := repeat false 3 |} x y -> x < y /\ y < 3).
  { intros x y [_ E]. unfold deps in E; simpl in E.
    destruct x as [|[|[|[|x]]]]; simpl in E; intuition; subst; lia. }
  destruct H as [gs [R _]].
  - split; [reflexivity|]. intros i j Hj. apply (E i j). split; [|exact Hj].
    unfold size; simpl. destruct i as [|[|[|i]]]; simpl; try lia. unfold deps in Hj; simpl in Hj. destruct i; contradiction.
  - simpl; intuition; subst; lia.
  - intros [n [_ P]].
    assert (forall x y, path {| adj := [[1;2];[2];[]]; vis := repeat false 3 |} x y -> x < y).
    { induction 1 as [x y Exy|]; [apply E in Exy|]; lia. }
    apply H in P. lia.
  - vm_compute in R. discriminate.
Qed.
Print Assumptions C03_as_found_refuted.
