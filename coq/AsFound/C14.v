(* C14 as found in the pinned commit: LockServer::acquire bound host:port with TcpListener::bind, which tries the resolved addresses
   in order and keeps the FIRST that binds.  With a host that resolves to two addresses the second process simply takes the second
   address: both are past lock acquisition.  (Confirmed on the binary with a two-address host name; repaired by the fix "the run lock
   covers every address its host resolves to".) *)
From Coq Require Import List Arith Bool.
From MR Require Import Model.LockAddrs Properties.C14.
Import ListNotations.

Definition C14_multi_address_statement (mrun : nat -> nat -> list mchoice -> msys) : Prop :=
  forall K n cs p q, 0 < K -> mholding (mrun K n cs) p = true -> mholding (mrun K n cs) q = true -> p = q.

Theorem C14_as_found_refuted : ~ C14_multi_address_statement (mrun false).
Proof.
  intros H.
  specialize (H 2 2 [MStart 0; MBind 0; MStart 1; MBind 1; MBind 1] 0 1 (Nat.lt_0_succ 1)).
  assert (E : 0 = 1) by (apply H; vm_compute; reflexivity). discriminate.
Qed.

Print Assumptions C14_as_found_refuted.

(* the first version of bind_all (repair 12) bound every list entry: an address listed twice collides with the process's own listener *)
Lemma C14_lone_acquires_refuted_without_dedup : ~ C14_lone_acquires_statement (acquire_alone false).
Proof. intro H. specialize (H [7; 7]). vm_compute in H. discriminate. Qed.
Print Assumptions C14_lone_acquires_refuted_without_dedup.
