(* C20 as found (also after the ten earlier repairs): CommandTask::run awaited both readers and the child with one try_join!, so the
   first reader to return TaskCancelled dropped the other in the middle of its final flush - lines already handed to the compressor,
   not yet written to the stream.  Seen on the binary (a failing task plus 10-14 chatty siblings under a listener) and repaired by
   the fix "a task's two log readers both finish their final flush". *)
From Coq Require Import List Bool.
From MR Require Import Model.TaskJoin.
Import ListNotations.

Definition C20_cancel_statement (jrun : list jchoice -> tjoin) : Prop :=
  forall cs, completed (jrun cs) = true -> torn (r0 (jrun cs)) = false /\ torn (r1 (jrun cs)) = false.

Theorem C20_as_found_refuted : ~ C20_cancel_statement (jrun false).
Proof.
  intros H. destruct (H [Adv false; Adv false; Adv true; PollTask] eq_refl) as [_ H1]. vm_compute in H1. discriminate.
Qed.

Print Assumptions C20_as_found_refuted.
