(* The pinned commit kept the previous pending map when `update --pending` found nothing pending.  A path recorded
   as deleted by an earlier update therefore stayed masked: the re-flag clause of C07 is false of that model. *)
From Coq Require Import List Bool NArith Arith.
From MR Require Import Model.Git Properties.C07.
Import ListNotations.

Definition deq (a b : option N) := match a, b with Some x, Some y => N.eqb x y | None, None => true | _, _ => false end.
(* one committed file (path 1, content 10), present and unchanged at update time; an older map says {1 -> absent} *)
Definition clean : Git.repo nat N :=
  {| universe := [1]; head := fun p => if Nat.eqb p 1 then Some 10%N else None; tracked := fun p => Nat.eqb p 1;
     work := fun p => if Nat.eqb p 1 then Some 10%N else None; ignored := fun _ => false |}.
Definition deleted : Git.repo nat N :=
  {| universe := [1]; head := head clean; tracked := tracked clean; work := fun _ => None; ignored := fun _ => false |}.

Lemma C07_as_found_refuted :
  ~ C07_statement nat N (option N)
      (update_p_with nat N (option N) Nat.eqb N.eqb deq Some None true)
      (all_changes nat N (option N) Nat.eqb N.eqb deq Some None).
Proof.
  intros (_ & H & _). specialize (H clean (Some [(1, None)]) deleted 1).
  cbv beta iota zeta in H. unfold update_p_with in H. cbn [fst snd] in H.
  assert (Hin : In 1 (all_changes nat N (option N) Nat.eqb N.eqb deq Some None deleted (head clean)
                        (update_pending_with nat N (option N) Nat.eqb N.eqb deq Some None true clean true (Some [(1, None)])))).
  { apply H; simpl; auto; discriminate. }
  vm_compute in Hin. intuition discriminate.
Qed.
Print Assumptions C07_as_found_refuted.
