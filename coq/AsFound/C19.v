(* The pinned commit truncated the checkpoint file in place and dropped the BufWriter unflushed: when the file system refused the
   data the update still reported success, and `show` failed afterwards.  The statement is false of that model. *)
From Coq Require Import List Bool.
From MR Require Import Model.CheckpointSave Properties.C19.
Import ListNotations.

Lemma C19_as_found_refuted : ~ C19_save_statement nat (CheckpointSave.run nat false) (last_reported nat false).
Proof. intro H. specialize (H [CheckpointSave.Update 7 WriteFails]). vm_compute in H. discriminate. Qed.
Print Assumptions C19_as_found_refuted.
