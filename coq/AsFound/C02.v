(* The pinned commit ran `git diff --name-only --find-renames`: the old path of a staged move is not reported.
   The move clause of the C02 statement is false of the model of that code. *)
From Coq Require Import List Bool NArith Arith.
From MR Require Import Model.Git Proofs.GitProof Properties.C02.
Import ListNotations.

Definition deq (a b : option N) := match a, b with Some x, Some y => N.eqb x y | None, None => true | _, _ => false end.
(* path 1 committed with content 10, then `git mv 1 2` *)
Definition moved : Git.repo nat N :=
  {| universe := [1; 2];
     head := fun p => if Nat.eqb p 1 then Some 10%N else None;
     tracked := fun p => Nat.eqb p 2;
     work := fun p => if Nat.eqb p 2 then Some 10%N else None;
     ignored := fun _ => false |}.

Lemma C02_as_found_refuted :
  ~ C02_statement nat N (option N) Nat.eqb Some None
      (fun r cp _ _ pn => match cp with Some c => all_changes_as_found nat N (option N) Nat.eqb N.eqb deq Some None r c pn | None => [] end).
Proof.
  intros (_ & _ & H).
  destruct (H moved (head moved) None 1 2 10%N) as [Hold _]; simpl; auto.
  - intros (m & d & E & _). discriminate.
  - intros (m & d & E & _). discriminate.
  - vm_compute in Hold. intuition discriminate.
Qed.
Print Assumptions C02_as_found_refuted.
