(* The pinned commit's reader drops the partial line when the flush tick wins the select! (the line buffer is
   local to one round) and fails the task when a stream write fails.  The C08 and C15 statements are false of
   the models of that code. *)
From Coq Require Import List Arith NArith Bool.
From MR Require Import Model.Reader Model.Compressor Proofs.ReaderProof Properties.C08 Properties.C15.
Import ListNotations.

Lemma C08_as_found_refuted : ~ C08_statement (run false) crun.
Proof.
  intros [H _].
  specialize (H true (fun _ => true) false [Arrive [65;65;65;32]; Poll; Tick; Arrive [66;66;66;10]; Poll; Close; Poll; Poll]%N).
  cbv zeta in H. assert (E1 : ended (run false true (fun _ => true) false [Arrive [65;65;65;32]; Poll; Tick; Arrive [66;66;66;10]; Poll; Close; Poll; Poll]%N) = true) by (vm_compute; reflexivity).
  specialize (H E1 eq_refl). vm_compute in H. discriminate.
Qed.

Lemma C15_as_found_refuted : ~ C15_statement (run true false).
Proof.
  intro H. specialize (H (fun _ => false) (fun _ => true) true false [Arrive [65;10]; Poll; Tick; Close; Poll; Poll]%N).
  destruct H as (_ & _ & _ & _ & _ & _ & _ & H8). vm_compute in H8. discriminate.
Qed.
Print Assumptions C08_as_found_refuted.
Print Assumptions C15_as_found_refuted.
