(* The pinned commit (98d5ceb) looked targets up by raw byte prefix.  The same statement, applied to the
   model of that code, is false: app2 is reported to depend on app. *)
From Coq Require Import List NArith String.
Open Scope string_scope.
From MR Require Import Lib.Bytes Lib.Val Model.Index Proofs.IndexProof Proofs.RenderProof Properties.C10.
Import ListNotations.

Definition w_cfg : config :=
  [ {| tpath := bs "app"; uses := []; ignores := [] |}; {| tpath := bs "app2"; uses := []; ignores := [] |} ].

Lemma C10_as_found_refuted : ~ C10_statement (adj_of_with false).
Proof.
  intro H. destruct (H w_cfg) as (H1 & _).
  { apply wf_config_b_spec. vm_compute. reflexivity. }
  specialize (H1 1 0 _ _ eq_refl eq_refl). destruct H1 as [H1 _].
  assert (Hin : In 0 (nth 1 (adj_of_with false w_cfg) [])) by (vm_compute; auto).
  destruct (H1 Hin) as [_ [Hi|(m & [] & _)]]. vm_compute in Hi. discriminate.
Qed.
Print Assumptions C10_as_found_refuted.
