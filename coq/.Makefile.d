Lib/Bytes.vo Lib/Bytes.glob Lib/Bytes.v.beautified Lib/Bytes.required_vo: Lib/Bytes.v 
Lib/Bytes.vio: Lib/Bytes.v 
Lib/Bytes.vos Lib/Bytes.vok Lib/Bytes.required_vos: Lib/Bytes.v 
Lib/Val.vo Lib/Val.glob Lib/Val.v.beautified Lib/Val.required_vo: Lib/Val.v Lib/Bytes.vo
Lib/Val.vio: Lib/Val.v Lib/Bytes.vio
Lib/Val.vos Lib/Val.vok Lib/Val.required_vos: Lib/Val.v Lib/Bytes.vos
Model/Index.vo Model/Index.glob Model/Index.v.beautified Model/Index.required_vo: Model/Index.v Lib/Bytes.vo
Model/Index.vio: Model/Index.v Lib/Bytes.vio
Model/Index.vos Model/Index.vok Model/Index.required_vos: Model/Index.v Lib/Bytes.vos
Proofs/IndexProof.vo Proofs/IndexProof.glob Proofs/IndexProof.v.beautified Proofs/IndexProof.required_vo: Proofs/IndexProof.v Lib/Bytes.vo Model/Index.vo
Proofs/IndexProof.vio: Proofs/IndexProof.v Lib/Bytes.vio Model/Index.vio
Proofs/IndexProof.vos Proofs/IndexProof.vok Proofs/IndexProof.required_vos: Proofs/IndexProof.v Lib/Bytes.vos Model/Index.vos
Model/Dag.vo Model/Dag.glob Model/Dag.v.beautified Model/Dag.required_vo: Model/Dag.v 
Model/Dag.vio: Model/Dag.v 
Model/Dag.vos Model/Dag.vok Model/Dag.required_vos: Model/Dag.v 
Proofs/Kahn.vo Proofs/Kahn.glob Proofs/Kahn.v.beautified Proofs/Kahn.required_vo: Proofs/Kahn.v Model/Dag.vo
Proofs/Kahn.vio: Proofs/Kahn.v Model/Dag.vio
Proofs/Kahn.vos Proofs/Kahn.vok Proofs/Kahn.required_vos: Proofs/Kahn.v Model/Dag.vos
Proofs/Walk.vo Proofs/Walk.glob Proofs/Walk.v.beautified Proofs/Walk.required_vo: Proofs/Walk.v Model/Dag.vo Proofs/Kahn.vo
Proofs/Walk.vio: Proofs/Walk.v Model/Dag.vio Proofs/Kahn.vio
Proofs/Walk.vos Proofs/Walk.vok Proofs/Walk.required_vos: Proofs/Walk.v Model/Dag.vos Proofs/Kahn.vos
Proofs/DagApi.vo Proofs/DagApi.glob Proofs/DagApi.v.beautified Proofs/DagApi.required_vo: Proofs/DagApi.v Model/Dag.vo Proofs/Kahn.vo Proofs/Walk.vo
Proofs/DagApi.vio: Proofs/DagApi.v Model/Dag.vio Proofs/Kahn.vio Proofs/Walk.vio
Proofs/DagApi.vos Proofs/DagApi.vok Proofs/DagApi.required_vos: Proofs/DagApi.v Model/Dag.vos Proofs/Kahn.vos Proofs/Walk.vos
