Lib/Bytes.vo Lib/Bytes.glob Lib/Bytes.v.beautified Lib/Bytes.required_vo: Lib/Bytes.v 
Lib/Bytes.vio: Lib/Bytes.v 
Lib/Bytes.vos Lib/Bytes.vok Lib/Bytes.required_vos: Lib/Bytes.v 
Lib/Val.vo Lib/Val.glob Lib/Val.v.beautified Lib/Val.required_vo: Lib/Val.v Lib/Bytes.vo
Lib/Val.vio: Lib/Val.v Lib/Bytes.vio
Lib/Val.vos Lib/Val.vok Lib/Val.required_vos: Lib/Val.v Lib/Bytes.vos
Lib/ListX.vo Lib/ListX.glob Lib/ListX.v.beautified Lib/ListX.required_vo: Lib/ListX.v 
Lib/ListX.vio: Lib/ListX.v 
Lib/ListX.vos Lib/ListX.vok Lib/ListX.required_vos: Lib/ListX.v 
Model/Index.vo Model/Index.glob Model/Index.v.beautified Model/Index.required_vo: Model/Index.v Lib/Bytes.vo
Model/Index.vio: Model/Index.v Lib/Bytes.vio
Model/Index.vos Model/Index.vok Model/Index.required_vos: Model/Index.v Lib/Bytes.vos
Proofs/IndexProof.vo Proofs/IndexProof.glob Proofs/IndexProof.v.beautified Proofs/IndexProof.required_vo: Proofs/IndexProof.v Lib/Bytes.vo Model/Index.vo
Proofs/IndexProof.vio: Proofs/IndexProof.v Lib/Bytes.vio Model/Index.vio
Proofs/IndexProof.vos Proofs/IndexProof.vok Proofs/IndexProof.required_vos: Proofs/IndexProof.v Lib/Bytes.vos Model/Index.vos
Model/Dag.vo Model/Dag.glob Model/Dag.v.beautified Model/Dag.required_vo: Model/Dag.v 
Model/Dag.vio: Model/Dag.v 
Model/Dag.vos Model/Dag.vok Model/Dag.required_vos: Model/Dag.v 
Proofs/Kahn.vo Proofs/Kahn.glob Proofs/Kahn.v.beautified Proofs/Kahn.required_vo: Proofs/Kahn.v Model/Dag.vo
Proofs/Kahn.vio: Proofs/Kahn.v Model/Dag.vio
Proofs/Kahn.vos Proofs/Kahn.vok Proofs/Kahn.required_vos: Proofs/Kahn.v Model/Dag.vos
Proofs/Walk.vo Proofs/Walk.glob Proofs/Walk.v.beautified Proofs/Walk.required_vo: Proofs/Walk.v Model/Dag.vo Proofs/Kahn.vo
Proofs/Walk.vio: Proofs/Walk.v Model/Dag.vio Proofs/Kahn.vio
Proofs/Walk.vos Proofs/Walk.vok Proofs/Walk.required_vos: Proofs/Walk.v Model/Dag.vos Proofs/Kahn.vos
Proofs/DagApi.vo Proofs/DagApi.glob Proofs/DagApi.v.beautified Proofs/DagApi.required_vo: Proofs/DagApi.v Model/Dag.vo Proofs/Kahn.vo Proofs/Walk.vo
Proofs/DagApi.vio: Proofs/DagApi.v Model/Dag.vio Proofs/Kahn.vio Proofs/Walk.vio
Proofs/DagApi.vos Proofs/DagApi.vok Proofs/DagApi.required_vos: Proofs/DagApi.v Model/Dag.vos Proofs/Kahn.vos Proofs/Walk.vos
Model/IndexGroups.vo Model/IndexGroups.glob Model/IndexGroups.v.beautified Model/IndexGroups.required_vo: Model/IndexGroups.v Lib/Bytes.vo Model/Index.vo Model/Dag.vo
Model/IndexGroups.vio: Model/IndexGroups.v Lib/Bytes.vio Model/Index.vio Model/Dag.vio
Model/IndexGroups.vos Model/IndexGroups.vok Model/IndexGroups.required_vos: Model/IndexGroups.v Lib/Bytes.vos Model/Index.vos Model/Dag.vos
Proofs/IndexGroupsProof.vo Proofs/IndexGroupsProof.glob Proofs/IndexGroupsProof.v.beautified Proofs/IndexGroupsProof.required_vo: Proofs/IndexGroupsProof.v Lib/Bytes.vo Model/Index.vo Model/Dag.vo Model/IndexGroups.vo Proofs/IndexProof.vo Proofs/DagApi.vo
Proofs/IndexGroupsProof.vio: Proofs/IndexGroupsProof.v Lib/Bytes.vio Model/Index.vio Model/Dag.vio Model/IndexGroups.vio Proofs/IndexProof.vio Proofs/DagApi.vio
Proofs/IndexGroupsProof.vos Proofs/IndexGroupsProof.vok Proofs/IndexGroupsProof.required_vos: Proofs/IndexGroupsProof.v Lib/Bytes.vos Model/Index.vos Model/Dag.vos Model/IndexGroups.vos Proofs/IndexProof.vos Proofs/DagApi.vos
Harness/Glue.vo Harness/Glue.glob Harness/Glue.v.beautified Harness/Glue.required_vo: Harness/Glue.v Lib/Bytes.vo Lib/Val.vo Model/Index.vo Model/Dag.vo Model/IndexGroups.vo Model/Git.vo Model/Tracking.vo Model/CfgFile.vo Model/Sched.vo Model/Plan.vo Model/RunPaths.vo Model/Lock.vo Model/Reader.vo Model/Filter.vo
Harness/Glue.vio: Harness/Glue.v Lib/Bytes.vio Lib/Val.vio Model/Index.vio Model/Dag.vio Model/IndexGroups.vio Model/Git.vio Model/Tracking.vio Model/CfgFile.vio Model/Sched.vio Model/Plan.vio Model/RunPaths.vio Model/Lock.vio Model/Reader.vio Model/Filter.vio
Harness/Glue.vos Harness/Glue.vok Harness/Glue.required_vos: Harness/Glue.v Lib/Bytes.vos Lib/Val.vos Model/Index.vos Model/Dag.vos Model/IndexGroups.vos Model/Git.vos Model/Tracking.vos Model/CfgFile.vos Model/Sched.vos Model/Plan.vos Model/RunPaths.vos Model/Lock.vos Model/Reader.vos Model/Filter.vos
Harness/Extract.vo Harness/Extract.glob Harness/Extract.v.beautified Harness/Extract.required_vo: Harness/Extract.v Harness/Glue.vo
Harness/Extract.vio: Harness/Extract.v Harness/Glue.vio
Harness/Extract.vos Harness/Extract.vok Harness/Extract.required_vos: Harness/Extract.v Harness/Glue.vos
Harness/OracleProof.vo Harness/OracleProof.glob Harness/OracleProof.v.beautified Harness/OracleProof.required_vo: Harness/OracleProof.v Lib/Bytes.vo Model/Index.vo Model/Dag.vo Proofs/IndexProof.vo Proofs/Walk.vo Proofs/DagApi.vo Harness/Glue.vo
Harness/OracleProof.vio: Harness/OracleProof.v Lib/Bytes.vio Model/Index.vio Model/Dag.vio Proofs/IndexProof.vio Proofs/Walk.vio Proofs/DagApi.vio Harness/Glue.vio
Harness/OracleProof.vos Harness/OracleProof.vok Harness/OracleProof.required_vos: Harness/OracleProof.v Lib/Bytes.vos Model/Index.vos Model/Dag.vos Proofs/IndexProof.vos Proofs/Walk.vos Proofs/DagApi.vos Harness/Glue.vos
Proofs/RenderProof.vo Proofs/RenderProof.glob Proofs/RenderProof.v.beautified Proofs/RenderProof.required_vo: Proofs/RenderProof.v Lib/Bytes.vo Lib/Val.vo Lib/ListX.vo Model/Index.vo Proofs/IndexProof.vo
Proofs/RenderProof.vio: Proofs/RenderProof.v Lib/Bytes.vio Lib/Val.vio Lib/ListX.vio Model/Index.vio Proofs/IndexProof.vio
Proofs/RenderProof.vos Proofs/RenderProof.vok Proofs/RenderProof.required_vos: Proofs/RenderProof.v Lib/Bytes.vos Lib/Val.vos Lib/ListX.vos Model/Index.vos Proofs/IndexProof.vos
Properties/C10.vo Properties/C10.glob Properties/C10.v.beautified Properties/C10.required_vo: Properties/C10.v Lib/Bytes.vo Lib/Val.vo Model/Index.vo Proofs/IndexProof.vo Proofs/RenderProof.vo
Properties/C10.vio: Properties/C10.v Lib/Bytes.vio Lib/Val.vio Model/Index.vio Proofs/IndexProof.vio Proofs/RenderProof.vio
Properties/C10.vos Properties/C10.vok Properties/C10.required_vos: Properties/C10.v Lib/Bytes.vos Lib/Val.vos Model/Index.vos Proofs/IndexProof.vos Proofs/RenderProof.vos
AsFound/C10.vo AsFound/C10.glob AsFound/C10.v.beautified AsFound/C10.required_vo: AsFound/C10.v Lib/Bytes.vo Lib/Val.vo Model/Index.vo Proofs/IndexProof.vo Proofs/RenderProof.vo Properties/C10.vo
AsFound/C10.vio: AsFound/C10.v Lib/Bytes.vio Lib/Val.vio Model/Index.vio Proofs/IndexProof.vio Proofs/RenderProof.vio Properties/C10.vio
AsFound/C10.vos AsFound/C10.vok AsFound/C10.required_vos: AsFound/C10.v Lib/Bytes.vos Lib/Val.vos Model/Index.vos Proofs/IndexProof.vos Proofs/RenderProof.vos Properties/C10.vos
Properties/C03.vo Properties/C03.glob Properties/C03.v.beautified Properties/C03.required_vo: Properties/C03.v Lib/Bytes.vo Model/Index.vo Model/Dag.vo Model/IndexGroups.vo Proofs/IndexProof.vo Proofs/DagApi.vo Proofs/IndexGroupsProof.vo
Properties/C03.vio: Properties/C03.v Lib/Bytes.vio Model/Index.vio Model/Dag.vio Model/IndexGroups.vio Proofs/IndexProof.vio Proofs/DagApi.vio Proofs/IndexGroupsProof.vio
Properties/C03.vos Properties/C03.vok Properties/C03.required_vos: Properties/C03.v Lib/Bytes.vos Model/Index.vos Model/Dag.vos Model/IndexGroups.vos Proofs/IndexProof.vos Proofs/DagApi.vos Proofs/IndexGroupsProof.vos
Properties/C09.vo Properties/C09.glob Properties/C09.v.beautified Properties/C09.required_vo: Properties/C09.v Lib/Bytes.vo Model/Index.vo Model/Dag.vo Model/IndexGroups.vo Proofs/IndexProof.vo Proofs/DagApi.vo Proofs/IndexGroupsProof.vo
Properties/C09.vio: Properties/C09.v Lib/Bytes.vio Model/Index.vio Model/Dag.vio Model/IndexGroups.vio Proofs/IndexProof.vio Proofs/DagApi.vio Proofs/IndexGroupsProof.vio
Properties/C09.vos Properties/C09.vok Properties/C09.required_vos: Properties/C09.v Lib/Bytes.vos Model/Index.vos Model/Dag.vos Model/IndexGroups.vos Proofs/IndexProof.vos Proofs/DagApi.vos Proofs/IndexGroupsProof.vos
AsFound/C03.vo AsFound/C03.glob AsFound/C03.v.beautified AsFound/C03.required_vo: AsFound/C03.v Model/Dag.vo Properties/C03.vo
AsFound/C03.vio: AsFound/C03.v Model/Dag.vio Properties/C03.vio
AsFound/C03.vos AsFound/C03.vok AsFound/C03.required_vos: AsFound/C03.v Model/Dag.vos Properties/C03.vos
Properties/C01.vo Properties/C01.glob Properties/C01.v.beautified Properties/C01.required_vo: Properties/C01.v Lib/Bytes.vo Lib/Val.vo Model/Index.vo Proofs/IndexProof.vo
Properties/C01.vio: Properties/C01.v Lib/Bytes.vio Lib/Val.vio Model/Index.vio Proofs/IndexProof.vio
Properties/C01.vos Properties/C01.vok Properties/C01.required_vos: Properties/C01.v Lib/Bytes.vos Lib/Val.vos Model/Index.vos Proofs/IndexProof.vos
AsFound/C01.vo AsFound/C01.glob AsFound/C01.v.beautified AsFound/C01.required_vo: AsFound/C01.v Lib/Bytes.vo Lib/Val.vo Model/Index.vo Proofs/IndexProof.vo Properties/C01.vo
AsFound/C01.vio: AsFound/C01.v Lib/Bytes.vio Lib/Val.vio Model/Index.vio Proofs/IndexProof.vio Properties/C01.vio
AsFound/C01.vos AsFound/C01.vok AsFound/C01.required_vos: AsFound/C01.v Lib/Bytes.vos Lib/Val.vos Model/Index.vos Proofs/IndexProof.vos Properties/C01.vos
Model/Git.vo Model/Git.glob Model/Git.v.beautified Model/Git.required_vo: Model/Git.v 
Model/Git.vio: Model/Git.v 
Model/Git.vos Model/Git.vok Model/Git.required_vos: Model/Git.v 
Proofs/GitProof.vo Proofs/GitProof.glob Proofs/GitProof.v.beautified Proofs/GitProof.required_vo: Proofs/GitProof.v Model/Git.vo
Proofs/GitProof.vio: Proofs/GitProof.v Model/Git.vio
Proofs/GitProof.vos Proofs/GitProof.vok Proofs/GitProof.required_vos: Proofs/GitProof.v Model/Git.vos
Model/Checkpoint.vo Model/Checkpoint.glob Model/Checkpoint.v.beautified Model/Checkpoint.required_vo: Model/Checkpoint.v 
Model/Checkpoint.vio: Model/Checkpoint.v 
Model/Checkpoint.vos Model/Checkpoint.vok Model/Checkpoint.required_vos: Model/Checkpoint.v 
Model/CheckpointSave.vo Model/CheckpointSave.glob Model/CheckpointSave.v.beautified Model/CheckpointSave.required_vo: Model/CheckpointSave.v 
Model/CheckpointSave.vio: Model/CheckpointSave.v 
Model/CheckpointSave.vos Model/CheckpointSave.vok Model/CheckpointSave.required_vos: Model/CheckpointSave.v 
Proofs/CheckpointProof.vo Proofs/CheckpointProof.glob Proofs/CheckpointProof.v.beautified Proofs/CheckpointProof.required_vo: Proofs/CheckpointProof.v Model/Checkpoint.vo
Proofs/CheckpointProof.vio: Proofs/CheckpointProof.v Model/Checkpoint.vio
Proofs/CheckpointProof.vos Proofs/CheckpointProof.vok Proofs/CheckpointProof.required_vos: Proofs/CheckpointProof.v Model/Checkpoint.vos
Proofs/CheckpointSaveProof.vo Proofs/CheckpointSaveProof.glob Proofs/CheckpointSaveProof.v.beautified Proofs/CheckpointSaveProof.required_vo: Proofs/CheckpointSaveProof.v Model/CheckpointSave.vo
Proofs/CheckpointSaveProof.vio: Proofs/CheckpointSaveProof.v Model/CheckpointSave.vio
Proofs/CheckpointSaveProof.vos Proofs/CheckpointSaveProof.vok Proofs/CheckpointSaveProof.required_vos: Proofs/CheckpointSaveProof.v Model/CheckpointSave.vos
Properties/C02.vo Properties/C02.glob Properties/C02.v.beautified Properties/C02.required_vo: Properties/C02.v Model/Git.vo Proofs/GitProof.vo
Properties/C02.vio: Properties/C02.v Model/Git.vio Proofs/GitProof.vio
Properties/C02.vos Properties/C02.vok Properties/C02.required_vos: Properties/C02.v Model/Git.vos Proofs/GitProof.vos
Properties/C07.vo Properties/C07.glob Properties/C07.v.beautified Properties/C07.required_vo: Properties/C07.v Model/Git.vo Proofs/GitProof.vo
Properties/C07.vio: Properties/C07.v Model/Git.vio Proofs/GitProof.vio
Properties/C07.vos Properties/C07.vok Properties/C07.required_vos: Properties/C07.v Model/Git.vos Proofs/GitProof.vos
Properties/C19.vo Properties/C19.glob Properties/C19.v.beautified Properties/C19.required_vo: Properties/C19.v Model/Checkpoint.vo Model/Git.vo Proofs/CheckpointProof.vo Model/CheckpointSave.vo Proofs/CheckpointSaveProof.vo
Properties/C19.vio: Properties/C19.v Model/Checkpoint.vio Model/Git.vio Proofs/CheckpointProof.vio Model/CheckpointSave.vio Proofs/CheckpointSaveProof.vio
Properties/C19.vos Properties/C19.vok Properties/C19.required_vos: Properties/C19.v Model/Checkpoint.vos Model/Git.vos Proofs/CheckpointProof.vos Model/CheckpointSave.vos Proofs/CheckpointSaveProof.vos
AsFound/C02.vo AsFound/C02.glob AsFound/C02.v.beautified AsFound/C02.required_vo: AsFound/C02.v Model/Git.vo Proofs/GitProof.vo Properties/C02.vo
AsFound/C02.vio: AsFound/C02.v Model/Git.vio Proofs/GitProof.vio Properties/C02.vio
AsFound/C02.vos AsFound/C02.vok AsFound/C02.required_vos: AsFound/C02.v Model/Git.vos Proofs/GitProof.vos Properties/C02.vos
Model/Tracking.vo Model/Tracking.glob Model/Tracking.v.beautified Model/Tracking.required_vo: Model/Tracking.v 
Model/Tracking.vio: Model/Tracking.v 
Model/Tracking.vos Model/Tracking.vok Model/Tracking.required_vos: Model/Tracking.v 
Model/RunPaths.vo Model/RunPaths.glob Model/RunPaths.v.beautified Model/RunPaths.required_vo: Model/RunPaths.v Lib/Bytes.vo Lib/Val.vo
Model/RunPaths.vio: Model/RunPaths.v Lib/Bytes.vio Lib/Val.vio
Model/RunPaths.vos Model/RunPaths.vok Model/RunPaths.required_vos: Model/RunPaths.v Lib/Bytes.vos Lib/Val.vos
Proofs/TrackingProof.vo Proofs/TrackingProof.glob Proofs/TrackingProof.v.beautified Proofs/TrackingProof.required_vo: Proofs/TrackingProof.v Model/Tracking.vo
Proofs/TrackingProof.vio: Proofs/TrackingProof.v Model/Tracking.vio
Proofs/TrackingProof.vos Proofs/TrackingProof.vok Proofs/TrackingProof.required_vos: Proofs/TrackingProof.v Model/Tracking.vos
Proofs/RunPathsProof.vo Proofs/RunPathsProof.glob Proofs/RunPathsProof.v.beautified Proofs/RunPathsProof.required_vo: Proofs/RunPathsProof.v Lib/Bytes.vo Model/RunPaths.vo
Proofs/RunPathsProof.vio: Proofs/RunPathsProof.v Lib/Bytes.vio Model/RunPaths.vio
Proofs/RunPathsProof.vos Proofs/RunPathsProof.vok Proofs/RunPathsProof.required_vos: Proofs/RunPathsProof.v Lib/Bytes.vos Model/RunPaths.vos
Properties/C12.vo Properties/C12.glob Properties/C12.v.beautified Properties/C12.required_vo: Properties/C12.v Model/Tracking.vo Proofs/TrackingProof.vo Lib/Bytes.vo Lib/Val.vo Model/RunPaths.vo Proofs/RunPathsProof.vo
Properties/C12.vio: Properties/C12.v Model/Tracking.vio Proofs/TrackingProof.vio Lib/Bytes.vio Lib/Val.vio Model/RunPaths.vio Proofs/RunPathsProof.vio
Properties/C12.vos Properties/C12.vok Properties/C12.required_vos: Properties/C12.v Model/Tracking.vos Proofs/TrackingProof.vos Lib/Bytes.vos Lib/Val.vos Model/RunPaths.vos Proofs/RunPathsProof.vos
Properties/C13.vo Properties/C13.glob Properties/C13.v.beautified Properties/C13.required_vo: Properties/C13.v Model/Tracking.vo Proofs/TrackingProof.vo
Properties/C13.vio: Properties/C13.v Model/Tracking.vio Proofs/TrackingProof.vio
Properties/C13.vos Properties/C13.vok Properties/C13.required_vos: Properties/C13.v Model/Tracking.vos Proofs/TrackingProof.vos
AsFound/C13.vo AsFound/C13.glob AsFound/C13.v.beautified AsFound/C13.required_vo: AsFound/C13.v Model/Tracking.vo Proofs/TrackingProof.vo Properties/C13.vo
AsFound/C13.vio: AsFound/C13.v Model/Tracking.vio Proofs/TrackingProof.vio Properties/C13.vio
AsFound/C13.vos AsFound/C13.vok AsFound/C13.required_vos: AsFound/C13.v Model/Tracking.vos Proofs/TrackingProof.vos Properties/C13.vos
AsFound/C12.vo AsFound/C12.glob AsFound/C12.v.beautified AsFound/C12.required_vo: AsFound/C12.v Model/Tracking.vo Proofs/TrackingProof.vo Properties/C12.vo Lib/Bytes.vo Lib/Val.vo Model/RunPaths.vo
AsFound/C12.vio: AsFound/C12.v Model/Tracking.vio Proofs/TrackingProof.vio Properties/C12.vio Lib/Bytes.vio Lib/Val.vio Model/RunPaths.vio
AsFound/C12.vos AsFound/C12.vok AsFound/C12.required_vos: AsFound/C12.v Model/Tracking.vos Proofs/TrackingProof.vos Properties/C12.vos Lib/Bytes.vos Lib/Val.vos Model/RunPaths.vos
Model/CfgFile.vo Model/CfgFile.glob Model/CfgFile.v.beautified Model/CfgFile.required_vo: Model/CfgFile.v 
Model/CfgFile.vio: Model/CfgFile.v 
Model/CfgFile.vos Model/CfgFile.vok Model/CfgFile.required_vos: Model/CfgFile.v 
Proofs/CfgFileProof.vo Proofs/CfgFileProof.glob Proofs/CfgFileProof.v.beautified Proofs/CfgFileProof.required_vo: Proofs/CfgFileProof.v Model/CfgFile.vo
Proofs/CfgFileProof.vio: Proofs/CfgFileProof.v Model/CfgFile.vio
Proofs/CfgFileProof.vos Proofs/CfgFileProof.vok Proofs/CfgFileProof.required_vos: Proofs/CfgFileProof.v Model/CfgFile.vos
Properties/C17.vo Properties/C17.glob Properties/C17.v.beautified Properties/C17.required_vo: Properties/C17.v Model/CfgFile.vo Proofs/CfgFileProof.vo
Properties/C17.vio: Properties/C17.v Model/CfgFile.vio Proofs/CfgFileProof.vio
Properties/C17.vos Properties/C17.vok Properties/C17.required_vos: Properties/C17.v Model/CfgFile.vos Proofs/CfgFileProof.vos
Properties/C18.vo Properties/C18.glob Properties/C18.v.beautified Properties/C18.required_vo: Properties/C18.v Model/CfgFile.vo Proofs/CfgFileProof.vo
Properties/C18.vio: Properties/C18.v Model/CfgFile.vio Proofs/CfgFileProof.vio
Properties/C18.vos Properties/C18.vok Properties/C18.required_vos: Properties/C18.v Model/CfgFile.vos Proofs/CfgFileProof.vos
AsFound/C17.vo AsFound/C17.glob AsFound/C17.v.beautified AsFound/C17.required_vo: AsFound/C17.v Model/CfgFile.vo Properties/C17.vo Properties/C18.vo
AsFound/C17.vio: AsFound/C17.v Model/CfgFile.vio Properties/C17.vio Properties/C18.vio
AsFound/C17.vos AsFound/C17.vok AsFound/C17.required_vos: AsFound/C17.v Model/CfgFile.vos Properties/C17.vos Properties/C18.vos
Model/Sched.vo Model/Sched.glob Model/Sched.v.beautified Model/Sched.required_vo: Model/Sched.v 
Model/Sched.vio: Model/Sched.v 
Model/Sched.vos Model/Sched.vok Model/Sched.required_vos: Model/Sched.v 
Proofs/SchedProof.vo Proofs/SchedProof.glob Proofs/SchedProof.v.beautified Proofs/SchedProof.required_vo: Proofs/SchedProof.v Model/Sched.vo
Proofs/SchedProof.vio: Proofs/SchedProof.v Model/Sched.vio
Proofs/SchedProof.vos Proofs/SchedProof.vok Proofs/SchedProof.required_vos: Proofs/SchedProof.v Model/Sched.vos
Properties/C04.vo Properties/C04.glob Properties/C04.v.beautified Properties/C04.required_vo: Properties/C04.v Model/Sched.vo Proofs/SchedProof.vo
Properties/C04.vio: Properties/C04.v Model/Sched.vio Proofs/SchedProof.vio
Properties/C04.vos Properties/C04.vok Properties/C04.required_vos: Properties/C04.v Model/Sched.vos Proofs/SchedProof.vos
Proofs/SchedFinal.vo Proofs/SchedFinal.glob Proofs/SchedFinal.v.beautified Proofs/SchedFinal.required_vo: Proofs/SchedFinal.v Lib/ListX.vo Model/Sched.vo Proofs/SchedProof.vo
Proofs/SchedFinal.vio: Proofs/SchedFinal.v Lib/ListX.vio Model/Sched.vio Proofs/SchedProof.vio
Proofs/SchedFinal.vos Proofs/SchedFinal.vok Proofs/SchedFinal.required_vos: Proofs/SchedFinal.v Lib/ListX.vos Model/Sched.vos Proofs/SchedProof.vos
Proofs/SchedLive.vo Proofs/SchedLive.glob Proofs/SchedLive.v.beautified Proofs/SchedLive.required_vo: Proofs/SchedLive.v Model/Sched.vo Proofs/SchedProof.vo Proofs/SchedFinal.vo
Proofs/SchedLive.vio: Proofs/SchedLive.v Model/Sched.vio Proofs/SchedProof.vio Proofs/SchedFinal.vio
Proofs/SchedLive.vos Proofs/SchedLive.vok Proofs/SchedLive.required_vos: Proofs/SchedLive.v Model/Sched.vos Proofs/SchedProof.vos Proofs/SchedFinal.vos
Properties/C05.vo Properties/C05.glob Properties/C05.v.beautified Properties/C05.required_vo: Properties/C05.v Model/Sched.vo Proofs/SchedProof.vo Proofs/SchedFinal.vo Proofs/SchedLive.vo
Properties/C05.vio: Properties/C05.v Model/Sched.vio Proofs/SchedProof.vio Proofs/SchedFinal.vio Proofs/SchedLive.vio
Properties/C05.vos Properties/C05.vok Properties/C05.required_vos: Properties/C05.v Model/Sched.vos Proofs/SchedProof.vos Proofs/SchedFinal.vos Proofs/SchedLive.vos
Properties/C06.vo Properties/C06.glob Properties/C06.v.beautified Properties/C06.required_vo: Properties/C06.v Model/Sched.vo Model/Compressor.vo Proofs/SchedProof.vo Proofs/SchedFinal.vo Proofs/CompressorProof.vo
Properties/C06.vio: Properties/C06.v Model/Sched.vio Model/Compressor.vio Proofs/SchedProof.vio Proofs/SchedFinal.vio Proofs/CompressorProof.vio
Properties/C06.vos Properties/C06.vok Properties/C06.required_vos: Properties/C06.v Model/Sched.vos Model/Compressor.vos Proofs/SchedProof.vos Proofs/SchedFinal.vos Proofs/CompressorProof.vos
Properties/C16.vo Properties/C16.glob Properties/C16.v.beautified Properties/C16.required_vo: Properties/C16.v Model/Sched.vo Proofs/SchedProof.vo Proofs/SchedLive.vo
Properties/C16.vio: Properties/C16.v Model/Sched.vio Proofs/SchedProof.vio Proofs/SchedLive.vio
Properties/C16.vos Properties/C16.vok Properties/C16.required_vos: Properties/C16.v Model/Sched.vos Proofs/SchedProof.vos Proofs/SchedLive.vos
Model/Plan.vo Model/Plan.glob Model/Plan.v.beautified Model/Plan.required_vo: Model/Plan.v Lib/Bytes.vo
Model/Plan.vio: Model/Plan.v Lib/Bytes.vio
Model/Plan.vos Model/Plan.vok Model/Plan.required_vos: Model/Plan.v Lib/Bytes.vos
Proofs/PlanProof.vo Proofs/PlanProof.glob Proofs/PlanProof.v.beautified Proofs/PlanProof.required_vo: Proofs/PlanProof.v Lib/Bytes.vo Model/Plan.vo
Proofs/PlanProof.vio: Proofs/PlanProof.v Lib/Bytes.vio Model/Plan.vio
Proofs/PlanProof.vos Proofs/PlanProof.vok Proofs/PlanProof.required_vos: Proofs/PlanProof.v Lib/Bytes.vos Model/Plan.vos
Properties/C11.vo Properties/C11.glob Properties/C11.v.beautified Properties/C11.required_vo: Properties/C11.v Lib/Bytes.vo Model/Plan.vo Proofs/PlanProof.vo
Properties/C11.vio: Properties/C11.v Lib/Bytes.vio Model/Plan.vio Proofs/PlanProof.vio
Properties/C11.vos Properties/C11.vok Properties/C11.required_vos: Properties/C11.v Lib/Bytes.vos Model/Plan.vos Proofs/PlanProof.vos
Model/Lock.vo Model/Lock.glob Model/Lock.v.beautified Model/Lock.required_vo: Model/Lock.v 
Model/Lock.vio: Model/Lock.v 
Model/Lock.vos Model/Lock.vok Model/Lock.required_vos: Model/Lock.v 
Proofs/LockProof.vo Proofs/LockProof.glob Proofs/LockProof.v.beautified Proofs/LockProof.required_vo: Proofs/LockProof.v Model/Lock.vo
Proofs/LockProof.vio: Proofs/LockProof.v Model/Lock.vio
Proofs/LockProof.vos Proofs/LockProof.vok Proofs/LockProof.required_vos: Proofs/LockProof.v Model/Lock.vos
Model/LockAddrs.vo Model/LockAddrs.glob Model/LockAddrs.v.beautified Model/LockAddrs.required_vo: Model/LockAddrs.v 
Model/LockAddrs.vio: Model/LockAddrs.v 
Model/LockAddrs.vos Model/LockAddrs.vok Model/LockAddrs.required_vos: Model/LockAddrs.v 
Proofs/LockAddrsProof.vo Proofs/LockAddrsProof.glob Proofs/LockAddrsProof.v.beautified Proofs/LockAddrsProof.required_vo: Proofs/LockAddrsProof.v Model/LockAddrs.vo
Proofs/LockAddrsProof.vio: Proofs/LockAddrsProof.v Model/LockAddrs.vio
Proofs/LockAddrsProof.vos Proofs/LockAddrsProof.vok Proofs/LockAddrsProof.required_vos: Proofs/LockAddrsProof.v Model/LockAddrs.vos
Properties/C14.vo Properties/C14.glob Properties/C14.v.beautified Properties/C14.required_vo: Properties/C14.v Model/Lock.vo Proofs/LockProof.vo Model/LockAddrs.vo Proofs/LockAddrsProof.vo
Properties/C14.vio: Properties/C14.v Model/Lock.vio Proofs/LockProof.vio Model/LockAddrs.vio Proofs/LockAddrsProof.vio
Properties/C14.vos Properties/C14.vok Properties/C14.required_vos: Properties/C14.v Model/Lock.vos Proofs/LockProof.vos Model/LockAddrs.vos Proofs/LockAddrsProof.vos
AsFound/C14.vo AsFound/C14.glob AsFound/C14.v.beautified AsFound/C14.required_vo: AsFound/C14.v Model/LockAddrs.vo Properties/C14.vo
AsFound/C14.vio: AsFound/C14.v Model/LockAddrs.vio Properties/C14.vio
AsFound/C14.vos AsFound/C14.vok AsFound/C14.required_vos: AsFound/C14.v Model/LockAddrs.vos Properties/C14.vos
Model/Reader.vo Model/Reader.glob Model/Reader.v.beautified Model/Reader.required_vo: Model/Reader.v 
Model/Reader.vio: Model/Reader.v 
Model/Reader.vos Model/Reader.vok Model/Reader.required_vos: Model/Reader.v 
Proofs/ReaderProof.vo Proofs/ReaderProof.glob Proofs/ReaderProof.v.beautified Proofs/ReaderProof.required_vo: Proofs/ReaderProof.v Model/Reader.vo
Proofs/ReaderProof.vio: Proofs/ReaderProof.v Model/Reader.vio
Proofs/ReaderProof.vos Proofs/ReaderProof.vok Proofs/ReaderProof.required_vos: Proofs/ReaderProof.v Model/Reader.vos
Model/Compressor.vo Model/Compressor.glob Model/Compressor.v.beautified Model/Compressor.required_vo: Model/Compressor.v Model/Reader.vo
Model/Compressor.vio: Model/Compressor.v Model/Reader.vio
Model/Compressor.vos Model/Compressor.vok Model/Compressor.required_vos: Model/Compressor.v Model/Reader.vos
Model/Filter.vo Model/Filter.glob Model/Filter.v.beautified Model/Filter.required_vo: Model/Filter.v Lib/Bytes.vo
Model/Filter.vio: Model/Filter.v Lib/Bytes.vio
Model/Filter.vos Model/Filter.vok Model/Filter.required_vos: Model/Filter.v Lib/Bytes.vos
Model/TaskJoin.vo Model/TaskJoin.glob Model/TaskJoin.v.beautified Model/TaskJoin.required_vo: Model/TaskJoin.v 
Model/TaskJoin.vio: Model/TaskJoin.v 
Model/TaskJoin.vos Model/TaskJoin.vok Model/TaskJoin.required_vos: Model/TaskJoin.v 
Proofs/FilterProof.vo Proofs/FilterProof.glob Proofs/FilterProof.v.beautified Proofs/FilterProof.required_vo: Proofs/FilterProof.v Lib/Bytes.vo Model/Reader.vo Model/Filter.vo Proofs/ReaderProof.vo
Proofs/FilterProof.vio: Proofs/FilterProof.v Lib/Bytes.vio Model/Reader.vio Model/Filter.vio Proofs/ReaderProof.vio
Proofs/FilterProof.vos Proofs/FilterProof.vok Proofs/FilterProof.required_vos: Proofs/FilterProof.v Lib/Bytes.vos Model/Reader.vos Model/Filter.vos Proofs/ReaderProof.vos
Proofs/CompressorProof.vo Proofs/CompressorProof.glob Proofs/CompressorProof.v.beautified Proofs/CompressorProof.required_vo: Proofs/CompressorProof.v Model/Reader.vo Model/Compressor.vo
Proofs/CompressorProof.vio: Proofs/CompressorProof.v Model/Reader.vio Model/Compressor.vio
Proofs/CompressorProof.vos Proofs/CompressorProof.vok Proofs/CompressorProof.required_vos: Proofs/CompressorProof.v Model/Reader.vos Model/Compressor.vos
Properties/C08.vo Properties/C08.glob Properties/C08.v.beautified Properties/C08.required_vo: Properties/C08.v Model/Reader.vo Model/Compressor.vo Proofs/ReaderProof.vo Proofs/CompressorProof.vo
Properties/C08.vio: Properties/C08.v Model/Reader.vio Model/Compressor.vio Proofs/ReaderProof.vio Proofs/CompressorProof.vio
Properties/C08.vos Properties/C08.vok Properties/C08.required_vos: Properties/C08.v Model/Reader.vos Model/Compressor.vos Proofs/ReaderProof.vos Proofs/CompressorProof.vos
Properties/C15.vo Properties/C15.glob Properties/C15.v.beautified Properties/C15.required_vo: Properties/C15.v Model/Reader.vo Proofs/ReaderProof.vo
Properties/C15.vio: Properties/C15.v Model/Reader.vio Proofs/ReaderProof.vio
Properties/C15.vos Properties/C15.vok Properties/C15.required_vos: Properties/C15.v Model/Reader.vos Proofs/ReaderProof.vos
Properties/C20.vo Properties/C20.glob Properties/C20.v.beautified Properties/C20.required_vo: Properties/C20.v Lib/Bytes.vo Lib/Val.vo Model/Reader.vo Model/Filter.vo Model/TaskJoin.vo Proofs/ReaderProof.vo Proofs/FilterProof.vo
Properties/C20.vio: Properties/C20.v Lib/Bytes.vio Lib/Val.vio Model/Reader.vio Model/Filter.vio Model/TaskJoin.vio Proofs/ReaderProof.vio Proofs/FilterProof.vio
Properties/C20.vos Properties/C20.vok Properties/C20.required_vos: Properties/C20.v Lib/Bytes.vos Lib/Val.vos Model/Reader.vos Model/Filter.vos Model/TaskJoin.vos Proofs/ReaderProof.vos Proofs/FilterProof.vos
AsFound/C20.vo AsFound/C20.glob AsFound/C20.v.beautified AsFound/C20.required_vo: AsFound/C20.v Model/TaskJoin.vo
AsFound/C20.vio: AsFound/C20.v Model/TaskJoin.vio
AsFound/C20.vos AsFound/C20.vok AsFound/C20.required_vos: AsFound/C20.v Model/TaskJoin.vos
AsFound/C08.vo AsFound/C08.glob AsFound/C08.v.beautified AsFound/C08.required_vo: AsFound/C08.v Model/Reader.vo Model/Compressor.vo Proofs/ReaderProof.vo Properties/C08.vo Properties/C15.vo
AsFound/C08.vio: AsFound/C08.v Model/Reader.vio Model/Compressor.vio Proofs/ReaderProof.vio Properties/C08.vio Properties/C15.vio
AsFound/C08.vos AsFound/C08.vok AsFound/C08.required_vos: AsFound/C08.v Model/Reader.vos Model/Compressor.vos Proofs/ReaderProof.vos Properties/C08.vos Properties/C15.vos
AsFound/C07.vo AsFound/C07.glob AsFound/C07.v.beautified AsFound/C07.required_vo: AsFound/C07.v Model/Git.vo Properties/C07.vo
AsFound/C07.vio: AsFound/C07.v Model/Git.vio Properties/C07.vio
AsFound/C07.vos AsFound/C07.vok AsFound/C07.required_vos: AsFound/C07.v Model/Git.vos Properties/C07.vos
AsFound/C06.vo AsFound/C06.glob AsFound/C06.v.beautified AsFound/C06.required_vo: AsFound/C06.v Model/Compressor.vo Properties/C06.vo
AsFound/C06.vio: AsFound/C06.v Model/Compressor.vio Properties/C06.vio
AsFound/C06.vos AsFound/C06.vok AsFound/C06.required_vos: AsFound/C06.v Model/Compressor.vos Properties/C06.vos
AsFound/C19.vo AsFound/C19.glob AsFound/C19.v.beautified AsFound/C19.required_vo: AsFound/C19.v Model/CheckpointSave.vo Properties/C19.vo
AsFound/C19.vio: AsFound/C19.v Model/CheckpointSave.vio Properties/C19.vio
AsFound/C19.vos AsFound/C19.vok AsFound/C19.required_vos: AsFound/C19.v Model/CheckpointSave.vos Properties/C19.vos
