From Coq Require Import List Arith NArith Bool Lia Sorting.Sorted.
From MR Require Import Lib.Bytes Model.Index.
Import ListNotations.

Lemma mem_str_In s l : mem_str s l = true <-> In s l.
Proof.
  unfold mem_str. rewrite existsb_exists. split.
  - intros (x & Hx & E). apply str_eqb_eq in E. subst. exact Hx.
  - intros H. exists s. split; auto. apply str_eqb_eq. reflexivity.
Qed.

Lemma wf_nonempty k : wf_path k -> k <> [].
Proof. intros [H _]. exact H. Qed.

Lemma lookup_spec keys q k :
  (forall k, In k keys -> wf_path k) -> wf_path q ->
  (In k (lookup keys q) <-> In k keys /\ inside q k = true).
Proof.
  intros Hk Hq.
  assert (E : lookup keys q = filter (fun k => on_boundary k q) (trie_prefixes keys q)).
  { unfold lookup.
    assert (Ed : dir_key_of keys q = []).
    { unfold dir_key_of. destruct q as [|c q']; [reflexivity|]. destruct (ends_slash (c :: q')); [reflexivity|].
      destruct (existsb (str_eqb ((c :: q') ++ [slash])) keys) eqn:Ee; [|reflexivity]. exfalso.
      apply existsb_exists in Ee as (k0 & Hin & Heq). apply str_eqb_eq in Heq. subst k0.
      pose proof (wf_no_trailing_slash _ (Hk _ Hin)) as Hn. unfold ends_slash in Hn. rewrite rev_unit in Hn.
      rewrite N.eqb_refl in Hn. discriminate. }
    rewrite Ed, app_nil_r. apply filter_ext_in. intros a Ha. unfold trie_prefixes in Ha. apply filter_In in Ha as [Ha _].
    apply on_boundary_or_slash_wf. apply Hk. exact Ha. }
  rewrite E. unfold trie_prefixes. rewrite !filter_In. split.
  - intros [[Hin Hp] Hb]. split; auto. rewrite <- path_lemma by auto.
    unfold path_prefix. destruct k; [discriminate|]. rewrite Hp, Hb. reflexivity.
  - intros [Hin Hi]. rewrite <- path_lemma in Hi by auto.
    unfold path_prefix in Hi. apply andb_true_iff in Hi as [Hp Hb].
    pose proof (wf_nonempty k (Hk k Hin)). destruct k; [congruence|]. auto.
Qed.


Lemma wf_targets cfg : wf_config cfg -> forall k, In k (target_paths cfg) -> wf_path k.
Proof. intros [_ H] k Hk. apply in_map_iff in Hk as (t & <- & Ht). apply H. exact Ht. Qed.
Lemma wf_uses cfg : wf_config cfg -> forall k, In k (all_uses cfg) -> wf_path k.
Proof. intros [_ H] k Hk. apply in_flat_map in Hk as (t & Ht & Hu). destruct (H t Ht) as (_ & H2 & _). apply H2. exact Hu. Qed.
Lemma wf_ignores cfg : wf_config cfg -> forall k, In k (all_ignores cfg) -> wf_path k.
Proof. intros [_ H] k Hk. apply in_flat_map in Hk as (t & Ht & Hu). destruct (H t Ht) as (_ & _ & H3). apply H3. exact Hu. Qed.

Lemma tpath_inj cfg t u : wf_config cfg -> In t cfg -> In u cfg -> tpath t = tpath u -> t = u.
Proof.
  intros [Hnd _]. revert Hnd. induction cfg as [|a cfg IH]; simpl; intros Hnd Ht Hu E; [destruct Ht|].
  inversion Hnd as [|? ? Hn Hnd']; subst.
  destruct Ht as [->|Ht], Hu as [->|Hu]; auto.
  - exfalso. apply Hn. rewrite E. apply in_map. exact Hu.
  - exfalso. apply Hn. rewrite <- E. apply in_map. exact Ht.
Qed.

(* ---------- C10: edges ---------- *)

Lemma dep_b_spec t u : dep_b t u = true <-> dep t u.
Proof.
  unfold dep_b, dep. rewrite andb_true_iff, negb_true_iff, orb_true_iff, existsb_exists.
  rewrite <- not_true_iff_false, str_eqb_eq. tauto.
Qed.

Theorem C10_edges cfg t u : wf_config cfg -> In t cfg -> In u cfg ->
  (In (tpath u) (edges_of cfg t) <-> dep t u).
Proof.
  intros Hwf Ht Hu. pose proof (wf_targets cfg Hwf) as Hk.
  destruct Hwf as [Hnd Hw]. destruct (Hw t Ht) as (Hpt & Hut & _).
  assert (Hself : forall p, negb (str_eqb p (tpath t)) = true <-> p <> tpath t).
  { intros p. rewrite negb_true_iff. rewrite <- not_true_iff_false, str_eqb_eq. tauto. }
  assert (Huin : In (tpath u) (target_paths cfg)) by (apply in_map; exact Hu).
  unfold edges_of, edges_of_with, dep. rewrite in_app_iff, filter_In, in_flat_map. split.
  - intros [[Hl Hs]|(m & Hm & Hf)].
    + apply lookup_spec in Hl as [_ Hi]; auto. apply Hself in Hs. tauto.
    + apply filter_In in Hf as [Hl Hs]. apply lookup_spec in Hl as [_ Hi]; auto.
      apply Hself in Hs. split; auto. right. eauto.
  - intros [Hne [Hi|(m & Hm & Hi)]].
    + left. split; [apply lookup_spec; auto | apply Hself; auto].
    + right. exists m. split; auto. apply filter_In. split; [apply lookup_spec; auto | apply Hself; auto].
Qed.

Lemma edges_are_targets cfg t p : wf_config cfg -> In t cfg -> In p (edges_of cfg t) -> In p (target_paths cfg).
Proof.
  intros Hwf Ht. pose proof (wf_targets cfg Hwf) as Hk. destruct Hwf as [_ Hw].
  destruct (Hw t Ht) as (Hpt & Hut & _).
  unfold edges_of, edges_of_with. rewrite in_app_iff, filter_In, in_flat_map.
  intros [[Hl _]|(m & Hm & Hf)].
  - apply lookup_spec in Hl; tauto.
  - apply filter_In in Hf as [Hl _]. apply lookup_spec in Hl; auto. tauto.
Qed.

(* ---------- node numbering and the adjacency list ---------- *)
Lemma index_of_Some p l : In p l -> exists i, index_of p l = Some i /\ nth_error l i = Some p.
Proof.
  induction l as [|x l IH]; [intros []|]. intros H. simpl.
  destruct (str_eqb p x) eqn:E.
  - apply str_eqb_eq in E. subst. exists 0. auto.
  - destruct H as [->|H].
    + assert (str_eqb p p = true) by (apply str_eqb_eq; auto). congruence.
    + destruct (IH H) as (i & E1 & E2). exists (S i). rewrite E1. auto.
Qed.

Lemma index_of_nth p l i : index_of p l = Some i -> nth_error l i = Some p.
Proof.
  revert i; induction l as [|x l IH]; intros i; simpl; [discriminate|].
  destruct (str_eqb p x) eqn:E.
  - intros [= <-]. apply str_eqb_eq in E. subst. reflexivity.
  - destruct (index_of p l); simpl; [|discriminate]. intros [= <-]. simpl. apply IH. reflexivity.
Qed.

Lemma index_of_NoDup l : NoDup l -> forall i p, nth_error l i = Some p -> index_of p l = Some i.
Proof.
  induction 1 as [|x l Hn Hnd IH]; intros [|i] p; simpl; try discriminate.
  - intros [= ->]. assert (str_eqb p p = true) by (apply str_eqb_eq; auto). rewrite H. reflexivity.
  - intros H. destruct (str_eqb p x) eqn:E.
    + apply str_eqb_eq in E. subst. exfalso. apply Hn. eapply nth_error_In; eauto.
    + rewrite (IH _ _ H). reflexivity.
Qed.

Lemma nset_insert_In x l z : In z (nset_insert x l) <-> z = x \/ In z l.
Proof.
  induction l as [|y r IH]; simpl; [intuition|].
  destruct (Nat.ltb_spec x y); simpl; [intuition|].
  destruct (Nat.eqb_spec x y); simpl; [subst; intuition|]. rewrite IH. intuition.
Qed.
Lemma nset_of_In l z : In z (nset_of l) <-> In z l.
Proof. induction l as [|x l IH]; simpl; [tauto|]. rewrite nset_insert_In, IH. intuition. Qed.

Lemma nset_insert_sorted x l : StronglySorted lt l -> StronglySorted lt (nset_insert x l).
Proof.
  induction 1 as [|y r Hs IH Hf]; simpl; [repeat constructor|].
  destruct (Nat.ltb_spec x y).
  - constructor; [constructor; auto|]. constructor; auto. rewrite Forall_forall in *. intros z Hz. specialize (Hf z Hz). lia.
  - destruct (Nat.eqb_spec x y); [constructor; auto|]. constructor; auto.
    rewrite Forall_forall in *. intros z Hz. apply nset_insert_In in Hz as [->|Hz]; [lia|auto].
Qed.
Lemma nset_of_sorted l : StronglySorted lt (nset_of l).
Proof. induction l; simpl; [constructor|apply nset_insert_sorted; auto]. Qed.

Lemma StronglySorted_lt_NoDup l : StronglySorted lt l -> NoDup l.
Proof.
  induction 1 as [|y r Hs IH Hf]; constructor; auto.
  intro Hin. rewrite Forall_forall in Hf. specialize (Hf _ Hin). lia.
Qed.

Lemma opt_list_In {A} (l : list (option A)) a : In a (opt_list l) <-> In (Some a) l.
Proof.
  unfold opt_list. rewrite in_flat_map. split.
  - intros (o & Ho & Ha). destruct o; simpl in Ha; [destruct Ha as [->|[]]; auto | destruct Ha].
  - intros H. exists (Some a). simpl. auto.
Qed.

(* The adjacency list handed to the graph: node i -> node j exactly when target i depends on target j *)
Theorem C10_adj cfg i j ti tj : wf_config cfg ->
  nth_error cfg i = Some ti -> nth_error cfg j = Some tj ->
  (In j (nth i (adj_of cfg) []) <-> dep ti tj).
Proof.
  intros Hwf Hi Hj.
  assert (Hti : In ti cfg) by (eapply nth_error_In; eauto).
  assert (Htj : In tj cfg) by (eapply nth_error_In; eauto).
  unfold adj_of, adj_of_with. simpl lookup_sel.
  assert (El : nth i (map (fun t => nset_of (opt_list (map (fun p => index_of p (target_paths cfg)) (edges_of_with lookup cfg t)))) cfg) []
             = nset_of (opt_list (map (fun p => index_of p (target_paths cfg)) (edges_of_with lookup cfg ti)))).
  { apply nth_error_nth. rewrite nth_error_map, Hi. reflexivity. }
  rewrite El, nset_of_In, opt_list_In, in_map_iff.
  rewrite <- (C10_edges cfg ti tj Hwf Hti Htj).
  assert (Hjp : nth_error (target_paths cfg) j = Some (tpath tj)).
  { unfold target_paths. rewrite nth_error_map, Hj. reflexivity. }
  split.
  - intros (p & Hp & Hin). apply index_of_nth in Hp. rewrite Hjp in Hp. inversion Hp; subst. exact Hin.
  - intros Hin. exists (tpath tj). split; auto. apply index_of_NoDup; auto. apply Hwf.
Qed.

Lemma adj_sorted cfg i : StronglySorted lt (nth i (adj_of cfg) []).
Proof.
  unfold adj_of, adj_of_with. destruct (nth_error cfg i) as [t|] eqn:E.
  - erewrite nth_error_nth; [|rewrite nth_error_map, E; reflexivity]. apply nset_of_sorted.
  - rewrite nth_overflow; [constructor|]. rewrite map_length. apply nth_error_None. exact E.
Qed.

Lemma adj_length cfg : length (adj_of cfg) = length cfg.
Proof. unfold adj_of, adj_of_with. apply map_length. Qed.

Lemma adj_in_range cfg i j : wf_config cfg -> In j (nth i (adj_of cfg) []) -> j < length cfg.
Proof.
  intros Hwf. unfold adj_of, adj_of_with. destruct (nth_error cfg i) as [t|] eqn:E.
  - erewrite nth_error_nth; [|rewrite nth_error_map, E; reflexivity].
    rewrite nset_of_In, opt_list_In, in_map_iff. intros (p & Hp & _).
    apply index_of_nth in Hp. assert (j < length (target_paths cfg)) by (apply nth_error_Some; congruence).
    unfold target_paths in H. rewrite map_length in H. exact H.
  - rewrite nth_overflow; [intros []|]. rewrite map_length. apply nth_error_None. exact E.
Qed.

(* ---------- C01: analysis of one change ---------- *)
Lemma ign_spec cfg p T : wf_config cfg -> wf_path p ->
  (In T (ignore_targets cfg p) <-> exists t, In t cfg /\ tpath t = T /\ ignored t p = true).
Proof.
  intros Hwf Hp. pose proof (wf_ignores cfg Hwf) as Hk.
  unfold ignore_targets, ignore_targets_with, ignore2targets. rewrite in_flat_map. split.
  - intros (i & Hi & HT). apply lookup_spec in Hi as [Hi1 Hi2]; auto.
    apply in_map_iff in HT as (t & <- & Ht). apply filter_In in Ht as [Ht Hm]. apply mem_str_In in Hm.
    exists t. repeat split; auto. unfold ignored. apply existsb_exists. eauto.
  - intros (t & Ht & <- & Hig). unfold ignored in Hig. apply existsb_exists in Hig as (i & Hi & Hin).
    exists i. split.
    + apply lookup_spec; auto. split; auto. unfold all_ignores. apply in_flat_map. eauto.
    + apply in_map. apply filter_In. split; auto. apply mem_str_In. exact Hi.
Qed.

Lemma ign_target cfg p t : wf_config cfg -> wf_path p -> In t cfg ->
  (mem_str (tpath t) (ignore_targets cfg p) = true <-> ignored t p = true).
Proof.
  intros Hwf Hp Ht. rewrite mem_str_In, ign_spec by auto. split.
  - intros (t' & Ht' & E & H). rewrite (tpath_inj cfg t t' Hwf Ht Ht') by auto. exact H.
  - intros H. eauto.
Qed.

Lemma ign_entry cfg p m : wf_config cfg -> wf_path p ->
  (mem_str m (ignore_targets cfg p) = true <-> uses_entry_ignored cfg m p = true).
Proof.
  intros Hwf Hp. rewrite mem_str_In, ign_spec by auto. unfold uses_entry_ignored. rewrite existsb_exists. split.
  - intros (t & Ht & E & H). exists t. split; auto. rewrite H, andb_true_r. apply str_eqb_eq. exact E.
  - intros (t & Ht & H). apply andb_true_iff in H as [E H]. apply str_eqb_eq in E. eauto.
Qed.

Lemma negb_mem_iff s l (P : Prop) : (mem_str s l = true <-> P) -> (negb (mem_str s l) = true <-> ~ P).
Proof. intros H. rewrite negb_true_iff, <- not_true_iff_false. tauto. Qed.

(* the pairs (using target, enclosing target) visited by the nested uses loop *)
Definition via_pairs (cfg : config) (p : str) : list (str * str) :=
  let ign := ignore_targets cfg p in
  flat_map (fun m =>
      if mem_str m ign then [] else
      flat_map (fun u =>
        if mem_str u ign then [] else
        map (fun t2 => (u, t2)) (lookup (target_paths cfg) u))
      (use2targets cfg m))
    (lookup (all_uses cfg) p).

Lemma via_spec cfg p t : wf_config cfg -> wf_path p -> In t cfg ->
  ((exists u, In (u, tpath t) (via_pairs cfg p))
   <-> existsb (fun n => inside (tpath n) (tpath t) && affected_via_uses true cfg n p) cfg = true).
Proof.
  intros Hwf Hp Ht.
  pose proof (wf_targets cfg Hwf) as Hkt. pose proof (wf_uses cfg Hwf) as Hku.
  assert (HtT : In (tpath t) (target_paths cfg)) by (apply in_map; exact Ht).
  unfold via_pairs. rewrite existsb_exists. split.
  - intros (u0 & Hin). apply in_flat_map in Hin as (m & Hm & Hin).
    apply lookup_spec in Hm as [Hm1 Hm2]; auto.
    destruct (mem_str m (ignore_targets cfg p)) eqn:Em; [destruct Hin|].
    apply in_flat_map in Hin as (u & Hu & Hin).
    unfold use2targets in Hu. apply in_map_iff in Hu as (n & <- & Hn). apply filter_In in Hn as [Hn Hmn].
    apply mem_str_In in Hmn.
    destruct (mem_str (tpath n) (ignore_targets cfg p)) eqn:En; [destruct Hin|].
    apply in_map_iff in Hin as (t2 & E2 & Hin). inversion E2; subst u0 t2.
    destruct Hwf as [Hnd Hw]. destruct (Hw n Hn) as (Hpn & _ & _).
    apply lookup_spec in Hin as [_ Hi]; auto.
    exists n. split; auto. rewrite Hi. simpl. unfold affected_via_uses.
    apply andb_true_iff. split.
    + apply negb_true_iff. apply not_true_iff_false. intro Hig.
      apply (ign_target cfg p n (conj Hnd Hw) Hp Hn) in Hig. congruence.
    + apply existsb_exists. exists m. split; auto. rewrite Hm2. simpl.
      apply negb_true_iff. apply not_true_iff_false. intro Hig.
      apply (ign_entry cfg p m (conj Hnd Hw) Hp) in Hig. congruence.
  - intros (n & Hn & H). apply andb_true_iff in H as [Hi Ha].
    unfold affected_via_uses in Ha. apply andb_true_iff in Ha as [Hni Hex].
    apply existsb_exists in Hex as (m & Hm & Hmm). apply andb_true_iff in Hmm as [Hpm Hdc].
    simpl in Hdc.
    assert (Hmall : In m (all_uses cfg)) by (unfold all_uses; apply in_flat_map; eauto).
    exists (tpath n). apply in_flat_map. exists m. split; [apply lookup_spec; auto|].
    destruct (mem_str m (ignore_targets cfg p)) eqn:Em.
    { apply (ign_entry cfg p m Hwf Hp) in Em. rewrite Em in Hdc. discriminate. }
    apply in_flat_map. exists (tpath n). split.
    + unfold use2targets. apply in_map. apply filter_In. split; auto. apply mem_str_In. exact Hm.
    + destruct (mem_str (tpath n) (ignore_targets cfg p)) eqn:En.
      { apply (ign_target cfg p n Hwf Hp Hn) in En. rewrite En in Hni. discriminate. }
      destruct Hwf as [Hnd Hw]. destruct (Hw n Hn) as (Hpn & _ & _).
      apply in_map_iff. exists (tpath t). split; auto. apply lookup_spec; auto.
Qed.

Lemma analyze_change_unfold cfg p :
  analyze_change cfg p =
  filter (fun t => negb (mem_str t (ignore_targets cfg p))) (lookup (target_paths cfg) p) ++
  flat_map (fun '(u, t2) => if mem_str t2 (ignore_targets cfg p) then [] else [t2]) (via_pairs cfg p).
Proof. reflexivity. Qed.

Lemma breakdown_change_unfold cfg p :
  breakdown_change cfg p =
  map (fun t => (t, if mem_str t (ignore_targets cfg p) then RIgnores else RTarget)) (lookup (target_paths cfg) p) ++
  map (fun '(u, t2) => (t2, if mem_str t2 (ignore_targets cfg p) then RIgnores else RUses)) (via_pairs cfg p).
Proof. reflexivity. Qed.

Theorem C01_change cfg p t : wf_config cfg -> wf_path p -> In t cfg ->
  (In (tpath t) (analyze_change cfg p) <-> spec_changed1 true cfg p t = true).
Proof.
  intros Hwf Hp Ht.
  pose proof (wf_targets cfg Hwf) as Hkt.
  assert (HtT : In (tpath t) (target_paths cfg)) by (apply in_map; exact Ht).
  assert (Hnig : negb (mem_str (tpath t) (ignore_targets cfg p)) = true <-> ignored t p <> true)
    by (apply negb_mem_iff, ign_target; auto).
  rewrite analyze_change_unfold, in_app_iff, filter_In, Hnig, lookup_spec by auto.
  unfold spec_changed1. rewrite andb_true_iff, orb_true_iff, negb_true_iff, <- not_true_iff_false.
  rewrite <- (via_spec cfg p t Hwf Hp Ht).
  rewrite in_flat_map. split.
  - intros [[[_ H1] H2]|((u, t2) & Hin & H)]; [tauto|].
    destruct (mem_str t2 (ignore_targets cfg p)) eqn:E; [destruct H|]. destruct H as [->|[]].
    split; [|right; eauto]. apply Hnig. rewrite E. reflexivity.
  - intros [H1 [H2|(u & H2)]]; [left; tauto|]. right. exists (u, tpath t). split; auto.
    apply Hnig in H1. apply negb_true_iff in H1. rewrite H1. left. reflexivity.
Qed.

(* the summary entries of one change are exactly its non-ignored breakdown entries *)
Theorem C01_breakdown_change cfg p z :
  In z (analyze_change cfg p) <-> exists r, r <> RIgnores /\ In (z, r) (breakdown_change cfg p).
Proof.
  rewrite analyze_change_unfold, breakdown_change_unfold. rewrite in_app_iff, filter_In, in_flat_map. split.
  - intros [[H1 H2]|((u, t2) & Hin & H)].
    + apply negb_true_iff in H2. exists RTarget. split; [discriminate|]. apply in_app_iff. left.
      apply in_map_iff. exists z. rewrite H2. auto.
    + destruct (mem_str t2 (ignore_targets cfg p)) eqn:E; [destruct H|]. destruct H as [->|[]].
      exists RUses. split; [discriminate|]. apply in_app_iff. right. apply in_map_iff. exists (u, z). rewrite E. auto.
  - intros (r & Hr & Hin). apply in_app_iff in Hin as [Hin|Hin]; apply in_map_iff in Hin.
    + destruct Hin as (t & E & Hin). left.
      destruct (mem_str t (ignore_targets cfg p)) eqn:Em; inversion E; subst; [congruence|].
      rewrite Em. auto.
    + destruct Hin as ((u, t2) & E & Hin). right. exists (u, t2). split; auto.
      destruct (mem_str t2 (ignore_targets cfg p)) eqn:Em; inversion E; subst; [congruence|]. left; auto.
Qed.

(* ---------- chunking ---------- *)
Lemma chunks_fuel_concat {A} k : k > 0 -> forall fuel (l : list A), length l <= fuel -> concat (chunks_fuel fuel k l) = l.
Proof.
  intros Hk. induction fuel as [|f IH]; intros l Hl.
  - destruct l; simpl in *; [reflexivity|lia].
  - destruct l as [|a l]; [reflexivity|]. cbn [chunks_fuel concat].
    rewrite IH; [apply firstn_skipn|].
    rewrite skipn_length. simpl length in *. lia.
Qed.
Lemma chunks_concat {A} k (l : list A) : k > 0 -> concat (chunks k l) = l.
Proof. intros Hk. apply chunks_fuel_concat; auto. Qed.

Lemma summary_k_In k cfg changes z : k > 0 ->
  (In z (summary_k k cfg changes) <-> exists p, In p changes /\ In z (analyze_change cfg p)).
Proof.
  intros Hk. unfold summary_k, summary_with. simpl lookup_sel. rewrite sset_of_In, in_concat.
  split.
  - intros (s & Hs & Hz). apply in_map_iff in Hs as (ch & <- & Hch).
    rewrite sset_of_In in Hz. apply in_flat_map in Hz as (p & Hp & Hz).
    exists p. split; auto. rewrite <- (chunks_concat k changes Hk). apply in_concat. eauto.
  - intros (p & Hp & Hz). rewrite <- (chunks_concat k changes Hk) in Hp. apply in_concat in Hp as (ch & Hch & Hp).
    eexists. split; [apply in_map; exact Hch|]. rewrite sset_of_In. apply in_flat_map. eauto.
Qed.

Theorem C01_membership k cfg changes t : k > 0 ->
  wf_config cfg -> (forall p, In p changes -> wf_path p) -> In t cfg ->
  (In (tpath t) (summary_k k cfg changes) <-> spec_changed true cfg changes t = true).
Proof.
  intros Hk Hwf Hch Ht. rewrite summary_k_In by auto. unfold spec_changed. rewrite existsb_exists.
  split; intros (p & Hp & H); exists p; (split; [exact Hp|]); apply (C01_change cfg p t Hwf (Hch p Hp) Ht); exact H.
Qed.

(* only configured targets are ever reported *)
Lemma analyze_change_targets cfg p z : wf_config cfg -> wf_path p -> In z (analyze_change cfg p) -> In z (target_paths cfg).
Proof.
  intros Hwf Hp. pose proof (wf_targets cfg Hwf) as Hkt.
  rewrite analyze_change_unfold, in_app_iff, filter_In, in_flat_map.
  intros [[H _]|((u, t2) & Hin & H)].
  - apply lookup_spec in H; tauto.
  - destruct (mem_str t2 (ignore_targets cfg p)); [destruct H|]. destruct H as [->|[]].
    unfold via_pairs in Hin. apply in_flat_map in Hin as (m & _ & Hin).
    destruct (mem_str m _); [destruct Hin|]. apply in_flat_map in Hin as (u' & Hu' & Hin).
    destruct (mem_str u' _); [destruct Hin|]. apply in_map_iff in Hin as (t2 & E & Hin). inversion E; subst.
    unfold use2targets in Hu'. apply in_map_iff in Hu' as (n & <- & Hn). apply filter_In in Hn as [Hn _].
    destruct Hwf as [Hnd Hw]. destruct (Hw n Hn) as (Hpn & _ & _).
    apply lookup_spec in Hin; tauto.
Qed.

Theorem C01_sorted k cfg changes : StronglySorted lex_lt (summary_k k cfg changes).
Proof. apply sset_of_sorted. Qed.

Theorem C01_order_independent k k' cfg ch ch' : k > 0 -> k' > 0 ->
  (forall p, In p ch <-> In p ch') -> summary_k k cfg ch = summary_k k' cfg ch'.
Proof.
  intros Hk Hk' Hext. apply sorted_ext; try apply C01_sorted.
  intros z. rewrite !summary_k_In by auto. split; intros (p & Hp & Hz); exists p; split; auto; apply Hext; auto.
Qed.

Theorem C01_breakdown k cfg changes z : k > 0 ->
  (In z (summary_k k cfg changes) <->
   exists p brk r, In (p, brk) (breakdown cfg changes) /\ In (z, r) brk /\ r <> RIgnores).
Proof.
  intros Hk. rewrite summary_k_In by auto. unfold breakdown, breakdown_with. simpl lookup_sel. split.
  - intros (p & Hp & Hz). apply C01_breakdown_change in Hz as (r & Hr & Hin).
    exists p, (breakdown_change cfg p), r. repeat split; auto. apply in_map_iff. exists p. auto.
  - intros (p & brk & r & Hin & Hz & Hr). apply in_map_iff in Hin as (p' & E & Hp). inversion E; subst p brk.
    exists p'. split; auto. apply C01_breakdown_change. eauto.
Qed.

(* the don't-care band: reading "true" implies reading "false" *)
Lemma spec_band cfg changes t : spec_changed true cfg changes t = true -> spec_changed false cfg changes t = true.
Proof.
  unfold spec_changed. rewrite !existsb_exists. intros (p & Hp & H). exists p. split; auto.
  unfold spec_changed1 in *. apply andb_true_iff in H as [H1 H2]. rewrite H1. simpl.
  apply orb_true_iff in H2 as [H2|H2]; [rewrite H2; reflexivity|]. apply orb_true_iff. right.
  apply existsb_exists in H2 as (n & Hn & H2). apply existsb_exists. exists n. split; auto.
  apply andb_true_iff in H2 as [H2 H3]. rewrite H2. simpl. unfold affected_via_uses in *.
  apply andb_true_iff in H3 as [H3 H4]. rewrite H3. simpl.
  apply existsb_exists in H4 as (m & Hm & H4). apply existsb_exists. exists m. split; auto.
  apply andb_true_iff in H4 as [H4 _]. rewrite H4. reflexivity.
Qed.

(* decidable well-formedness agrees with the Prop *)
Lemma wf_path_b_spec s : wf_path_b s = true <-> wf_path s.
Proof.
  unfold wf_path_b, wf_path. destruct s as [|c s].
  - split; [discriminate | intros [H _]; congruence].
  - rewrite negb_true_iff, <- not_true_iff_false, existsb_exists. split.
    + intros H. split; [discriminate|]. intro Hin. apply H. exists []. auto.
    + intros [_ H] (x & Hx & E). destruct x; [auto|discriminate].
Qed.

Lemma has_dup_spec l : has_dup l = false <-> NoDup l.
Proof.
  induction l as [|x l IH]; simpl; [split; [constructor|auto]|].
  rewrite orb_false_iff, IH, NoDup_cons_iff, <- not_true_iff_false, mem_str_In. tauto.
Qed.

Lemma wf_config_b_spec cfg : wf_config_b cfg = true <-> wf_config cfg.
Proof.
  unfold wf_config_b, wf_config. rewrite andb_true_iff, negb_true_iff, has_dup_spec, forallb_forall.
  split; intros [H1 H2]; split; auto; intros t Ht.
  - specialize (H2 t Ht). rewrite !andb_true_iff, !forallb_forall in H2. destruct H2 as [[H2 H3] H4].
    repeat split; try (apply wf_path_b_spec; auto); intros; apply wf_path_b_spec; auto.
  - destruct (H2 t Ht) as (H3 & H4 & H5). rewrite !andb_true_iff, !forallb_forall.
    repeat split; try (apply wf_path_b_spec; auto); intros; apply wf_path_b_spec; auto.
Qed.

Theorem C01_all : forall k cfg changes, k > 0 -> wf_config cfg -> (forall p, In p changes -> wf_path p) ->
    (forall t, In t cfg ->
       (spec_changed true cfg changes t = true -> In (tpath t) (summary_k k cfg changes)) /\
       (In (tpath t) (summary_k k cfg changes) -> spec_changed false cfg changes t = true)) /\
    (forall z, In z (summary_k k cfg changes) -> In z (target_paths cfg)) /\
    StronglySorted lex_lt (summary_k k cfg changes) /\
    (forall z, In z (summary_k k cfg changes) <->
       exists p brk r, In (p, brk) (breakdown cfg changes) /\ In (z, r) brk /\ r <> RIgnores) /\
    (forall k' changes', k' > 0 -> (forall p, In p changes <-> In p changes') ->
       summary_k k cfg changes = summary_k k' cfg changes').
Proof.
  intros k cfg changes Hk Hwf Hch. split; [|split; [|split; [|split]]].
  - intros t Ht. split.
    + intros H. apply C01_membership; auto.
    + intros H. apply spec_band. apply (C01_membership k cfg changes t); auto.
  - intros z Hz. apply summary_k_In in Hz as (p & Hp & Hz); auto. eapply analyze_change_targets; eauto.
  - apply C01_sorted.
  - intros z. apply C01_breakdown. exact Hk.
  - intros k' changes' Hk' Hext. apply C01_order_independent; auto.
Qed.
