From Coq Require Import List Arith NArith Bool Lia.
From MR Require Import Lib.Bytes Model.Plan.
Import ListNotations.

Lemma str_eqb_refl s : str_eqb s s = true.
Proof. apply str_eqb_eq. reflexivity. Qed.
Lemma str_eqb_neq a b : a <> b -> str_eqb a b = false.
Proof. intros H. destruct (str_eqb a b) eqn:E; auto. apply str_eqb_eq in E. contradiction. Qed.
Lemma str_eq_dec (a b : str) : a = b \/ a <> b.
Proof. destruct (str_eqb a b) eqn:E; [left; apply str_eqb_eq; auto | right; intro H; apply str_eqb_eq in H; congruence]. Qed.

Lemma assoc_upsert_same {B} (l : list (str * B)) k d f :
  assoc_s (upsert l k d f) k = Some (f (match assoc_s l k with Some b => b | None => d end)).
Proof.
  induction l as [|[q b] l IH]; simpl; [rewrite str_eqb_refl; reflexivity|].
  destruct (str_eqb q k) eqn:E; simpl; rewrite E; auto.
Qed.
Lemma assoc_upsert_other {B} (l : list (str * B)) k k' d f : k <> k' ->
  assoc_s (upsert l k d f) k' = assoc_s l k'.
Proof.
  intros Hne. induction l as [|[q b] l IH]; simpl.
  - rewrite str_eqb_neq by exact Hne. reflexivity.
  - destruct (str_eqb q k) eqn:E; simpl.
    + apply str_eqb_eq in E. subst q. rewrite str_eqb_neq by exact Hne. reflexivity.
    + destruct (str_eqb q k'); auto.
Qed.

Definition args_in (cm : cmdmap) (c : str) : list str := match assoc_s cm c with Some a => a | None => [] end.
(* contribution of one source map to command c: every entry for c, in order (a JSON object has one) *)
Definition contrib (src : cmdmap) (c : str) : list str :=
  flat_map (fun '(c', a) => if str_eqb c' c then a else []) src.

Lemma merge_cmds_args src : forall cm c, args_in (merge_cmds cm src) c = args_in cm c ++ contrib src c.
Proof.
  unfold merge_cmds. induction src as [|[c' a] src IH]; intros cm c; simpl; [rewrite app_nil_r; reflexivity|].
  rewrite IH. unfold args_in at 1. destruct (str_eq_dec c' c) as [->|Hne].
  - rewrite assoc_upsert_same, str_eqb_refl. unfold args_in. rewrite <- app_assoc. reflexivity.
  - rewrite assoc_upsert_other by exact Hne. rewrite (str_eqb_neq _ _ Hne). reflexivity.
Qed.

Lemma argv_merge_same tb t src c : argv_of (merge_target tb t src) t c = argv_of tb t c ++ contrib src c.
Proof.
  unfold argv_of, get_args, merge_target. rewrite assoc_upsert_same.
  pose proof (merge_cmds_args src (match assoc_s tb t with Some b => b | None => [] end) c) as H.
  unfold args_in in H. rewrite H. destruct (assoc_s tb t); reflexivity.
Qed.
Lemma argv_merge_other tb t t' src c : t <> t' -> argv_of (merge_target tb t src) t' c = argv_of tb t' c.
Proof. intros Hne. unfold argv_of, get_args, merge_target. rewrite assoc_upsert_other by exact Hne. reflexivity. Qed.

(* the argv of (t, c) is the concatenation, in load order, of what each load for t says about c - and
   nothing from any other target or command *)
Theorem argv_build_table loads t c :
  argv_of (build_table loads) t c =
  flat_map (fun '(t', src) => if str_eqb t' t then contrib src c else []) loads.
Proof.
  unfold build_table.
  assert (H : forall tb, argv_of (fold_left (fun tb '(t, src) => merge_target tb t src) loads tb) t c =
                         argv_of tb t c ++ flat_map (fun '(t', src) => if str_eqb t' t then contrib src c else []) loads).
  { induction loads as [|[t' src] loads IH]; intros tb; simpl; [rewrite app_nil_r; reflexivity|].
    rewrite IH. destruct (str_eq_dec t' t) as [->|Hne].
    - rewrite argv_merge_same, str_eqb_refl, app_assoc. reflexivity.
    - rewrite argv_merge_other by exact Hne. rewrite (str_eqb_neq _ _ Hne). reflexivity. }
  rewrite H. reflexivity.
Qed.

Definition base_name : str := map N.of_nat [98; 97; 115; 101].
Definition file_args (file : str -> str -> option cmdmap) (t n c : str) : list str :=
  match file t n with Some cm => contrib cm c | None => [] end.

Lemma flat_map_app {A B} (f : A -> list B) l1 l2 : flat_map f (l1 ++ l2) = flat_map f l1 ++ flat_map f l2.
Proof. induction l1; simpl; auto. rewrite IHl1, app_assoc. reflexivity. Qed.

Lemma target_loads_contrib file use_base names t' t c :
  flat_map (fun '(t0, src) => if str_eqb t0 t then contrib src c else []) (target_loads file use_base names t') =
  if str_eqb t' t then (if use_base then file_args file t base_name c else []) ++ flat_map (fun n => file_args file t n c) names
  else [].
Proof.
  unfold target_loads. rewrite flat_map_app.
  assert (Hone : forall n, flat_map (fun '(t0, src) => if str_eqb t0 t then contrib src c else [])
                     (match file t' n with Some cm => [(t', cm)] | None => [] end) =
                   if str_eqb t' t then file_args file t' n c else []).
  { intros n. unfold file_args. destruct (file t' n); simpl; [rewrite app_nil_r|]; destruct (str_eqb t' t); reflexivity. }
  assert (Hnames : flat_map (fun '(t0, src) => if str_eqb t0 t then contrib src c else [])
                     (flat_map (fun n => match file t' n with Some cm => [(t', cm)] | None => [] end) names) =
                   if str_eqb t' t then flat_map (fun n => file_args file t' n c) names else []).
  { induction names as [|n names IH]; simpl; [destruct (str_eqb t' t); reflexivity|].
    rewrite flat_map_app, Hone, IH. destruct (str_eqb t' t); reflexivity. }
  rewrite Hnames. destruct use_base.
  - fold base_name. rewrite Hone. destruct (str_eqb t' t) eqn:E; [apply str_eqb_eq in E; subst; reflexivity | reflexivity].
  - simpl. destruct (str_eqb t' t) eqn:E; [apply str_eqb_eq in E; subst; reflexivity | reflexivity].
Qed.

(* C11, argument part: for a run target t (listed once) and command c *)
Theorem C11_argv file use_base names targets run_args t c :
  NoDup targets -> In t targets ->
  argv_of (build_table (run_loads file use_base names targets run_args)) t c =
  (if use_base then file_args file t base_name c else []) ++
  flat_map (fun n => file_args file t n c) names ++
  match run_args with
  | Some (t0, c0, a) => if str_eqb t0 t && str_eqb c0 c then a else []
  | None => [] end.
Proof.
  intros Hnd Hin. rewrite argv_build_table. unfold run_loads. rewrite flat_map_app.
  assert (Htargets : flat_map (fun '(t', src) => if str_eqb t' t then contrib src c else [])
                       (flat_map (target_loads file use_base names) targets) =
                     (if use_base then file_args file t base_name c else []) ++ flat_map (fun n => file_args file t n c) names).
  { induction targets as [|t' ts IH]; [destruct Hin|]. simpl. rewrite flat_map_app, target_loads_contrib.
    inversion Hnd as [|? ? Hn Hnd']; subst. destruct Hin as [->|Hin].
    - rewrite str_eqb_refl.
      assert (Hrest : flat_map (fun '(t', src) => if str_eqb t' t then contrib src c else [])
                        (flat_map (target_loads file use_base names) ts) = []).
      { clear IH Hnd Hnd'. induction ts as [|u ts IHt]; simpl; auto. rewrite flat_map_app, target_loads_contrib.
        rewrite str_eqb_neq; [|intros ->; apply Hn; left; reflexivity]. simpl. apply IHt. intro H. apply Hn. right. exact H. }
      rewrite Hrest, app_nil_r. reflexivity.
    - rewrite str_eqb_neq; [|intros ->; contradiction]. simpl. apply IH; auto. }
  rewrite Htargets, <- app_assoc. f_equal. f_equal.
  destruct run_args as [[[t0 c0] a]|]; simpl; auto.
  destruct (str_eqb t0 t); simpl; auto. rewrite app_nil_r. destruct (str_eqb c0 c); simpl; rewrite ?app_nil_r; reflexivity.
Qed.

(* resolution *)
Theorem C11_resolve_explicit p0 p dir cmd : resolve (Some (p0 :: p)) dir cmd = Some (true, p0 :: p).
Proof. reflexivity. Qed.
Theorem C11_resolve_by_stem def dir cmd f :
  (def = None \/ def = Some []) ->
  (resolve def dir cmd = Some (false, f) -> In f dir /\ stem f = cmd) /\
  ((forall g, In g dir -> stem g = cmd -> g = f) -> In f dir -> stem f = cmd -> resolve def dir cmd = Some (false, f)).
Proof.
  intros Hd. assert (E : resolve def dir cmd = match find (fun f => str_eqb (stem f) cmd) dir with Some f => Some (false, f) | None => None end)
    by (destruct Hd as [->| ->]; reflexivity).
  rewrite E. split.
  - destruct (find _ dir) as [g|] eqn:Ef; [|discriminate]. intros H. inversion H; subst.
    apply find_some in Ef as [H1 H2]. apply str_eqb_eq in H2. auto.
  - intros Hu Hin Hs. destruct (find _ dir) as [g|] eqn:Ef.
    + apply find_some in Ef as [H1 H2]. apply str_eqb_eq in H2. rewrite (Hu g H1 H2). reflexivity.
    + exfalso. apply (find_none _ _ Ef f) in Hin. rewrite Hs, str_eqb_refl in Hin. discriminate.
Qed.
