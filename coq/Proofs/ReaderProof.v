From Coq Require Import List Arith NArith Bool Lia.
From MR Require Import Model.Reader.
Import ListNotations.

Lemma take_line_spec s : forall acc l rest, take_line acc s = Some (l, rest) -> rev acc ++ s = l ++ rest.
Proof.
  induction s as [|c s IH]; intros acc l rest H; simpl in H; [discriminate|].
  destruct (N.eqb c nl).
  - inversion H; subst. rewrite rev_append_rev. simpl. rewrite <- !app_assoc. simpl. reflexivity.
  - apply IH in H. simpl in H. rewrite <- app_assoc in H. exact H.
Qed.

Section P.
Variable tolerant : bool.
Variable sink_ok : nat -> bool.
Notation step := (step true tolerant sink_ok).
Notation flush := (flush tolerant sink_ok).

(* nothing is lost or invented: compressor bytes ++ unflushed lines ++ partial line ++ unread pipe *)
Definition conserved (s : rst) (total : bytes) : Prop :=
  out s ++ concat (lines s) ++ cur s ++ inner s = total.

Lemma flush_fields s fin :
  out (flush s fin) ++ concat (lines (flush s fin)) = out s ++ concat (lines s) /\
  cur (flush s fin) = cur s /\ inner (flush s fin) = inner s /\ closed (flush s fin) = closed s /\
  lines (flush s fin) = [].
Proof.
  unfold Reader.flush. destruct (lines s) as [|l ls] eqn:El; simpl; [rewrite app_nil_r; auto|].
  destruct (stream_on s); [destruct (sink_ok (nwrites s)); [|destruct tolerant]|]; simpl; rewrite ?app_nil_r; auto.
Qed.

Lemma flush_conserved s fin total : conserved s total -> conserved (flush s fin) total.
Proof.
  unfold conserved. intros H. destruct (flush_fields s fin) as (H1 & H2 & H3 & _).
  rewrite app_assoc, H1, H2, H3, <- app_assoc. exact H.
Qed.

Definition accepted_by (s : rst) (e : ev) : bytes :=
  match e with Arrive b => if closed s || ended s then [] else b | _ => [] end.

Lemma step_conserved s e total : conserved s total -> conserved (step s e) (total ++ accepted_by s e).
Proof.
  intros H. unfold Reader.step, accepted_by. destruct (ended s) eqn:He.
  - destruct e; rewrite ?orb_true_r, ?app_nil_r; exact H.
  - destruct e as [b| | |].
    + destruct (closed s); simpl; [rewrite app_nil_r; exact H|].
      unfold conserved in *. simpl. rewrite <- H, <- !app_assoc. reflexivity.
    + rewrite app_nil_r. exact H.
    + rewrite app_nil_r. destruct (take_line [] (inner s)) as [[l rest]|] eqn:E.
      * apply take_line_spec in E. simpl in E. unfold conserved in *. simpl. rewrite <- H, E.
        rewrite concat_app. simpl. rewrite <- !app_assoc. reflexivity.
      * destruct (closed s).
        -- unfold conserved in H. destruct (inner s) as [|i0 ir] eqn:Ei; [destruct (nread s)|].
           ++ apply flush_conserved. unfold conserved. simpl. rewrite <- H.
              destruct (cur s) eqn:Ec; simpl; rewrite ?concat_app; simpl; rewrite <- ?app_assoc, ?app_nil_r; reflexivity.
           ++ unfold conserved. simpl. rewrite <- H, concat_app. simpl. rewrite <- !app_assoc, !app_nil_r. reflexivity.
           ++ unfold conserved. simpl. rewrite <- H, concat_app. simpl. rewrite <- !app_assoc, !app_nil_r. reflexivity.
        -- unfold conserved in *. simpl. rewrite <- H, <- !app_assoc, app_nil_r. reflexivity.
    + rewrite app_nil_r. pose proof (flush_conserved s false total H) as Hf.
      destruct (ended (flush s false)); [exact Hf|]. unfold conserved in *. simpl. exact Hf.
Qed.

(* when the reader has returned without error, everything has been handed over *)
Definition drained (s : rst) : Prop :=
  ended s = true -> failed s = false -> lines s = [] /\ cur s = [] /\ inner s = [] /\ closed s = true.

Lemma flush_ended_failed s fin : ended (flush s fin) = fin || failed (flush s fin).
Proof.
  unfold Reader.flush. destruct (lines s); simpl; [rewrite orb_false_r; reflexivity|].
  destruct (stream_on s); [destruct (sink_ok (nwrites s)); [|destruct tolerant]|]; simpl; rewrite ?orb_false_r, ?orb_true_r; reflexivity.
Qed.

Lemma step_drained s e : drained s -> drained (step s e).
Proof.
  intros Hd. unfold Reader.step. destruct (ended s) eqn:He; [exact Hd|].
  destruct e as [b| | |]; unfold drained; simpl.
  - destruct (closed s); simpl; [rewrite He|]; discriminate.
  - discriminate.
  - destruct (take_line [] (inner s)) as [[l rest]|]; simpl; [discriminate|].
    destruct (closed s) eqn:Ec; simpl; [|discriminate].
    destruct (inner s) as [|i0 ir] eqn:Ei; [destruct (nread s)|]; simpl; try discriminate.
    intros _ _. destruct (flush_fields (with_io s [] true [] 0 match cur s with [] => lines s | _ :: _ => lines s ++ [cur s] end) true) as (_ & H2 & H3 & H4 & H5).
    rewrite H2, H3, H4, H5. simpl. auto.
  - destruct (ended (flush s false)) eqn:Ef.
    + intros _ Hnf. rewrite flush_ended_failed in Ef. simpl in Ef. congruence.
    + simpl. discriminate.
Qed.

Fixpoint accepted (s : rst) (es : list ev) : bytes :=
  match es with [] => [] | e :: r => accepted_by s e ++ accepted (step s e) r end.

Lemma run_conserved es : forall s total, conserved s total -> conserved (fold_left step es s) (total ++ accepted s es).
Proof.
  induction es as [|e es IH]; intros s total H; simpl; [rewrite app_nil_r; exact H|].
  rewrite app_assoc. apply IH. apply step_conserved. exact H.
Qed.

Lemma run_drained es : forall s, drained s -> drained (fold_left step es s).
Proof. induction es as [|e es IH]; intros s H; simpl; auto. apply IH, step_drained, H. Qed.

Lemma ended_frozen es : forall s, ended s = true -> fold_left step es s = s.
Proof. induction es as [|e es IH]; intros s H; simpl; auto. unfold Reader.step at 2. rewrite H. apply IH. exact H. Qed.

(* an ended reader is closed or failed *)
Definition endk (s : rst) : Prop := ended s = true -> closed s = true \/ failed s = true.
Lemma step_endk s e : endk s -> drained s -> endk (step s e).
Proof.
  intros Hk Hd. unfold Reader.step. destruct (ended s) eqn:He; [exact Hk|].
  destruct e as [b| | |]; unfold endk; simpl.
  - destruct (closed s); simpl; [rewrite He|]; discriminate.
  - auto.
  - destruct (take_line [] (inner s)) as [[l rest]|]; simpl; [discriminate|].
    destruct (closed s) eqn:Ec; simpl; [|discriminate].
    destruct (inner s) as [|i0 ir] eqn:Ei; [destruct (nread s)|]; simpl; try discriminate.
    intros _. left. destruct (flush_fields (with_io s [] true [] 0 match cur s with [] => lines s | _ :: _ => lines s ++ [cur s] end) true) as (_ & _ & _ & H4 & _).
    rewrite H4. reflexivity.
  - destruct (ended (flush s false)) eqn:Ef; [|simpl; discriminate].
    intros _. rewrite flush_ended_failed in Ef. simpl in Ef. right. exact Ef.
Qed.

Lemma accepted_arrived es : forall s, endk s -> drained s ->
  failed (fold_left step es s) = false ->
  accepted s es = if closed s || ended s then [] else arrived es.
Proof.
  induction es as [|e es IH]; intros s Hk Hd Hf; simpl; [destruct (closed s || ended s); reflexivity|].
  assert (Hk' := step_endk s e Hk Hd). assert (Hd' := step_drained s e Hd).
  rewrite (IH (step s e) Hk' Hd' Hf). unfold accepted_by.
  destruct (ended s) eqn:He.
  - rewrite orb_true_r. unfold Reader.step. rewrite He, He, orb_true_r. destruct e; reflexivity.
  - rewrite orb_false_r. unfold Reader.step. rewrite He.
    destruct e as [b| | |].
    + destruct (closed s) eqn:Ec; simpl; [rewrite Ec, He; reflexivity|]. reflexivity.
    + simpl. destruct (closed s); reflexivity.
    + (* Poll: closed unchanged; if the reader ends here it is closed, so nothing more is accepted either way *)
      destruct (take_line [] (inner s)) as [[l rest]|]; simpl; [destruct (closed s); reflexivity|].
      destruct (closed s) eqn:Ec; simpl; [|reflexivity].
      destruct (inner s) as [|i0 ir]; [destruct (nread s)|]; simpl; try reflexivity.
      destruct (flush_fields (with_io s [] true [] 0 match cur s with [] => lines s | _ :: _ => lines s ++ [cur s] end) true) as (_ & _ & _ & H4 & _).
      rewrite H4. reflexivity.
    + (* Tick: if the flush fails the reader ends with failed = true, contradicting the hypothesis *)
      destruct (ended (flush s false)) eqn:Ef.
      * exfalso. assert (Hfl : failed (flush s false) = true) by (rewrite flush_ended_failed in Ef; exact Ef).
        assert (Est : step s Tick = flush s false) by (unfold Reader.step; rewrite He, Ef; reflexivity).
        cbn [fold_left] in Hf. rewrite Est in Hf. rewrite ended_frozen in Hf by exact Ef. congruence.
      * simpl. destruct (flush_fields s false) as (_ & _ & _ & H4 & _). rewrite H4. destruct (closed s); reflexivity.
Qed.

Lemma init_facts stream : conserved (init stream) [] /\ drained (init stream) /\ endk (init stream).
Proof. repeat split; try discriminate. Qed.

(* C08, reader part: whatever the order of arrivals, polls and flush ticks, once the reader has returned
   without error the compressor has received exactly the bytes the child wrote, in order *)
Theorem reader_exact stream es :
  let s := run true tolerant sink_ok stream es in
  ended s = true -> failed s = false -> out s = arrived es.
Proof.
  intros s He Hf. destruct (init_facts stream) as (Hc & Hd & Hk).
  pose proof (run_conserved es (init stream) [] Hc) as Hcons.
  pose proof (run_drained es (init stream) Hd) as Hdr.
  fold (run true tolerant sink_ok stream es) in Hcons, Hdr. fold s in Hcons, Hdr.
  destruct (Hdr He Hf) as (H1 & H2 & H3 & _).
  unfold conserved in Hcons. rewrite H1, H2, H3 in Hcons. simpl in Hcons. rewrite app_nil_r in Hcons.
  rewrite Hcons. rewrite (accepted_arrived es (init stream) Hk Hd Hf). reflexivity.
Qed.
End P.

(* ---------- liveness of the reader: once the child has closed its pipe the reader returns after finitely many
   polls, whatever ticks and late events are interleaved - so the hypothesis [ended s = true] of [reader_exact]
   is met by every run that polls often enough ---------- *)
Section Live.
Variable tolerant : bool.
Variable sink_ok : nat -> bool.
Notation step := (step true tolerant sink_ok).

Definition mu (s : rst) : nat :=
  if ended s then 0
  else match inner s, nread s with
       | [], 0 => 1
       | _, _ => 2 + length (inner s)
       end.

Fixpoint polls (es : list ev) : nat :=
  match es with [] => 0 | Poll :: r => S (polls r) | _ :: r => polls r end.

Lemma take_line_shorter s : forall acc l rest, take_line acc s = Some (l, rest) -> length rest < length s.
Proof.
  induction s as [|c s IH]; intros acc l rest H; simpl in H; [discriminate|].
  destruct (N.eqb c nl).
  - inversion H; subst. simpl. lia.
  - apply IH in H. simpl. lia.
Qed.

Lemma take_line_nil acc : take_line acc [] = None.
Proof. reflexivity. Qed.

Lemma flush_true_ended s : ended (flush tolerant sink_ok s true) = true.
Proof. rewrite flush_ended_failed. reflexivity. Qed.

Lemma mu_flush_fields s fin :
  inner (flush tolerant sink_ok s fin) = inner s /\ closed (flush tolerant sink_ok s fin) = closed s /\
  nread (flush tolerant sink_ok s fin) = nread s.
Proof.
  unfold Reader.flush. destruct (lines s); simpl; auto.
  destruct (stream_on s); [destruct (sink_ok (nwrites s)); [|destruct tolerant]|]; simpl; auto.
Qed.

Lemma step_closed s e : closed s = true -> closed (step s e) = true.
Proof.
  intros Hc. unfold Reader.step. destruct (ended s) eqn:Ee; [exact Hc|].
  destruct e as [b| | |].
  - rewrite Hc. exact Hc.
  - reflexivity.
  - destruct (take_line [] (inner s)) as [[l rest]|]; [exact Hc|]. rewrite Hc.
    destruct (inner s); [destruct (nread s)|]; try reflexivity.
    destruct (mu_flush_fields (with_io s [] true [] 0 (match cur s with [] => lines s | _ => lines s ++ [cur s] end)) true) as (_ & H & _).
    rewrite H. reflexivity.
  - destruct (mu_flush_fields s false) as (_ & H & _).
    destruct (ended (flush tolerant sink_ok s false)); [rewrite H; exact Hc|]. simpl. rewrite H. exact Hc.
Qed.

Lemma mu_step_le s e : closed s = true -> mu (step s e) <= mu s.
Proof.
  intros Hc. unfold Reader.step. destruct (ended s) eqn:Ee; [lia|].
  destruct e as [b| | |].
  - rewrite Hc. lia.
  - unfold mu. simpl. rewrite Ee. lia.
  - destruct (take_line [] (inner s)) as [[l rest]|] eqn:Et.
    + apply take_line_shorter in Et. unfold mu. simpl. rewrite Ee.
      destruct rest; destruct (inner s); simpl in *; try lia; destruct (nread s); lia.
    + rewrite Hc. unfold mu at 2. rewrite Ee.
      destruct (inner s) as [|c r]; [destruct (nread s) as [|k]|].
      * unfold mu. rewrite flush_true_ended. lia.
      * unfold mu. simpl. lia.
      * unfold mu. simpl. lia.
  - destruct (mu_flush_fields s false) as (Hi & _ & Hn).
    destruct (ended (flush tolerant sink_ok s false)) eqn:Ef.
    + unfold mu. rewrite Ef. lia.
    + unfold mu. simpl. rewrite Ee, Hi. destruct (inner s); [destruct (nread s)|]; simpl; lia.
Qed.

Lemma mu_poll_lt s : closed s = true -> ended s = false -> mu (step s Poll) < mu s.
Proof.
  intros Hc Ee. unfold Reader.step. rewrite Ee.
  destruct (take_line [] (inner s)) as [[l rest]|] eqn:Et.
  - apply take_line_shorter in Et. unfold mu. simpl. rewrite Ee.
    destruct rest; destruct (inner s); simpl in *; try lia; destruct (nread s); lia.
  - rewrite Hc. unfold mu at 2. rewrite Ee.
    destruct (inner s) as [|c r]; [destruct (nread s) as [|k]|].
    + unfold mu. rewrite flush_true_ended. lia.
    + unfold mu. simpl. lia.
    + unfold mu. simpl. lia.
Qed.

Lemma mu_zero s : mu s = 0 -> ended s = true.
Proof. unfold mu. destruct (ended s); auto. destruct (inner s); [destruct (nread s)|]; discriminate. Qed.

Lemma polls_end es : forall s, closed s = true -> mu s <= polls es -> ended (fold_left step es s) = true.
Proof.
  induction es as [|e es IH]; intros s Hc Hm.
  - simpl. apply mu_zero. simpl in Hm. lia.
  - destruct (ended s) eqn:Ee.
    + rewrite (ended_frozen tolerant sink_ok (e :: es) s Ee). exact Ee.
    + cbn [fold_left]. apply IH; [apply step_closed; exact Hc|].
      destruct e as [b| | |]; simpl in Hm; try (pose proof (mu_step_le s (Arrive b) Hc); lia);
        try (pose proof (mu_step_le s Close Hc); lia); try (pose proof (mu_step_le s Tick Hc); lia).
      pose proof (mu_poll_lt s Hc Ee). lia.
Qed.

Lemma mu_bound s : mu s <= 2 + length (inner s).
Proof. unfold mu. destruct (ended s); [lia|]. destruct (inner s); [destruct (nread s)|]; simpl; lia. Qed.

(* after the Close event: any continuation that polls at least (bytes still in the pipe + 2) times ends the reader *)
Theorem reader_terminates stream es es' :
  let s := run true tolerant sink_ok stream (es ++ [Close]) in
  2 + length (inner s) <= polls es' ->
  ended (run true tolerant sink_ok stream (es ++ Close :: es')) = true.
Proof.
  intros s Hp. subst s. unfold run in *. rewrite fold_left_app in *. cbn [fold_left] in *.
  set (s0 := fold_left step es (init stream)) in *.
  destruct (ended s0) eqn:Ee.
  - assert (E : step s0 Close = s0) by (unfold Reader.step; rewrite Ee; reflexivity).
    rewrite E. rewrite (ended_frozen tolerant sink_ok es' s0 Ee). exact Ee.
  - apply polls_end.
    + unfold Reader.step. rewrite Ee. reflexivity.
    + pose proof (mu_bound (step s0 Close)). lia.
Qed.
End Live.

(* ---------- C15: with the tolerant reader the stream never influences what is stored or how the task ends ---------- *)
Definition core_eq (a b : rst) : Prop :=
  inner a = inner b /\ closed a = closed b /\ cur a = cur b /\ nread a = nread b /\ lines a = lines b /\
  out a = out b /\ ended a = ended b /\ failed a = failed b.

Lemma flush_core k1 k2 a b fin : core_eq a b -> core_eq (flush true k1 a fin) (flush true k2 b fin).
Proof.
  intros (H1 & H2 & H3 & H4 & H5 & H6 & H7 & H8). unfold flush. rewrite H5.
  destruct (lines b); [repeat split; simpl; auto|].
  destruct (stream_on a), (stream_on b);
    try destruct (k1 (nwrites a)); try destruct (k2 (nwrites b)); repeat split; simpl; congruence.
Qed.

Lemma step_core kp k1 k2 a b e : core_eq a b -> core_eq (step kp true k1 a e) (step kp true k2 b e).
Proof.
  intros H. pose proof H as (H1 & H2 & H3 & H4 & H5 & H6 & H7 & H8). unfold step. rewrite H7.
  destruct (ended b); [exact H|]. destruct e as [x| | |].
  - rewrite H2. destruct (closed b); [exact H|]. repeat split; simpl; congruence.
  - repeat split; simpl; congruence.
  - rewrite H1. destruct (take_line [] (inner b)) as [[l rest]|]; [repeat split; simpl; congruence|].
    rewrite H2. destruct (closed b); [|repeat split; simpl; congruence].
    rewrite H4. destruct (inner b); [destruct (nread b)|]; try (repeat split; simpl; congruence).
    apply flush_core. destruct kp; [|exact H]. rewrite H3, H5. repeat split; simpl; congruence.
  - pose proof (flush_core k1 k2 a b false H) as (F1 & F2 & F3 & F4 & F5 & F6 & F7 & F8). rewrite F7.
    destruct (ended (flush true k2 b false)) eqn:Eb; [repeat split; congruence|].
    repeat split; simpl; try congruence. destruct kp; congruence.
Qed.

Theorem stream_irrelevant kp k1 k2 st1 st2 es :
  core_eq (run kp true k1 st1 es) (run kp true k2 st2 es).
Proof.
  unfold run.
  assert (H : forall a b, core_eq a b -> core_eq (fold_left (step kp true k1) es a) (fold_left (step kp true k2) es b)).
  { induction es as [|e es IH]; intros a b Hab; simpl; auto. apply IH. apply step_core. exact Hab. }
  apply H. repeat split.
Qed.

(* ---------- C20: what reaches the stream ---------- *)
Lemma step_sent_grows kp tol k s e : exists new, sent (step kp tol k s e) = sent s ++ new.
Proof.
  assert (Hfl : forall s fin, exists new, sent (flush tol k s fin) = sent s ++ new).
  { intros s0 fin. unfold flush. destruct (lines s0); [exists []; simpl; symmetry; apply app_nil_r|].
    destruct (stream_on s0); [destruct (k (nwrites s0)); [|destruct tol]|]; simpl; eauto; exists []; simpl; symmetry; apply app_nil_r. }
  unfold step. destruct (ended s); [exists []; simpl; symmetry; apply app_nil_r|].
  destruct e as [b| | |].
  - destruct (closed s); exists []; simpl; symmetry; apply app_nil_r.
  - exists []. simpl. symmetry. apply app_nil_r.
  - destruct (take_line [] (inner s)) as [[l rest]|]; [exists []; simpl; symmetry; apply app_nil_r|].
    destruct (closed s); [|exists []; simpl; symmetry; apply app_nil_r].
    destruct (inner s); [destruct (nread s)|]; try (exists []; simpl; symmetry; apply app_nil_r).
    destruct kp; [|apply Hfl]. destruct (Hfl (with_io s [] true [] 0 match cur s with [] => lines s | _ :: _ => lines s ++ [cur s] end) true) as (new & E).
    exists new. exact E.
  - destruct (Hfl s false) as (new & E). destruct (ended (flush tol k s false)); [eauto|]. simpl. eauto.
Qed.

(* with a listener that never fails, the blocks sent for a task add up to exactly its compressor bytes *)
Definition synced (s : rst) : Prop := stream_on s = true /\ concat (sent s) = out s.
Lemma step_synced kp tol s e : synced s -> synced (step kp tol (fun _ => true) s e).
Proof.
  assert (Hfl : forall s fin, synced s -> synced (flush tol (fun _ => true) s fin)).
  { intros s0 fin [H1 H2]. unfold flush. destruct (lines s0); [split; simpl; auto|]. rewrite H1. split; simpl; auto.
    rewrite concat_app. simpl. rewrite app_nil_r, H2. reflexivity. }
  intros H. pose proof H as [H1 H2]. unfold step. destruct (ended s); [exact H|].
  destruct e as [b| | |].
  - destruct (closed s); [exact H|split; simpl; auto].
  - split; simpl; auto.
  - destruct (take_line [] (inner s)) as [[l rest]|]; [split; simpl; auto|].
    destruct (closed s); [|split; simpl; auto].
    destruct (inner s); [destruct (nread s)|]; try (split; simpl; auto; fail).
    apply Hfl. destruct kp; [split; simpl; auto|exact H].
  - pose proof (Hfl s false H) as [F1 F2]. destruct (ended (flush tol (fun _ => true) s false)); [split; auto|]. split; simpl; auto.
Qed.
Theorem stream_complete kp tol es : let s := run kp tol (fun _ => true) true es in concat (sent s) = out s.
Proof.
  cbv zeta. unfold run.
  assert (H : forall s, synced s -> synced (fold_left (step kp tol (fun _ => true)) es s)).
  { induction es as [|e es IH]; intros s Hs; simpl; auto. apply IH, step_synced, Hs. }
  apply (H (init true)). split; reflexivity.
Qed.

(* several readers on one connection: whatever the interleaving of their flushes, the blocks carrying task i's
   header concatenate to exactly what reader i sent *)
Section M.
Variable kp tol : bool.
Variable sink_ok : nat -> nat -> bool.

Lemma upd_nth_same {A} (l : list A) n v : n < length l -> nth_error (upd_nth l n v) n = Some v.
Proof. revert n; induction l as [|x l IH]; intros [|n] H; simpl in *; try lia; auto. apply IH. lia. Qed.
Lemma upd_nth_other {A} (l : list A) n m v : n <> m -> nth_error (upd_nth l n v) m = nth_error l m.
Proof. revert n m; induction l as [|x l IH]; intros [|n] [|m] H; simpl; auto; try congruence. Qed.

Lemma tail_app (conn1 conn2 : list (nat * bytes)) i :
  concat (map snd (filter (fun '(k, _) => Nat.eqb k i) (conn1 ++ conn2))) =
  concat (map snd (filter (fun '(k, _) => Nat.eqb k i) conn1)) ++ concat (map snd (filter (fun '(k, _) => Nat.eqb k i) conn2)).
Proof. rewrite filter_app, map_app, concat_app. reflexivity. Qed.

Lemma tail_tagged j (bs : list bytes) i :
  concat (map snd (filter (fun '(k, _) => Nat.eqb k i) (map (fun b => (j, b)) bs))) = if Nat.eqb j i then concat bs else [].
Proof.
  induction bs as [|b bs IH]; simpl; [destruct (Nat.eqb j i); reflexivity|].
  destruct (Nat.eqb j i) eqn:E; simpl; rewrite IH; [reflexivity|reflexivity].
Qed.

Definition MInv (m : msys) : Prop :=
  forall i r, nth_error (readers m) i = Some r -> tail_of m i = concat (sent r).

Lemma mstep_MInv m c : MInv m -> MInv (mstep kp tol sink_ok m c).
Proof.
  intros H. destruct c as [j e]. unfold mstep. destruct (nth_error (readers m) j) as [r|] eqn:Ej; [|exact H].
  destruct (step_sent_grows kp tol (sink_ok j) r e) as (new & En).
  assert (Eskip : skipn (length (sent r)) (sent (step kp tol (sink_ok j) r e)) = new).
  { rewrite En. rewrite skipn_app, skipn_all, Nat.sub_diag. reflexivity. }
  rewrite Eskip. intros i r' Hi. unfold tail_of. simpl. simpl in Hi. rewrite tail_app, tail_tagged.
  assert (Hj : j < length (readers m)) by (apply nth_error_Some; congruence).
  destruct (Nat.eqb_spec j i) as [->|Hne].
  - rewrite upd_nth_same in Hi by exact Hj. inversion Hi; subst r'. rewrite En, concat_app.
    f_equal. apply (H i r Ej).
  - rewrite upd_nth_other in Hi by exact Hne. rewrite app_nil_r. apply (H i r' Hi).
Qed.

Theorem tail_reassembles streams cs i r :
  nth_error (readers (mrun kp tol sink_ok streams cs)) i = Some r ->
  tail_of (mrun kp tol sink_ok streams cs) i = concat (sent r).
Proof.
  assert (H : MInv (mrun kp tol sink_ok streams cs)).
  { unfold mrun. rewrite <- (rev_involutive cs). induction (rev cs) as [|c l IH]; simpl.
    - intros j r0 Hj. unfold minit in Hj. simpl in Hj. rewrite nth_error_map in Hj. destruct (nth_error streams j); inversion Hj. reflexivity.
    - rewrite fold_left_app. simpl. apply mstep_MInv. exact IH. }
  apply H.
Qed.
End M.

(* a reader without a stream client never writes to the connection *)
Lemma unattached_silent kp tol sink es : sent (run kp tol sink false es) = [].
Proof.
  unfold run.
  assert (H : forall s, stream_on s = false /\ sent s = [] ->
                        stream_on (fold_left (step kp tol sink) es s) = false /\ sent (fold_left (step kp tol sink) es s) = []).
  { induction es as [|e es IH]; intros s Hs; simpl; auto. apply IH.
    assert (Hfl : forall s0 fin, stream_on s0 = false /\ sent s0 = [] -> stream_on (flush tol sink s0 fin) = false /\ sent (flush tol sink s0 fin) = []).
    { intros s0 fin [H1 H2]. unfold flush. destruct (lines s0); [simpl; auto|]. rewrite H1. simpl. auto. }
    destruct Hs as [H1 H2]. unfold step. destruct (ended s); [auto|]. destruct e as [b| | |].
    - destruct (closed s); simpl; auto.
    - simpl. auto.
    - destruct (take_line [] (inner s)) as [[l rest]|]; [simpl; auto|].
      destruct (closed s); [|simpl; auto].
      destruct (inner s); [destruct (nread s)|]; try (simpl; auto; fail).
      apply Hfl. destruct kp; simpl; auto.
    - destruct (Hfl s false (conj H1 H2)) as [F1 F2]. destruct (ended (flush tol sink s false)); simpl; auto. }
  apply (H (init false)). split; reflexivity.
Qed.
