From Coq Require Import List NArith Bool Lia.
From MR Require Import Lib.Bytes Model.RunPaths.
Import ListNotations.

Lemma noslash_existsb c : existsb (N.eqb slash) c = false <-> noslash c.
Proof.
  unfold noslash. split.
  - intros H Hin. assert (E : existsb (N.eqb slash) c = true) by (apply existsb_exists; exists slash; split; [exact Hin|apply N.eqb_refl]). congruence.
  - intros H. destruct (existsb (N.eqb slash) c) eqn:E; [|reflexivity]. exfalso. apply existsb_exists in E as (x & Hx & Ex).
    apply N.eqb_eq in Ex. subst. exact (H Hx).
Qed.

Lemma split_aux_noslash_all c : noslash c -> forall cur, split_aux cur c = [rev cur ++ c].
Proof.
  induction c as [|x c IH]; intros H cur.
  - simpl. rewrite app_nil_r. reflexivity.
  - cbn [split_aux]. destruct (N.eqb_spec x slash) as [->|Hne]; [exfalso; apply H; left; reflexivity|].
    rewrite IH by (intro Hin; apply H; right; exact Hin). simpl. rewrite <- app_assoc. reflexivity.
Qed.

Lemma comps_noslash c : noslash c -> comps c = [c].
Proof. intros H. unfold comps. rewrite split_aux_noslash_all by exact H. reflexivity. Qed.

(* a name with a slash yields, through Path::components, never a single Normal component equal to the name:
   a Normal component is a piece between slashes and contains none *)
Lemma piece_comp_normal first p x : In (Normal x) (piece_comp first p) -> x = p.
Proof.
  unfold piece_comp. destruct p as [|a p]; [intros []|].
  destruct (str_eqb (a :: p) [dot]); [destruct first; simpl; intros H; [destruct H as [H|[]]; discriminate|destruct H]|].
  destruct (str_eqb (a :: p) [dot; dot]); simpl; intros [H|[]]; [discriminate|congruence].
Qed.
Lemma pieces_normal ps : forall first x, In (Normal x) (pieces_comps first ps) -> In x ps.
Proof.
  induction ps as [|p ps IH]; intros first x H; simpl in *; [exact H|].
  apply in_app_or in H as [H|H]; [left; symmetry; eapply piece_comp_normal; exact H|right; eapply IH; exact H].
Qed.
Lemma components_normal_noslash s x : In (Normal x) (components s) -> noslash x.
Proof.
  unfold components. destruct s as [|c s]; [intros []|].
  destruct (comps_spec (c :: s)) as (F & _ & _).
  destruct (N.eqb c slash); [intros [H|H]; [discriminate|]|intros H]; apply pieces_normal in H; rewrite Forall_forall in F; exact (F x H).
Qed.

Theorem name_accepted_iff c : name_accepted c = true <-> single_component c = true /\ c <> result_file_name.
Proof.
  unfold name_accepted, single_component. split.
  - destruct (components c) as [|[| | |x] [|? ?]] eqn:E; try discriminate. intros Hx. apply andb_true_iff in Hx as [Hx Hr].
    apply str_eqb_eq in Hx. subst x.
    assert (Hres : c <> result_file_name).
    { intro Ec. apply negb_true_iff in Hr. rewrite (proj2 (str_eqb_eq c result_file_name) Ec) in Hr. discriminate. }
    split; [|exact Hres].
    assert (Hns : noslash c) by (apply (components_normal_noslash c c); rewrite E; left; reflexivity).
    destruct c as [|a c]; [discriminate|].
    unfold components in E. assert (Ha : N.eqb a slash = false) by (apply N.eqb_neq; intro; subst; apply Hns; left; reflexivity).
    rewrite Ha, comps_noslash in E by exact Hns. cbn [pieces_comps piece_comp] in E.
    rewrite (proj2 (noslash_existsb (a :: c)) Hns).
    destruct (str_eqb (a :: c) [dot]) eqn:Ed; [destruct (str_eqb (a :: c) [dot; dot]); discriminate|].
    destruct (str_eqb (a :: c) [dot; dot]) eqn:Edd; [discriminate|]. reflexivity.
  - intros [H Hres]. revert H. rewrite !andb_true_iff, !negb_true_iff. intros [[[Hne Hs] Hd] Hdd].
    destruct c as [|a c]; [discriminate|]. apply noslash_existsb in Hs.
    assert (Ha : N.eqb a slash = false) by (apply N.eqb_neq; intro; subst; apply Hs; left; reflexivity).
    unfold components. rewrite Ha, comps_noslash by exact Hs. cbn [pieces_comps piece_comp]. rewrite Hd, Hdd. cbn [app].
    apply andb_true_iff. split; [apply (proj2 (str_eqb_eq (a :: c) (a :: c))); reflexivity|].
    apply negb_true_iff. destruct (str_eqb (a :: c) result_file_name) eqn:Er; [|reflexivity].
    apply str_eqb_eq in Er. contradiction.
Qed.

Lemma components_single c : single_component c = true -> components c = [Normal c].
Proof.
  intros H. unfold single_component in H. revert H. rewrite !andb_true_iff, !negb_true_iff. intros [[[Hne Hs] Hd] Hdd].
  destruct c as [|a c]; [discriminate|]. apply noslash_existsb in Hs.
  assert (Ha : N.eqb a slash = false) by (apply N.eqb_neq; intro; subst; apply Hs; left; reflexivity).
  unfold components. rewrite Ha, comps_noslash by exact Hs. cbn [pieces_comps piece_comp]. rewrite Hd, Hdd. reflexivity.
Qed.

(* the log directory of an accepted command name lies in the run's own slot, exactly two levels down *)
Theorem log_dir_in_slot runs slot command hash :
  single_component slot = true -> single_component command = true -> single_component hash = true ->
  log_dir runs slot command hash = runs ++ [slot; command; hash].
Proof.
  intros Hs Hc Hh. unfold log_dir. rewrite (components_single _ Hs), (components_single _ Hc), (components_single _ Hh).
  simpl. rewrite <- !app_assoc. reflexivity.
Qed.

(* two accepted invocations write into the same directory only if slot, command and hash coincide *)
Theorem log_dir_injective runs s1 c1 h1 s2 c2 h2 :
  single_component s1 = true -> single_component c1 = true -> single_component h1 = true ->
  single_component s2 = true -> single_component c2 = true -> single_component h2 = true ->
  log_dir runs s1 c1 h1 = log_dir runs s2 c2 h2 -> s1 = s2 /\ c1 = c2 /\ h1 = h2.
Proof.
  intros A1 A2 A3 B1 B2 B3 E. rewrite !log_dir_in_slot in E by assumption.
  apply app_inv_head in E. inversion E. auto.
Qed.

(* the directory of an accepted command never takes the place of the slot's result file *)
Theorem command_dir_not_result_file runs slot command :
  name_accepted command = true -> runs ++ [slot; command] <> runs ++ [slot; result_file_name].
Proof.
  intros Ha E. apply name_accepted_iff in Ha as [_ Hne]. apply app_inv_head in E. inversion E. contradiction.
Qed.
