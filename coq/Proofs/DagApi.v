(* Assembly: the visibility walk (Walk.v) + Kahn's algorithm (Kahn.v) give the two graph-level
   theorems about the API [api_groups] = set every root visible, then get_labeled_groups. *)
From Coq Require Import List Arith Bool Lia Permutation Relations.
From MR Require Import Model.Dag Proofs.Kahn Proofs.Walk.
Import ListNotations.

Lemma mark_spec g root b : wf g -> root < size g ->
  exists v, mark g root b = Some {| adj := adj g; vis := v |} /\ length v = size g /\
    (forall x, reach g root x -> nth x v false = b) /\
    (forall x, ~ reach g root x -> nth x v false = visible g x) /\
    (forall x, reach g root x \/ ~ reach g root x).
Proof.
  intros Hwf Hr. destruct Hwf as [Hl Hd].
  destruct (bfs_spec g (conj Hl Hd) root Hr b (vis g) Hl (S (size g)) [root] [root] (vis g)) as (v & E & Hlen & H1 & H2 & H3).
  - assert (Hnd1 : NoDup [root]) by (constructor; [intros []|constructor]).
    constructor.
    + exact Hnd1.
    + exact Hnd1.
    + intros x Hx; exact Hx.
    + intros x [<-|[]]. apply rt_refl.
    + intros x [<-|[]] Hn. exfalso. apply Hn. left; auto.
    + left; auto.
    + exact Hl.
    + intros x [<-|[]] Hn. exfalso. apply Hn. left; auto.
    + intros x _. reflexivity.
  - simpl. lia.
  - exists v. unfold mark. rewrite E. repeat split; auto.
Qed.

Lemma concat_rev_perm {A} (l : list (list A)) : Permutation (concat (rev l)) (concat l).
Proof.
  induction l as [|x l IH]; simpl; [constructor|].
  rewrite concat_app. simpl. rewrite app_nil_r. rewrite Permutation_app_comm. apply Permutation_app_head. exact IH.
Qed.

Lemma layer_of_mid n l1 : forall grp l2, ~ In n (concat l1) -> In n grp ->
  layer_of n (l1 ++ grp :: l2) = Some (length l1).
Proof.
  induction l1 as [|x l1 IH]; intros grp l2 Hn Hin; simpl.
  - apply mem_In in Hin. rewrite Hin. reflexivity.
  - simpl in Hn. destruct (mem n x) eqn:E.
    + exfalso. apply Hn. apply in_or_app. left. apply mem_In. exact E.
    + rewrite IH; auto. intro H. apply Hn. apply in_or_app. right. exact H.
Qed.

Lemma path_src_lt g x y : path g x y -> x < size g.
Proof. induction 1 as [x y [H _]|]; auto. Qed.

Section A.
Variable a : list (list nat).
Let g0 := {| adj := a; vis := repeat false (length a) |}.
Hypothesis Hwf0 : wf g0.

Definition with_vis (v : list bool) : dag := {| adj := a; vis := v |}.

(* vis marks exactly what is reachable from the roots processed so far, and no cycle is reachable *)
Definition RInv (v : list bool) (done : list nat) : Prop :=
  length v = length a /\
  (forall x, nth x v false = true <-> reachable_from g0 done x) /\
  ~ cyclic_from g0 done.

Lemma wf_with v : length v = length a -> wf (with_vis v).
Proof. intros H. split; [exact H|]. destruct Hwf0 as [_ Hd]. exact Hd. Qed.

Lemma closed_with v done : RInv v done ->
  forall i j, visible (with_vis v) i = true -> In j (deps (with_vis v) i) -> visible (with_vis v) j = true.
Proof.
  intros (Hl & Hv & _) i j Hi Hj. unfold visible in *. simpl in *. apply Hv. apply Hv in Hi.
  destruct Hi as (r & Hr & Hreach). exists r. split; auto.
  eapply rt_trans; [exact Hreach|]. apply rt_step. split; auto.
  unfold size; simpl. destruct (Nat.lt_ge_cases i (length a)); auto.
  unfold deps in Hj; simpl in Hj. rewrite nth_overflow in Hj by lia. destruct Hj.
Qed.

Lemma has_cycle_with v done :
  length v = length a -> (forall x, nth x v false = true <-> reachable_from g0 done x) ->
  (has_cycle (with_vis v) <-> cyclic_from g0 done).
Proof.
  intros Hl Hv. unfold has_cycle, cyclic_from. split.
  - intros (c & Hc & P). apply V_spec in Hc as [_ Hc]. exists c. split; [apply Hv; exact Hc | exact P].
  - intros (c & Hc & P). exists c. split; [|exact P]. apply V_spec. split.
    + apply (path_src_lt _ _ _ P).
    + apply Hv. exact Hc.
Qed.

Lemma reachable_snoc done r x : reachable_from g0 (done ++ [r]) x <-> reachable_from g0 done x \/ reach g0 r x.
Proof.
  unfold reachable_from. split.
  - intros (q & Hq & H). apply in_app_or in Hq as [Hq|[<-|[]]]; eauto.
  - intros [(q & Hq & H)|H]; [exists q|exists r]; split; auto; apply in_or_app; simpl; auto.
Qed.

Lemma ssv_step v done r : RInv v done -> r < length a ->
  (exists v', set_subtree_visibility (with_vis v) r true = Ok (with_vis v') /\ RInv v' (done ++ [r])) \/
  (exists n, set_subtree_visibility (with_vis v) r true = ErrCycle n /\ cyclic_from g0 (done ++ [r])).
Proof.
  intros I Hr. pose proof I as (Hl & Hv & Hnc).
  destruct (mark_spec (with_vis v) r true (wf_with v Hl) Hr) as (v' & E & Hl' & H1 & H2 & H3).
  unfold size in Hl'; simpl in Hl'.
  assert (Hv' : forall x, nth x v' false = true <-> reachable_from g0 (done ++ [r]) x).
  { intros x. rewrite reachable_snoc. split.
    - intros Hx. destruct (H3 x) as [Hre|Hre]; [right; exact Hre|].
      left. apply Hv. rewrite <- Hx. symmetry. apply (H2 x Hre).
    - intros [Hx|Hx]; [|apply (H1 x Hx)].
      destruct (H3 x) as [Hre|Hre]; [apply (H1 x Hre)|]. rewrite (H2 x Hre). apply Hv. exact Hx. }
  assert (I'closed : forall i j, visible (with_vis v') i = true -> In j (deps (with_vis v') i) -> visible (with_vis v') j = true).
  { intros i j Hi Hj. unfold visible in *. simpl in *. apply Hv'. apply Hv' in Hi.
    destruct Hi as (q & Hq & Hreach). exists q. split; auto.
    eapply rt_trans; [exact Hreach|]. apply rt_step. split; auto.
    unfold size; simpl. destruct (Nat.lt_ge_cases i (length a)); auto.
    unfold deps in Hj; simpl in Hj. rewrite nth_overflow in Hj by lia. destruct Hj. }
  unfold set_subtree_visibility.
  assert (Hsz : (size (with_vis v) <=? r) = false) by (apply Nat.leb_gt; exact Hr).
  rewrite Hsz. simpl in E. rewrite E.
  fold (with_vis v').
  destruct (has_cycle_dec (with_vis v') (wf_with v' Hl') I'closed) as [Hc|Hc].
  - right. destruct (get_groups_cyclic (with_vis v') (wf_with v' Hl') I'closed Hc) as (n & Eg).
    rewrite Eg. exists n. split; auto. apply (has_cycle_with v' (done ++ [r]) Hl' Hv'). exact Hc.
  - left. destruct (get_groups_acyclic (with_vis v') (wf_with v' Hl') I'closed Hc) as (gs & Eg & _).
    rewrite Eg. exists v'. split; auto. repeat split; auto; try apply Hv'.
    intro Hc'. apply Hc. apply (has_cycle_with v' (done ++ [r]) Hl' Hv'). exact Hc'.
Qed.

Lemma cyclic_mono done done' : incl done done' -> cyclic_from g0 done -> cyclic_from g0 done'.
Proof. intros Hi (n & (r & Hr & H) & P). exists n. split; auto. exists r. split; auto. Qed.

Lemma set_roots_spec roots : forall v done, RInv v done -> (forall r, In r roots -> r < length a) ->
  (exists v', set_roots (with_vis v) roots = Ok (with_vis v') /\ RInv v' (done ++ roots)) \/
  (exists n, set_roots (with_vis v) roots = ErrCycle n /\ cyclic_from g0 (done ++ roots)).
Proof.
  induction roots as [|r rs IH]; intros v done I Hr.
  - rewrite app_nil_r. left. exists v. split; [reflexivity|exact I].
  - assert (Hrr : r < length a) by (apply Hr; left; reflexivity).
    assert (Eapp : done ++ r :: rs = (done ++ [r]) ++ rs) by (rewrite <- app_assoc; reflexivity).
    unfold set_roots. cbn [set_roots_with]. fold set_roots.
    destruct (ssv_step v done r I Hrr) as [(v' & E & I')|(n & E & Hc)]; rewrite E.
    + rewrite Eapp. apply (IH v' (done ++ [r]) I'). intros q Hq. apply Hr. right. exact Hq.
    + right. exists n. split; auto. eapply cyclic_mono; [|exact Hc]. rewrite Eapp. apply incl_appl, incl_refl.
Qed.

Lemma RInv_init : RInv (repeat false (length a)) [].
Proof.
  split; [apply repeat_length|]. split.
  - intros x. split.
    + intros H. exfalso. destruct (Nat.lt_ge_cases x (length a)).
      * rewrite nth_repeat in H. discriminate.
      * rewrite nth_overflow in H; [discriminate|]. rewrite repeat_length. lia.
    + intros (r & [] & _).
  - intros (n & (r & [] & _) & _).
Qed.

(* layered (groups in processing order, dependents first) => the reversed list is a valid layering *)
Lemma layering_of_layered v roots gs :
  RInv v roots ->
  Permutation (V (with_vis v)) (concat gs) -> Forall (fun l => l <> []) gs -> layered (with_vis v) (V (with_vis v)) gs ->
  valid_layering g0 roots (rev gs).
Proof.
  intros (Hl & Hv & Hnc) P Hne Hlay.
  assert (Hnd : NoDup (concat gs)) by (eapply Permutation_NoDup; [exact P|apply V_nodup]).
  assert (HV : forall n, In n (V (with_vis v)) <-> reachable_from g0 roots n).
  { intros n. rewrite V_spec. unfold visible; simpl. rewrite Hv. split; [tauto|]. intros H. split; auto.
    assert (Hn : nth n v false = true) by (apply Hv; exact H).
    unfold Kahn.N, size; simpl. destruct (Nat.lt_ge_cases n (length a)); auto.
    rewrite nth_overflow in Hn by lia. discriminate. }
  split; [|split; [|split]].
  - eapply Permutation_NoDup; [symmetry; apply concat_rev_perm|exact Hnd].
  - intros n. rewrite <- HV. split; intro H.
    + eapply Permutation_in; [symmetry; exact P|]. eapply Permutation_in; [apply concat_rev_perm|exact H].
    + eapply Permutation_in; [symmetry; apply concat_rev_perm|]. eapply Permutation_in; [exact P|exact H].
  - intros l Hin. apply in_rev in Hin. rewrite Forall_forall in Hne. apply Hne. exact Hin.
  - intros i j Hi [Hi2 Hij].
    assert (HiV : In i (V (with_vis v))) by (apply HV; exact Hi).
    assert (HjV : In j (V (with_vis v))).
    { apply HV. destruct Hi as (r & Hr & Hre). exists r. split; auto. eapply rt_trans; [exact Hre|]. apply rt_step. split; auto. }
    assert (Hjc : In j (concat gs)) by (eapply Permutation_in; [exact P|exact HjV]).
    apply in_concat in Hjc as (grp & Hgrp & Hjg).
    apply in_split in Hgrp as (pre & post & Egs).
    destruct (Hlay pre grp post Egs j i Hjg HiV Hij) as [Hn|Hipre]; [contradiction|].
    apply in_concat in Hipre as (grpi & Hgi & Hig).
    apply in_split in Hgi as (pre1 & pre2 & Epre).
    assert (Erev : rev gs = rev post ++ grp :: rev pre).
    { rewrite Egs, rev_app_distr. simpl. rewrite <- app_assoc. reflexivity. }
    assert (Erev2 : rev gs = rev (pre2 ++ grp :: post) ++ grpi :: rev pre1).
    { rewrite Egs, Epre, <- app_assoc. simpl. rewrite rev_app_distr. simpl. rewrite <- app_assoc. reflexivity. }
    exists (length (rev (pre2 ++ grp :: post))), (length (rev post)).
    assert (Hndsplit : forall (l1 : list (list nat)) g1 l2 x, gs = l1 ++ g1 :: l2 -> In x g1 -> ~ In x (concat l2)).
    { intros l1 g1 l2 x Eg Hx Hx2. rewrite Eg, concat_app in Hnd. simpl in Hnd.
      apply NoDup_app_iff in Hnd as (_ & Hnd2 & _). apply NoDup_app_iff in Hnd2 as (_ & _ & Hd). eapply Hd; eauto. }
    split; [|split].
    + rewrite Erev2. apply layer_of_mid; auto.
      intro Hx. eapply Permutation_in in Hx; [|apply concat_rev_perm].
      eapply (Hndsplit pre1 grpi (pre2 ++ grp :: post)); eauto. rewrite Egs, Epre, <- app_assoc. reflexivity.
    + rewrite Erev. apply layer_of_mid; auto.
      intro Hx. eapply Permutation_in in Hx; [|apply concat_rev_perm].
      eapply (Hndsplit pre grp post); eauto.
    + rewrite !rev_length, app_length. simpl. lia.
Qed.

Theorem api_groups_spec roots : (forall r, In r roots -> r < length a) ->
  (~ cyclic_from g0 roots -> exists gs, api_groups a roots = Ok gs /\ valid_layering g0 roots gs) /\
  (cyclic_from g0 roots -> exists n, api_groups a roots = ErrCycle n).
Proof.
  intros Hr. unfold api_groups, api_groups_with. fold set_roots.
  change {| adj := a; vis := repeat false (length a) |} with (with_vis (repeat false (length a))).
  destruct (set_roots_spec roots (repeat false (length a)) [] RInv_init Hr) as [(v' & E & I')|(n & E & Hc)];
    rewrite E; simpl app in *.
  - pose proof I' as (Hl & Hv & Hnc). split; [|intros Hc; contradiction].
    intros _. unfold get_labeled_groups.
    destruct (get_groups_acyclic (with_vis v') (wf_with v' Hl) (closed_with v' roots I')) as (gs & Eg & P & Hne & Hlay).
    { rewrite (has_cycle_with v' roots Hl Hv). exact Hnc. }
    rewrite Eg. exists (rev gs). split; auto. eapply layering_of_layered; eauto.
  - split; [intros Hnc; contradiction | intros _; eauto].
Qed.
End A.

Theorem C03_dag : forall a roots, let g := {| adj := a; vis := repeat false (length a) |} in
    wf g -> (forall r, In r roots -> r < length a) -> ~ cyclic_from g roots ->
    exists gs, api_groups a roots = Ok gs /\ valid_layering g roots gs.
Proof. intros a roots g Hwf Hr Hnc. apply (api_groups_spec a Hwf roots Hr). exact Hnc. Qed.

Theorem C09_dag : forall a roots, let g := {| adj := a; vis := repeat false (length a) |} in
    wf g -> (forall r, In r roots -> r < length a) -> cyclic_from g roots ->
    exists n, api_groups a roots = ErrCycle n.
Proof. intros a roots g Hwf Hr Hc. apply (api_groups_spec a Hwf roots Hr). exact Hc. Qed.

Print Assumptions C03_dag.
Print Assumptions C09_dag.
