(* Liveness of the scheduler model: every schedule prefix can be completed.  From any reachable state there is a
   continuation - let the tracked children exit, reap them, step the scheduler - that reaches [Finished]; so the
   clauses of C05/C06 about the final state are never vacuous, and a group whose members have all been started
   (C16) always completes once its children exit.  The argument: a linear index of the cursor position strictly
   increases each time the scheduler leaves a group. *)
From Coq Require Import List Arith Bool Lia.
From MR Require Import Model.Sched Proofs.SchedProof Proofs.SchedFinal.
Import ListNotations.

Lemma filter_length_le_all {A} (f : A -> bool) l : length (filter f l) <= length l.
Proof. induction l as [|x l IH]; simpl; [lia|]. destruct (f x); simpl; lia. Qed.

Section Live.
Variable P : plan.
Variable fou : bool.
Variable code : task -> nat.

Notation step := (step P fou code).
Notation run := (run P fou code).

(* ---- two more (easy) invariants ---- *)
Definition XInv (s : st) : Prop :=
  (forall t c, In (Exit t c) (trace s) -> In t (exited s)) /\
  (gpos s = 0 \/ exists cp, nth_error P (cpos s) = Some cp /\ gpos s < length cp).

Lemma next_position_X s : XInv s -> XInv (next_position P s).
Proof.
  intros [H1 H2]. unfold XInv, next_position. destruct (nth_error P (cpos s)) as [cp|] eqn:E; simpl.
  - destruct (S (gpos s) <? length cp) eqn:El; simpl; (split; [exact H1|]).
    + right. exists cp. split; [exact E|]. apply Nat.ltb_lt. exact El.
    + left. reflexivity.
  - split; [exact H1|]. rewrite E. exact H2.
Qed.

Lemma sched_step_X s : XInv s -> XInv (sched_step P fou s).
Proof.
  intros X. pose proof X as [H1 H2]. unfold sched_step.
  destruct (ph s) as [k| |]; [|destruct (tracked s); [apply next_position_X; exact X|exact X]|exact X].
  destruct (nth_error P (cpos s)) as [cp|] eqn:E.
  - destruct (failed s && (gpos s =? 0) && (k =? 0)).
    + split; simpl; [exact H1|left; reflexivity].
    + destruct (nth_error cp (gpos s)) as [grp|]; [|apply next_position_X; exact X].
      destruct (nth_error grp k) as [d|].
      * destruct (failed s).
        -- split; simpl; [exact H1|rewrite E; exact H2].
        -- destruct d; (split; simpl; [|rewrite E; exact H2]); try exact H1.
           intros t c [Hc|Hc]; [discriminate|eapply H1; exact Hc].
      * split; simpl; [exact H1|rewrite E; exact H2].
  - split; simpl; [exact H1|rewrite E; exact H2].
Qed.

Lemma step_X s c : XInv s -> XInv (step s c).
Proof.
  intros X. pose proof X as [H1 H2]. destruct c as [|t|t|t]; simpl.
  - apply sched_step_X. exact X.
  - destruct (tmem t (running s)); [|exact X]. split; simpl; [|exact H2].
    intros t' c [Hc|Hc]; [inversion Hc; left; reflexivity|right; eapply H1; exact Hc].
  - destruct (ph s); try exact X. destruct (tmem t (tracked s) && tmem t (exited s)); [|exact X]. split; simpl; assumption.
  - destruct (ph s); try exact X. destruct (cancelled s && tmem t (tracked s)); [|exact X]. split; simpl; assumption.
Qed.

Lemma run_X cs : XInv (run cs).
Proof.
  unfold Sched.run. rewrite <- (rev_involutive cs). induction (rev cs) as [|c l IH]; simpl.
  - split; simpl; [intros t c []|left; reflexivity].
  - rewrite fold_left_app. simpl. apply step_X. exact IH.
Qed.

Lemma run_snoc cs c : run (cs ++ [c]) = step (run cs) c.
Proof. unfold Sched.run. rewrite fold_left_app. reflexivity. Qed.

(* a tracked task's child is running or has exited *)
Lemma tracked_alive cs t : In t (tracked (run cs)) -> In t (running (run cs)) \/ In t (exited (run cs)).
Proof.
  intros Ht. destruct (run_FInv P fou code cs) as [SI FI]. destruct (run_X cs) as [X1 _].
  destruct (f_trk _ _ _ _ FI t Ht) as [_ Hs].
  destruct (i_sp _ _ SI t Hs) as [Hr|(c & Hc)]; [left; exact Hr|right; eapply X1; exact Hc].
Qed.

(* ---- the cursor's linear index ---- *)
Definition wt (cp : cmdplan) : nat := Nat.max 1 (length cp).
Definition before (c : nat) : nat := fold_right (fun cp acc => wt cp + acc) 0 (firstn c P).
Definition total : nat := fold_right (fun cp acc => wt cp + acc) 0 P.
Definition rem (s : st) : nat := total - (before (cpos s) + gpos s).

Lemma before_S c cp : nth_error P c = Some cp -> before (S c) = before c + wt cp.
Proof.
  unfold before. generalize P c. induction P0 as [|x l IH]; intros [|c0] H; simpl in *; try discriminate.
  - inversion H; subst. lia.
  - rewrite (IH c0 H). lia.
Qed.

Lemma before_le c : before c <= total.
Proof.
  unfold before, total. generalize c. induction P as [|x l IH]; intros [|c0]; simpl; try lia.
  specialize (IH c0). lia.
Qed.

Lemma before_all c : length P <= c -> before c = total.
Proof. intros H. unfold before, total. rewrite firstn_all2 by exact H. reflexivity. Qed.

Lemma rem_next s cp : XInv s -> nth_error P (cpos s) = Some cp -> rem (next_position P s) < rem s.
Proof.
  intros [_ Hg] E. unfold next_position, rem. rewrite E.
  pose proof (before_S _ _ E) as HS. pose proof (before_le (S (cpos s))) as Hle. unfold wt in *.
  assert (Hgp : gpos s < Nat.max 1 (length cp)).
  { destruct Hg as [Hg|(cp' & E' & Hg)]; [lia|]. rewrite E in E'. inversion E'; subst. lia. }
  destruct (S (gpos s) <? length cp) eqn:El; simpl.
  - apply Nat.ltb_lt in El. lia.
  - lia.
Qed.

(* ---- finishing a group: every tracked child exits (if it has not yet) and is reaped ---- *)
Definition exit_or_reap (c : choice) : Prop := match c with ChildExit _ | Reap _ => True | _ => False end.

Lemma drain_group n : forall cs, ph (run cs) = Waiting -> length (tracked (run cs)) = n ->
  exists cs', ph (run (cs ++ cs')) = Waiting /\ tracked (run (cs ++ cs')) = [] /\
              cpos (run (cs ++ cs')) = cpos (run cs) /\ gpos (run (cs ++ cs')) = gpos (run cs) /\
              Forall exit_or_reap cs'.
Proof.
  induction n as [n IH] using lt_wf_ind. intros cs Hph Hn.
  destruct (tracked (run cs)) as [|t rest] eqn:Et.
  - exists []. rewrite app_nil_r. auto.
  - assert (Hin : In t (tracked (run cs))) by (rewrite Et; left; reflexivity).
    (* make sure the child has exited *)
    assert (Hex : exists pre, ph (run (cs ++ pre)) = Waiting /\ tracked (run (cs ++ pre)) = tracked (run cs) /\
                              cpos (run (cs ++ pre)) = cpos (run cs) /\ gpos (run (cs ++ pre)) = gpos (run cs) /\
                              In t (exited (run (cs ++ pre))) /\ Forall exit_or_reap pre).
    { destruct (tracked_alive cs t Hin) as [Hr|He].
      - exists [ChildExit t]. rewrite run_snoc. simpl.
        apply tmem_In in Hr. rewrite Hr. simpl. repeat split; auto. constructor; [exact I|constructor].
      - exists []. rewrite app_nil_r. repeat split; auto. }
    destruct Hex as (pre & Hp1 & Hp2 & Hp3 & Hp4 & Hp5 & Hp6).
    (* reap it *)
    set (cs1 := cs ++ pre ++ [Reap t]).
    assert (E1 : run cs1 = step (run (cs ++ pre)) (Reap t)).
    { unfold cs1. rewrite app_assoc. apply run_snoc. }
    assert (Hreap : ph (run cs1) = Waiting /\ tracked (run cs1) = tremove t (tracked (run cs)) /\
                    cpos (run cs1) = cpos (run cs) /\ gpos (run cs1) = gpos (run cs)).
    { rewrite E1. simpl. rewrite Hp1.
      assert (H1 : tmem t (tracked (run (cs ++ pre))) = true) by (apply tmem_In; rewrite Hp2; exact Hin).
      assert (H2 : tmem t (exited (run (cs ++ pre))) = true) by (apply tmem_In; exact Hp5).
      rewrite H1, H2. simpl. rewrite Hp2. auto. }
    destruct Hreap as (R1 & R2 & R3 & R4).
    assert (Hlen : length (tracked (run cs1)) < n).
    { rewrite R2, <- Hn. unfold tremove. rewrite Et. simpl.
      assert (Ett : task_eqb t t = true) by (apply task_eqb_eq; reflexivity). rewrite Ett. simpl.
      pose proof (filter_length_le_all (fun x => negb (task_eqb t x)) rest). lia. }
    destruct (IH _ Hlen cs1 R1 eq_refl) as (cs' & F1 & F2 & F3 & F4 & F5).
    exists (pre ++ [Reap t] ++ cs'). unfold cs1 in *. rewrite <- !app_assoc in *.
    repeat split; auto; try congruence.
    apply Forall_app. split; [exact Hp6|]. constructor; [exact I|exact F5].
Qed.

(* ---- the spawning phase of a group ends in [Waiting] ---- *)
Lemma spawn_phase cp grp : forall n cs k, ph (run cs) = Spawning k ->
  nth_error P (cpos (run cs)) = Some cp -> nth_error cp (gpos (run cs)) = Some grp ->
  (failed (run cs) && (gpos (run cs) =? 0) && (k =? 0)) = false -> length grp - k = n ->
  exists cs', ph (run (cs ++ cs')) = Waiting /\ cpos (run (cs ++ cs')) = cpos (run cs) /\ gpos (run (cs ++ cs')) = gpos (run cs).
Proof.
  induction n as [|n IH]; intros cs k Hph Ecp Eg Hsk Hn.
  - exists [SchedStep]. rewrite run_snoc. simpl.
    unfold sched_step. rewrite Hph, Ecp, Hsk, Eg.
    assert (En : nth_error grp k = None) by (apply nth_error_None; lia). rewrite En. simpl. auto.
  - assert (Hk : k < length grp) by lia.
    destruct (nth_error grp k) as [d|] eqn:Ed; [|apply nth_error_None in Ed; lia].
    set (cs1 := cs ++ [SchedStep]).
    assert (E1 : run cs1 = sched_step P fou (run cs)).
    { unfold cs1. rewrite run_snoc. reflexivity. }
    assert (H1 : ph (run cs1) = Spawning (S k) /\ cpos (run cs1) = cpos (run cs) /\ gpos (run cs1) = gpos (run cs)).
    { rewrite E1. unfold sched_step. rewrite Hph, Ecp, Hsk, Eg, Ed.
      destruct (failed (run cs)); [simpl; auto|]. destruct d; simpl; auto. }
    destruct H1 as (A1 & A2 & A3).
    assert (Hsk1 : (failed (run cs1) && (gpos (run cs1) =? 0) && (S k =? 0)) = false).
    { simpl. rewrite andb_false_r. reflexivity. }
    assert (Ecp1 : nth_error P (cpos (run cs1)) = Some cp) by (rewrite A2; exact Ecp).
    assert (Eg1 : nth_error cp (gpos (run cs1)) = Some grp) by (rewrite A3; exact Eg).
    assert (Hn1 : length grp - S k = n) by lia.
    destruct (IH cs1 (S k) A1 Ecp1 Eg1 Hsk1 Hn1) as (cs' & B1 & B2 & B3).
    exists ([SchedStep] ++ cs'). unfold cs1 in *. rewrite <- app_assoc in *. repeat split; congruence.
Qed.

(* ---- one round: unless finished, the cursor's remaining distance strictly decreases ---- *)
Lemma from_waiting cs0 r : ph (run cs0) = Waiting -> rem (run cs0) = r ->
  exists cs', ph (run (cs0 ++ cs')) = Finished \/ rem (run (cs0 ++ cs')) < r.
Proof.
  intros Hw Hr.
  destruct (drain_group _ cs0 Hw eq_refl) as (d & D1 & D2 & D3 & D4 & _).
  exists (d ++ [SchedStep]). rewrite app_assoc, run_snoc. simpl. unfold sched_step. rewrite D1, D2.
  destruct (nth_error P (cpos (run (cs0 ++ d)))) as [cp|] eqn:E.
  - right. pose proof (rem_next _ cp (run_X (cs0 ++ d)) E) as Hlt.
    assert (Er : rem (run (cs0 ++ d)) = r) by (unfold rem in *; rewrite D3, D4; exact Hr).
    rewrite Er in Hlt. exact Hlt.
  - left. unfold next_position. rewrite E. reflexivity.
Qed.

Lemma advance cs : ph (run cs) <> Finished ->
  exists cs', ph (run (cs ++ cs')) = Finished \/ rem (run (cs ++ cs')) < rem (run cs).
Proof.
  intros Hnf. pose proof (run_X cs) as X.
  destruct (ph (run cs)) as [k| |] eqn:Hph; [| |congruence].
  - destruct (nth_error P (cpos (run cs))) as [cp|] eqn:Ecp.
    + destruct (failed (run cs) && (gpos (run cs) =? 0) && (k =? 0)) eqn:Hsk.
      * (* the whole command is skipped *)
        exists [SchedStep]. right. rewrite run_snoc. simpl. unfold sched_step. rewrite Hph, Ecp, Hsk. unfold rem. simpl.
        apply andb_true_iff in Hsk as [Hsk _]. apply andb_true_iff in Hsk as [_ Hg0]. apply Nat.eqb_eq in Hg0.
        rewrite Hg0, (before_S _ _ Ecp). pose proof (before_le (S (cpos (run cs)))) as Hle.
        rewrite (before_S _ _ Ecp) in Hle. unfold wt in *. lia.
      * destruct (nth_error cp (gpos (run cs))) as [grp|] eqn:Eg.
        -- destruct (spawn_phase cp grp _ cs k Hph Ecp Eg Hsk eq_refl) as (sp & S1 & S2 & S3).
           assert (Er : rem (run (cs ++ sp)) = rem (run cs)) by (unfold rem; rewrite S2, S3; reflexivity).
           destruct (from_waiting (cs ++ sp) _ S1 Er) as (cs' & H). exists (sp ++ cs'). rewrite app_assoc. exact H.
        -- exists [SchedStep]. right. rewrite run_snoc. simpl. unfold sched_step. rewrite Hph, Ecp, Hsk, Eg.
           apply (rem_next _ cp X Ecp).
    + exists [SchedStep]. left. rewrite run_snoc. simpl. unfold sched_step. rewrite Hph, Ecp. reflexivity.
  - apply (from_waiting cs _ Hph eq_refl).
Qed.

(* every schedule prefix can be completed *)
Theorem sched_completes cs : exists cs', ph (run (cs ++ cs')) = Finished.
Proof.
  remember (rem (run cs)) as n eqn:En. revert cs En.
  induction n as [n IH] using lt_wf_ind. intros cs En.
  destruct (ph (run cs)) eqn:Hph; try (destruct (advance cs) as (a & [Hf|Hlt]); [congruence| |];
    [exists a; exact Hf | destruct (IH _ (eq_ind _ (fun m => rem (run (cs ++ a)) < m) Hlt _ (eq_sym En)) (cs ++ a) eq_refl) as (b & Hb);
      exists (a ++ b); rewrite app_assoc; exact Hb]).
  exists []. rewrite app_nil_r. exact Hph.
Qed.
(* ---- C16, completion: a group whose members are all started before any of them may exit always completes ---- *)
Lemma iter_sched_run n : forall cs, iter_sched P fou n (run cs) = run (cs ++ repeat SchedStep n).
Proof.
  induction n as [|n IH]; intros cs; simpl; [rewrite app_nil_r; reflexivity|].
  replace (cs ++ SchedStep :: repeat SchedStep n) with ((cs ++ [SchedStep]) ++ repeat SchedStep n) by (rewrite <- app_assoc; reflexivity).
  rewrite <- IH, run_snoc. reflexivity.
Qed.

Lemma last_step s grp : cur_group P s = Some grp -> ph s = Spawning (length grp) -> failed s = false ->
  cpos (sched_step P fou s) = cpos s /\ gpos (sched_step P fou s) = gpos s.
Proof.
  intros Hg Hph Hf. unfold sched_step. rewrite Hph. unfold cur_group in Hg.
  destruct (nth_error P (cpos s)) as [cp|]; [|discriminate]. rewrite Hf. simpl. rewrite Hg.
  rewrite (proj2 (nth_error_None grp (length grp)) (le_n _)). simpl. auto.
Qed.

Theorem group_completes cs grp :
  cur_group P (run cs) = Some grp -> ph (run cs) = Spawning 0 -> failed (run cs) = false ->
  (forall j, j < length grp -> nth_error grp j = Some Defined) ->
  exists d, Forall exit_or_reap d /\
    let s1 := run (cs ++ repeat SchedStep (S (length grp))) in        (* scheduler steps alone: everybody is started *)
    let s2 := run (cs ++ repeat SchedStep (S (length grp)) ++ d) in   (* then, and only then, children exit and are reaped *)
    (forall j, j < length grp -> In (Spawn (cpos (run cs), gpos (run cs), j)) (trace s1)) /\
    exited s1 = exited (run cs) /\
    ph s2 = Waiting /\ tracked s2 = [] /\ cpos s2 = cpos (run cs) /\ gpos s2 = gpos (run cs).
Proof.
  intros Hg Hph Hf Hall.
  destruct (group_started_without_waiting P fou (run cs) grp Hg Hph Hf Hall) as (W1 & W2 & W3).
  rewrite iter_sched_run in W1, W2, W3.
  destruct (drain_group _ (cs ++ repeat SchedStep (S (length grp))) W1 eq_refl) as (d & D1 & D2 & D3 & D4 & D5).
  exists d. split; [exact D5|]. cbv zeta. rewrite app_assoc.
  split; [intros j Hj; apply (W3 j Hj)|]. split; [exact W2|]. split; [exact D1|]. split; [exact D2|].
  assert (Hc : cpos (run (cs ++ repeat SchedStep (S (length grp)))) = cpos (run cs) /\
               gpos (run (cs ++ repeat SchedStep (S (length grp)))) = gpos (run cs)).
  { rewrite <- iter_sched_run. replace (S (length grp)) with (length grp + 1) by lia.
    assert (Eiter : forall n m x, iter_sched P fou (n + m) x = iter_sched P fou m (iter_sched P fou n x)).
    { induction n as [|n IHn]; intros m x; simpl; auto. }
    rewrite Eiter.
    destruct (spawn_rest P fou grp (length grp) 0 (run cs) Hg Hph Hf Hall eq_refl) as (H1 & H2 & H3 & H4 & _).
    cbv zeta in *. set (sx := iter_sched P fou (length grp) (run cs)) in *.
    assert (Hgx : cur_group P sx = Some grp) by (unfold cur_group in *; rewrite H2, H3; exact Hg).
    change (iter_sched P fou 1 sx) with (sched_step P fou sx).
    destruct (last_step sx grp Hgx H1 H4) as [L1 L2]. split; congruence. }
  destruct Hc as [Hc1 Hc2]. split; congruence.
Qed.
End Live.
