From Coq Require Import List Bool.
From MR Require Import Model.CfgFile.
Import ListNotations.

Section P.
Variable byte digest value : Type.
Notation bytes := (list byte).
Variable digest_eqb : digest -> digest -> bool.
Hypothesis digest_eqb_eq : forall a b, digest_eqb a b = true <-> a = b.
Variable sha : bytes -> digest.
Hypothesis sha_inj : forall a b, sha a = sha b -> a = b.
Variable parse : bytes -> option value.
Variable render : value -> bytes.
Hypothesis parse_render : forall v, parse (render v) = Some v.
Variable with_sum : value -> digest -> value.
Variable get_sum : value -> option digest.
Variable has_source : value -> bool.
Hypothesis get_with : forall v d, get_sum (with_sum v d) = Some d.
Hypothesis has_with : forall v d, has_source (with_sum v d) = true.

Notation load := (load byte digest value sha parse (fun b => b)).
Notation generate := (generate byte digest value sha render with_sum).
Notation usable := (usable byte digest value digest_eqb sha parse get_sum has_source (fun b => b)).
Notation loaded_value := (loaded_value byte digest value sha parse (fun b => b)).

Lemma deq_refl d : digest_eqb d d = true.
Proof. apply digest_eqb_eq. reflexivity. Qed.

Theorem C17_untouched input src : let '(g, l) := generate input src in usable (Some src) g (Some l) = true.
Proof.
  unfold CfgFile.generate, CfgFile.usable, CfgFile.load, CfgFile.check. rewrite parse_render, has_with, get_with, !deq_refl. reflexivity.
Qed.

Theorem C17_source_tampered input src src' : src' <> src ->
  let '(g, l) := generate input src in usable (Some src') g (Some l) = false.
Proof.
  intros Hne. unfold CfgFile.generate, CfgFile.usable, CfgFile.load, CfgFile.check. rewrite parse_render, has_with, get_with.
  destruct (digest_eqb (sha src') (sha src)) eqn:E; [|reflexivity].
  apply digest_eqb_eq, sha_inj in E. contradiction.
Qed.

Theorem C17_source_missing input src :
  let '(g, l) := generate input src in usable None g (Some l) = false.
Proof. unfold CfgFile.generate, CfgFile.usable, CfgFile.load, CfgFile.check. rewrite parse_render, has_with. reflexivity. Qed.

Theorem C17_generated_tampered input src g' : 
  let '(g, l) := generate input src in g' <> g ->
  (forall v, parse g' = Some v -> has_source v = true) ->
  usable (Some src) g' (Some l) = false.
Proof.
  unfold CfgFile.generate, CfgFile.usable, CfgFile.load, CfgFile.check. intros Hne Hsrc.
  destruct (parse g') as [v|] eqn:Ep; [|reflexivity]. rewrite (Hsrc v eq_refl).
  destruct (get_sum v); [|reflexivity].
  destruct (digest_eqb (sha g') (sha (render (with_sum input (sha src))))) eqn:E; [|apply andb_false_r].
  apply digest_eqb_eq, sha_inj in E. contradiction.
Qed.

Theorem C17_lock_tampered input src l' :
  let '(g, l) := generate input src in l' <> Some l -> usable (Some src) g l' = false.
Proof.
  unfold CfgFile.generate, CfgFile.usable, CfgFile.load, CfgFile.check. intros Hne.
  rewrite parse_render, has_with, get_with. destruct l' as [l'|]; [|reflexivity].
  destruct (digest_eqb (sha (render (with_sum input (sha src)))) l') eqn:E; [|apply andb_false_r].
  apply digest_eqb_eq in E. subst. congruence.
Qed.

(* C18: what is loaded depends only on the JSON value the file denotes *)
Theorem C18_value_only b1 b2 : parse b1 = parse b2 -> loaded_value b1 = loaded_value b2.
Proof. unfold CfgFile.loaded_value, CfgFile.load. intros ->. destruct (parse b2); reflexivity. Qed.

Theorem C18_accept_iff b : (exists v, loaded_value b = Some v) <-> (exists v, parse b = Some v).
Proof. unfold CfgFile.loaded_value, CfgFile.load. destruct (parse b) as [w|]; simpl; split; intros [v' H]; eauto; discriminate. Qed.

(* a source-less configuration is usable whatever else is on disk *)
Theorem C18_sourceless b v src lock : parse b = Some v -> has_source v = false -> usable src b lock = true.
Proof. intros Hp Hs. unfold CfgFile.usable, CfgFile.load, CfgFile.check. rewrite Hp, Hs. reflexivity. Qed.
End P.
