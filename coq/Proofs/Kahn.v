From Coq Require Import List Arith Bool Lia Permutation Relations ListDec.
From MR Require Import Model.Dag.
Import ListNotations.

(* ---------- list helpers ---------- *)
Lemma upd_length {A} (l : list A) n f : length (upd l n f) = length l.
Proof. revert n; induction l as [|x l IH]; intros [|n]; simpl; auto. Qed.

Lemma nth_upd_same {A} (l : list A) n f d : n < length l -> nth n (upd l n f) d = f (nth n l d).
Proof. revert n; induction l as [|x l IH]; intros [|n] H; simpl in *; try lia; auto. apply IH; lia. Qed.

Lemma nth_upd_other {A} (l : list A) n m f d : n <> m -> nth m (upd l n f) d = nth m l d.
Proof. revert n m; induction l as [|x l IH]; intros [|n] [|m] H; simpl; auto; try congruence. Qed.

Lemma nth_ge_default {A} (l : list A) n d : length l <= n -> nth n l d = d.
Proof. apply nth_overflow. Qed.

Notation cocc := (count_occ Nat.eq_dec).

Lemma NoDup_app_iff {A} (l1 l2 : list A) :
  NoDup (l1 ++ l2) <-> NoDup l1 /\ NoDup l2 /\ (forall x, In x l1 -> In x l2 -> False).
Proof.
  induction l1 as [|a l1 IH]; simpl.
  - split; [intros H; repeat split; auto; constructor | intros (_ & H & _); exact H].
  - rewrite !NoDup_cons_iff, IH, in_app_iff. split.
    + intros (Hn & H1 & H2 & H3). repeat split; auto.
      intros x [->|Hx] Hx2; [apply Hn; auto | eapply H3; eauto].
    + intros ((Hn & H1) & H2 & H3). repeat split; auto.
      * intros [H|H]; [auto | eapply H3; eauto].
      * intros x Hx Hx2. eapply H3; eauto.
Qed.

Lemma NoDup_remove_dec n l : NoDup l -> NoDup (remove Nat.eq_dec n l).
Proof.
  induction 1 as [|a l Hn Hnd IH]; simpl; [constructor|].
  destruct (Nat.eq_dec n a); auto. constructor; auto.
  intros Hin. apply in_remove in Hin as [Hin _]. auto.
Qed.

(* ---------- the counting abstraction ---------- *)
Section G.
Variable g : dag.
Hypothesis Hwf : wf g.
(* visibility is closed under edges (established by the visibility walk) *)
Hypothesis Hclosed : forall i j, visible g i = true -> In j (deps g i) -> visible g j = true.

Definition N := size g.
Definition V : list nat := filter (visible g) (seq 0 N).

Lemma V_spec x : In x V <-> x < N /\ visible g x = true.
Proof. unfold V. rewrite filter_In, in_seq. intuition lia. Qed.

Lemma V_nodup : NoDup V.
Proof. apply NoDup_filter, seq_NoDup. Qed.

Lemma visible_lt x : visible g x = true -> x < N.
Proof.
  unfold visible, N. destruct Hwf as [Hl _]. intros H.
  destruct (Nat.lt_ge_cases x (size g)); auto.
  rewrite nth_overflow in H by lia. discriminate.
Qed.

Lemma deps_lt i j : In j (deps g i) -> j < N.
Proof. destruct Hwf as [_ H]. apply H. Qed.

Definition cntf (rem : list nat) (x : nat) : nat :=
  list_sum (map (fun m => cocc (deps g m) x) rem).

Lemma cntf_cons m rem x : cntf (m :: rem) x = cocc (deps g m) x + cntf rem x.
Proof. reflexivity. Qed.

Lemma cntf_perm rem rem' x : Permutation rem rem' -> cntf rem x = cntf rem' x.
Proof. induction 1; simpl; unfold cntf in *; simpl in *; lia. Qed.

Lemma cntf_pos rem x : cntf rem x > 0 <-> exists m, In m rem /\ In x (deps g m).
Proof.
  induction rem as [|m rem IH]; simpl.
  - unfold cntf; simpl. split; [lia | intros [m [[] _]]].
  - rewrite cntf_cons. split.
    + intros H. destruct (Nat.eq_dec (cocc (deps g m) x) 0) as [E|E].
      * assert (cntf rem x > 0) by lia. apply IH in H0 as [m' [H1 H2]]. exists m'. auto.
      * exists m. split; auto. apply (count_occ_In Nat.eq_dec). lia.
    + intros [m' [[->|Hin] Hd]].
      * apply (count_occ_In Nat.eq_dec) in Hd. lia.
      * assert (cntf rem x > 0) by (apply IH; eauto). lia.
Qed.

Lemma cntf_zero rem x : cntf rem x = 0 <-> forall m, In m rem -> ~ In x (deps g m).
Proof.
  split.
  - intros H m Hm Hd. assert (cntf rem x > 0) by (apply cntf_pos; eauto). lia.
  - intros H. destruct (Nat.eq_dec (cntf rem x) 0); auto.
    assert (cntf rem x > 0) by lia. apply cntf_pos in H0 as [m [H1 H2]]. exfalso. eapply H; eauto.
Qed.

(* ---------- init_indeg ---------- *)
Lemma incr_fold_nth ds : forall a x, x < length a ->
  nth x (fold_left (fun a n => upd a n S) ds a) 0 = nth x a 0 + cocc ds x.
Proof.
  induction ds as [|d ds IH]; intros a x Hx; simpl; [lia|].
  rewrite IH by (rewrite upd_length; auto).
  destruct (Nat.eq_dec d x) as [->|Hne].
  - rewrite nth_upd_same by auto. lia.
  - rewrite nth_upd_other by auto. lia.
Qed.

Lemma incr_fold_length ds : forall a, length (fold_left (fun a n => upd a n S) ds a) = length a.
Proof. induction ds as [|d ds IH]; intros a; simpl; auto. rewrite IH, upd_length. auto. Qed.

Definition indeg_step (acc : list nat) (i : nat) :=
  if visible g i then fold_left (fun a n => upd a n S) (deps g i) acc else acc.

Lemma indeg_fold_length l : forall a, length (fold_left indeg_step l a) = length a.
Proof.
  induction l as [|i l IH]; intros a; simpl; auto. rewrite IH. unfold indeg_step.
  destruct (visible g i); auto. apply incr_fold_length.
Qed.

Lemma indeg_fold_nth l : forall a x, x < length a ->
  nth x (fold_left indeg_step l a) 0 = nth x a 0 + cntf (filter (visible g) l) x.
Proof.
  induction l as [|i l IH]; intros a x Hx; simpl.
  - unfold cntf; simpl; lia.
  - rewrite IH.
    + unfold indeg_step. destruct (visible g i) eqn:E.
      * rewrite incr_fold_nth by auto. rewrite cntf_cons. lia.
      * lia.
    + unfold indeg_step. destruct (visible g i); auto. rewrite incr_fold_length; auto.
Qed.

Lemma init_indeg_length : length (init_indeg g) = N.
Proof.
  unfold init_indeg. fold indeg_step. rewrite indeg_fold_length, repeat_length. reflexivity.
Qed.

Lemma init_indeg_nth x : x < N -> nth x (init_indeg g) 0 = cntf V x.
Proof.
  intros Hx. unfold init_indeg. fold indeg_step.
  rewrite indeg_fold_nth by (rewrite repeat_length; exact Hx).
  rewrite nth_repeat. reflexivity.
Qed.

(* ---------- one relaxation fold ---------- *)
Lemma relax_some indeg next n2 :
  relax g (Some (indeg, next)) n2 =
  match nth n2 indeg 0 with
  | 0 => None
  | S k => let indeg' := upd indeg n2 (fun _ => k) in
           if (k =? 0) && visible g n2 then Some (indeg', n2 :: next) else Some (indeg', next)
  end.
Proof. reflexivity. Qed.

Lemma relax_fold ds : forall indeg next,
  (forall x, cocc ds x <= nth x indeg 0) ->
  exists indeg' newly,
    fold_left (relax g) ds (Some (indeg, next)) = Some (indeg', newly ++ next) /\
    length indeg' = length indeg /\
    (forall x, nth x indeg' 0 = nth x indeg 0 - cocc ds x) /\
    NoDup newly /\
    (forall x, In x newly <-> (In x ds /\ visible g x = true /\ nth x indeg 0 = cocc ds x)).
Proof.
  induction ds as [|d ds IH]; intros indeg next Hle.
  - exists indeg, []. simpl. split; [|split; [|split; [|split]]]; auto; try (intros; lia); try constructor; try tauto.
  - cbn [fold_left]. rewrite relax_some.
    pose proof (Hle d) as Hd. simpl in Hd. destruct (Nat.eq_dec d d) as [_|]; [|congruence].
    destruct (nth d indeg 0) as [|k] eqn:Ek; [lia|].
    assert (Hdl : d < length indeg).
    { destruct (Nat.lt_ge_cases d (length indeg)); auto. rewrite nth_overflow in Ek by lia. discriminate. }
    cbv zeta. set (indeg1 := upd indeg d (fun _ => k)).
    assert (Hle1 : forall x, cocc ds x <= nth x indeg1 0).
    { intros x. unfold indeg1. destruct (Nat.eq_dec d x) as [->|Hne].
      - rewrite nth_upd_same by auto. lia.
      - rewrite nth_upd_other by auto. specialize (Hle x). simpl in Hle.
        destruct (Nat.eq_dec d x); [congruence|]. lia. }
    assert (Hnth1 : forall x, nth x indeg1 0 = nth x indeg 0 - (if Nat.eq_dec d x then 1 else 0)).
    { intros x. unfold indeg1. destruct (Nat.eq_dec d x) as [->|Hne].
      - rewrite nth_upd_same by auto. lia.
      - rewrite nth_upd_other by auto. lia. }
    destruct ((k =? 0) && visible g d) eqn:Epush.
    + destruct (IH indeg1 (d :: next) Hle1) as (indeg' & newly & E & Hlen & Hn & Hnd & Hin).
      apply andb_true_iff in Epush as [Ek0 Evis]. apply Nat.eqb_eq in Ek0. subst k.
      assert (Hcd : cocc ds d = 0).
      { specialize (Hle1 d). unfold indeg1 in Hle1. rewrite nth_upd_same in Hle1 by auto. lia. }
      exists indeg', (newly ++ [d]). rewrite <- app_assoc. simpl. split; [|split; [|split; [|split]]].
      * exact E.
      * rewrite Hlen. apply upd_length.
      * intros x. rewrite Hn, Hnth1. simpl. destruct (Nat.eq_dec d x); lia.
      * apply Permutation_NoDup with (l := d :: newly); [apply Permutation_cons_append|].
        constructor; auto. intros Hd'. apply Hin in Hd' as [Hd' _].
        apply (count_occ_In Nat.eq_dec) in Hd'. lia.
      * intros x. rewrite in_app_iff, Hin, Hnth1. simpl. destruct (Nat.eq_dec d x) as [->|Hne].
        -- split.
           ++ intros _. repeat split; auto. lia.
           ++ intros _. right. left. reflexivity.
        -- split.
           ++ intros [(H1 & H2 & H3)|[->|[]]]; [|congruence]. repeat split; auto. lia.
           ++ intros ([->|H1] & H2 & H3); [congruence|]. left. repeat split; auto. lia.
    + destruct (IH indeg1 next Hle1) as (indeg' & newly & E & Hlen & Hn & Hnd & Hin).
      exists indeg', newly. split; [|split; [|split; [|split]]].
      * exact E.
      * rewrite Hlen. apply upd_length.
      * intros x. rewrite Hn, Hnth1. simpl. destruct (Nat.eq_dec d x); lia.
      * exact Hnd.
      * intros x. rewrite Hin, Hnth1. simpl. destruct (Nat.eq_dec d x) as [->|Hne].
        -- split.
           ++ intros (H1 & H2 & H3). repeat split; auto. lia.
           ++ intros (_ & H2 & H3). destruct k as [|k'].
              ** exfalso. rewrite H2 in Epush. simpl in Epush. discriminate.
              ** repeat split; auto; [|lia]. apply (count_occ_In Nat.eq_dec). lia.
        -- split.
           ++ intros (H1 & H2 & H3). repeat split; auto. lia.
           ++ intros ([->|H1] & H2 & H3); [congruence|]. repeat split; auto. lia.
Qed.


(* ---------- the invariant ---------- *)
Record Inv (rem indeg pending : list nat) : Prop := {
  inv_len : length indeg = N;
  inv_cnt : forall x, x < N -> nth x indeg 0 = cntf rem x;
  inv_nd : NoDup rem;
  inv_sub : incl rem V;
  inv_done : forall x, In x V -> ~ In x rem -> cntf rem x = 0;
  inv_pnd : NoDup pending;
  inv_pend : forall p, In p pending -> In p rem /\ cntf rem p = 0;
  inv_full : forall r, In r rem -> cntf rem r = 0 -> In r pending;
  inv_cyc : forall c, In c V -> path g c c -> In c rem
}.

Lemma cntf_remove n1 rem x : NoDup rem -> In n1 rem ->
  cntf rem x = cocc (deps g n1) x + cntf (remove Nat.eq_dec n1 rem) x.
Proof.
  induction rem as [|m rem IH]; intros Hnd Hin; [destruct Hin|].
  inversion Hnd as [|? ? Hnot Hnd']; subst. simpl remove.
  destruct (Nat.eq_dec n1 m) as [->|Hne].
  - rewrite cntf_cons. rewrite notin_remove by assumption. reflexivity.
  - destruct Hin as [->|Hin]; [congruence|]. rewrite !cntf_cons. rewrite IH by assumption. lia.
Qed.

Lemma cntf_ge_default x rem : N <= x -> cntf rem x = 0.
Proof.
  intros Hx. apply cntf_zero. intros m _ Hd. apply deps_lt in Hd. lia.
Qed.

Lemma visible_path c y : visible g c = true -> path g c y -> visible g y = true.
Proof.
  intros Hc P. induction P as [a b [_ E]|a b c0 _ IH1 _ IH2]; eauto.
Qed.

Lemma cycle_pred c : path g c c -> exists y, edge g y c /\ path g y y /\ (y = c \/ path g c y).
Proof.
  intros P. apply clos_trans_tn1 in P. inversion P as [E|y ? E P']; subst.
  - exists c. split; auto. split; [apply t_step; auto | left; reflexivity].
  - exists y. split; auto. apply clos_tn1_trans in P'. split.
    + eapply t_trans; [apply t_step; exact E | exact P'].
    + right. exact P'.
Qed.

(* processing one node preserves the invariant *)
Lemma inv_step rem indeg n1 w next :
  Inv rem indeg (n1 :: w ++ next) ->
  exists indeg' newly,
    fold_left (relax g) (deps g n1) (Some (indeg, next)) = Some (indeg', newly ++ next) /\
    Inv (remove Nat.eq_dec n1 rem) indeg' (w ++ newly ++ next).
Proof.
  intros I. set (rem' := remove Nat.eq_dec n1 rem).
  destruct (inv_pend _ _ _ I n1 (or_introl eq_refl)) as [Hn1rem Hn1z].
  assert (Hsplit : forall x, cntf rem x = cocc (deps g n1) x + cntf rem' x)
    by (intros; apply cntf_remove; [apply (inv_nd _ _ _ I)|assumption]).
  assert (Hle : forall x, cocc (deps g n1) x <= nth x indeg 0).
  { intros x. destruct (Nat.lt_ge_cases x N) as [Hx|Hx].
    - rewrite (inv_cnt _ _ _ I) by assumption. rewrite Hsplit. lia.
    - destruct (Nat.eq_dec (cocc (deps g n1) x) 0) as [->|Hc]; [lia|].
      assert (In x (deps g n1)) by (apply (count_occ_In Nat.eq_dec); lia).
      apply deps_lt in H. lia. }
  destruct (relax_fold (deps g n1) indeg next Hle) as (indeg' & newly & E & Hlen & Hn & Hnd & Hin).
  exists indeg', newly. split; [exact E|].
  assert (Hcnt' : forall x, x < N -> nth x indeg' 0 = cntf rem' x).
  { intros x Hx. rewrite Hn, (inv_cnt _ _ _ I) by assumption. rewrite Hsplit. lia. }
  assert (Hn1V : In n1 V) by (apply (inv_sub _ _ _ I); assumption).
  assert (Hnewly : forall x, In x newly -> In x rem' /\ cntf rem' x = 0 /\ cntf rem x > 0).
  { intros x Hx. apply Hin in Hx as (Hd & Hv & Hc).
    assert (HxN : x < N) by (eapply deps_lt; eauto).
    assert (Hpos : cocc (deps g n1) x > 0) by (apply (count_occ_In Nat.eq_dec); assumption).
    rewrite (inv_cnt _ _ _ I) in Hc by assumption.
    assert (Hgt : cntf rem x > 0) by lia.
    assert (HxV : In x V) by (apply V_spec; auto).
    assert (Hxrem : In x rem).
    { destruct (in_dec Nat.eq_dec x rem); auto. pose proof (inv_done _ _ _ I x HxV n). lia. }
    assert (Hxn1 : x <> n1) by (intros ->; lia).
    repeat split; auto.
    - apply in_in_remove; auto.
    - rewrite Hsplit in Hc. lia. }
  assert (Hpold : forall p, In p (w ++ next) -> p <> n1 /\ In p rem /\ cntf rem p = 0).
  { intros p Hp. pose proof (inv_pnd _ _ _ I) as Hnd0. inversion Hnd0 as [|? ? Hnot _]; subst.
    split; [intros ->; contradiction|]. apply (inv_pend _ _ _ I). right. exact Hp. }
  constructor.
  - rewrite Hlen. apply (inv_len _ _ _ I).
  - exact Hcnt'.
  - apply NoDup_remove_dec. apply (inv_nd _ _ _ I).
  - intros x Hx. apply in_remove in Hx as [Hx _]. apply (inv_sub _ _ _ I). exact Hx.
  - intros x HxV Hnot. destruct (Nat.eq_dec x n1) as [->|Hne].
    + specialize (Hsplit n1). lia.
    + assert (~ In x rem) by (intro; apply Hnot; apply in_in_remove; auto).
      pose proof (inv_done _ _ _ I x HxV H). specialize (Hsplit x). lia.
  - (* NoDup (w ++ newly ++ next) *)
    pose proof (inv_pnd _ _ _ I) as Hnd0. inversion Hnd0 as [|? ? _ Hndwn]; subst.
    apply Permutation_NoDup with (l := newly ++ (w ++ next)).
    { rewrite !app_assoc. apply Permutation_app_tail. apply Permutation_app_comm. }
    apply NoDup_app_iff. split; [exact Hnd|]. split; [exact Hndwn|].
    intros x Hx1 Hx2. apply Hnewly in Hx1 as (_ & _ & Hgt). apply Hpold in Hx2 as (_ & _ & Hz). lia.
  - intros p Hp. apply in_app_or in Hp as [Hp|Hp]; [|apply in_app_or in Hp as [Hp|Hp]].
    + destruct (Hpold p) as (Hne & Hr & Hz); [apply in_or_app; auto|].
      split; [apply in_in_remove; auto|]. specialize (Hsplit p). lia.
    + apply Hnewly in Hp as (H1 & H2 & _). auto.
    + destruct (Hpold p) as (Hne & Hr & Hz); [apply in_or_app; auto|].
      split; [apply in_in_remove; auto|]. specialize (Hsplit p). lia.
  - intros r Hr Hz. apply in_remove in Hr as [Hr Hne].
    destruct (Nat.eq_dec (cntf rem r) 0) as [Hz0|Hnz].
    + pose proof (inv_full _ _ _ I r Hr Hz0) as [->|Hp]; [congruence|].
      apply in_app_or in Hp as [Hp|Hp]; apply in_or_app; [left; auto | right; apply in_or_app; right; auto].
    + apply in_or_app. right. apply in_or_app. left. apply Hin.
      assert (HrV : In r V) by (apply (inv_sub _ _ _ I); auto). apply V_spec in HrV as [HrN Hrv].
      specialize (Hsplit r). split; [|split; auto].
      * apply (count_occ_In Nat.eq_dec). lia.
      * rewrite (inv_cnt _ _ _ I) by assumption. lia.
  - intros c HcV P. apply in_in_remove; [|apply (inv_cyc _ _ _ I); auto].
    intros ->. destruct (cycle_pred n1 P) as (y & [HyN Hyd] & Py & Hreach).
    assert (Hyv : visible g y = true).
    { apply V_spec in HcV as [_ Hv]. destruct Hreach as [->|Pr]; [exact Hv|]. eapply visible_path; eauto. }
    assert (HyV : In y V) by (apply V_spec; auto).
    pose proof (inv_cyc _ _ _ I y HyV Py) as Hyrem.
    assert (cntf rem n1 > 0) by (apply cntf_pos; eauto). lia.
Qed.



Lemma perm_remove n1 rem : NoDup rem -> In n1 rem -> Permutation rem (n1 :: remove Nat.eq_dec n1 rem).
Proof.
  induction rem as [|m rem IH]; intros Hnd Hin; [destruct Hin|].
  inversion Hnd as [|? ? Hnot Hnd']; subst. simpl remove.
  destruct (Nat.eq_dec n1 m) as [->|Hne].
  - rewrite notin_remove by assumption. reflexivity.
  - destruct Hin as [->|Hin]; [congruence|].
    rewrite (IH Hnd' Hin) at 1. apply perm_swap.
Qed.

Lemma process_work_spec work : forall rem indeg next group,
  Inv rem indeg (work ++ next) ->
  exists indeg' next' rem',
    process_work g work indeg next group = Some (indeg', next', rev group ++ work) /\
    Inv rem' indeg' next' /\
    Permutation rem (work ++ rem').
Proof.
  induction work as [|n1 w IH]; intros rem indeg next group I.
  - exists indeg, next, rem. simpl. rewrite app_nil_r. auto.
  - cbn [process_work].
    destruct (inv_step rem indeg n1 w next I) as (indeg1 & newly & E & I1). rewrite E.
    destruct (IH _ indeg1 (newly ++ next) (n1 :: group) I1) as (indeg' & next' & rem' & E' & I' & P').
    exists indeg', next', rem'. rewrite E'. split; [|split].
    + cbn [rev]. rewrite <- app_assoc. reflexivity.
    + exact I'.
    + destruct (inv_pend _ _ _ I n1 (or_introl eq_refl)) as [Hin _].
      rewrite (perm_remove n1 rem (inv_nd _ _ _ I) Hin). simpl. constructor. exact P'.
Qed.

Definition layered (rem : list nat) (gs : list (list nat)) :=
  forall pre grp post, gs = pre ++ grp :: post ->
    forall j i, In j grp -> In i V -> In j (deps g i) -> ~ In i rem \/ In i (concat pre).

Lemma kahn_spec fuel : forall work indeg rem,
  Inv rem indeg work -> length rem <= fuel ->
  exists gs fin rem',
    kahn fuel g work indeg = Some (gs, fin) /\
    Inv rem' fin [] /\
    Permutation rem (concat gs ++ rem') /\
    Forall (fun l => l <> []) gs /\
    layered rem gs.
Proof.
  induction fuel as [|f IH]; intros work indeg rem I Hlen.
  - destruct work as [|n1 w].
    + exists [], indeg, rem. split; [reflexivity|]. split; [exact I|]. split; [reflexivity|].
      split; [constructor|]. intros pre grp post E. destruct pre; discriminate.
    + exfalso. destruct (inv_pend _ _ _ I n1 (or_introl eq_refl)) as [Hin _].
      destruct rem; [destruct Hin | simpl in Hlen; lia].
  - destruct work as [|n1 w].
    + exists [], indeg, rem. split; [reflexivity|]. split; [exact I|]. split; [reflexivity|].
      split; [constructor|]. intros pre grp post E. destruct pre; discriminate.
    + cbn [kahn].
      assert (I0 : Inv rem indeg ((n1 :: w) ++ [])) by (rewrite app_nil_r; exact I).
      destruct (process_work_spec (n1 :: w) rem indeg [] [] I0) as (indeg' & next' & rem1 & E & I1 & P1).
      rewrite E. cbn [rev app].
      assert (Hlen1 : length rem1 <= f).
      { apply Permutation_length in P1. rewrite app_length in P1. simpl in P1. lia. }
      destruct (IH next' indeg' rem1 I1 Hlen1) as (gs & fin & rem' & Ek & I' & P' & Hne & Hlay).
      rewrite Ek. exists ((n1 :: w) :: gs), fin, rem'. split; [reflexivity|]. split; [exact I'|].
      split; [|split].
      * cbn [concat]. rewrite <- app_assoc. rewrite P1. apply Permutation_app_head. exact P'.
      * constructor; [discriminate | exact Hne].
      * intros pre grp post Eg j i Hj HiV Hd.
        destruct pre as [|p0 pre].
        -- simpl in Eg. inversion Eg; subst grp post. left. intros Hir.
           destruct (inv_pend _ _ _ I j Hj) as [_ Hz].
           assert (cntf rem j > 0) by (apply cntf_pos; eauto). lia.
        -- simpl in Eg. inversion Eg; subst p0 gs.
           destruct (Hlay pre grp post eq_refl j i Hj HiV Hd) as [Hn|Hin].
           ++ destruct (in_dec Nat.eq_dec i rem) as [Hir|Hir]; [|left; exact Hir].
              right. cbn [concat]. apply in_or_app. left.
              apply (Permutation_in _ P1) in Hir. apply in_app_or in Hir as [Hw|Hr]; [exact Hw|contradiction].
           ++ right. cbn [concat]. apply in_or_app. right. exact Hin.
Qed.

Lemma Inv_init :
  Inv V (init_indeg g)
      (filter (fun n => (nth n (init_indeg g) 0 =? 0) && visible g n) (seq 0 N)).
Proof.
  constructor.
  - apply init_indeg_length.
  - apply init_indeg_nth.
  - apply V_nodup.
  - apply incl_refl.
  - intros x H1 H2. contradiction.
  - apply NoDup_filter, seq_NoDup.
  - intros p Hp. apply filter_In in Hp as [Hs Hb]. apply in_seq in Hs.
    apply andb_true_iff in Hb as [Hz Hv]. apply Nat.eqb_eq in Hz.
    split; [apply V_spec; split; [lia|auto]|]. rewrite <- init_indeg_nth by lia. exact Hz.
  - intros r Hr Hz. apply V_spec in Hr as [HrN Hrv]. apply filter_In. split; [apply in_seq; lia|].
    rewrite init_indeg_nth by assumption. rewrite Hz, Hrv. reflexivity.
  - intros c Hc _. exact Hc.
Qed.

(* ---------- cycles from a predecessor-closed set ---------- *)
Fixpoint chain (l : list nat) : Prop :=
  match l with
  | a :: ((b :: _) as t) => edge g b a /\ chain t
  | _ => True
  end.

Lemma chain_app_r l1 : forall l2, chain (l1 ++ l2) -> chain l2.
Proof.
  induction l1 as [|a l1 IH]; intros l2 H; [exact H|].
  apply IH. simpl in H. destruct (l1 ++ l2); [exact I | destruct H; assumption].
Qed.

Lemma chain_app_l l1 : forall l2, chain (l1 ++ l2) -> chain l1.
Proof.
  induction l1 as [|a l1 IH]; intros l2 H; [exact I|].
  destruct l1 as [|b l1]; [exact I|]. simpl in *. destruct H as [E H]. split; [exact E|].
  apply (IH l2). exact H.
Qed.

Lemma chain_path l : forall x y, chain (x :: l ++ [y]) -> path g y x.
Proof.
  induction l as [|z l IH]; intros x y H.
  - simpl in H. destruct H as [E _]. apply t_step. exact E.
  - simpl in H. destruct H as [E H]. eapply t_trans; [apply IH; exact H | apply t_step; exact E].
Qed.

Lemma not_NoDup_split (l : list nat) : ~ NoDup l -> exists a l1 l2 l3, l = l1 ++ a :: l2 ++ a :: l3.
Proof.
  induction l as [|a l IH]; intros H; [exfalso; apply H; constructor|].
  destruct (in_dec Nat.eq_dec a l) as [Hin|Hnin].
  - apply in_split in Hin as (l2 & l3 & ->). exists a, [], l2, l3. reflexivity.
  - destruct IH as (b & l1 & l2 & l3 & ->).
    + intros Hnd. apply H. constructor; assumption.
    + exists b, (a :: l1), l2, l3. reflexivity.
Qed.

Lemma pred_closed_cycle (S : list nat) :
  S <> [] -> (forall r, In r S -> exists m, In m S /\ edge g m r) ->
  exists x, In x S /\ path g x x.
Proof.
  intros Hne Hpred.
  assert (Hch : forall k, exists l, length l = Datatypes.S k /\ incl l S /\ chain l).
  { induction k as [|k IHk].
    - destruct S as [|s0 S']; [congruence|]. exists [s0]. repeat split; simpl; auto.
      intros x [->|[]]. left. reflexivity.
    - destruct IHk as (l & Hl & Hi & Hc).
      (* extend at the end: the last element has a predecessor *)
      destruct (exists_last (l := l)) as (l0 & z & ->); [destruct l; simpl in Hl; congruence|].
      destruct (Hpred z) as (m & Hm & Em); [apply Hi; apply in_or_app; right; left; reflexivity|].
      exists ((l0 ++ [z]) ++ [m]). repeat split.
      + rewrite app_length. simpl. lia.
      + intros x Hx. apply in_app_or in Hx as [Hx|[->|[]]]; auto.
      + clear - Hc Em. induction l0 as [|a l0 IH]; simpl in *.
        * split; auto.
        * destruct (l0 ++ [z]) eqn:E0; [destruct l0; discriminate|]. simpl in *.
          destruct Hc as [E Hc]. split; [exact E|]. apply IH. exact Hc. }
  destruct (Hch (length S)) as (l & Hl & Hi & Hc).
  assert (Hnd : ~ NoDup l).
  { intros Hnd. apply (NoDup_incl_length Hnd) in Hi. lia. }
  apply not_NoDup_split in Hnd as (a & l1 & l2 & l3 & ->).
  exists a. split; [apply Hi; apply in_or_app; right; left; reflexivity|].
  apply chain_app_r in Hc.
  replace (a :: l2 ++ a :: l3) with ((a :: l2 ++ [a]) ++ l3) in Hc by (simpl; rewrite <- app_assoc; reflexivity).
  apply chain_app_l in Hc. apply chain_path in Hc. exact Hc.
Qed.

(* ---------- the two theorems about get_groups ---------- *)
Definition has_cycle := exists c, In c V /\ path g c c.

Lemma kahn_final :
  exists gs fin rem',
    kahn (Datatypes.S N) g
         (filter (fun n => (nth n (init_indeg g) 0 =? 0) && visible g n) (seq 0 N)) (init_indeg g)
    = Some (gs, fin) /\
    Inv rem' fin [] /\ Permutation V (concat gs ++ rem') /\
    Forall (fun l => l <> []) gs /\ layered V gs.
Proof.
  apply kahn_spec; [apply Inv_init|].
  assert (length V <= length (seq 0 N)).
  { apply NoDup_incl_length; [apply V_nodup|]. intros x Hx. apply V_spec in Hx. apply in_seq. lia. }
  rewrite seq_length in H. lia.
Qed.

Lemma rem_cycle rem fin : Inv rem fin [] -> (rem <> [] <-> has_cycle).
Proof.
  intros I. split.
  - intros Hne. destruct (pred_closed_cycle rem Hne) as (x & Hx & Px).
    + intros r Hr. assert (Hpos : cntf rem r > 0).
      { destruct (Nat.eq_dec (cntf rem r) 0) as [Hz|]; [|lia].
        destruct (inv_full _ _ _ I r Hr Hz). }
      apply cntf_pos in Hpos as (m & Hm & Hd). exists m. split; auto. split; auto.
      apply (inv_sub _ _ _ I) in Hm. apply V_spec in Hm. tauto.
    + exists x. split; auto. apply (inv_sub _ _ _ I). exact Hx.
  - intros (c & Hc & P) ->. apply (inv_cyc _ _ _ I c Hc P).
Qed.

Lemma has_cycle_dec : has_cycle \/ ~ has_cycle.
Proof.
  destruct kahn_final as (gs & fin & rem' & E & I & _). destruct rem' as [|r rem'].
  - right. intro H. apply (rem_cycle _ _ I) in H. congruence.
  - left. apply (rem_cycle _ _ I). discriminate.
Qed.

Theorem get_groups_cyclic : has_cycle -> exists n, get_groups g = ErrCycle n.
Proof.
  intros Hc. destruct kahn_final as (gs & fin & rem' & E & I & P & Hne & Hlay).
  unfold get_groups. fold N. rewrite E.
  apply (rem_cycle _ _ I) in Hc.
  destruct rem' as [|r rem']; [congruence|].
  assert (HrV : In r V) by (apply (inv_sub _ _ _ I); left; reflexivity).
  apply V_spec in HrV as [HrN Hrv].
  destruct (find _ _) as [i|] eqn:F; [eauto|]. exfalso.
  eapply find_none with (x := r) in F; [|apply in_seq; lia].
  rewrite Hrv in F. simpl in F. apply negb_false_iff, Nat.eqb_eq in F.
  rewrite (inv_cnt _ _ _ I) in F by assumption.
  destruct (inv_full _ _ _ I r (or_introl eq_refl) F).
Qed.

Theorem get_groups_acyclic : ~ has_cycle ->
  exists gs, get_groups g = Ok gs /\ Permutation V (concat gs) /\
             Forall (fun l => l <> []) gs /\ layered V gs.
Proof.
  intros Hc. destruct kahn_final as (gs & fin & rem' & E & I & P & Hne & Hlay).
  unfold get_groups. fold N. rewrite E.
  assert (rem' = []).
  { destruct rem' as [|r rem']; auto. exfalso. apply Hc. apply (rem_cycle _ _ I). discriminate. }
  subst rem'. rewrite app_nil_r in P.
  destruct (find _ _) as [i|] eqn:F.
  - exfalso. apply find_some in F as [Hs Hb]. apply in_seq in Hs.
    apply andb_true_iff in Hb as [_ Hb]. apply negb_true_iff, Nat.eqb_neq in Hb.
    rewrite (inv_cnt _ _ _ I) in Hb by lia. apply Hb. reflexivity.
  - exists gs. auto.
Qed.

End G.

Print Assumptions get_groups_cyclic.
Print Assumptions get_groups_acyclic.
