(* C20, the filter clause: composing the attachment rule (Model.Filter) with the shared-connection model
   (Model.Reader.mrun).  Key lemma: reader i inside the interleaved system is the single-reader run on the
   events addressed to i - so every single-reader theorem transfers to any interleaving. *)
From Coq Require Import List Arith NArith Bool Lia.
From MR Require Import Lib.Bytes Model.Reader Model.Filter Proofs.ReaderProof.
Import ListNotations.

Section F.
Variable kp tol : bool.
Variable sink_ok : nat -> nat -> bool.

Definition events_for (i : nat) (cs : list (nat * ev)) : list ev :=
  map snd (filter (fun '(k, _) => Nat.eqb k i) cs).

Lemma events_for_app i cs1 cs2 : events_for i (cs1 ++ cs2) = events_for i cs1 ++ events_for i cs2.
Proof. unfold events_for. rewrite filter_app, map_app. reflexivity. Qed.

Lemma events_for_one i j e : events_for i [(j, e)] = if Nat.eqb j i then [e] else [].
Proof. unfold events_for. simpl. destruct (Nat.eqb j i); reflexivity. Qed.

Lemma mrun_app streams cs c :
  mrun kp tol sink_ok streams (cs ++ [c]) = mstep kp tol sink_ok (mrun kp tol sink_ok streams cs) c.
Proof. unfold mrun. rewrite fold_left_app. reflexivity. Qed.

Lemma mstep_length m c : length (readers (mstep kp tol sink_ok m c)) = length (readers m).
Proof.
  destruct c as [j e]. unfold mstep. destruct (nth_error (readers m) j) as [r|]; [|reflexivity]. simpl.
  generalize (step kp tol (sink_ok j) r e). generalize j. generalize (readers m).
  induction l as [|x l IH]; intros [|k] v; simpl; auto.
Qed.

(* projection: reader i of the interleaved system = the single reader run on i's own events *)
Theorem mrun_proj streams cs : forall i b, nth_error streams i = Some b ->
  nth_error (readers (mrun kp tol sink_ok streams cs)) i = Some (run kp tol (sink_ok i) b (events_for i cs)).
Proof.
  rewrite <- (rev_involutive cs). induction (rev cs) as [|c l IH]; intros i b Hb.
  - simpl. unfold mrun, minit. simpl. rewrite nth_error_map, Hb. reflexivity.
  - simpl rev. rewrite mrun_app, events_for_app. destruct c as [j e]. unfold mstep.
    destruct (nth_error (readers (mrun kp tol sink_ok streams (rev l))) j) as [r|] eqn:Ej.
    + simpl readers. rewrite events_for_one. destruct (Nat.eqb_spec j i) as [->|Hne].
      * rewrite upd_nth_same by (apply nth_error_Some; congruence).
        rewrite (IH i b Hb) in Ej. inversion Ej; subst r.
        unfold run. rewrite fold_left_app. reflexivity.
      * rewrite upd_nth_other by exact Hne. rewrite (IH i b Hb). rewrite app_nil_r. reflexivity.
    + rewrite (IH i b Hb). rewrite events_for_one.
      destruct (Nat.eqb_spec j i) as [->|Hne]; [|rewrite app_nil_r; reflexivity].
      rewrite (IH i b Hb) in Ej. discriminate.
Qed.

(* block-level version of the connection invariant: the blocks tagged i are exactly reader i's stream writes *)
Definition blocks_of (m : msys) (i : nat) : list bytes := map snd (filter (fun '(k, _) => Nat.eqb k i) (conn m)).

Lemma blocks_tagged j (bs : list bytes) i :
  map snd (filter (fun '(k, _) => Nat.eqb k i) (map (fun b => (j, b)) bs)) = if Nat.eqb j i then bs else [].
Proof.
  induction bs as [|b bs IH]; simpl; [destruct (Nat.eqb j i); reflexivity|].
  destruct (Nat.eqb j i) eqn:E; simpl; rewrite IH; reflexivity.
Qed.

Theorem blocks_are_sent streams cs : forall i r,
  nth_error (readers (mrun kp tol sink_ok streams cs)) i = Some r ->
  blocks_of (mrun kp tol sink_ok streams cs) i = sent r.
Proof.
  rewrite <- (rev_involutive cs). induction (rev cs) as [|c l IH]; intros i r Hi.
  - simpl in *. unfold mrun, minit in *. simpl in *. rewrite nth_error_map in Hi.
    destruct (nth_error streams i); inversion Hi. reflexivity.
  - simpl rev in *. rewrite mrun_app in *. destruct c as [j e]. unfold mstep in *.
    destruct (nth_error (readers (mrun kp tol sink_ok streams (rev l))) j) as [rj|] eqn:Ej; [|apply IH; exact Hi].
    destruct (step_sent_grows kp tol (sink_ok j) rj e) as (new & En).
    assert (Eskip : skipn (length (sent rj)) (sent (step kp tol (sink_ok j) rj e)) = new).
    { rewrite En. rewrite skipn_app, skipn_all, Nat.sub_diag. reflexivity. }
    rewrite Eskip. unfold blocks_of. simpl conn. simpl readers in Hi.
    rewrite filter_app, map_app, blocks_tagged.
    assert (Hj : j < length (readers (mrun kp tol sink_ok streams (rev l)))) by (apply nth_error_Some; congruence).
    destruct (Nat.eqb_spec j i) as [->|Hne].
    + rewrite upd_nth_same in Hi by exact Hj. inversion Hi; subst r. rewrite En. f_equal. apply (IH i rj Ej).
    + rewrite upd_nth_other in Hi by exact Hne. rewrite app_nil_r. apply (IH i r Hi).
Qed.
End F.

(* ---------- the filter clause of C20 ---------- *)
Theorem tail_within_filters kp tol f ts cs i t :
  nth_error ts i = Some t ->
  let m := mrun kp tol (fun _ _ => true) (attach f ts) cs in
  exists r, nth_error (readers m) i = Some r /\
    (* admitted by the listener's filters: the blocks carrying this task's header concatenate to its stored log *)
    (admitted_opt f t = true -> tail_of m i = out r) /\
    (* not admitted (wrong stream, target or command, or no listener): not a single block carries its header *)
    (admitted_opt f t = false -> blocks_of m i = []).
Proof.
  intros Ht. cbv zeta.
  assert (Hb : nth_error (attach f ts) i = Some (admitted_opt f t)) by (unfold attach; rewrite nth_error_map, Ht; reflexivity).
  pose proof (mrun_proj kp tol (fun _ _ => true) (attach f ts) cs i _ Hb) as Hr.
  eexists. split; [exact Hr|]. split; intros Ha.
  - rewrite (tail_reassembles kp tol (fun _ _ => true) (attach f ts) cs i _ Hr). rewrite Ha.
    apply (stream_complete kp tol).
  - rewrite (blocks_are_sent kp tol (fun _ _ => true) (attach f ts) cs i _ Hr). rewrite Ha.
    apply unattached_silent.
Qed.

(* the attachment rule itself, spelled out: a task is admitted iff its stream is wanted and its target and its command
   pass their (empty = everything) sets *)
Lemma admitted_spec f t :
  admitted f t = true <->
  (if is_stdout t then want_stdout f else want_stderr f) = true /\
  (ftargets f = [] \/ In (ttarget t) (ftargets f)) /\ (fcommands f = [] \/ In (tcommand t) (fcommands f)).
Proof.
  assert (Hin : forall x s, in_set x s = true <-> (s = [] \/ In x s)).
  { intros x s. unfold in_set. destruct s as [|y s]; [split; auto|]. rewrite existsb_exists. split.
    - intros (z & Hz & E). apply str_eqb_eq in E. subst z. right. exact Hz.
    - intros [H|H]; [discriminate|]. exists x. split; auto. apply str_eqb_eq. reflexivity. }
  unfold admitted, is_log_allowed. rewrite !andb_true_iff, !Hin. tauto.
Qed.
