From Coq Require Import List Arith Bool Lia Permutation Relations.
From MR Require Import Model.Dag Proofs.Kahn.
Import ListNotations.

Lemma mem_In n l : mem n l = true <-> In n l.
Proof.
  unfold mem. rewrite existsb_exists. split.
  - intros (x & Hx & E). apply Nat.eqb_eq in E. subst. exact Hx.
  - intros H. exists n. split; auto. apply Nat.eqb_refl.
Qed.

Section W.
Variable g : dag.
Hypothesis Hwf : wf g.
Variable root : nat.
Hypothesis Hroot : root < size g.
Variable b : bool.
Variable v0 : list bool.
Hypothesis Hv0 : length v0 = size g.

Definition R x := reach g root x.

Lemma reach_lt x : R x -> x < size g.
Proof.
  unfold R, reach. intros H. apply clos_rt_rtn1 in H. destruct H as [|y z [_ E] _]; auto.
  destruct Hwf as [_ Hd]. eapply Hd; eauto.
Qed.

(* scanning the dependencies of one node *)
Lemma scan_fold ds : forall work visited,
  NoDup visited -> incl work visited ->
  exists newly,
    fold_left scan ds (work, visited) = (work ++ newly, rev newly ++ visited) /\
    NoDup (rev newly ++ visited) /\
    (forall x, In x newly <-> In x ds /\ ~ In x visited).
Proof.
  induction ds as [|d ds IH]; intros work visited Hnd Hinc.
  - exists []. simpl. rewrite app_nil_r. repeat split; auto; tauto.
  - cbn [fold_left scan]. destruct (mem d visited) eqn:E.
    + apply mem_In in E. destruct (IH work visited Hnd Hinc) as (newly & E1 & H1 & H2).
      exists newly. split; [exact E1|]. split; [exact H1|].
      intros x. rewrite H2. simpl. split; [tauto|]. intros [[->|H] Hn]; [contradiction|tauto].
    + assert (Hd : ~ In d visited) by (intro H; apply mem_In in H; congruence).
      destruct (IH (work ++ [d]) (d :: visited)) as (newly & E1 & H1 & H2).
      * constructor; auto.
      * intros x Hx. apply in_app_or in Hx as [Hx|[->|[]]]; [right; auto | left; auto].
      * exists (d :: newly). rewrite E1. split; [|split].
        -- simpl. rewrite <- !app_assoc. reflexivity.
        -- simpl. rewrite <- app_assoc. exact H1.
        -- intros x. simpl. rewrite H2. simpl. split.
           ++ intros [->|[H3 H4]]; [tauto|]. split; [tauto|]. intro; apply H4; auto.
           ++ intros [[->|H3] H4]; [tauto|]. destruct (Nat.eq_dec d x) as [->|Hne]; [tauto|].
              right. split; auto. intros [->|H5]; [congruence|contradiction].
Qed.

Record BInv (work visited : list nat) (v : list bool) : Prop := {
  b_nd : NoDup visited;
  b_ndw : NoDup work;
  b_inc : incl work visited;
  b_reach : forall x, In x visited -> R x;
  b_closed : forall x, In x visited -> ~ In x work -> forall d, In d (deps g x) -> In d visited;
  b_root : In root visited;
  b_len : length v = size g;
  b_mark1 : forall x, In x visited -> ~ In x work -> nth x v false = b;
  b_mark2 : forall x, (~ In x visited \/ In x work) -> nth x v false = nth x v0 false
}.

Lemma visited_le visited : NoDup visited -> (forall x, In x visited -> R x) -> length visited <= size g.
Proof.
  intros Hnd Hr. rewrite <- (seq_length (size g) 0). apply NoDup_incl_length; auto.
  intros x Hx. apply in_seq. apply Hr, reach_lt in Hx. lia.
Qed.

Lemma bfs_spec fuel : forall work visited v,
  BInv work visited v -> size g - length visited + length work < fuel ->
  exists v', bfs fuel g work visited v b = Some v' /\ length v' = size g /\
             (forall x, R x -> nth x v' false = b) /\
             (forall x, ~ R x -> nth x v' false = nth x v0 false) /\
             (forall x, R x \/ ~ R x).
Proof.
  induction fuel as [|f IH]; intros work visited v I Hm; [lia|].
  destruct work as [|n w].
  - exists v. split; [reflexivity|]. split; [apply (b_len _ _ _ I)|].
    assert (Hall : forall x, R x -> In x visited).
    { intros x Hx. unfold R, reach in Hx. apply clos_rt_rtn1 in Hx.
      induction Hx as [|y z [_ E] _ IHx]; [apply (b_root _ _ _ I)|].
      eapply (b_closed _ _ _ I); eauto. }
    split; [|split].
    + intros x Hx. apply (b_mark1 _ _ _ I); auto.
    + intros x Hx. apply (b_mark2 _ _ _ I). left. intro Hin. apply Hx. apply (b_reach _ _ _ I). exact Hin.
    + intros x. destruct (in_dec Nat.eq_dec x visited) as [Hin|Hin].
      * left. apply (b_reach _ _ _ I). exact Hin.
      * right. intro Hx. apply Hin, Hall, Hx.
  - cbn [bfs].
    pose proof (b_ndw _ _ _ I) as Hndw. inversion Hndw as [|? ? Hnw Hndw']; subst.
    assert (Hincw : incl w visited) by (intros x Hx; apply (b_inc _ _ _ I); right; exact Hx).
    assert (Hnv : In n visited) by (apply (b_inc _ _ _ I); left; reflexivity).
    assert (HnR : R n) by (apply (b_reach _ _ _ I); exact Hnv).
    assert (HnN : n < size g) by (apply reach_lt; exact HnR).
    destruct (scan_fold (deps g n) w visited (b_nd _ _ _ I) Hincw) as (newly & E & Hnd' & Hnew).
    rewrite E.
    assert (Hndn : NoDup newly).
    { apply NoDup_app_iff in Hnd' as [H _]. apply NoDup_rev in H. rewrite rev_involutive in H. exact H. }
    assert (Hvis' : forall x, In x (rev newly ++ visited) <-> In x newly \/ In x visited).
    { intros x. rewrite in_app_iff, <- in_rev. tauto. }
    assert (I' : BInv (w ++ newly) (rev newly ++ visited) (upd v n (fun _ => b))).
    { constructor.
      - exact Hnd'.
      - apply NoDup_app_iff. split; [exact Hndw'|]. split; [exact Hndn|].
        intros x Hx1 Hx2. apply Hnew in Hx2 as [_ Hx2]. apply Hx2, Hincw, Hx1.
      - intros x Hx. apply Hvis'. apply in_app_or in Hx as [Hx|Hx]; [right; apply Hincw; exact Hx | left; exact Hx].
      - intros x Hx. apply Hvis' in Hx as [Hx|Hx]; [|apply (b_reach _ _ _ I); exact Hx].
        apply Hnew in Hx as [Hx _]. unfold R, reach. eapply rt_trans; [exact HnR|]. apply rt_step. split; auto.
      - intros x Hx Hnx d Hd. apply Hvis'.
        assert (Hxnn : ~ In x newly) by (intro; apply Hnx; apply in_or_app; right; assumption).
        assert (Hxw : ~ In x w) by (intro; apply Hnx; apply in_or_app; left; assumption).
        apply Hvis' in Hx as [Hx|Hx]; [contradiction|].
        destruct (Nat.eq_dec x n) as [->|Hne].
        + destruct (in_dec Nat.eq_dec d visited) as [Hdv|Hdv]; [right; exact Hdv|].
          left. apply Hnew. split; assumption.
        + right. eapply (b_closed _ _ _ I); eauto. intros [->|Hin]; [congruence|contradiction].
      - apply Hvis'. right. apply (b_root _ _ _ I).
      - rewrite upd_length. apply (b_len _ _ _ I).
      - intros x Hx Hnx.
        assert (Hxnn : ~ In x newly) by (intro; apply Hnx; apply in_or_app; right; assumption).
        assert (Hxw : ~ In x w) by (intro; apply Hnx; apply in_or_app; left; assumption).
        apply Hvis' in Hx as [Hx|Hx]; [contradiction|].
        destruct (Nat.eq_dec x n) as [->|Hne].
        + rewrite nth_upd_same; [reflexivity|]. rewrite (b_len _ _ _ I). exact HnN.
        + rewrite nth_upd_other by congruence. apply (b_mark1 _ _ _ I); auto.
          intros [->|Hin]; [congruence|contradiction].
      - intros x Hx.
        assert (Hxn : x <> n).
        { intros ->. destruct Hx as [Hx|Hx].
          - apply Hx. apply Hvis'. right. exact Hnv.
          - apply in_app_or in Hx as [Hx|Hx]; [contradiction|]. apply Hnew in Hx as [_ Hx]. contradiction. }
        rewrite nth_upd_other by congruence. apply (b_mark2 _ _ _ I).
        destruct Hx as [Hx|Hx].
        + left. intro Hin. apply Hx. apply Hvis'. right. exact Hin.
        + apply in_app_or in Hx as [Hx|Hx]; [right; right; exact Hx|].
          left. apply Hnew in Hx as [_ Hx]. exact Hx. }
    apply (IH _ _ _ I').
    assert (Hle' : length (rev newly ++ visited) <= size g)
      by (apply visited_le; [exact Hnd' | apply (b_reach _ _ _ I')]).
    rewrite !app_length, rev_length in *. simpl in Hm. lia.
Qed.

End W.
Print Assumptions bfs_spec.
