From Coq Require Import List Arith NArith Bool Lia.
From MR Require Import Model.Reader Model.Compressor.
Import ListNotations.

Section P.
Variable T : nat.
Hypothesis HT : 0 < T.

Lemma reg_inj r r' : thread_of T r = thread_of T r' -> index_of T r = index_of T r' -> r = r'.
Proof.
  unfold thread_of, index_of. intros H1 H2.
  rewrite (Nat.div_mod r T) by lia. rewrite (Nat.div_mod r' T) by lia. rewrite H1, H2. reflexivity.
Qed.

(* written ++ still queued = everything the owner of (thread, index) sent, and nothing else *)
Definition CInv (s : cst) (sent : nat -> bytes) : Prop :=
  forall r, file s (thread_of T r) (index_of T r) ++ pending s (thread_of T r) (index_of T r) = sent r.

Lemma pending_app s k i l :
  concat (map snd (filter (fun '(i', _) => i' =? i) (queue s k ++ l))) =
  pending s k i ++ concat (map snd (filter (fun '(i', _) => i' =? i) l)).
Proof. unfold pending. rewrite filter_app, map_app, concat_app. reflexivity. Qed.

Lemma cstep_inv s sent c : CInv s sent ->
  CInv (cstep T s c) (fun r => match c with CSend r' d => if r' =? r then sent r ++ d else sent r | CRecv _ => sent r end).
Proof.
  intros H. destruct c as [r' d|k]; intros r; simpl.
  - unfold pending. simpl. destruct (Nat.eqb_spec (thread_of T r) (thread_of T r')) as [Et|Et].
    + rewrite pending_app. simpl. destruct (Nat.eqb_spec (index_of T r') (index_of T r)) as [Ei|Ei].
      * assert (r' = r) by (apply reg_inj; congruence). subst r'. rewrite Nat.eqb_refl. simpl.
        rewrite app_nil_r, app_assoc. f_equal. apply H.
      * destruct (Nat.eqb_spec r' r) as [->|Hne]; [congruence|]. simpl. rewrite app_nil_r. apply H.
    + destruct (Nat.eqb_spec r' r) as [->|Hne]; [congruence|]. apply H.
  - destruct (queue s k) as [|[i d] rest] eqn:Eq; [apply H|]. unfold pending. simpl.
    specialize (H r). unfold pending in H.
    destruct (Nat.eqb_spec (thread_of T r) k) as [Ek|Ek]; simpl.
    + subst k. rewrite Eq in H. simpl in H. destruct (Nat.eqb_spec (index_of T r) i) as [Ei|Ei].
      * subst i. rewrite Nat.eqb_refl in H. simpl in H. rewrite <- app_assoc. exact H.
      * assert (Ei' : (i =? index_of T r) = false) by (apply Nat.eqb_neq; congruence). rewrite Ei' in H. exact H.
    + exact H.
Qed.

Fixpoint sent_acc (cs : list cchoice) (sent : nat -> bytes) : nat -> bytes :=
  match cs with
  | [] => sent
  | c :: rest => sent_acc rest (fun r => match c with CSend r' d => if r' =? r then sent r ++ d else sent r | CRecv _ => sent r end)
  end.

Lemma sent_acc_spec cs : forall sent r, sent_acc cs sent r = sent r ++ sent_by r cs.
Proof.
  induction cs as [|c cs IH]; intros sent r; simpl; [rewrite app_nil_r; reflexivity|].
  rewrite IH. destruct c as [r' d|k]; [|reflexivity]. destruct (r' =? r); [rewrite <- app_assoc|]; reflexivity.
Qed.

Lemma crun_inv cs : forall s sent, CInv s sent -> CInv (fold_left (cstep T) cs s) (sent_acc cs sent).
Proof.
  induction cs as [|c cs IH]; intros s sent H; simpl; auto. apply IH. apply cstep_inv. exact H.
Qed.

(* C08, isolation part: under every interleaving of the clients' sends and the threads' receives,
   the bytes written to a file plus those still queued for it are exactly what its own client sent, in order;
   once the queues are drained each file holds its own task's bytes and nothing from any other task *)
Theorem compressor_isolated cs r :
  file (crun T cs) (thread_of T r) (index_of T r) ++ pending (crun T cs) (thread_of T r) (index_of T r) = sent_by r cs.
Proof.
  pose proof (crun_inv cs (cinit) (fun _ => [])) as H. unfold crun.
  rewrite <- (app_nil_l (sent_by r cs)). rewrite <- (sent_acc_spec cs (fun _ => []) r). apply H.
  intros r0. reflexivity.
Qed.

Corollary compressor_drained cs r :
  queue (crun T cs) (thread_of T r) = [] -> file (crun T cs) (thread_of T r) (index_of T r) = sent_by r cs.
Proof.
  intros Hq. pose proof (compressor_isolated cs r) as H. unfold pending in H. rewrite Hq in H. simpl in H.
  rewrite app_nil_r in H. exact H.
Qed.
End P.
