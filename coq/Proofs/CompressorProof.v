From Coq Require Import List Arith NArith Bool Lia.
From MR Require Import Model.Reader Model.Compressor.
Import ListNotations.

Section P.
Variable T : nat.
Hypothesis HT : 0 < T.

Lemma reg_inj r r' : thread_of T r = thread_of T r' -> index_of T r = index_of T r' -> r = r'.
Proof.
  unfold thread_of, index_of. intros H1 H2.
  rewrite (Nat.div_mod r T) by lia. rewrite (Nat.div_mod r' T) by lia. rewrite H1, H2. reflexivity.
Qed.

(* written ++ still queued = everything the owner of (thread, index) sent, and nothing else *)
Definition CInv (s : cst) (sent : nat -> bytes) : Prop :=
  forall r, file s (thread_of T r) (index_of T r) ++ pending s (thread_of T r) (index_of T r) = sent r.

Lemma pending_app s k i l :
  concat (map snd (filter (fun '(i', _) => i' =? i) (queue s k ++ l))) =
  pending s k i ++ concat (map snd (filter (fun '(i', _) => i' =? i) l)).
Proof. unfold pending. rewrite filter_app, map_app, concat_app. reflexivity. Qed.

Lemma cstep_inv s sent c : CInv s sent ->
  CInv (cstep T s c) (fun r => match c with CSend r' d => if r' =? r then sent r ++ d else sent r | CRecv _ => sent r end).
Proof.
  intros H. destruct c as [r' d|k]; intros r; simpl.
  - unfold pending. simpl. destruct (Nat.eqb_spec (thread_of T r) (thread_of T r')) as [Et|Et].
    + rewrite pending_app. simpl. destruct (Nat.eqb_spec (index_of T r') (index_of T r)) as [Ei|Ei].
      * assert (r' = r) by (apply reg_inj; congruence). subst r'. rewrite Nat.eqb_refl. simpl.
        rewrite app_nil_r, app_assoc. f_equal. apply H.
      * destruct (Nat.eqb_spec r' r) as [->|Hne]; [congruence|]. simpl. rewrite app_nil_r. apply H.
    + destruct (Nat.eqb_spec r' r) as [->|Hne]; [congruence|]. apply H.
  - destruct (queue s k) as [|[i d] rest] eqn:Eq; [apply H|]. unfold pending. simpl.
    specialize (H r). unfold pending in H.
    destruct (Nat.eqb_spec (thread_of T r) k) as [Ek|Ek]; simpl.
    + subst k. rewrite Eq in H. simpl in H. destruct (Nat.eqb_spec (index_of T r) i) as [Ei|Ei].
      * subst i. rewrite Nat.eqb_refl in H. simpl in H. rewrite <- app_assoc. exact H.
      * assert (Ei' : (i =? index_of T r) = false) by (apply Nat.eqb_neq; congruence). rewrite Ei' in H. exact H.
    + exact H.
Qed.

Fixpoint sent_acc (cs : list cchoice) (sent : nat -> bytes) : nat -> bytes :=
  match cs with
  | [] => sent
  | c :: rest => sent_acc rest (fun r => match c with CSend r' d => if r' =? r then sent r ++ d else sent r | CRecv _ => sent r end)
  end.

Lemma sent_acc_spec cs : forall sent r, sent_acc cs sent r = sent r ++ sent_by r cs.
Proof.
  induction cs as [|c cs IH]; intros sent r; simpl; [rewrite app_nil_r; reflexivity|].
  rewrite IH. destruct c as [r' d|k]; [|reflexivity]. destruct (r' =? r); [rewrite <- app_assoc|]; reflexivity.
Qed.

Lemma crun_inv cs : forall s sent, CInv s sent -> CInv (fold_left (cstep T) cs s) (sent_acc cs sent).
Proof.
  induction cs as [|c cs IH]; intros s sent H; simpl; auto. apply IH. apply cstep_inv. exact H.
Qed.

(* C08, isolation part: under every interleaving of the clients' sends and the threads' receives,
   the bytes written to a file plus those still queued for it are exactly what its own client sent, in order;
   once the queues are drained each file holds its own task's bytes and nothing from any other task *)
Theorem compressor_isolated cs r :
  file (crun T cs) (thread_of T r) (index_of T r) ++ pending (crun T cs) (thread_of T r) (index_of T r) = sent_by r cs.
Proof.
  pose proof (crun_inv cs (cinit) (fun _ => [])) as H. unfold crun.
  rewrite <- (app_nil_l (sent_by r cs)). rewrite <- (sent_acc_spec cs (fun _ => []) r). apply H.
  intros r0. reflexivity.
Qed.

Corollary compressor_drained cs r :
  queue (crun T cs) (thread_of T r) = [] -> file (crun T cs) (thread_of T r) (index_of T r) = sent_by r cs.
Proof.
  intros Hq. pose proof (compressor_isolated cs r) as H. unfold pending in H. rewrite Hq in H. simpl in H.
  rewrite app_nil_r in H. exact H.
Qed.

(* ... and the queues do drain: after as many receives by its thread as there are requests queued for it, a file holds
   exactly what its client sent - whatever else happened before (liveness of the isolation clause) *)
Lemma recv_queue s k : queue (cstep T s (CRecv k)) k = tl (queue s k).
Proof. simpl. destruct (queue s k) as [|[i d] rest] eqn:E; simpl; [rewrite E; reflexivity|rewrite Nat.eqb_refl; reflexivity]. Qed.

Lemma recvs_queue k n : forall s, queue (fold_left (cstep T) (repeat (CRecv k) n) s) k = skipn n (queue s k).
Proof.
  induction n as [|n IH]; intros s; [reflexivity|]. cbn [repeat fold_left].
  rewrite IH, recv_queue. destruct (queue s k); simpl; [rewrite skipn_nil; reflexivity|reflexivity].
Qed.

Lemma sent_by_recvs r k n : forall cs, sent_by r (cs ++ repeat (CRecv k) n) = sent_by r cs.
Proof.
  induction cs as [|c cs IH]; simpl.
  - induction n as [|n IHn]; simpl; auto.
  - destruct c; rewrite IH; reflexivity.
Qed.

Theorem compressor_drains cs r :
  let k := thread_of T r in
  let cs' := cs ++ repeat (CRecv k) (length (queue (crun T cs) k)) in
  file (crun T cs') k (index_of T r) = sent_by r cs.
Proof.
  intros k cs'. rewrite <- (sent_by_recvs r k (length (queue (crun T cs) k)) cs). apply compressor_drained.
  unfold cs', crun. rewrite fold_left_app. fold (crun T cs). rewrite recvs_queue. apply skipn_all.
Qed.
End P.

(* ---------- the shutdown protocol never makes a send fail (C06: no internal error) ---------- *)
Section SD.
Variable T n : nat.
Hypothesis HT : 0 < T.

Notation sstep := (sstep T n true).
Notation nclients := (nclients T n).

Definition qshut (q : list smsg) : nat := length (filter (fun m => match m with MShutdown => true | MData => false end) q).
Definition ndone (s : sst) (k : nat) : nat := length (filter (fun r => (r mod T =? k) && cdone s r) (seq 0 n)).

Record SInvC (s : sst) : Prop := {
  sc_count : forall k, alive s k = true -> got s k + qshut (squeue s k) = ndone s k;
  sc_dead : forall k, alive s k = false -> forall r, r < n -> r mod T = k -> cdone s r = true;
  sc_ok : send_failed s = false
}.

Lemma filter_length_le {A} (f g : A -> bool) l : (forall x, f x = true -> g x = true) -> length (filter f l) <= length (filter g l).
Proof.
  intros H. induction l as [|x l IH]; simpl; auto. destruct (f x) eqn:Ef.
  - rewrite (H x Ef). simpl. lia.
  - destruct (g x); simpl; lia.
Qed.

Lemma ndone_le s k : ndone s k <= nclients k.
Proof. apply filter_length_le. intros x H. apply andb_true_iff in H. tauto. Qed.

(* if every client of k counted so far is done, the two counts coincide; conversely equality forces all done *)
Lemma all_done_of_count s k : ndone s k = nclients k -> forall r, r < n -> r mod T = k -> cdone s r = true.
Proof.
  unfold ndone, Compressor.nclients. intros H r Hr Hk.
  assert (Hin : In r (seq 0 n)) by (apply in_seq; lia).
  revert H Hin. generalize (seq 0 n). induction l as [|x l IH]; simpl; [intros _ []|].
  destruct (Nat.eqb_spec (x mod T) k) as [Ex|Ex]; simpl.
  - destruct (cdone s x) eqn:Ed; simpl.
    + intros H [->|Hin]; auto.
    + intros H. exfalso.
      assert (length (filter (fun r0 => (r0 mod T =? k) && cdone s r0) l) <= length (filter (fun r0 => r0 mod T =? k) l))
        by (apply filter_length_le; intros y Hy; apply andb_true_iff in Hy; tauto). lia.
  - intros H [->|Hin]; [congruence|auto].
Qed.

Lemma ndone_mark s r k (Hr : r < n) (Hd : cdone s r = false) :
  length (filter (fun r' => (r' mod T =? k) && (if r' =? r then true else cdone s r')) (seq 0 n)) =
  ndone s k + (if r mod T =? k then 1 else 0).
Proof.
  unfold ndone. assert (Hnd : NoDup (seq 0 n)) by apply seq_NoDup.
  assert (Hin : In r (seq 0 n)) by (apply in_seq; lia).
  revert Hnd Hin. generalize (seq 0 n). induction l as [|x l IH]; intros Hnd Hin; [destruct Hin|].
  inversion Hnd as [|? ? Hnx Hnd']; subst. simpl.
  destruct (Nat.eqb_spec x r) as [->|Hne].
  - rewrite Hd, andb_true_r, andb_false_r.
    assert (Hrest : filter (fun r' => (r' mod T =? k) && (if r' =? r then true else cdone s r')) l =
                    filter (fun r' => (r' mod T =? k) && cdone s r') l).
    { apply filter_ext_in. intros y Hy. destruct (Nat.eqb_spec y r) as [->|]; [contradiction|reflexivity]. }
    rewrite Hrest. destruct (r mod T =? k); simpl; lia.
  - destruct Hin as [E|Hin]; [congruence|]. specialize (IH Hnd' Hin).
    destruct ((x mod T =? k) && cdone s x); simpl; rewrite IH; lia.
Qed.

Lemma qshut_app q m : qshut (q ++ [m]) = qshut q + match m with MShutdown => 1 | MData => 0 end.
Proof. unfold qshut. rewrite filter_app, app_length. destruct m; simpl; lia. Qed.

Lemma sstep_inv s c : SInvC s -> SInvC (sstep s c).
Proof.
  intros [Hc Hd Hok]. assert (I0 : SInvC s) by (constructor; assumption).
  destruct c as [r|r|k]; simpl.
  - (* data *)
    destruct (Nat.ltb_spec r n) as [Hr|Hr]; simpl; [|exact I0].
    destruct (cdone s r) eqn:Ed; simpl; [exact I0|].
    unfold enqueue. destruct (alive s (r mod T)) eqn:Ea.
    + refine {| sc_count := _; sc_dead := _; sc_ok := _ |}; simpl.
      * intros k Hk. unfold ndone. simpl. destruct (Nat.eqb_spec k (r mod T)) as [->|Hne].
        -- rewrite qshut_app. simpl. rewrite Nat.add_0_r. apply Hc. exact Hk.
        -- apply Hc. exact Hk.
      * exact Hd.
      * exact Hok.
    + exfalso. rewrite (Hd (r mod T) Ea r Hr eq_refl) in Ed. discriminate.
  - (* shutdown *)
    destruct (Nat.ltb_spec r n) as [Hr|Hr]; simpl; [|exact I0].
    destruct (cdone s r) eqn:Ed; simpl; [exact I0|].
    unfold enqueue. destruct (alive s (r mod T)) eqn:Ea.
    + refine {| sc_count := _; sc_dead := _; sc_ok := _ |}; simpl.
      * intros k Hk. unfold ndone. simpl. rewrite (ndone_mark s r k Hr Ed).
        destruct (Nat.eqb_spec k (r mod T)) as [->|Hne].
        -- rewrite Nat.eqb_refl, qshut_app. simpl. rewrite Nat.add_assoc. f_equal. apply Hc. exact Hk.
        -- destruct (Nat.eqb_spec (r mod T) k); [congruence|]. rewrite Nat.add_0_r. apply Hc. exact Hk.
      * intros k Hk r' Hr' Hk'. destruct (Nat.eqb_spec r' r); auto. eapply Hd; eauto.
      * exact Hok.
    + exfalso. rewrite (Hd (r mod T) Ea r Hr eq_refl) in Ed. discriminate.
  - (* receive *)
    destruct (alive s k) eqn:Ea; [|exact I0].
    destruct (squeue s k) as [|[|] rest] eqn:Eq; [exact I0| |].
    + refine {| sc_count := _; sc_dead := _; sc_ok := _ |}; simpl.
      * intros k' Hk'. unfold ndone. simpl. destruct (Nat.eqb_spec k' k) as [->|Hne].
        -- pose proof (Hc k Ea) as H. rewrite Eq in H. unfold qshut in *. simpl in H. exact H.
        -- apply Hc. exact Hk'.
      * exact Hd.
      * exact Hok.
    + pose proof (Hc k Ea) as H. rewrite Eq in H. unfold qshut in H. simpl in H. fold (qshut rest) in H.
      refine {| sc_count := _; sc_dead := _; sc_ok := _ |}; simpl.
      * intros k' Hk'. unfold ndone. simpl. destruct (Nat.eqb_spec k' k) as [E|Hne].
        -- rewrite E. fold (ndone s k). lia.
        -- apply Hc. exact Hk'.
      * intros k' Hk' r Hr Hrk. destruct (Nat.eqb_spec k' k) as [E|Hne]; [|eapply Hd; eauto].
        apply negb_false_iff, Nat.leb_le in Hk'. rewrite E in Hrk.
        apply (all_done_of_count s k); auto. pose proof (ndone_le s k). lia.
      * exact Hok.
Qed.

Lemma sinit_inv : SInvC (sinit).
Proof.
  refine {| sc_count := _; sc_dead := _; sc_ok := _ |}; simpl.
  - intros k _. unfold ndone, qshut. simpl.
    assert (E : filter (fun r => (r mod T =? k) && false) (seq 0 n) = []).
    { induction (seq 0 n) as [|x l IH]; simpl; auto. rewrite andb_false_r. exact IH. }
    rewrite E. reflexivity.
  - intros k H. discriminate H.
  - reflexivity.
Qed.

(* for every interleaving of the clients' sends and the threads' receives, no send ever finds its channel closed *)
Theorem shutdown_never_fails cs : send_failed (srun T n true cs) = false.
Proof.
  assert (H : SInvC (srun T n true cs)).
  { unfold srun. rewrite <- (rev_involutive cs). induction (rev cs) as [|c l IH]; simpl; [apply sinit_inv|].
    rewrite fold_left_app. simpl. apply sstep_inv. exact IH. }
  apply H.
Qed.
End SD.

(* the pinned commit (a thread leaves at the first Shutdown): two clients on one thread, the second send fails *)
Lemma shutdown_as_found_fails :
  send_failed (srun 2 4 false [SShutdown 0; SRecv 0; SShutdown 2]) = true.
Proof. reflexivity. Qed.
