(* Accounting invariant of the scheduler model: every planned task before the cursor has exactly one result
   entry or is awaiting its reap; result entries tell the truth about what was started and how it exited;
   the failure latch is set exactly when some entry is a failure.  Used by C05 and C06. *)
From Coq Require Import List Arith Bool Lia FinFun.
From MR Require Import Lib.ListX Model.Sched Proofs.SchedProof.
Import ListNotations.

Definition is_run (r : status) : Prop := r = Success \/ exists c, r = Error c.
Definition bad (fou : bool) (r : status) : Prop :=
  (exists c, r = Error c) \/ r = SNotExec \/ (fou = true /\ r = SUndefined).

Lemma f_equal_dec (a b : task) : a = b \/ a <> b.
Proof. destruct a as [[a1 a2] a3], b as [[b1 b2] b3].
  destruct (Nat.eq_dec a1 b1), (Nat.eq_dec a2 b2), (Nat.eq_dec a3 b3); subst; auto; right; congruence. Qed.

Lemma NoDup_fst_unique {A B} (l : list (A * B)) a b b' :
  NoDup (map fst l) -> In (a, b) l -> In (a, b') l -> b = b'.
Proof.
  induction l as [|[x y] l IH]; simpl; intros Hnd H1 H2; [destruct H1|].
  inversion Hnd as [|? ? Hn Hnd']; subst.
  destruct H1 as [E1|H1], H2 as [E2|H2].
  - congruence.
  - inversion E1; subst. exfalso. apply Hn. apply in_map_iff. exists (a, b'). auto.
  - inversion E2; subst. exfalso. apply Hn. apply in_map_iff. exists (a, b). auto.
  - eapply IH; eauto.
Qed.

Lemma NoDup_app_iff' {A} (l1 l2 : list A) :
  NoDup (l1 ++ l2) <-> NoDup l1 /\ NoDup l2 /\ (forall x, In x l1 -> In x l2 -> False).
Proof.
  induction l1 as [|a l1 IH]; simpl.
  - split; [intros H; repeat split; auto; constructor | intros (_ & H & _); exact H].
  - rewrite !NoDup_cons_iff, IH, in_app_iff. split.
    + intros (Hn & H1 & H2 & H3). repeat split; auto.
      intros x [->|Hx] Hx2; [apply Hn; auto | eapply H3; eauto].
    + intros ((Hn & H1) & H2 & H3). repeat split; auto.
      * intros [H|H]; [auto | eapply H3; eauto].
      * intros x Hx Hx2. eapply H3; eauto.
Qed.

Lemma spawns_In tr t : In t (spawns tr) <-> In (Spawn t) tr.
Proof.
  unfold spawns. rewrite in_flat_map. split.
  - intros (e & He & Ht). destruct e; simpl in Ht; [destruct Ht as [->|[]]; exact He | destruct Ht].
  - intros H. exists (Spawn t). split; auto. left. reflexivity.
Qed.

Section F.
Variable P : plan.
Variable fou : bool.
Variable code : task -> nat.

Definition planned (t : task) : Prop := defn_at P t <> None.

Record FInv (s : st) : Prop := {
  f_res : forall t r, In (t, r) (results s) -> planned t /\ bound s t;
  f_trk : forall t, In t (tracked s) -> planned t /\ In (Spawn t) (trace s);
  f_cov : forall t, planned t -> bound s t -> In t (map fst (results s)) \/ In t (tracked s);
  f_nd : NoDup (map fst (results s) ++ tracked s);
  f_sp : forall t, In (Spawn t) (trace s) -> In t (tracked s) \/ exists r, In (t, r) (results s) /\ is_run r;
  f_run : forall t r, In (t, r) (results s) -> is_run r -> In (Spawn t) (trace s);
  f_nrun : forall t r, In (t, r) (results s) -> ~ is_run r -> ~ In (Spawn t) (trace s);
  f_nds : NoDup (spawns (trace s));
  f_ex : forall t, In t (exited s) -> In (Exit t (code t)) (trace s);
  f_ok : forall t, In (t, Success) (results s) -> In (Exit t 0) (trace s) /\ code t = 0;
  f_err : forall t k, In (t, Error (Some k)) (results s) -> In (Exit t k) (trace s) /\ k = code t /\ k <> 0;
  f_fail : failed s = true <-> exists t r, In (t, r) (results s) /\ bad fou r;
  f_skip : forall t, In (t, Skipped) (results s) -> failed s = true;
  f_fin : ph s = Finished -> nth_error P (cpos s) = None /\ tracked s = []
}.

Lemma FInv_init : FInv init.
Proof.
  constructor; simpl.
  - intros t r [].
  - intros t [].
  - intros t _ Hb. unfold bound in Hb. simpl in Hb. destruct t as [[tc tg] tk]. simpl in Hb. lia.
  - constructor.
  - intros t [].
  - intros t r [].
  - intros t r [].
  - constructor.
  - intros t [].
  - intros t [].
  - intros t k [].
  - split; [discriminate|]. intros (t & r & [] & _).
  - intros t [].
  - discriminate.
Qed.

(* transitions that only move the cursor *)
Lemma FInv_move s s' : FInv s ->
  tracked s' = tracked s -> exited s' = exited s -> results s' = results s -> trace s' = trace s -> failed s' = failed s ->
  (forall t, bound s t -> bound s' t) ->
  (forall t, planned t -> bound s' t -> bound s t) ->
  (ph s' = Finished -> nth_error P (cpos s') = None /\ tracked s = []) ->
  FInv s'.
Proof.
  intros I Et Ee Er Etr Ef Hb1 Hb2 Hfin. destruct I.
  constructor; rewrite ?Et, ?Ee, ?Er, ?Etr, ?Ef; auto.
  all: try (intros t r H; destruct (f_res0 t r H); split; auto; fail).
  all: try (intros H; destruct (Hfin H); split; auto; fail).
Qed.

Lemma not_run_skipped : ~ is_run Skipped. Proof. intros [H|[c H]]; discriminate. Qed.
Lemma not_run_undef : ~ is_run SUndefined. Proof. intros [H|[c H]]; discriminate. Qed.
Lemma not_run_notexec : ~ is_run SNotExec. Proof. intros [H|[c H]]; discriminate. Qed.

Lemma lexlt_self c g k : ~ lexlt (c, g, k) c g k.
Proof. simpl. lia. Qed.

Lemma lexlt_succ t c g k : lexlt t c g (S k) <-> lexlt t c g k \/ t = (c, g, k).
Proof.
  destruct t as [[tc tg] tk]. simpl. split.
  - intros H. destruct (Nat.eq_dec tc c), (Nat.eq_dec tg g), (Nat.eq_dec tk k); subst; auto; left; lia.
  - intros [H|H]; [lia|]. inversion H; subst. lia.
Qed.

(* a result for the task at the cursor that does not start anything: Skipped / SUndefined / SNotExec *)
Lemma FInv_with_result s k r f :
  SInv P s -> FInv s -> ph s = Spawning k -> planned (cpos s, gpos s, k) -> ~ is_run r ->
  (r = Skipped -> failed s = true) ->
  (failed s = false -> (f = true <-> bad fou r)) ->
  FInv (with_result s (cpos s, gpos s, k) r f (S k)).
Proof.
  intros SI I Eph Hpl Hnr Hsk Hf. pose proof I as I0. destruct I.
  set (t0 := (cpos s, gpos s, k)).
  assert (Hb : forall t, bound s t <-> lexlt t (cpos s) (gpos s) k) by (intros t; unfold bound; rewrite Eph; reflexivity).
  assert (Hb' : forall t, bound (with_result s t0 r f (S k)) t <-> bound s t \/ t = t0).
  { intros t. unfold bound at 1. simpl. rewrite lexlt_succ, <- Hb. unfold t0. reflexivity. }
  assert (Hfresh1 : ~ In t0 (map fst (results s))).
  { intros H. apply in_map_iff in H as ((t, r') & E & Hin). simpl in E. subst t.
    destruct (f_res0 _ _ Hin) as [_ Hbd]. apply Hb in Hbd. exact (lexlt_self _ _ _ Hbd). }
  assert (Hfresh2 : ~ In t0 (tracked s)).
  { intros H. assert (Hbd : bound s t0) by (apply (i_bound _ _ SI); auto). apply Hb in Hbd. exact (lexlt_self _ _ _ Hbd). }
  assert (Hfresh3 : ~ In (Spawn t0) (trace s)).
  { intros H. destruct (f_sp0 _ H) as [H1|(r' & H1 & _)]; [auto|]. apply Hfresh1. apply in_map_iff. exists (t0, r'). auto. }
  constructor; simpl.
  - intros t r' [E|H]; [inversion E; subst; split; [exact Hpl | apply Hb'; auto]|].
    destruct (f_res0 _ _ H). split; auto. apply Hb'. auto.
  - exact f_trk0.
  - intros t Hp Hbd. apply Hb' in Hbd as [Hbd| ->]; [|left; left; reflexivity].
    destruct (f_cov0 t Hp Hbd); auto.
  - constructor; auto. rewrite in_app_iff. tauto.
  - intros t H. destruct (f_sp0 t H) as [H1|(r' & H1 & H2)]; eauto.
  - intros t r' [E|H] Hr; [inversion E; subst; contradiction | eauto].
  - intros t r' [E|H] Hr; [inversion E; subst; exact Hfresh3 | eauto].
  - exact f_nds0.
  - exact f_ex0.
  - intros t [E|H]; [inversion E; subst; exfalso; apply Hnr; left; reflexivity | auto].
  - intros t k' [E|H]; [inversion E; subst; exfalso; apply Hnr; right; eauto | auto].
  - destruct (failed s) eqn:Ef; simpl.
    + split; [intros _|reflexivity]. destruct (proj1 f_fail0 eq_refl) as (t & r' & H1 & H2). exists t, r'. auto.
    + specialize (Hf eq_refl). split.
      * intros H. exists t0, r. split; [left; reflexivity | apply Hf; exact H].
      * intros (t & r' & [E|H1] & H2).
        -- inversion E; subst. apply Hf. exact H2.
        -- exfalso. assert (false = true) by (apply f_fail0; eauto). discriminate.
  - intros t [E|H].
    + inversion E; subst. rewrite (Hsk eq_refl). reflexivity.
    + rewrite (f_skip0 t H). reflexivity.
  - discriminate.
Qed.

Lemma planned_cursor s cp grp k d :
  nth_error P (cpos s) = Some cp -> nth_error cp (gpos s) = Some grp -> nth_error grp k = Some d ->
  planned (cpos s, gpos s, k).
Proof. intros H1 H2 H3. unfold planned, defn_at. rewrite H1, H2, H3. discriminate. Qed.

Lemma FInv_spawn s k cp grp :
  SInv P s -> FInv s -> ph s = Spawning k -> failed s = false ->
  nth_error P (cpos s) = Some cp -> nth_error cp (gpos s) = Some grp -> nth_error grp k = Some Defined ->
  FInv {| cpos := cpos s; gpos := gpos s; ph := Spawning (S k); failed := false; cancelled := cancelled s;
          tracked := (cpos s, gpos s, k) :: tracked s; running := (cpos s, gpos s, k) :: running s; exited := exited s;
          results := results s; trace := Spawn (cpos s, gpos s, k) :: trace s |}.
Proof.
  intros SI I Eph Ef Ecp Egrp Ed. pose proof (planned_cursor s cp grp k _ Ecp Egrp Ed) as Hpl. destruct I.
  set (t0 := (cpos s, gpos s, k)).
  assert (Hb : forall t, bound s t <-> lexlt t (cpos s) (gpos s) k) by (intros t; unfold bound; rewrite Eph; reflexivity).
  assert (Hfresh1 : ~ In t0 (map fst (results s))).
  { intros H. apply in_map_iff in H as ((t, r') & E & Hin). simpl in E. subst t.
    destruct (f_res0 _ _ Hin) as [_ Hbd]. apply Hb in Hbd. exact (lexlt_self _ _ _ Hbd). }
  assert (Hfresh2 : ~ In t0 (tracked s)).
  { intros H. assert (Hbd : bound s t0) by (apply (i_bound _ _ SI); auto). apply Hb in Hbd. exact (lexlt_self _ _ _ Hbd). }
  assert (Hfresh3 : ~ In (Spawn t0) (trace s)).
  { intros H. destruct (f_sp0 _ H) as [H1|(r' & H1 & _)]; [auto|]. apply Hfresh1. apply in_map_iff. exists (t0, r'). auto. }
  constructor; simpl.
  - intros t r H. destruct (f_res0 _ _ H) as [H1 H2]. split; auto. unfold bound. simpl. apply lexlt_succ. left. apply Hb. exact H2.
  - intros t [<-|H]; [split; auto|]. destruct (f_trk0 t H). auto.
  - intros t Hp Hbd. unfold bound in Hbd. simpl in Hbd. apply lexlt_succ in Hbd as [Hbd| ->]; [|right; left; reflexivity].
    apply Hb in Hbd. destruct (f_cov0 t Hp Hbd); auto.
  - apply NoDup_app_iff'. apply NoDup_app_iff' in f_nd0 as (N1 & N2 & N3). split; [exact N1|]. split; [constructor; auto|].
    intros x Hx [<-|Hx2]; [auto | eapply N3; eauto].
  - intros t [E|H]; [inversion E; subst; left; left; reflexivity|].
    destruct (f_sp0 t H) as [H1|H1]; auto.
  - intros t r H Hr. right. eauto.
  - intros t r H Hr [E|H2]; [|eapply f_nrun0; eauto].
    inversion E; subst. apply Hfresh1. apply in_map_iff. exists (t0, r). auto.
  - constructor; auto. rewrite spawns_In. exact Hfresh3.
  - intros t H. right. auto.
  - intros t H. destruct (f_ok0 t H). split; auto.
  - intros t k' H. destruct (f_err0 t k' H) as (H1 & H2 & H3). repeat split; auto.
  - rewrite Ef in f_fail0. exact f_fail0.
  - intros t H. rewrite (f_skip0 t H) in Ef. discriminate.
  - discriminate.
Qed.

Lemma skip_command_In c cp t r :
  In (t, r) (skip_command c cp) <->
  r = Skipped /\ exists g k grp, t = (c, g, k) /\ nth_error cp g = Some grp /\ k < length grp.
Proof.
  unfold skip_command. rewrite in_flat_map. split.
  - intros ((g, grp) & Hc & Hin). apply in_map_iff in Hin as (k & E & Hk). inversion E; subst.
    split; auto. exists g, k, grp. apply in_seq in Hk. apply in_combine_seq in Hc as [_ Hc]. rewrite Nat.sub_0_r in Hc.
    split; auto. split; auto. lia.
  - intros (-> & g & k & grp & -> & Hg & Hk). exists (g, grp). split.
    + apply in_combine_seq. rewrite Nat.sub_0_r. split; [lia|exact Hg].
    + apply in_map_iff. exists k. split; auto. apply in_seq. lia.
Qed.

(* `if failed { results.push(create_skipped_result(..)); continue; }` *)
Lemma FInv_skip_command s cp :
  SInv P s -> FInv s -> ph s = Spawning 0 -> failed s = true -> gpos s = 0 ->
  nth_error P (cpos s) = Some cp ->
  FInv {| cpos := S (cpos s); gpos := 0; ph := Spawning 0; failed := true; cancelled := false;
          tracked := tracked s; running := running s; exited := exited s;
          results := skip_command (cpos s) cp ++ results s; trace := trace s |}.
Proof.
  intros SI I Eph Ef Eg Ecp. destruct I.
  assert (Htr : tracked s = []) by (apply (i_sp0 _ _ SI); exact Eph).
  assert (Hb : forall t, bound s t <-> lexlt t (cpos s) 0 0) by (intros t; unfold bound; rewrite Eph, Eg; reflexivity).
  assert (Hold : forall t, bound s t -> let '(tc, _, _) := t in tc < cpos s).
  { intros [[tc tg] tk] H. apply Hb in H. simpl in H. lia. }
  assert (Hnew : forall t r, In (t, r) (skip_command (cpos s) cp) -> let '(tc, _, _) := t in tc = cpos s).
  { intros t r H. apply skip_command_In in H as (_ & g & k & grp & -> & _). reflexivity. }
  constructor; simpl.
  - intros t r H. apply in_app_or in H as [H|H].
    + apply skip_command_In in H as (-> & g & k & grp & -> & Hg & Hk). split.
      * unfold planned, defn_at. rewrite Ecp, Hg. apply nth_error_Some. exact Hk.
      * unfold bound. simpl. lia.
    + destruct (f_res0 _ _ H) as [H1 H2]. split; auto. specialize (Hold t H2). destruct t as [[tc tg] tk]. unfold bound. simpl. lia.
  - exact f_trk0.
  - intros t Hp Hbd. left. rewrite map_app, in_app_iff.
    destruct t as [[tc tg] tk]. unfold bound in Hbd. simpl in Hbd.
    destruct (Nat.eq_dec tc (cpos s)) as [->|Hne].
    + left. unfold planned, defn_at in Hp. rewrite Ecp in Hp.
      destruct (nth_error cp tg) as [grp|] eqn:Eg'; [|congruence].
      apply in_map_iff. exists ((cpos s, tg, tk), Skipped). split; auto.
      apply skip_command_In. split; auto. exists tg, tk, grp. repeat split; auto. apply nth_error_Some. exact Hp.
    + right. assert (Hbd' : bound s (tc, tg, tk)) by (apply Hb; simpl; lia).
      destruct (f_cov0 _ Hp Hbd') as [H|H]; auto. rewrite Htr in H. destruct H.
  - rewrite Htr, app_nil_r in *. rewrite map_app. apply NoDup_app_iff'. split; [|split; [exact f_nd0|]].
    + (* the skipped entries are pairwise distinct *)
      unfold skip_command.
      assert (Hgen : forall (l : list (nat * group)), NoDup (map fst l) ->
                NoDup (map fst (flat_map (fun '(g, grp) => map (fun k => ((cpos s, g, k), Skipped)) (seq 0 (length grp))) l))).
      { induction l as [|[g grp] l IHl]; intros Hnd; simpl; [constructor|].
        inversion Hnd as [|? ? Hn Hnd']; subst. rewrite map_app. apply NoDup_app_iff'. split; [|split; [auto|]].
        - rewrite map_map. simpl. apply FinFun.Injective_map_NoDup; [|apply seq_NoDup]. intros x y E. inversion E. reflexivity.
        - intros x Hx Hy. rewrite map_map in Hx. apply in_map_iff in Hx as (k & <- & _). simpl in Hy.
          apply in_map_iff in Hy as ((t', r') & E & Hin). simpl in E. subst t'.
          apply in_flat_map in Hin as ((g', grp') & Hin' & Hin''). apply in_map_iff in Hin'' as (k' & E & _).
          apply Hn. apply in_map_iff. exists (g', grp'). split; [|exact Hin']. simpl. inversion E. reflexivity. }
      apply Hgen. clear. generalize 0. induction cp as [|x cp IH]; intros n; simpl; constructor.
      * intros H. apply in_map_iff in H as ((g, grp) & E & Hin). simpl in E. subst g.
        apply in_combine_l in Hin. apply in_seq in Hin. lia.
      * apply IH.
    + intros x Hx Hy. apply in_map_iff in Hx as ((t, r) & E & Hin). simpl in E. subst t.
      apply in_map_iff in Hy as ((t, r') & E & Hin'). simpl in E. subst t.
      specialize (Hnew _ _ Hin). destruct (f_res0 _ _ Hin') as [_ Hbd]. specialize (Hold _ Hbd).
      destruct x as [[tc tg] tk]. lia.
  - intros t H. destruct (f_sp0 t H) as [H1|(r & H1 & H2)]; [rewrite Htr in H1; destruct H1|].
    right. exists r. split; auto. apply in_or_app. right. exact H1.
  - intros t r H Hr. apply in_app_or in H as [H|H]; [|eauto].
    apply skip_command_In in H as (-> & _). exfalso. exact (not_run_skipped Hr).
  - intros t r H Hr Hs. apply in_app_or in H as [H|H]; [|eapply f_nrun0; eauto].
    specialize (Hnew _ _ H). destruct (f_sp0 t Hs) as [H1|(r' & H1 & _)]; [rewrite Htr in H1; destruct H1|].
    destruct (f_res0 _ _ H1) as [_ Hbd]. specialize (Hold _ Hbd). destruct t as [[tc tg] tk]. lia.
  - exact f_nds0.
  - exact f_ex0.
  - intros t H. apply in_app_or in H as [H|H]; [apply skip_command_In in H as (E & _); discriminate | auto].
  - intros t k H. apply in_app_or in H as [H|H]; [apply skip_command_In in H as (E & _); discriminate | auto].
  - split; [intros _|reflexivity]. destruct (proj1 f_fail0 Ef) as (t & r & H1 & H2). exists t, r. split; auto. apply in_or_app. right. exact H1.
  - reflexivity.
  - discriminate.
Qed.

Lemma FInv_child_exit s t : FInv s ->
  FInv {| cpos := cpos s; gpos := gpos s; ph := ph s; failed := failed s; cancelled := cancelled s;
          tracked := tracked s; running := tremove t (running s); exited := t :: exited s;
          results := results s; trace := Exit t (code t) :: trace s |}.
Proof.
  intros I. destruct I. constructor; simpl; auto.
  - intros t' H. destruct (f_trk0 t' H). split; auto.
  - intros t' [E|H]; [discriminate|auto].
  - intros t' r H Hr. right. eauto.
  - intros t' r H Hr [E|Hs]; [discriminate|eapply f_nrun0; eauto].
  - intros t' [<-|H]; [left; reflexivity|right; auto].
  - intros t' H. destruct (f_ok0 t' H). split; auto.
  - intros t' k H. destruct (f_err0 t' k H) as (H1 & H2 & H3). repeat split; auto.
Qed.

Lemma NoDup_move (l1 l2 : list task) t : In t l2 -> NoDup (l1 ++ l2) -> NoDup ((t :: l1) ++ tremove t l2).
Proof.
  intros Hin Hnd. apply NoDup_app_iff' in Hnd as (N1 & N2 & N3).
  simpl. constructor.
  - rewrite in_app_iff. intros [H|H]; [eapply N3; eauto|]. apply tremove_In in H as [_ H]. congruence.
  - apply NoDup_app_iff'. split; [exact N1|]. split.
    + unfold tremove. apply NoDup_filter. exact N2.
    + intros x Hx Hy. apply tremove_In in Hy as [Hy _]. eapply N3; eauto.
Qed.

(* a tracked task is reaped: it leaves the JoinSet and gets its entry *)
Lemma FInv_reap s t r (fl : bool) (cn : bool) :
  SInv P s -> FInv s -> ph s = Waiting -> In t (tracked s) -> is_run r ->
  (r = Success -> In (Exit t 0) (trace s) /\ code t = 0) ->
  (forall k, r = Error (Some k) -> In (Exit t k) (trace s) /\ k = code t /\ k <> 0) ->
  (fl = true <-> bad fou r) ->
  FInv {| cpos := cpos s; gpos := gpos s; ph := Waiting; failed := failed s || fl; cancelled := cn;
          tracked := tremove t (tracked s); running := running s; exited := exited s;
          results := (t, r) :: results s; trace := trace s |}.
Proof.
  intros SI I Eph Hin Hr Hok Herr Hfl. destruct I.
  assert (Hbs : forall t', bound {| cpos := cpos s; gpos := gpos s; ph := Waiting; failed := failed s || fl; cancelled := cn;
          tracked := tremove t (tracked s); running := running s; exited := exited s;
          results := (t, r) :: results s; trace := trace s |} t' <-> bound s t').
  { intros t'. unfold bound. simpl. rewrite Eph. reflexivity. }
  constructor; simpl.
  - intros t' r' [E|H].
    + inversion E; subst. destruct (f_trk0 _ Hin). split; auto. apply Hbs. apply (i_bound _ _ SI). auto.
    + destruct (f_res0 _ _ H). split; auto. apply Hbs. auto.
  - intros t' H. apply tremove_In in H as [H _]. auto.
  - intros t' Hp Hbd. apply Hbs in Hbd. destruct (f_cov0 t' Hp Hbd) as [H|H]; auto.
    destruct (f_equal_dec t' t) as [->|Hne]; auto. right. apply tremove_In. auto.
  - apply (NoDup_move (map fst (results s)) (tracked s) t Hin f_nd0).
  - intros t' H. destruct (f_sp0 t' H) as [H1|(r' & H1 & H2)].
    + destruct (f_equal_dec t' t) as [->|Hne]; [right; exists r; auto|]. left. apply tremove_In. auto.
    + right. exists r'. auto.
  - intros t' r' [E|H] Hr'; [inversion E; subst; apply f_trk0; exact Hin | eauto].
  - intros t' r' [E|H] Hr'; [inversion E; subst; contradiction | eauto].
  - exact f_nds0.
  - exact f_ex0.
  - intros t' [E|H]; [inversion E; subst; auto | auto].
  - intros t' k [E|H]; [inversion E; subst; auto | auto].
  - rewrite orb_true_iff. split.
    + intros [H|H].
      * destruct (proj1 f_fail0 H) as (t' & r' & H1 & H2). exists t', r'. auto.
      * exists t, r. split; auto. apply Hfl. exact H.
    + intros (t' & r' & [E|H1] & H2).
      * inversion E; subst. right. apply Hfl. exact H2.
      * left. apply f_fail0. eauto.
  - intros t' [E|H]; [inversion E; subst; exfalso; exact (not_run_skipped Hr)|]. rewrite (f_skip0 t' H). reflexivity.
  - discriminate.
Qed.

Lemma planned_cmd t : planned t -> let '(tc, _, _) := t in nth_error P tc <> None.
Proof. destruct t as [[tc tg] tk]. unfold planned, defn_at. destruct (nth_error P tc); [discriminate|congruence]. Qed.

Lemma planned_parts tc tg tk cp : planned (tc, tg, tk) -> nth_error P tc = Some cp ->
  exists grp, nth_error cp tg = Some grp /\ tk < length grp.
Proof.
  unfold planned, defn_at. intros H E. rewrite E in H. destruct (nth_error cp tg) as [grp|]; [|congruence].
  exists grp. split; auto. apply nth_error_Some. exact H.
Qed.

Lemma next_position_FInv s : SInv P s -> FInv s -> tracked s = [] ->
  (ph s = Waiting \/ (exists k cp, ph s = Spawning k /\ nth_error P (cpos s) = Some cp /\ nth_error cp (gpos s) = None)) ->
  FInv (next_position P s).
Proof.
  intros SI I Htr Hph. unfold next_position.
  assert (Hbw : forall t, bound s t -> poslt t (cpos s) (gpos s)) by (intros t; apply bound_weaken).
  destruct (nth_error P (cpos s)) as [cp|] eqn:Ecp.
  - destruct (Nat.ltb_spec (S (gpos s)) (length cp)) as [Hlt|Hge].
    + apply (FInv_move s); [exact I | reflexivity | reflexivity | reflexivity | reflexivity | reflexivity | | | ].
      * intros t H. apply Hbw in H. unfold bound. simpl. destruct t as [[tc tg] tk]. simpl in *. lia.
      * intros t Hp H. unfold bound in H. simpl in H. destruct t as [[tc tg] tk]. simpl in H.
        destruct Hph as [Hw|(k & cp' & Hs & Ecp' & Hn)].
        -- unfold bound. rewrite Hw. simpl. lia.
        -- inversion Ecp'; subst cp'. apply nth_error_None in Hn. lia.
      * discriminate.
    + apply (FInv_move s); [exact I | reflexivity | reflexivity | reflexivity | reflexivity | reflexivity | | | ].
      * intros t H. apply Hbw in H. unfold bound. simpl. destruct t as [[tc tg] tk]. simpl in *. lia.
      * intros t Hp H. unfold bound in H. simpl in H. destruct t as [[tc tg] tk]. simpl in H.
        assert (Hc : tc < cpos s \/ tc = cpos s) by lia. destruct Hc as [Hc| ->].
        -- unfold bound. destruct (ph s); simpl; lia.
        -- destruct (planned_parts _ _ _ cp Hp Ecp) as (grp & Hg & Hk).
           assert (Hgl : tg < length cp) by (apply nth_error_Some; congruence).
           destruct Hph as [Hw|(k & cp' & Hs & Ecp' & Hn)].
           ++ unfold bound. rewrite Hw. simpl. lia.
           ++ inversion Ecp'; subst cp'. apply nth_error_None in Hn.
              unfold bound. rewrite Hs. simpl. lia.
      * discriminate.
  - apply (FInv_move s); [exact I | reflexivity | reflexivity | reflexivity | reflexivity | reflexivity | | | ].
    + intros t H. apply Hbw in H. unfold bound. simpl. exact H.
    + intros t Hp H. unfold bound in H. simpl in H. destruct t as [[tc tg] tk]. simpl in H.
      pose proof (planned_cmd _ Hp) as Hc. simpl in Hc.
      assert (tc <> cpos s) by (intros ->; congruence).
      unfold bound. destruct (ph s); simpl; lia.
    + intros _. simpl. split; auto.
Qed.

Theorem step_FInv s c : SInv P s -> FInv s -> FInv (step P fou code s c).
Proof.
  intros SI I. destruct c as [|t|t|t]; cbn [step].
  - (* SchedStep *)
    unfold sched_step. destruct (ph s) as [k| |] eqn:Eph; [| |exact I].
    + destruct (nth_error P (cpos s)) as [cp|] eqn:Ecp.
      2:{ (* no such command: finished *)
          apply (FInv_move s); [exact I | reflexivity | reflexivity | reflexivity | reflexivity | reflexivity | | | ].
          - intros t H. unfold bound. simpl. apply bound_weaken. exact H.
          - intros t Hp H. unfold bound in H. simpl in H. destruct t as [[tc tg] tk]. simpl in H.
            pose proof (planned_cmd _ Hp) as Hc. simpl in Hc.
            assert (tc <> cpos s) by (intros ->; congruence).
            unfold bound. rewrite Eph. simpl. lia.
          - intros _. simpl. split; auto.
            destruct (tracked s) as [|t0 l] eqn:Et; auto. exfalso.
            assert (Hin : In t0 (tracked s)) by (rewrite Et; left; reflexivity).
            pose proof (i_tpos _ _ SI t0 Hin) as Hpos. destruct (f_trk _ I t0 Hin) as [Hp _].
            pose proof (planned_cmd _ Hp) as Hc. destruct t0 as [[tc tg] tk]. simpl in *. inversion Hpos; subst. congruence. }
      destruct (failed s && (gpos s =? 0) && (k =? 0)) eqn:Eskip.
      * apply andb_true_iff in Eskip as [Eskip Ek]. apply andb_true_iff in Eskip as [Ef Eg].
        apply Nat.eqb_eq in Ek, Eg. subst k. apply FInv_skip_command; auto.
      * destruct (nth_error cp (gpos s)) as [grp|] eqn:Egrp.
        2:{ apply next_position_FInv; auto.
            - destruct k as [|k']; [apply (i_sp0 _ _ SI); exact Eph|]. exfalso.
              apply (i_grp _ _ SI k' Eph). unfold cur_group. rewrite Ecp. exact Egrp.
            - right. exists k, cp. auto. }
        destruct (nth_error grp k) as [d|] eqn:Ed.
        2:{ (* every member has been handled: wait *)
            apply (FInv_move s); [exact I | reflexivity | reflexivity | reflexivity | reflexivity | reflexivity | | | ].
            - intros t H. unfold bound. simpl. apply bound_weaken. exact H.
            - intros t Hp H. unfold bound in H. simpl in H. destruct t as [[tc tg] tk]. simpl in H.
              unfold bound. rewrite Eph. simpl.
              assert (Hc : (tc < cpos s \/ (tc = cpos s /\ tg < gpos s)) \/ (tc = cpos s /\ tg = gpos s)) by lia.
              destruct Hc as [Hc|[-> ->]]; [lia|].
              destruct (planned_parts _ _ _ cp Hp Ecp) as (grp' & Hg & Hk). rewrite Egrp in Hg. inversion Hg; subst grp'.
              apply nth_error_None in Ed. lia.
            - discriminate. }
        pose proof (planned_cursor s cp grp k d Ecp Egrp Ed) as Hpl.
        destruct (failed s) eqn:Ef.
        -- apply (FInv_with_result s k Skipped false SI I Eph Hpl not_run_skipped);
             [intros _; exact Ef | intros Hc; rewrite Ef in Hc; discriminate].
        -- destruct d.
           ++ apply (FInv_spawn s k cp grp); auto.
           ++ apply (FInv_with_result s k SUndefined fou SI I Eph Hpl not_run_undef); [discriminate|].
              intros _. unfold bad. split.
              ** intros ->. right. right. auto.
              ** intros [(c & H)|[H|[H _]]]; [discriminate|discriminate|exact H].
           ++ apply (FInv_with_result s k SNotExec true SI I Eph Hpl not_run_notexec); [discriminate|].
              intros _. unfold bad. split; [intros _; right; left; reflexivity | reflexivity].
    + destruct (tracked s) eqn:Etr; [|exact I]. apply next_position_FInv; auto.
  - (* ChildExit *)
    destruct (tmem t (running s)); [|exact I]. apply FInv_child_exit. exact I.
  - (* Reap *)
    destruct (ph s) eqn:Eph; try exact I.
    destruct (tmem t (tracked s) && tmem t (exited s)) eqn:Em; [|exact I].
    apply andb_true_iff in Em as [Em1 Em2]. apply tmem_In in Em1, Em2.
    pose proof (f_ex _ I t Em2) as Hex.
    destruct (Nat.eqb_spec (code t) 0) as [E0|E0].
    + simpl negb. apply (FInv_reap s t Success false); auto.
      * left. reflexivity.
      * intros _. rewrite E0 in Hex. auto.
      * intros k H. discriminate.
      * unfold bad. split; [discriminate|]. intros [(c & H)|[H|[_ H]]]; discriminate.
    + simpl negb. apply (FInv_reap s t (Error (if code t <? 256 then Some (code t) else None)) true); auto.
      * right. eauto.
      * discriminate.
      * intros k H. destruct (code t <? 256); inversion H; subst. auto.
      * unfold bad. split; [intros _; left; eauto | reflexivity].
  - (* ReapCancelled *)
    destruct (ph s) eqn:Eph; try exact I.
    destruct (cancelled s && tmem t (tracked s)) eqn:Em; [|exact I].
    apply andb_true_iff in Em as [_ Em]. apply tmem_In in Em.
    replace true with (failed s || true) at 1 by apply orb_true_r.
    apply (FInv_reap s t (Error None) true true); auto.
    + right. eauto.
    + discriminate.
    + discriminate.
    + unfold bad. split; [intros _; left; eauto | reflexivity].
Qed.

Theorem run_FInv cs : SInv P (run P fou code cs) /\ FInv (run P fou code cs).
Proof.
  unfold run. rewrite <- (rev_involutive cs). induction (rev cs) as [|c l IH]; simpl.
  - split; [apply SInv_init; exact code | apply FInv_init].
  - rewrite fold_left_app. simpl. destruct IH as [I1 I2]. split; [apply step_inv; exact I1 | apply step_FInv; assumption].
Qed.
End F.

(* ---------- the two property-level summaries ---------- *)
Theorem C05_all : forall P fou code cs, let s := run P fou code cs in
    NoDup (spawns (trace s)) /\
    (forall t, In t (spawns (trace s)) -> defn_at P t = Some Defined) /\
    NoDup (map fst (results s)) /\
    (forall t r, In (t, r) (results s) -> planned P t) /\
    (ph s = Finished -> forall t, planned P t -> exists r, In (t, r) (results s)) /\
    (forall t r, In (t, r) (results s) -> (In t (spawns (trace s)) <-> (r = Success \/ exists c, r = Error c))) /\
    (forall t, In (t, Skipped) (results s) -> failed s = true).
Proof.
  intros P fou code cs. cbv zeta. destruct (run_FInv P fou code cs) as [SI I].
  pose proof (f_nd _ _ _ _ I) as Hnd. apply NoDup_app_iff' in Hnd as (N1 & N2 & N3).
  split; [exact (f_nds _ _ _ _ I)|]. split; [apply spawned_defined|]. split; [exact N1|].
  split; [intros t r H; apply (f_res _ _ _ _ I t r H)|]. split; [|split].
  - intros Hfin t Hp. destruct (f_fin _ _ _ _ I Hfin) as [Hn Htr].
    assert (Hb : bound (run P fou code cs) t).
    { unfold bound. rewrite Hfin. destruct t as [[tc tg] tk]. simpl.
      pose proof (planned_cmd P _ Hp) as Hc. simpl in Hc.
      assert (tc < length P) by (apply nth_error_Some; exact Hc).
      assert (length P <= cpos (run P fou code cs)) by (apply nth_error_None; exact Hn). lia. }
    destruct (f_cov _ _ _ _ I t Hp Hb) as [H|H]; [|rewrite Htr in H; destruct H].
    apply in_map_iff in H as ((t', r) & E & Hin). simpl in E. subst t'. eauto.
  - intros t r Hin. rewrite spawns_In. split.
    + intros Hs. destruct (f_sp _ _ _ _ I t Hs) as [H|(r' & H1 & H2)].
      * exfalso. apply (N3 t); auto. apply in_map_iff. exists (t, r). auto.
      * rewrite (NoDup_fst_unique _ _ _ _ N1 Hin H1). exact H2.
    + intros Hr. apply (f_run _ _ _ _ I t r Hin Hr).
  - apply (f_skip _ _ _ _ I).
Qed.

Theorem C06_all : forall P fou code cs, let s := run P fou code cs in
    (failed s = true <-> exists t r, In (t, r) (results s) /\ bad fou r) /\
    (forall cs', failed s = true ->
       spawns (trace (run P fou code (cs ++ cs'))) = spawns (trace s) /\ failed (run P fou code (cs ++ cs')) = true) /\
    (forall t, In (t, Success) (results s) -> In (Exit t 0) (trace s) /\ code t = 0) /\
    (forall t k, In (t, Error (Some k)) (results s) -> In (Exit t k) (trace s) /\ k = code t /\ k <> 0) /\
    (forall t r, In (t, r) (results s) -> ~ is_run r -> ~ In (Spawn t) (trace s)) /\
    (exit_status s = if failed s then 1 else 0).
Proof.
  intros P fou code cs. cbv zeta. destruct (run_FInv P fou code cs) as [SI I].
  split; [exact (f_fail _ _ _ _ I)|]. split; [|split; [exact (f_ok _ _ _ _ I)|split; [exact (f_err _ _ _ _ I)|split; [exact (f_nrun _ _ _ _ I)|reflexivity]]]].
  intros cs' Hf. unfold run. rewrite fold_left_app. apply no_spawn_after_failure. exact Hf.
Qed.
