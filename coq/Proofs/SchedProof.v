From Coq Require Import List Arith Bool Lia.
From MR Require Import Model.Sched.
Import ListNotations.

(* ---------- C04: ordering invariant, for every choice list ---------- *)
Section Order.
Variable P : plan.
Variable fou : bool.
Variable code : task -> nat.

Definition lexlt (t : task) (c g k : nat) : Prop :=
  let '(tc, tg, tk) := t in tc < c \/ (tc = c /\ tg < g) \/ (tc = c /\ tg = g /\ tk < k).
Definition poslt (t : task) (c g : nat) : Prop :=
  let '(tc, tg, _) := t in tc < c \/ (tc = c /\ tg <= g).
Definition bound (s : st) (t : task) : Prop :=
  match ph s with
  | Spawning k => lexlt t (cpos s) (gpos s) k
  | _ => poslt t (cpos s) (gpos s)
  end.
Definition pos (t : task) : nat * nat := let '(c, g, _) := t in (c, g).

Lemma task_eqb_eq a b : task_eqb a b = true <-> a = b.
Proof.
  destruct a as [[a1 a2] a3], b as [[b1 b2] b3]. simpl.
  rewrite !andb_true_iff, !Nat.eqb_eq. split; [intros [[-> ->] ->]; reflexivity | intros E; inversion E; auto].
Qed.
Lemma tmem_In t l : tmem t l = true <-> In t l.
Proof.
  unfold tmem. rewrite existsb_exists. split.
  - intros (x & Hx & E). apply task_eqb_eq in E. subst. exact Hx.
  - intros H. exists t. split; auto. apply task_eqb_eq. reflexivity.
Qed.
Lemma tremove_In t x l : In x (tremove t l) <-> In x l /\ x <> t.
Proof.
  unfold tremove. rewrite filter_In, negb_true_iff, <- not_true_iff_false, task_eqb_eq.
  split; intros [H1 H2]; split; auto.
Qed.

Record SInv (s : st) : Prop := {
  i_tpos : forall t, In t (tracked s) -> pos t = (cpos s, gpos s);
  i_sp0 : ph s = Spawning 0 -> tracked s = [];
  i_orph : failed s = false -> forall t, In t (running s) -> In t (tracked s);
  i_sp : forall t, In (Spawn t) (trace s) -> In t (running s) \/ exists c, In (Exit t c) (trace s);
  i_ex : forall t, In t (exited s) -> ~ In t (running s);
  i_bound : forall t, In t (running s) \/ In t (exited s) \/ In t (tracked s) -> bound s t;
  i_grp : forall k, ph s = Spawning (S k) -> cur_group P s <> None
}.

Lemma SInv_init : SInv init.
Proof. constructor; simpl; intros; try tauto; try discriminate; intuition. Qed.

Ltac inv_fields I :=
  pose proof (i_tpos _ I) as Htpos; pose proof (i_sp0 _ I) as Hsp0; pose proof (i_orph _ I) as Horph;
  pose proof (i_sp _ I) as Hsp; pose proof (i_ex _ I) as Hex; pose proof (i_bound _ I) as Hbound;
  pose proof (i_grp _ I) as Hgrp.

Lemma bound_weaken s t : bound s t -> poslt t (cpos s) (gpos s).
Proof.
  unfold bound. destruct (ph s); auto. destruct t as [[tc tg] tk]. simpl. lia.
Qed.

Lemma next_position_inv s : SInv s -> tracked s = [] -> SInv (next_position P s).
Proof.
  intros I Htr. inv_fields I. unfold next_position.
  assert (Hb : forall t, In t (running s) \/ In t (exited s) \/ In t (tracked s) -> poslt t (cpos s) (gpos s))
    by (intros t Ht; apply bound_weaken; auto).
  destruct (nth_error P (cpos s)) as [cp|] eqn:Ecp; [destruct (S (gpos s) <? length cp) eqn:El|];
    constructor; simpl.
  - rewrite Htr. intros t [].
  - intros _. exact Htr.
  - exact Horph.
  - exact Hsp.
  - exact Hex.
  - intros t Ht. specialize (Hb t Ht). unfold bound; simpl. destruct t as [[tc tg] tk]. simpl in *. lia.
  - discriminate.
  - rewrite Htr. intros t [].
  - intros _. exact Htr.
  - exact Horph.
  - exact Hsp.
  - exact Hex.
  - intros t Ht. specialize (Hb t Ht). unfold bound; simpl. destruct t as [[tc tg] tk]. simpl in *. lia.
  - discriminate.
  - rewrite Htr. intros t [].
  - discriminate.
  - exact Horph.
  - exact Hsp.
  - exact Hex.
  - intros t Ht. specialize (Hb t Ht). unfold bound; simpl. exact Hb.
  - discriminate.
Qed.

(* a group index that does not exist is never given members *)
Lemma spawning_pos_inv s k : SInv s -> ph s = Spawning k ->
  forall t, In t (running s) \/ In t (exited s) \/ In t (tracked s) -> lexlt t (cpos s) (gpos s) k.
Proof. intros I Eph t Ht. pose proof (i_bound _ I t Ht) as Hb. unfold bound in Hb. rewrite Eph in Hb. exact Hb. Qed.

Lemma step_inv s c : SInv s -> SInv (step P fou code s c).
Proof.
  intros I. inv_fields I. destruct c as [|t|t|t]; cbn [step].
  - (* SchedStep *)
    unfold sched_step. destruct (ph s) as [k| |] eqn:Eph; [| |exact I].
    + pose proof (spawning_pos_inv s k I Eph) as Hlex.
      destruct (nth_error P (cpos s)) as [cp|] eqn:Ecp.
      2:{ constructor; simpl; auto; try discriminate.
          intros t Ht. unfold bound; simpl. apply bound_weaken. auto. }
      destruct (failed s && (gpos s =? 0) && (k =? 0)) eqn:Eskip.
      * apply andb_true_iff in Eskip as [Eskip Ek]. apply andb_true_iff in Eskip as [Ef Eg].
        apply Nat.eqb_eq in Ek, Eg. subst k.
        constructor; simpl.
        -- rewrite (Hsp0 eq_refl). intros t [].
        -- intros _. apply Hsp0. reflexivity.
        -- discriminate.
        -- exact Hsp.
        -- exact Hex.
        -- intros t Ht. specialize (Hlex t Ht). unfold bound; simpl.
           destruct t as [[tc tg] tk]. simpl in *. lia.
        -- discriminate.
      * destruct (nth_error cp (gpos s)) as [grp|] eqn:Egrp.
        2:{ (* the command has no such group: nothing was ever tracked here *)
            apply next_position_inv; auto.
            destruct k as [|k']; [apply Hsp0; reflexivity|]. exfalso.
            apply (Hgrp k' eq_refl). unfold cur_group. rewrite Ecp. exact Egrp. }
        destruct (nth_error grp k) as [d|] eqn:Ed.
        2:{ constructor; simpl; auto; try discriminate.
            intros t Ht. unfold bound; simpl. apply bound_weaken. auto. }
        assert (Hbnd' : forall t, In t (running s) \/ In t (exited s) \/ In t (tracked s) ->
                                  lexlt t (cpos s) (gpos s) (S k)).
        { intros t Ht. specialize (Hlex t Ht). destruct t as [[tc tg] tk]. simpl in *. lia. }
        destruct (failed s) eqn:Ef.
        -- unfold with_result. constructor; simpl; rewrite ?Ef; simpl; auto; try discriminate;
             try solve [intros t0 Ht0; unfold bound; simpl; auto];
             try (intros k0 _; unfold cur_group; simpl; rewrite Ecp, Egrp; discriminate).
        -- destruct d; unfold with_result.
           ++ (* Defined: spawn *)
              set (t := (cpos s, gpos s, k)).
              assert (Hfresh : ~ (In t (running s) \/ In t (exited s) \/ In t (tracked s))).
              { intros Ht. specialize (Hlex t Ht). unfold t in Hlex. simpl in Hlex. lia. }
              constructor; simpl.
              ** intros t' [<-|Ht']; [reflexivity | auto].
              ** discriminate.
              ** intros _ t' [<-|Ht']; [left; reflexivity | right; auto].
              ** intros t' [E|Ht'].
                 --- inversion E; subst. left. left. reflexivity.
                 --- destruct (Hsp t' Ht') as [Hr|[c Hc]]; [left; right; exact Hr | right; exists c; right; exact Hc].
              ** intros t' Ht' [<-|Hr]; [apply Hfresh; tauto | eapply Hex; eauto].
              ** intros t' Ht'. unfold bound; simpl.
                 assert (t = t' \/ (In t' (running s) \/ In t' (exited s) \/ In t' (tracked s))) as [<-|H] by tauto.
                 --- unfold t. simpl. lia.
                 --- auto.
              ** intros k0 _. unfold cur_group; simpl. rewrite Ecp, Egrp. discriminate.
           ++ destruct fou; constructor; simpl; rewrite ?Ef; simpl; auto; try discriminate;
                try solve [intros t0 Ht0; unfold bound; simpl; auto];
                try (intros k0 _; unfold cur_group; simpl; rewrite Ecp, Egrp; discriminate).
           ++ constructor; simpl; rewrite ?Ef; simpl; auto; try discriminate;
                try solve [intros t0 Ht0; unfold bound; simpl; auto];
                try (intros k0 _; unfold cur_group; simpl; rewrite Ecp, Egrp; discriminate).
    + destruct (tracked s) eqn:Etr; [|exact I]. apply next_position_inv; auto.
  - (* ChildExit *)
    destruct (tmem t (running s)) eqn:Em; [|exact I]. apply tmem_In in Em.
    constructor; simpl.
    + exact Htpos.
    + exact Hsp0.
    + intros Hf t' Ht'. apply tremove_In in Ht' as [Ht' _]. auto.
    + intros t' [E|Ht']; [discriminate|].
      destruct (Hsp t' Ht') as [Hr|[c Hc]].
      * destruct (task_eqb t t') eqn:E.
        -- apply task_eqb_eq in E. subst. right. exists (code t'). left. reflexivity.
        -- left. apply tremove_In. split; auto. intros ->.
           assert (task_eqb t t = true) by (apply task_eqb_eq; reflexivity). congruence.
      * right. exists c. right. exact Hc.
    + intros t' [<-|Ht'] Hr; apply tremove_In in Hr as [Hr Hne]; [congruence | eapply Hex; eauto].
    + intros t' Ht'. assert (Hb : bound s t').
      { apply Hbound. destruct Ht' as [Hr|[[<-|He]|Ht]]; auto. apply tremove_In in Hr as [Hr _]. auto. }
      unfold bound in *. simpl. exact Hb.
    + exact Hgrp.
  - (* Reap *)
    destruct (ph s) eqn:Eph; try exact I.
    destruct (tmem t (tracked s) && tmem t (exited s)) eqn:Em; [|exact I].
    apply andb_true_iff in Em as [Em1 Em2]. apply tmem_In in Em1, Em2.
    constructor; simpl.
    + intros t' Ht'. apply tremove_In in Ht' as [Ht' _]. auto.
    + discriminate.
    + intros Hf t' Hr. apply orb_false_iff in Hf as [Hf _]. apply tremove_In. split; auto.
      intros ->. eapply Hex; eauto.
    + exact Hsp.
    + exact Hex.
    + intros t' Ht'. assert (Hb : bound s t').
      { apply Hbound. destruct Ht' as [Hr|[He|Ht]]; auto. apply tremove_In in Ht as [Ht _]. auto. }
      unfold bound in *. rewrite Eph in Hb. simpl. exact Hb.
    + discriminate.
  - (* ReapCancelled *)
    destruct (ph s) eqn:Eph; try exact I.
    destruct (cancelled s && tmem t (tracked s)) eqn:Em; [|exact I].
    constructor; simpl.
    + intros t' Ht'. apply tremove_In in Ht' as [Ht' _]. auto.
    + discriminate.
    + discriminate.
    + exact Hsp.
    + exact Hex.
    + intros t' Ht'. assert (Hb : bound s t').
      { apply Hbound. destruct Ht' as [Hr|[He|Ht]]; auto. apply tremove_In in Ht as [Ht _]. auto. }
      unfold bound in *. rewrite Eph in Hb. simpl. exact Hb.
    + discriminate.
Qed.


Fixpoint ordered (tr : list event) : Prop :=      (* newest event first *)
  match tr with
  | [] => True
  | Spawn t :: rest =>
      (forall t', In (Spawn t') rest -> pos t' <> pos t -> exists c, In (Exit t' c) rest) /\ ordered rest
  | Exit _ _ :: rest => ordered rest
  end.

Lemma step_ordered s c : SInv s -> ordered (trace s) -> ordered (trace (step P fou code s c)).
Proof.
  intros I Ho. inv_fields I. destruct c as [|t|t|t]; cbn [step].
  - unfold sched_step. destruct (ph s) as [k| |] eqn:Eph; [| |exact Ho].
    + destruct (nth_error P (cpos s)) as [cp|] eqn:Ecp; [|exact Ho].
      destruct (failed s && (gpos s =? 0) && (k =? 0)); [exact Ho|].
      destruct (nth_error cp (gpos s)) as [grp|] eqn:Egrp.
      2:{ unfold next_position. rewrite Ecp. destruct (S (gpos s) <? length cp); exact Ho. }
      destruct (nth_error grp k) as [d|]; [|exact Ho].
      destruct (failed s) eqn:Ef; [exact Ho|]. destruct d; try exact Ho.
      simpl. split; [|exact Ho].
      intros t' Hin Hne. destruct (Hsp t' Hin) as [Hr|He]; [|exact He]. exfalso.
      apply Hne. apply Htpos. apply Horph; auto.
    + destruct (tracked s); [|exact Ho]. unfold next_position.
      destruct (nth_error P (cpos s)) as [cp|]; [destruct (S (gpos s) <? length cp)|]; exact Ho.
  - destruct (tmem t (running s)); exact Ho.
  - destruct (ph s); try exact Ho. destruct (tmem t (tracked s) && tmem t (exited s)); exact Ho.
  - destruct (ph s); try exact Ho. destruct (cancelled s && tmem t (tracked s)); exact Ho.
Qed.

Theorem run_inv cs : SInv (run P fou code cs) /\ ordered (trace (run P fou code cs)).
Proof.
  unfold run. rewrite <- (rev_involutive cs). induction (rev cs) as [|c l IH]; simpl.
  - split; [apply SInv_init | exact I].
  - rewrite fold_left_app. simpl. destruct IH as [I1 O1]. split; [apply step_inv; exact I1 | apply step_ordered; assumption].
Qed.

(* C04, scheduler part: whatever the schedule, a task is spawned only after every task spawned
   earlier at a different (command, group) position has exited *)
Theorem C04_order cs : ordered (trace (run P fou code cs)).
Proof. apply run_inv. Qed.

End Order.



Lemma expand_sequences_spec {C S} (lookup : S -> option (list C)) seqs :
  (forall s, In s seqs -> lookup s <> None) ->
  expand_sequences lookup seqs = Some (flat_map (fun s => match lookup s with Some l => l | None => [] end) seqs).
Proof.
  induction seqs as [|s r IH]; intros H; simpl; [reflexivity|].
  destruct (lookup s) as [l|] eqn:E; [|exfalso; apply (H s); [left; reflexivity|exact E]].
  rewrite IH; [reflexivity|]. intros s' Hs'. apply H. right. exact Hs'.
Qed.

Lemma all_commands_spec : forall (lookup : nat -> option (list nat)) seqs cmds,
  (forall s, In s seqs -> lookup s <> None) ->
  all_commands lookup seqs cmds =
  Some (flat_map (fun s => match lookup s with Some l => l | None => [] end) seqs ++ cmds).
Proof. intros lookup seqs cmds H. unfold all_commands. rewrite expand_sequences_spec by exact H. reflexivity. Qed.

(* ---------- facts about single steps: what can be appended to the trace, the failure latch ---------- *)
Section Steps.
Variable P : plan.
Variable fou : bool.
Variable code : task -> nat.

Definition defn_at (t : task) : option defn :=
  let '(c, g, k) := t in
  match nth_error P c with Some cp => match nth_error cp g with Some grp => nth_error grp k | None => None end | None => None end.

Lemma next_position_trace s : trace (next_position P s) = trace s /\ failed (next_position P s) = failed s.
Proof. unfold next_position. destruct (nth_error P (cpos s)); [destruct (_ <? _)|]; simpl; auto. Qed.

(* one step either leaves the trace alone, or appends one Exit, or appends one Spawn of a Defined task
   at the cursor while the run has not failed *)
Lemma step_trace s c :
  trace (step P fou code s c) = trace s \/
  (exists t, trace (step P fou code s c) = Exit t (code t) :: trace s) \/
  (exists k, ph s = Spawning k /\ failed s = false /\ defn_at (cpos s, gpos s, k) = Some Defined /\
             trace (step P fou code s c) = Spawn (cpos s, gpos s, k) :: trace s).
Proof.
  destruct c as [|t|t|t]; cbn [step].
  - unfold sched_step. destruct (ph s) as [k| |] eqn:Eph; auto.
    + destruct (nth_error P (cpos s)) as [cp|] eqn:Ecp; auto.
      destruct (failed s && (gpos s =? 0) && (k =? 0)); auto.
      destruct (nth_error cp (gpos s)) as [grp|] eqn:Egrp; [|left; apply next_position_trace].
      destruct (nth_error grp k) as [d|] eqn:Ed; auto.
      destruct (failed s) eqn:Ef; auto.
      destruct d; auto.
      right. right. exists k. repeat split; auto. unfold defn_at. rewrite Ecp, Egrp. exact Ed.
    + destruct (tracked s); auto. left. apply next_position_trace.
  - destruct (tmem t (running s)); auto. right. left. exists t. reflexivity.
  - destruct (ph s); auto. destruct (tmem t (tracked s) && tmem t (exited s)); auto.
  - destruct (ph s); auto. destruct (cancelled s && tmem t (tracked s)); auto.
Qed.

Lemma failed_latch s c : failed s = true -> failed (step P fou code s c) = true.
Proof.
  intros Hf. destruct c as [|t|t|t]; cbn [step].
  - unfold sched_step. destruct (ph s) as [k| |]; auto.
    + destruct (nth_error P (cpos s)) as [cp|]; auto.
      destruct (failed s && (gpos s =? 0) && (k =? 0)); auto.
      destruct (nth_error cp (gpos s)) as [grp|]; [|rewrite (proj2 (next_position_trace s)); auto].
      destruct (nth_error grp k) as [d|]; auto. rewrite Hf. unfold with_result. simpl. rewrite Hf. reflexivity.
    + destruct (tracked s); auto. rewrite (proj2 (next_position_trace s)). auto.
  - destruct (tmem t (running s)); auto.
  - destruct (ph s); auto. destruct (tmem t (tracked s) && tmem t (exited s)); auto. simpl. rewrite Hf. reflexivity.
  - destruct (ph s); auto. destruct (cancelled s && tmem t (tracked s)); auto.
Qed.

Definition spawns (tr : list event) : list task :=
  flat_map (fun e => match e with Spawn t => [t] | Exit _ _ => [] end) tr.

(* once the run has failed, no schedule ever starts another executable *)
Theorem no_spawn_after_failure cs : forall s, failed s = true ->
  spawns (trace (fold_left (step P fou code) cs s)) = spawns (trace s) /\ failed (fold_left (step P fou code) cs s) = true.
Proof.
  induction cs as [|c cs IH]; intros s Hf; simpl; [auto|].
  destruct (IH (step P fou code s c) (failed_latch s c Hf)) as [E1 E2]. split; [|exact E2]. rewrite E1.
  destruct (step_trace s c) as [E|[(t & E)|(k & _ & Hnf & _)]]; rewrite ?E; simpl; auto. congruence.
Qed.

(* only defined, executable commands are ever started *)
Theorem spawned_defined cs : forall t, In t (spawns (trace (run P fou code cs))) -> defn_at t = Some Defined.
Proof.
  unfold run. rewrite <- (rev_involutive cs). induction (rev cs) as [|c l IH]; simpl; [intros t []|].
  rewrite fold_left_app. simpl. intros t Ht.
  destruct (step_trace (fold_left (step P fou code) (rev l) (init)) c) as [E|[(t' & E)|(k & _ & _ & Hd & E)]];
    rewrite E in Ht; simpl in Ht; auto. destruct Ht as [<-|Ht]; auto.
Qed.

(* ---------- C16: a whole group is started by scheduler steps alone ---------- *)
Fixpoint iter_sched (n : nat) (s : st) : st :=
  match n with 0 => s | S k => iter_sched k (sched_step P fou s) end.

Lemma spawn_rest grp : forall n k s,
  cur_group P s = Some grp -> ph s = Spawning k -> failed s = false ->
  (forall j, j < length grp -> nth_error grp j = Some Defined) ->
  k + n = length grp ->
  let s' := iter_sched n s in
  ph s' = Spawning (length grp) /\ cpos s' = cpos s /\ gpos s' = gpos s /\ failed s' = false /\
  exited s' = exited s /\
  (forall j, k <= j < length grp -> In (cpos s, gpos s, j) (tracked s') /\ In (cpos s, gpos s, j) (running s') /\
                                    In (Spawn (cpos s, gpos s, j)) (trace s')) /\
  (forall t, In t (running s) -> In t (running s')) /\
  (forall t, In t (tracked s) -> In t (tracked s')) /\
  (forall e, In e (trace s) -> In e (trace s')).
Proof.
  induction n as [|n IH]; intros k s Hg Hph Hf Hall Hk; cbv zeta.
  - simpl. replace (length grp) with k by lia. repeat split; auto; intros; lia.
  - cbn [iter_sched].
    assert (Hkl : k < length grp) by lia.
    pose proof Hg as Hg0.
    unfold cur_group in Hg. destruct (nth_error P (cpos s)) as [cp|] eqn:Ecp; [|discriminate].
    assert (Estep : sched_step P fou s =
      {| cpos := cpos s; gpos := gpos s; ph := Spawning (S k); failed := false; cancelled := cancelled s;
         tracked := (cpos s, gpos s, k) :: tracked s; running := (cpos s, gpos s, k) :: running s; exited := exited s;
         results := results s; trace := Spawn (cpos s, gpos s, k) :: trace s |}).
    { unfold sched_step. rewrite Hph, Ecp, Hf. simpl. rewrite Hg, (Hall k Hkl). reflexivity. }
    rewrite Estep.
    match goal with |- context [iter_sched n ?x] => set (s1 := x) end.
    assert (Hg1 : cur_group P s1 = Some grp) by (unfold cur_group, s1; simpl; rewrite Ecp; exact Hg).
    assert (Hk1 : S k + n = length grp) by lia.
    destruct (IH (S k) s1 Hg1 eq_refl eq_refl Hall Hk1) as (H1 & H2 & H3 & H4 & H5 & H6 & H7 & H8 & H9).
    cbv zeta in *. simpl in H2, H3, H5, H6, H7, H8, H9.
    split; [exact H1|]. split; [exact H2|]. split; [exact H3|]. split; [exact H4|]. split; [exact H5|].
    split; [|split; [|split]].
    + intros j Hj. destruct (Nat.eq_dec j k) as [->|Hne].
      * split; [apply H8; left; reflexivity|]. split; [apply H7; left; reflexivity | apply H9; left; reflexivity].
      * apply H6. lia.
    + intros t Ht. apply H7. right. exact Ht.
    + intros t Ht. apply H8. right. exact Ht.
    + intros e He. apply H9. right. exact He.
Qed.

(* C16: from the start of a group whose members are all defined and executable, scheduler steps ALONE -
   no child exit, no reap - start every member and only then begin to wait *)
Theorem group_started_without_waiting s grp :
  cur_group P s = Some grp -> ph s = Spawning 0 -> failed s = false ->
  (forall j, j < length grp -> nth_error grp j = Some Defined) ->
  let s' := iter_sched (S (length grp)) s in
  ph s' = Waiting /\ exited s' = exited s /\
  forall j, j < length grp ->
    In (Spawn (cpos s, gpos s, j)) (trace s') /\ In (cpos s, gpos s, j) (running s').
Proof.
  intros Hg Hph Hf Hall. cbv zeta.
  replace (S (length grp)) with (length grp + 1) by lia.
  assert (Eiter : forall n m x, iter_sched (n + m) x = iter_sched m (iter_sched n x)).
  { induction n as [|n IHn]; intros m x; simpl; auto. }
  rewrite Eiter.
  destruct (spawn_rest grp (length grp) 0 s Hg Hph Hf Hall eq_refl) as (H1 & H2 & H3 & H4 & H5 & H6 & _).
  cbv zeta in *. set (s1 := iter_sched (length grp) s) in *.
  assert (Hg1 : cur_group P s1 = Some grp) by (unfold cur_group in *; rewrite H2, H3; exact Hg).
  simpl. unfold sched_step. rewrite H1.
  unfold cur_group in Hg1. destruct (nth_error P (cpos s1)) as [cp|] eqn:Ecp; [|discriminate].
  rewrite H4. simpl. rewrite Hg1.
  assert (En : nth_error grp (length grp) = None) by (apply nth_error_None; lia).
  rewrite En. simpl. split; [reflexivity|]. split; [exact H5|].
  intros j Hj. destruct (H6 j) as (_ & Hr & Ht); [lia|]. split; assumption.
Qed.
End Steps.
