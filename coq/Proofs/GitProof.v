From Coq Require Import List Arith Bool Lia.
From MR Require Import Model.Git.
Import ListNotations.

Section GitProofs.
Variable path content digest : Type.
Variable path_eqb : path -> path -> bool.
Hypothesis path_eqb_eq : forall a b, path_eqb a b = true <-> a = b.
Variable content_eqb : content -> content -> bool.
Hypothesis content_eqb_eq : forall a b, content_eqb a b = true <-> a = b.
Variable digest_eqb : digest -> digest -> bool.
Hypothesis digest_eqb_eq : forall a b, digest_eqb a b = true <-> a = b.
(* SHA-256, idealised: injective, and never the empty string used for "no file" *)
Variable sha : content -> digest.
Variable empty_digest : digest.
Hypothesis sha_inj : forall a b, sha a = sha b -> a = b.
Hypothesis sha_nonempty : forall a, sha a <> empty_digest.

Notation repo := (repo path content).
Notation tree := (tree path content).
Notation ocontent_eqb := (ocontent_eqb content content_eqb).
Notation checksum := (checksum path content digest sha empty_digest).
Notation diff1 := (diff1 path content content_eqb).
Notation diff2 := (diff2 path content content_eqb).
Notation others := (others path content).
Notation plookup := (plookup path digest path_eqb).
Notation filter_pending := (filter_pending path content digest path_eqb digest_eqb sha empty_digest).
Notation all_changes_opts := (all_changes_opts path content digest path_eqb content_eqb digest_eqb sha empty_digest).
Notation all_changes := (all_changes path content digest path_eqb content_eqb digest_eqb sha empty_digest).
Notation update_p_with := (update_p_with path content digest path_eqb content_eqb digest_eqb sha empty_digest).
Notation update_p := (update_p path content digest path_eqb content_eqb digest_eqb sha empty_digest).
Notation diff_changes := (diff_changes path content content_eqb).

Lemma ocontent_eqb_eq a b : ocontent_eqb a b = true <-> a = b.
Proof.
  destruct a, b; simpl; try (split; congruence).
  rewrite content_eqb_eq. split; congruence.
Qed.

Lemma ocontent_neq a b : negb (ocontent_eqb a b) = true <-> a <> b.
Proof. rewrite negb_true_iff, <- not_true_iff_false, ocontent_eqb_eq. tauto. Qed.

(* what the three git commands report, in words *)
Definition differs_from (r : repo) (c : tree) (p : path) : Prop :=
  c p <> (if tracked r p then work r p else None).
Definition untracked_unignored (r : repo) (p : path) : Prop :=
  work r p <> None /\ tracked r p = false /\ ignored r p = false.
(* p's current checksum equals the one recorded for it in a non-empty pending map *)
Definition masked (r : repo) (pn : option (pending path digest)) (p : path) : Prop :=
  exists m d, pn = Some m /\ m <> [] /\ plookup m p = Some d /\ d = checksum r p.

Lemma diff1_spec r c p : In p (diff1 r c) <-> In p (universe r) /\ differs_from r c p.
Proof. unfold Git.diff1, differs_from. rewrite filter_In, ocontent_neq. tauto. Qed.
Lemma diff2_spec r a b p : In p (diff2 r a b) <-> In p (universe r) /\ a p <> b p.
Proof. unfold Git.diff2. rewrite filter_In, ocontent_neq. tauto. Qed.
Lemma others_spec r p : In p (others r) <-> In p (universe r) /\ untracked_unignored r p.
Proof.
  unfold Git.others, untracked_unignored. rewrite filter_In. destruct (work r p); split.
  - intros [H1 H2]. apply andb_true_iff in H2 as [H2 H3]. apply negb_true_iff in H2, H3. repeat split; auto. discriminate.
  - intros [H1 (_ & H2 & H3)]. rewrite H2, H3. auto.
  - intros [_ H]. discriminate.
  - intros [_ (H & _)]. congruence.
Qed.

Lemma filter_pending_spec r pn raw p :
  In p (filter_pending r pn raw) <-> In p raw /\ ~ masked r pn p.
Proof.
  unfold Git.filter_pending, masked. destruct pn as [[|x m]|].
  - split; [intros H; split; auto|tauto]. intros (m & d & E & Hm & _). inversion E; subst. congruence.
  - rewrite filter_In. split.
    + intros [H1 H2]. split; auto. intros (m' & d & E & _ & El & Ed). inversion E; subst m'.
      rewrite El in H2. apply negb_true_iff, not_true_iff_false in H2. apply H2. apply digest_eqb_eq. exact Ed.
    + intros [H1 H2]. split; auto. destruct (plookup (x :: m) p) as [d|] eqn:El; auto.
      apply negb_true_iff, not_true_iff_false. intro Hd. apply digest_eqb_eq in Hd. apply H2.
      exists (x :: m), d. repeat split; auto. discriminate.
  - split; [intros H; split; auto|tauto]. intros (m & d & E & _). discriminate.
Qed.

(* C02: the reported set, for a checkpoint (tree c, pending pn) and no --begin/--end *)
Theorem C02_changes r c pn p :
  In p (all_changes r c pn) <->
  In p (universe r) /\ (differs_from r c p \/ untracked_unignored r p) /\ ~ masked r pn p.
Proof.
  unfold Git.all_changes, Git.all_changes_opts, Git.diff_changes. rewrite filter_pending_spec.
  rewrite in_app_iff, others_spec, diff1_spec. tauto.
Qed.

(* C02 with explicit --begin b --end e: the tracked part is the difference of the two commits *)
Theorem C02_changes_range r cp b e pn p :
  In p (all_changes_opts r cp (Some b) (Some e) pn) <->
  In p (universe r) /\ (b p <> e p \/ untracked_unignored r p) /\ ~ masked r pn p.
Proof.
  unfold Git.all_changes_opts, Git.diff_changes. rewrite filter_pending_spec.
  rewrite in_app_iff, others_spec, diff2_spec. tauto.
Qed.

(* a moved file is a deletion of the old path and a creation of the new one: both are reported *)
Theorem C02_move r c pn old new x :
  In old (universe r) -> In new (universe r) ->
  c old = Some x -> work r old = None -> c new = None -> work r new = Some x ->
  ignored r new = false -> ~ masked r pn old -> ~ masked r pn new ->
  In old (all_changes r c pn) /\ In new (all_changes r c pn).
Proof.
  intros Ho Hn Hco Hwo Hcn Hwn Hi Hmo Hmn. split; apply C02_changes; repeat split; auto.
  - left. unfold differs_from. rewrite Hco, Hwo. destruct (tracked r old); discriminate.
  - destruct (tracked r new) eqn:Et.
    + left. unfold differs_from. rewrite Hcn, Et, Hwn. discriminate.
    + right. unfold untracked_unignored. rewrite Hwn. repeat split; auto. discriminate.
Qed.

Lemma plookup_map r l p : In p l -> plookup (map (fun q => (q, checksum r q)) l) p = Some (checksum r p).
Proof.
  induction l as [|q l IH]; intros H; [destruct H|]. simpl.
  destruct (path_eqb q p) eqn:E.
  - apply path_eqb_eq in E. subst. reflexivity.
  - destruct H as [->|H]; [|auto]. assert (path_eqb p p = true) by (apply path_eqb_eq; reflexivity). congruence.
Qed.

Lemma filter_none {A} (f : A -> bool) l : (forall x, In x l -> f x = false) -> filter f l = [].
Proof.
  induction l as [|a l IH]; intros H; [reflexivity|]. simpl.
  rewrite (H a (or_introl eq_refl)). apply IH. intros x Hx. apply H. right. exact Hx.
Qed.

(* C07, first half: immediately after `checkpoint update --pending` nothing is changed,
   whatever the repository state and whatever pending map was stored before *)
Theorem C07_fixpoint_with ks r old :
  let '(c, pn) := update_p_with ks r old in all_changes r c pn = [].
Proof.
  unfold Git.update_p_with, Git.update_pending_with, Git.all_changes, Git.all_changes_opts, Git.diff_changes.
  destruct (others r ++ diff1 r (head r)) as [|p0 l] eqn:E.
  - simpl. destruct ks; [destruct old as [[|x m]|]; reflexivity | reflexivity].
  - cbn [Git.filter_pending map]. apply filter_none. intros p Hp.
    pose proof (plookup_map r (p0 :: l) p Hp) as Hl. cbn [map] in Hl. rewrite Hl.
    assert (H : digest_eqb (checksum r p) (checksum r p) = true) by (apply digest_eqb_eq; reflexivity).
    rewrite H. reflexivity.
Qed.
Theorem C07_fixpoint r old : let '(c, pn) := update_p r old in all_changes r c pn = [].
Proof. exact (C07_fixpoint_with false r old). Qed.

(* what update --pending records is exactly the current checksum of every path it lists *)
Lemma plookup_map_inv r l p d : plookup (map (fun q => (q, checksum r q)) l) p = Some d -> d = checksum r p.
Proof.
  induction l as [|q l IH]; simpl; [discriminate|].
  destruct (path_eqb q p) eqn:E.
  - apply path_eqb_eq in E. subst. intros H. inversion H. reflexivity.
  - exact IH.
Qed.
Theorem update_p_records_current r old m p d :
  snd (update_p r old) = Some m -> plookup m p = Some d -> d = checksum r p.
Proof.
  unfold Git.update_p, Git.update_p_with, Git.update_pending_with. cbn [snd].
  destruct (Git.all_changes_opts path content digest path_eqb content_eqb digest_eqb sha empty_digest r None None None None) as [|p0 l] eqn:E.
  - intros H. discriminate H.
  - intros H. injection H as H. subst m. apply (plookup_map_inv r (p0 :: l)).
Qed.

(* C07, second half: a path brought into a state that differs from the checkpoint commit and from every
   checksum the checkpoint recorded for it is reported ... *)
Theorem C07_reflag r' (c : tree) pn p :
  In p (universe r') -> ignored r' p = false ->
  work r' p <> c p ->
  (forall m d, pn = Some m -> plookup m p = Some d -> d <> checksum r' p) ->
  In p (all_changes r' c pn).
Proof.
  intros Hu Hi Hne Hnovel. apply C02_changes. split; auto. split.
  - destruct (tracked r' p) eqn:Et.
    + left. unfold differs_from. rewrite Et. congruence.
    + destruct (work r' p) as [w|] eqn:Ew.
      * right. unfold untracked_unignored. rewrite Ew. repeat split; auto. discriminate.
      * left. unfold differs_from. rewrite Et. congruence.
  - intros (m & d & E & _ & El & Ed). exact (Hnovel m d E El Ed).
Qed.

(* ... and a path whose state equals the checkpoint commit's (tracked, same content) is not *)
Theorem C07_unchanged_not_reported r' (c : tree) pn p :
  tracked r' p = true -> work r' p = c p -> ~ In p (all_changes r' c pn).
Proof.
  intros Ht Hw H. apply C02_changes in H as (_ & [Hd|(_ & Hu & _)] & _).
  - unfold differs_from in Hd. rewrite Ht in Hd. congruence.
  - congruence.
Qed.

(* after a further update --pending the re-flagged paths are cleared again: C07_fixpoint applies to any state *)

(* an edit is "novel" for p when it puts p in a state never recorded: then its checksum differs from
   whatever the pending map holds, given the recorded digests all come from earlier states *)
Lemma novel_checksum r r' p d :
  d = checksum r p -> work r p <> work r' p -> d <> checksum r' p.
Proof.
  intros -> Hne. unfold Git.checksum. destruct (work r p) as [a|], (work r' p) as [b|]; intro H.
  - apply sha_inj in H. congruence.
  - exact (sha_nonempty _ H).
  - symmetry in H. exact (sha_nonempty _ H).
  - congruence.
Qed.

End GitProofs.
