From Coq Require Import List Arith Bool Lia.
From MR Require Import Model.Lock.
Import ListNotations.

Lemma set_nth_length {A} (l : list A) n v : length (set_nth l n v) = length l.
Proof. revert n; induction l as [|x l IH]; intros [|n]; simpl; auto. Qed.
Lemma nth_set_nth_same {A} (l : list A) n v d : n < length l -> nth n (set_nth l n v) d = v.
Proof. revert n; induction l as [|x l IH]; intros [|n] H; simpl in *; try lia; auto. apply IH. lia. Qed.
Lemma nth_set_nth_other {A} (l : list A) n m v d : n <> m -> nth m (set_nth l n v) d = nth m l d.
Proof. revert n m; induction l as [|x l IH]; intros [|n] [|m] H; simpl; auto; try congruence. Qed.

(* the OS-level holder is exactly the one process past acquisition *)
Definition LInv (s : sys) : Prop :=
  (forall p, holding s p = true <-> holder s = Some p) /\
  (forall p, In p (effects s) -> p < length (procs s)).

Lemma pget_ge s p : length (procs s) <= p -> pget s p = Ended.
Proof. intros H. unfold pget. apply nth_overflow. exact H. Qed.

Lemma holding_lt s p : holding s p = true -> p < length (procs s).
Proof.
  unfold holding. intros H. destruct (Nat.lt_ge_cases p (length (procs s))); auto.
  rewrite pget_ge in H by assumption. discriminate.
Qed.

Lemma holding_set s p q v h e :
  holding {| holder := h; procs := set_nth (procs s) p v; effects := e |} q =
  if (q =? p) && (p <? length (procs s)) then (match v with Holding _ => true | _ => false end) else holding s q.
Proof.
  unfold holding, pget. simpl.
  destruct (Nat.eqb_spec q p) as [->|Hne]; simpl.
  - destruct (Nat.ltb_spec p (length (procs s))).
    + rewrite nth_set_nth_same by assumption. reflexivity.
    + rewrite !nth_overflow; auto. rewrite set_nth_length. assumption.
  - rewrite nth_set_nth_other by congruence. reflexivity.
Qed.

Lemma step_LInv s c : LInv s -> LInv (step s c).
Proof.
  intros [H1 H2]. destruct c as [p n|p|p]; simpl.
  - destruct (pget s p) eqn:Ep; try (split; assumption).
    assert (Hlt : p < length (procs s)).
    { destruct (Nat.lt_ge_cases p (length (procs s))); auto. rewrite pget_ge in Ep by assumption. discriminate. }
    assert (Hnh : holding s p = false) by (unfold holding; rewrite Ep; reflexivity).
    destruct (holder s) as [h|] eqn:Eh.
    + split; simpl; [|intros q Hq; rewrite set_nth_length; auto].
      intros q. rewrite holding_set. destruct (Nat.eqb_spec q p) as [->|Hne]; simpl.
      * apply Nat.ltb_lt in Hlt. rewrite Hlt. split; [discriminate|]. intros E. apply H1 in E. congruence.
      * apply H1.
    + split; simpl; [|intros q Hq; rewrite set_nth_length; auto].
      intros q. rewrite holding_set. destruct (Nat.eqb_spec q p) as [->|Hne]; simpl.
      * apply Nat.ltb_lt in Hlt. rewrite Hlt. tauto.
      * rewrite H1. split; [discriminate|]. intros E. inversion E. congruence.
  - destruct (pget s p) as [|[|k]| |] eqn:Ep; try (split; assumption).
    + (* last step: exit, release *)
      assert (Hh : holding s p = true) by (unfold holding; rewrite Ep; reflexivity).
      pose proof (holding_lt s p Hh) as Hlt. apply H1 in Hh.
      split; simpl; [|intros q Hq; rewrite set_nth_length; auto].
      intros q. rewrite holding_set. unfold release. rewrite Hh, Nat.eqb_refl.
      destruct (Nat.eqb_spec q p) as [->|Hne]; simpl.
      * apply Nat.ltb_lt in Hlt. rewrite Hlt. split; discriminate.
      * rewrite H1, Hh. split; [intros E; inversion E; congruence | discriminate].
    + assert (Hh : holding s p = true) by (unfold holding; rewrite Ep; reflexivity).
      pose proof (holding_lt s p Hh) as Hlt.
      split; simpl.
      * intros q. rewrite holding_set. destruct (Nat.eqb_spec q p) as [->|Hne]; simpl; [|apply H1].
        apply Nat.ltb_lt in Hlt. rewrite Hlt. rewrite <- H1. tauto.
      * intros q Hq. rewrite set_nth_length. apply in_app_or in Hq as [Hq|[<-|[]]]; auto.
    + split; simpl; [|intros q Hq; rewrite set_nth_length; auto].
      intros q. rewrite holding_set. destruct (Nat.eqb_spec q p) as [->|Hne]; simpl; [|apply H1].
      destruct (p <? length (procs s)); [|apply H1]. rewrite <- H1. unfold holding. rewrite Ep. tauto.
  - destruct (pget s p) as [|k| |] eqn:Ep; try (split; assumption).
    + assert (Hh : holding s p = true) by (unfold holding; rewrite Ep; reflexivity).
      pose proof (holding_lt s p Hh) as Hlt. apply H1 in Hh.
      split; simpl; [|intros q Hq; rewrite set_nth_length; auto].
      intros q. rewrite holding_set. unfold release. rewrite Hh, Nat.eqb_refl.
      destruct (Nat.eqb_spec q p) as [->|Hne]; simpl.
      * apply Nat.ltb_lt in Hlt. rewrite Hlt. split; discriminate.
      * rewrite H1, Hh. split; [intros E; inversion E; congruence | discriminate].
    + split; simpl; [|intros q Hq; rewrite set_nth_length; auto].
      intros q. rewrite holding_set. destruct (Nat.eqb_spec q p) as [->|Hne]; simpl; [|apply H1].
      destruct (p <? length (procs s)); [|apply H1]. rewrite <- H1. unfold holding. rewrite Ep. tauto.
Qed.

Lemma nth_repeat_lt {A} (a d : A) n p : p < n -> nth p (repeat a n) d = a.
Proof. revert p; induction n as [|n IH]; intros [|p] H; simpl; try lia; auto. apply IH. lia. Qed.

Lemma LInv_init n : LInv (init n).
Proof.
  split; simpl; [|intros p []]. intros p. unfold holding, pget. simpl.
  destruct (Nat.lt_ge_cases p n).
  - rewrite nth_repeat_lt by assumption. split; discriminate.
  - rewrite nth_overflow by (rewrite repeat_length; lia). split; discriminate.
Qed.

Theorem run_LInv n cs : LInv (run n cs).
Proof.
  unfold run. rewrite <- (rev_involutive cs). induction (rev cs) as [|c l IH]; simpl; [apply LInv_init|].
  rewrite fold_left_app. simpl. apply step_LInv. exact IH.
Qed.

(* mutual exclusion: at most one process is past lock acquisition *)
Theorem at_most_one_holder n cs p q : holding (run n cs) p = true -> holding (run n cs) q = true -> p = q.
Proof.
  destruct (run_LInv n cs) as [H _]. intros Hp Hq. apply H in Hp, Hq. congruence.
Qed.

(* a step appends an effect only for the process that holds the lock *)
Theorem effects_only_by_holder s c p : LInv s -> effects (step s c) = effects s ++ [p] -> holder s = Some p.
Proof.
  intros [H1 _]. destruct c as [q n|q|q]; simpl.
  - destruct (pget s q); try (intros E; apply (f_equal (@length nat)) in E; rewrite app_length in E; simpl in E; lia).
    destruct (holder s); simpl; intros E; apply (f_equal (@length nat)) in E; rewrite app_length in E; simpl in E; lia.
  - destruct (pget s q) as [|[|k]| |] eqn:Ep; simpl; try (intros E; apply (f_equal (@length nat)) in E; rewrite app_length in E; simpl in E; lia).
    intros E. apply app_inv_head in E. inversion E; subst. apply H1. unfold holding. rewrite Ep. reflexivity.
  - destruct (pget s q); simpl; intros E; apply (f_equal (@length nat)) in E; rewrite app_length in E; simpl in E; lia.
Qed.

(* a process whose bind is refused never performs an effect afterwards: it can only end *)
Theorem refused_does_nothing s p c : pget s p = Refused ->
  (pget (step s c) p = Refused \/ pget (step s c) p = Ended) /\
  (forall q, effects (step s c) = effects s ++ [q] -> q <> p).
Proof.
  intros Hr. split.
  - destruct c as [q n|q|q]; simpl.
    + destruct (pget s q) eqn:Eq; auto. destruct (Nat.eq_dec q p) as [->|Hne]; [congruence|].
      destruct (holder s); unfold pget; simpl; rewrite nth_set_nth_other by exact Hne; auto.
    + destruct (pget s q) as [|[|k]| |] eqn:Eq; auto;
        destruct (Nat.eq_dec q p) as [->|Hne]; try congruence;
        unfold pget; simpl; try (rewrite nth_set_nth_other by exact Hne; auto).
      destruct (Nat.lt_ge_cases p (length (procs s))); [rewrite nth_set_nth_same by assumption; auto|].
      rewrite nth_overflow; [auto|rewrite set_nth_length; assumption].
    + destruct (pget s q) as [|k| |] eqn:Eq; auto;
        destruct (Nat.eq_dec q p) as [->|Hne]; try congruence;
        unfold pget; simpl; try (rewrite nth_set_nth_other by exact Hne; auto).
      destruct (Nat.lt_ge_cases p (length (procs s))); [rewrite nth_set_nth_same by assumption; auto|].
      rewrite nth_overflow; [auto|rewrite set_nth_length; assumption].
  - intros q E Hq. subst q. destruct c as [q n|q|q]; simpl in E.
    + destruct (pget s q); try (apply (f_equal (@length nat)) in E; rewrite app_length in E; simpl in E; lia).
      destruct (holder s); simpl in E; apply (f_equal (@length nat)) in E; rewrite app_length in E; simpl in E; lia.
    + destruct (pget s q) as [|[|k]| |] eqn:Eq; simpl in E; try (apply (f_equal (@length nat)) in E; rewrite app_length in E; simpl in E; lia).
      apply app_inv_head in E. inversion E; subst. congruence.
    + destruct (pget s q); simpl in E; apply (f_equal (@length nat)) in E; rewrite app_length in E; simpl in E; lia.
Qed.

(* when the holder exits or is killed the address is free: the next process to start acquires at once *)
Theorem next_acquires_after_release s p q n :
  LInv s -> holder s = Some p -> pget s q = Idle -> q <> p -> q < length (procs s) ->
  forall c, (c = Kill p \/ (c = Act p /\ pget s p = Holding 0)) ->
  holding (step (step s c) (Start q n)) q = true.
Proof.
  intros [H1 _] Hh Hq Hne Hlt c Hc.
  assert (Hp : holding s p = true) by (apply H1; exact Hh).
  assert (Hs1 : holder (step s c) = None /\ pget (step s c) q = Idle /\ length (procs (step s c)) = length (procs s)).
  { destruct Hc as [->|[-> Ep]]; simpl.
    - unfold holding in Hp. destruct (pget s p) eqn:Ep; try discriminate. simpl.
      unfold release. rewrite Hh, Nat.eqb_refl. unfold pget. simpl. rewrite nth_set_nth_other by congruence. rewrite set_nth_length. auto.
    - rewrite Ep. simpl. unfold release. rewrite Hh, Nat.eqb_refl. unfold pget. simpl. rewrite nth_set_nth_other by congruence. rewrite set_nth_length. auto. }
  destruct Hs1 as (E1 & E2 & E3). simpl. rewrite E2, E1. unfold holding, pget. simpl.
  rewrite nth_set_nth_same by lia. reflexivity.
Qed.
