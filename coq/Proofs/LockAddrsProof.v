(* Mutual exclusion over a lock address that resolves to several socket addresses: with bind_all the holder owns every
   address, so two holders would both own address 0. *)
From Coq Require Import List Arith Bool Lia.
From MR Require Import Model.LockAddrs.
Import ListNotations.

Lemma set_at_length {A} (l : list A) n v : length (set_at l n v) = length l.
Proof. revert n; induction l; intros [|n]; simpl; auto. Qed.
Lemma nth_set_at_same {A} (l : list A) n v d : n < length l -> nth n (set_at l n v) d = v.
Proof. revert n; induction l; intros [|n] H; simpl in *; try lia; auto. apply IHl. lia. Qed.
Lemma nth_set_at_other {A} (l : list A) n m v d : n <> m -> nth m (set_at l n v) d = nth m l d.
Proof. revert n m; induction l; intros [|n] [|m] H; simpl; auto; try congruence. Qed.

Lemma release_all_length o p : length (release_all o p) = length o.
Proof. unfold release_all. apply map_length. Qed.

Lemma nth_release_all o p a d :
  nth a (release_all o p) d = match nth a o d with Some q => if q =? p then None else Some q | None => None end \/ length o <= a.
Proof.
  destruct (Nat.lt_ge_cases a (length o)) as [H|H]; [left|right; exact H].
  unfold release_all. revert a H. induction o as [|x o IH]; intros [|a] H; simpl in *; try lia; auto. apply IH. lia.
Qed.

(* what a process owns, by state *)
Definition owns_prefix (s : msys) (p : nat) : Prop :=
  match mget s p with
  | MHolding => forall a, a < length (owner s) -> nth a (owner s) None = Some p
  | MBinding i => i < length (owner s) /\ forall a, a < i -> nth a (owner s) None = Some p
  | _ => True
  end.
Definition AInv (s : msys) : Prop := forall p, p < length (mprocs s) -> owns_prefix s p.

Lemma mget_set_same s p v : p < length (mprocs s) -> nth p (set_at (mprocs s) p v) MEnded = v.
Proof. apply nth_set_at_same. Qed.

Lemma step_AInv s c : AInv s -> AInv (mstep true s c).
Proof.
  intros Inv. destruct c as [p|p|p]; simpl.
  - (* start *)
    destruct (mget s p) eqn:Ep; try exact Inv.
    intros q Hq. simpl in Hq. rewrite set_at_length in Hq. unfold owns_prefix, mget. simpl.
    destruct (Nat.eq_dec p q) as [->|Hne].
    + rewrite nth_set_at_same by exact Hq. destruct (length (owner s) =? 0) eqn:E0; [exact Logic.I|].
      apply Nat.eqb_neq in E0. split; [lia|]. intros a Ha. lia.
    + rewrite nth_set_at_other by exact Hne. apply (Inv q Hq).
  - (* bind *)
    destruct (mget s p) as [|i| | |] eqn:Ep; try exact Inv.
    assert (Hp : p < length (mprocs s)).
    { destruct (Nat.lt_ge_cases p (length (mprocs s))); auto. unfold mget in Ep. rewrite nth_overflow in Ep by lia. discriminate. }
    pose proof (Inv p Hp) as Ip. unfold owns_prefix in Ip. rewrite Ep in Ip. destruct Ip as [Hi Hpre].
    destruct (nth i (owner s) (Some p)) as [o|] eqn:Eo.
    + (* in use: release everything, refused *)
      intros q Hq. simpl in Hq. rewrite set_at_length in Hq. unfold owns_prefix, mget. simpl.
      destruct (Nat.eq_dec p q) as [->|Hne]; [rewrite nth_set_at_same by exact Hq; exact Logic.I|].
      rewrite nth_set_at_other by exact Hne. pose proof (Inv q Hq) as Iq. unfold owns_prefix, mget in Iq.
      rewrite release_all_length.
      destruct (nth q (mprocs s) MEnded) eqn:Eq; auto.
      * destruct Iq as [Hj Hq']. split; auto. intros a Ha.
        destruct (nth_release_all (owner s) p a None) as [E|E]; [|lia]. rewrite E, (Hq' a Ha).
        destruct (Nat.eqb_spec q p); [congruence|reflexivity].
      * intros a Ha. destruct (nth_release_all (owner s) p a None) as [E|E]; [|lia]. rewrite E, (Iq a Ha).
        destruct (Nat.eqb_spec q p); [congruence|reflexivity].
    + (* free: bind it *)
      assert (Eo' : nth i (owner s) None = None).
      { rewrite (nth_indep (owner s) None (Some p) Hi). exact Eo. }
      intros q Hq. simpl in Hq. rewrite set_at_length in Hq. unfold owns_prefix, mget. simpl. rewrite set_at_length.
      destruct (Nat.eq_dec p q) as [->|Hne].
      * rewrite nth_set_at_same by exact Hq.
        destruct (length (owner s)) as [|m'] eqn:EL; [lia|].
        destruct (i =? m') eqn:EK.
        -- apply Nat.eqb_eq in EK. intros a Ha. destruct (Nat.eq_dec a i) as [->|Hai].
           ++ apply nth_set_at_same. lia.
           ++ rewrite nth_set_at_other by auto. apply Hpre. lia.
        -- apply Nat.eqb_neq in EK. split; [lia|]. intros a Ha. destruct (Nat.eq_dec a i) as [->|Hai].
           ++ apply nth_set_at_same. lia.
           ++ rewrite nth_set_at_other by auto. apply Hpre. lia.
      * rewrite nth_set_at_other by exact Hne. pose proof (Inv q Hq) as Iq. unfold owns_prefix, mget in Iq.
        destruct (nth q (mprocs s) MEnded) eqn:Eq; auto.
        -- destruct Iq as [Hj Hq']. split; auto. intros a Ha. destruct (Nat.eq_dec a i) as [->|Hai].
           ++ rewrite (Hq' i Ha) in Eo'. discriminate.
           ++ rewrite nth_set_at_other by auto. apply Hq'. exact Ha.
        -- intros a Ha. destruct (Nat.eq_dec a i) as [->|Hai].
           ++ rewrite (Iq i Hi) in Eo'. discriminate.
           ++ rewrite nth_set_at_other by auto. apply Iq. exact Ha.
  - (* exit *)
    assert (Hrel : forall q, q <> p -> q < length (mprocs s) ->
              owns_prefix {| owner := release_all (owner s) p; mprocs := set_at (mprocs s) p MEnded |} q).
    { intros q Hne Hq. unfold owns_prefix, mget. simpl. rewrite nth_set_at_other by auto. rewrite release_all_length.
      pose proof (Inv q Hq) as Iq. unfold owns_prefix, mget in Iq.
      destruct (nth q (mprocs s) MEnded) eqn:Eq; auto.
      - destruct Iq as [Hj Hq']. split; auto. intros a Ha.
        destruct (nth_release_all (owner s) p a None) as [E|E]; [|lia]. rewrite E, (Hq' a Ha).
        destruct (Nat.eqb_spec q p); [congruence|reflexivity].
      - intros a Ha. destruct (nth_release_all (owner s) p a None) as [E|E]; [|lia]. rewrite E, (Iq a Ha).
        destruct (Nat.eqb_spec q p); [congruence|reflexivity]. }
    destruct (mget s p) eqn:Ep; try exact Inv;
      (intros q Hq; simpl in Hq; rewrite set_at_length in Hq;
       destruct (Nat.eq_dec q p) as [->|Hne]; [unfold owns_prefix, mget; simpl; rewrite nth_set_at_same by exact Hq; exact Logic.I | apply Hrel; auto]).
Qed.

Lemma AInv_init K n : AInv (minit K n).
Proof.
  intros p Hp. unfold owns_prefix, mget, minit in *. simpl in *. rewrite repeat_length in Hp.
  rewrite (nth_indep _ MEnded MIdle) by (rewrite repeat_length; exact Hp). rewrite nth_repeat. exact Logic.I.
Qed.

Theorem mrun_AInv K n cs : AInv (mrun true K n cs).
Proof.
  unfold mrun. rewrite <- (rev_involutive cs). induction (rev cs) as [|c l IH]; simpl; [apply AInv_init|].
  rewrite fold_left_app. simpl. apply step_AInv. exact IH.
Qed.

Lemma mholding_lt s p : mholding s p = true -> p < length (mprocs s).
Proof.
  unfold mholding, mget. intros H. destruct (Nat.lt_ge_cases p (length (mprocs s))); auto.
  rewrite nth_overflow in H by lia. discriminate.
Qed.

Lemma owner_length K n cs : length (owner (mrun true K n cs)) = K.
Proof.
  unfold mrun. rewrite <- (rev_involutive cs). induction (rev cs) as [|c l IH]; simpl; [apply repeat_length|].
  rewrite fold_left_app. simpl. set (s := fold_left (mstep true) (rev l) (minit K n)) in *.
  destruct c as [p|p|p]; simpl.
  - destruct (mget s p); exact IH.
  - destruct (mget s p); try exact IH. destruct (nth i (owner s) (Some p)); simpl; rewrite ?release_all_length, ?set_at_length; exact IH.
  - destruct (mget s p); try exact IH; simpl; rewrite release_all_length; exact IH.
Qed.

(* C14 over a multi-address lock: for every number of addresses K >= 1, processes and schedule, at most one process is past acquisition *)
Theorem multi_address_exclusion K n cs p q : 0 < K ->
  mholding (mrun true K n cs) p = true -> mholding (mrun true K n cs) q = true -> p = q.
Proof.
  intros HK Hp Hq. pose proof (mrun_AInv K n cs) as I. pose proof (owner_length K n cs) as HL.
  pose proof (I p (mholding_lt _ _ Hp)) as Ip. pose proof (I q (mholding_lt _ _ Hq)) as Iq.
  unfold owns_prefix in Ip, Iq. unfold mholding in Hp, Hq.
  destruct (mget (mrun true K n cs) p); try discriminate. destruct (mget (mrun true K n cs) q); try discriminate.
  assert (H0 : 0 < length (owner (mrun true K n cs))) by lia.
  pose proof (Ip 0 H0) as E1. pose proof (Iq 0 H0) as E2. congruence.
Qed.

(* ---------- repeated addresses ---------- *)
Lemma bind_list_nodup addrs : forall held, NoDup addrs -> (forall a, In a addrs -> ~ In a held) -> bind_list held addrs = true.
Proof.
  induction addrs as [|a r IH]; intros held Hnd Hdis; simpl; [reflexivity|].
  inversion Hnd as [|? ? Hnot Hnd']; subst.
  destruct (existsb (Nat.eqb a) held) eqn:E.
  - exfalso. apply existsb_exists in E as (x & Hx & Ex). apply Nat.eqb_eq in Ex. subst x. exact (Hdis a (or_introl eq_refl) Hx).
  - apply IH; [exact Hnd'|]. intros b Hb [Hba|Hbh]; [subst; contradiction|]. exact (Hdis b (or_intror Hb) Hbh).
Qed.

Theorem lone_process_acquires resolved : acquire_alone true resolved = true.
Proof.
  unfold acquire_alone. apply bind_list_nodup; [apply NoDup_nodup|]. intros a _ H. exact H.
Qed.
