From Coq Require Import List Bool.
From MR Require Import Model.CheckpointSave.
Import ListNotations.

(* with the atomic save the file is never garbage, and it always shows the last reported record *)
Definition good {cp} (f : file cp) : Prop := f <> Garbage.

Lemma step_good cp (f : file cp) o : good f -> good (fst (step cp true f o)).
Proof.
  unfold good. intros H. destruct o as [r [|]| | | |]; destruct f; simpl; congruence.
Qed.

Lemma run_spec cp ops : forall (f : file cp) acc, good f -> show cp f = acc ->
  show cp (run cp true ops f) = last_reported cp true ops f acc /\ good (run cp true ops f).
Proof.
  induction ops as [|o ops IH]; intros f acc Hg Hs; simpl; [auto|].
  destruct (step cp true f o) as [f' ok] eqn:E. simpl.
  assert (Hg' : good f') by (pose proof (step_good cp f o Hg) as G; rewrite E in G; exact G).
  apply IH; [exact Hg'|].
  unfold good in Hg. destruct o as [r [|]| | | |]; destruct f; simpl in *; try congruence; inversion E; subst; simpl; auto.
Qed.

Theorem C19_save cp ops :
  show cp (run cp true ops Absent) = last_reported cp true ops Absent None.
Proof. apply (run_spec cp ops Absent None); [discriminate|reflexivity]. Qed.
