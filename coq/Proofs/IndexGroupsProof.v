From Coq Require Import List Arith NArith Bool Lia.
From MR Require Import Lib.Bytes Model.Index Model.Dag Model.IndexGroups Proofs.IndexProof Proofs.DagApi.
Import ListNotations.

(* target i depends on target j, by position in the configuration *)
Definition dep_idx (cfg : config) (i j : nat) : Prop :=
  exists ti tj, nth_error cfg i = Some ti /\ nth_error cfg j = Some tj /\ dep ti tj.

Lemma cfg_graph_wf cfg : wf_config cfg -> wf (cfg_graph cfg).
Proof.
  intros Hwf. unfold wf, cfg_graph, size, deps. simpl. split; [apply repeat_length|].
  intros i j Hj. rewrite adj_length. eapply adj_in_range; eauto.
Qed.

Lemma cfg_graph_edge cfg i j : wf_config cfg -> (edge (cfg_graph cfg) i j <-> dep_idx cfg i j).
Proof.
  intros Hwf. unfold edge, cfg_graph, size, deps, dep_idx. simpl. rewrite adj_length. split.
  - intros [Hi Hj].
    destruct (nth_error cfg i) as [ti|] eqn:Ei; [|apply nth_error_None in Ei; lia].
    assert (Hjl : j < length cfg) by (eapply adj_in_range; eauto).
    destruct (nth_error cfg j) as [tj|] eqn:Ej; [|apply nth_error_None in Ej; lia].
    exists ti, tj. split; [reflexivity|]. split; [reflexivity|]. apply (C10_adj cfg i j ti tj Hwf Ei Ej). exact Hj.
  - intros (ti & tj & Ei & Ej & Hd). split; [apply nth_error_Some; congruence|].
    apply (C10_adj cfg i j ti tj Hwf Ei Ej). exact Hd.
Qed.

(* C03 / C09 at configuration level: the groups computed from a well-formed configuration and a set of roots
   (visible targets, by position) are a valid layering of the dependency closure whenever no cycle of the
   DECLARED dependency relation is reachable, and a cycle error otherwise *)
Theorem index_groups_spec cfg roots :
  wf_config cfg -> (forall r, In r roots -> r < length cfg) ->
  let g := cfg_graph cfg in
  (forall i j, edge g i j <-> dep_idx cfg i j) /\
  (~ cyclic_from g roots -> exists gs, api_groups (adj_of cfg) roots = Ok gs /\ valid_layering g roots gs) /\
  (cyclic_from g roots -> exists n, api_groups (adj_of cfg) roots = ErrCycle n).
Proof.
  intros Hwf Hr. cbv zeta. split; [intros i j; apply cfg_graph_edge; exact Hwf|].
  assert (Hr' : forall r, In r roots -> r < length (adj_of cfg)) by (intros r H; rewrite adj_length; auto).
  pose proof (cfg_graph_wf cfg Hwf) as Hg. unfold cfg_graph in *.
  split.
  - intros Hnc. apply (C03_dag (adj_of cfg) roots Hg Hr' Hnc).
  - intros Hc. apply (C09_dag (adj_of cfg) roots Hg Hr' Hc).
Qed.

(* ---------- pruning to the changed targets ---------- *)
Lemma concat_drop_empty {A} (l : list (list A)) :
  concat (filter (fun g => match g with [] => false | _ => true end) l) = concat l.
Proof. induction l as [|g l IH]; simpl; auto. destruct g; simpl; rewrite IH; reflexivity. Qed.

Lemma prune_concat gs keep : concat (prune gs keep) = filter (fun p => mem_str p keep) (concat gs).
Proof.
  unfold prune. rewrite concat_drop_empty. induction gs as [|g gs IH]; simpl; auto.
  rewrite filter_app, IH. reflexivity.
Qed.

Lemma prune_In gs keep x :
  In x (concat (prune gs keep)) <-> In x (concat gs) /\ mem_str x keep = true.
Proof. rewrite prune_concat, filter_In. tauto. Qed.

Lemma prune_nonempty gs keep g : In g (prune gs keep) -> g <> [].
Proof. unfold prune. rewrite filter_In. intros [_ H]. destruct g; [discriminate|congruence]. Qed.

Lemma NoDup_filter' {A} (f : A -> bool) l : NoDup l -> NoDup (filter f l).
Proof. apply NoDup_filter. Qed.

Lemma prune_NoDup gs keep : NoDup (concat gs) -> NoDup (concat (prune gs keep)).
Proof. intros H. rewrite prune_concat. apply NoDup_filter. exact H. Qed.

(* x sits in a strictly earlier group than y *)
Definition before (gs : list (list str)) (x y : str) : Prop :=
  exists pre g post, gs = pre ++ g :: post /\ In x (concat pre) /\ In y g.

Lemma prune_app gs1 gs2 keep : prune (gs1 ++ gs2) keep = prune gs1 keep ++ prune gs2 keep.
Proof. unfold prune. rewrite map_app, filter_app. reflexivity. Qed.

Theorem prune_keeps_order gs keep x y :
  before gs x y -> mem_str x keep = true -> mem_str y keep = true -> before (prune gs keep) x y.
Proof.
  intros (pre & g & post & -> & Hx & Hy) Kx Ky.
  rewrite prune_app. change (g :: post) with ([g] ++ post). rewrite prune_app.
  assert (Hg : prune [g] keep = [filter (fun p => mem_str p keep) g]).
  { unfold prune. simpl. destruct (filter (fun p => mem_str p keep) g) eqn:Ef; [|reflexivity].
    exfalso. assert (Hin : In y (filter (fun p => mem_str p keep) g)) by (apply filter_In; auto). rewrite Ef in Hin. destruct Hin. }
  rewrite Hg. exists (prune pre keep), (filter (fun p => mem_str p keep) g), (prune post keep).
  split; [reflexivity|]. split; [apply prune_In; auto | apply filter_In; auto].
Qed.

(* hence: pruning a valid layering (dependencies in strictly earlier groups) to any set of targets leaves a
   partition of exactly the kept targets, without empty groups, in which every kept dependency of a kept
   target still sits in a strictly earlier group *)
Theorem prune_spec gs keep :
  NoDup (concat gs) ->
  NoDup (concat (prune gs keep)) /\
  (forall x, In x (concat (prune gs keep)) <-> In x (concat gs) /\ mem_str x keep = true) /\
  (forall g, In g (prune gs keep) -> g <> []) /\
  (forall x y, before gs x y -> mem_str x keep = true -> mem_str y keep = true -> before (prune gs keep) x y).
Proof.
  intros Hnd. split; [apply prune_NoDup; exact Hnd|]. split; [apply prune_In|]. split; [apply prune_nonempty|apply prune_keeps_order].
Qed.
