From Coq Require Import List Arith NArith Bool Lia Sorting.Sorted.
From MR Require Import Lib.Bytes Lib.Val Lib.ListX Model.Index Proofs.IndexProof.
Import ListNotations.


Lemma render_nodes labels a n l : length labels = length a ->
  (In (NodeLine n l) (render_dot labels a) <-> nth_error labels n = Some l).
Proof.
  intros Hl. unfold render_dot. rewrite in_app_iff, in_map_iff, in_flat_map. split.
  - intros [((n', l') & E & Hin)|((i, row) & _ & Hin)].
    + inversion E; subst. rewrite <- Hl in Hin. apply in_combine_seq in Hin as [_ H]. rewrite Nat.sub_0_r in H. exact H.
    + apply in_map_iff in Hin as (j & E & _). discriminate.
  - intros H. left. exists (n, l). split; auto. rewrite <- Hl. apply in_combine_seq. rewrite Nat.sub_0_r. split; [lia|exact H].
Qed.

Lemma render_edges labels a i j :
  (In (EdgeLine i j) (render_dot labels a) <-> In j (nth i a [])).
Proof.
  unfold render_dot. rewrite in_app_iff, in_map_iff, in_flat_map. split.
  - intros [((n', l') & E & Hin)|((i', row) & Hc & Hin)]; [discriminate|].
    apply in_map_iff in Hin as (j' & E & Hj). inversion E; subst.
    apply in_combine_seq in Hc as [_ H]. rewrite Nat.sub_0_r in H.
    erewrite nth_error_nth; eauto.
  - intros H. right. destruct (nth_error a i) as [row|] eqn:E.
    + exists (i, row). split; [apply in_combine_seq; rewrite Nat.sub_0_r; split; [lia|exact E]|].
      erewrite nth_error_nth in H; eauto. apply in_map. exact H.
    + rewrite nth_overflow in H; [destruct H|]. apply nth_error_None. exact E.
Qed.

Theorem C10_all : forall cfg, wf_config cfg ->
    (forall i j ti tj, nth_error cfg i = Some ti -> nth_error cfg j = Some tj ->
        (In j (nth i (adj_of cfg) []) <-> dep ti tj)) /\
    length (adj_of cfg) = length cfg /\
    (forall i, NoDup (nth i (adj_of cfg) [])) /\
    (forall i j, In j (nth i (adj_of cfg) []) -> j < length cfg) /\
    (forall n l, In (NodeLine n l) (render_dot (target_paths cfg) (adj_of cfg)) <-> nth_error (target_paths cfg) n = Some l) /\
    (forall i j, In (EdgeLine i j) (render_dot (target_paths cfg) (adj_of cfg)) <-> In j (nth i (adj_of cfg) [])).
Proof.
  intros cfg Hwf. split; [|split; [|split; [|split; [|split]]]].
  - intros i j ti tj Hi Hj. apply C10_adj; auto.
  - apply adj_length.
  - intros i. apply StronglySorted_lt_NoDup, adj_sorted.
  - intros i j. apply adj_in_range; auto.
  - intros n l. apply render_nodes. unfold target_paths. rewrite map_length, adj_length. reflexivity.
  - intros i j. apply render_edges.
Qed.
