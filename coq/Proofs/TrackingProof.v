From Coq Require Import List Arith Bool Lia.
From MR Require Import Model.Tracking.
Import ListNotations.
Arguments slot_of_run : simpl never.

(* logs of a run as they end up in the slot: first occurrences, in order *)
Definition add_log (acc : list nat) (l : nat) := if existsb (Nat.eqb l) acc then acc else acc ++ [l].
Definition norm_logs (ls : list nat) : list nat := fold_left add_log ls [].

(* ---------- which parts of the state an operation can touch ---------- *)
Definition slot_op (i : nat) (o : op) : Prop :=
  match o with
  | Wipe j | Mkdir j | AddLog j _ | WriteResult j _ => j = i
  | WriteTmp _ => True
  | Truncate | WritePtr _ | Rename => False
  end.

Lemma set_slot_other f i v j : j <> i -> slots (set_slot f i v) j = slots f j.
Proof. intros H. simpl. destruct (Nat.eqb_spec j i); congruence. Qed.
Lemma set_slot_same f i v : slots (set_slot f i v) i = v.
Proof. simpl. rewrite Nat.eqb_refl. reflexivity. Qed.

Lemma slot_op_apply i o f : slot_op i o ->
  pointer (apply f o) = pointer f /\ forall j, j <> i -> slots (apply f o) j = slots f j.
Proof.
  intros H; split.
  - destruct o; simpl in *; try contradiction; subst; auto;
      repeat match goal with |- context [match slots ?g ?k with _ => _ end] => destruct (slots g k) as [[? ?]|] end; auto.
  - intros j Hj. destruct o; simpl in *; try contradiction; subst; auto;
      repeat match goal with |- context [match slots ?g ?k with _ => _ end] => destruct (slots g k) as [[? ?]|] end; simpl; auto;
      destruct (Nat.eqb_spec j i); congruence.
Qed.

Lemma slot_ops_fold i ops : forall f, Forall (slot_op i) ops ->
  pointer (fold_left apply ops f) = pointer f /\ forall j, j <> i -> slots (fold_left apply ops f) j = slots f j.
Proof.
  induction ops as [|o ops IH]; intros f H; simpl; [auto|].
  inversion H as [|? ? Ho Hops]; subst. destruct (slot_op_apply i o f Ho) as [H1 H2].
  destruct (IH (apply f o) Hops) as [H3 H4]. split; [congruence|]. intros j Hj. rewrite H4, H2; auto.
Qed.

(* ---------- the effect of the slot-filling part of a run ---------- *)
Lemma addlogs_fold i ls : forall f acc r0, slots f i = Some (acc, r0) ->
  slots (fold_left apply (map (AddLog i) ls) f) i = Some (fold_left add_log ls acc, r0).
Proof.
  induction ls as [|l ls IH]; intros f acc r0 H; simpl; auto.
  apply IH. rewrite H. rewrite set_slot_same. reflexivity.
Qed.

Definition fill_ops (i : nat) (r : run_rec) : list op :=
  [Wipe i; Mkdir i] ++ map (AddLog i) (rlogs r) ++ [WriteResult i (rresult r)].

Lemma fill_ops_slot i r f : slots (fold_left apply (fill_ops i r) f) i = Some (norm_logs (rlogs r), Some (rresult r)).
Proof.
  unfold fill_ops. rewrite !fold_left_app. cbn [fold_left].
  set (f1 := apply (apply f (Wipe i)) (Mkdir i)).
  assert (H1 : slots f1 i = Some ([], None)).
  { unfold f1. simpl. rewrite Nat.eqb_refl. simpl. rewrite Nat.eqb_refl. reflexivity. }
  pose proof (addlogs_fold i (rlogs r) f1 [] None H1) as H2.
  simpl. rewrite H2. rewrite set_slot_same. reflexivity.
Qed.

Lemma fill_ops_safe i r : Forall (slot_op i) (fill_ops i r).
Proof.
  unfold fill_ops. apply Forall_app. split; [repeat constructor|]. apply Forall_app. split.
  - apply Forall_forall. intros o Ho. apply in_map_iff in Ho as (l & <- & _). reflexivity.
  - repeat constructor.
Qed.

Lemma run_ops_split a i r : run_ops a i r = fill_ops i r ++ (if a then [WriteTmp i; Rename] else [Truncate; WritePtr i]).
Proof. unfold run_ops, fill_ops. rewrite <- !app_assoc. reflexivity. Qed.

Lemma run_effect a i r f : let f' := fold_left apply (run_ops a i r) f in
  pointer f' = PVal i /\ (forall j, j <> i -> slots f' j = slots f j) /\
  slots f' i = Some (norm_logs (rlogs r), Some (rresult r)).
Proof.
  cbv zeta. rewrite run_ops_split, fold_left_app.
  destruct (slot_ops_fold i (fill_ops i r) f (fill_ops_safe i r)) as [Hp Ho].
  pose proof (fill_ops_slot i r f) as Hs.
  destruct a; simpl; repeat split; auto.
Qed.

(* ---------- C12: histories of completed runs ---------- *)
Section H.
Variable M : nat.
Hypothesis HM : 1 <= M.
Variable a : bool.

Lemma slot_of_run_range n : 1 <= slot_of_run M n <= M.
Proof. unfold slot_of_run. pose proof (Nat.mod_upper_bound (n - 1) M). lia. Qed.

Lemma succ_mod x : S x mod M = if S (x mod M) =? M then 0 else S (x mod M).
Proof.
  assert (Hm : M <> 0) by lia. pose proof (Nat.div_mod x M Hm) as Hd. pose proof (Nat.mod_upper_bound x M Hm) as Hu.
  destruct (Nat.eqb_spec (S (x mod M)) M) as [E|E].
  - symmetry. apply (Nat.mod_unique (S x) M (S (x / M)) 0); [lia|]. rewrite Nat.mul_succ_r. lia.
  - symmetry. apply (Nat.mod_unique (S x) M (x / M) (S (x mod M))); lia.
Qed.

Lemma next_slot k : 1 <= k ->
  (if M <=? slot_of_run M k then 1 else S (slot_of_run M k)) = slot_of_run M (S k).
Proof.
  intros Hk. unfold slot_of_run. replace (S k - 1) with (S (k - 1)) by lia. rewrite succ_mod.
  pose proof (Nat.mod_upper_bound (k - 1) M). 
  destruct (Nat.leb_spec M (S ((k - 1) mod M))), (Nat.eqb_spec (S ((k - 1) mod M)) M); lia.
Qed.

Lemma slot_distinct n n' : n < n' -> n' - n < M -> 1 <= n -> slot_of_run M n' <> slot_of_run M n.
Proof.
  intros H1 H2 H3 E. unfold slot_of_run in E. injection E as E.
  assert (Hm : M <> 0) by lia.
  pose proof (Nat.div_mod (n' - 1) M Hm) as D1. pose proof (Nat.div_mod (n - 1) M Hm) as D2.
  rewrite E in D1.
  assert (Hq : (n - 1) / M <= (n' - 1) / M) by (apply Nat.div_le_mono; lia).
  assert (Hdiff : n' - n = M * ((n' - 1) / M - (n - 1) / M)).
  { rewrite Nat.mul_sub_distr_l. lia. }
  destruct ((n' - 1) / M - (n - 1) / M) as [|d] eqn:Eq; [lia|].
  rewrite Nat.mul_succ_r in Hdiff. lia.
Qed.

(* the latest run (1-based, <= k) that used slot i *)
Fixpoint owner (k i : nat) : option nat :=
  match k with
  | 0 => None
  | S k' => if slot_of_run M (S k') =? i then Some (S k') else owner k' i
  end.

Lemma owner_range k i n : owner k i = Some n -> 1 <= n <= k /\ slot_of_run M n = i.
Proof.
  induction k as [|k IH]; cbn [owner]; [discriminate|].
  destruct (Nat.eqb_spec (slot_of_run M (S k)) i) as [E|E].
  - intros H. injection H as H. subst n. split; [lia|exact E].
  - intros H. apply IH in H. destruct H as [H1 H2]. split; [lia|exact H2].
Qed.

Lemma owner_recent k n : 1 <= n <= k -> k - n < M -> owner k (slot_of_run M n) = Some n.
Proof.
  induction k as [|k IH]; intros Hn Hk; [lia|]. cbn [owner].
  destruct (Nat.eq_dec n (S k)) as [->|Hne].
  - rewrite Nat.eqb_refl. reflexivity.
  - destruct (Nat.eqb_spec (slot_of_run M (S k)) (slot_of_run M n)) as [E|E].
    + exfalso. apply (slot_distinct n (S k)); auto; lia.
    + apply IH; lia.
Qed.

Definition content (r : run_rec) : slot := Some (norm_logs (rlogs r), Some (rresult r)).
Definition rec_at (rs : list run_rec) (n : nat) : run_rec := nth (n - 1) rs {| rlogs := []; rresult := 0 |}.

Definition HInv (rs : list run_rec) (f : fs) : Prop :=
  let k := length rs in
  pointer f = (match k with 0 => PAbsent | _ => PVal (slot_of_run M k) end) /\
  forall i, slots f i = match owner k i with Some n => content (rec_at rs n) | None => None end.

Lemma history_snoc rs r : history M a (rs ++ [r]) = do_run M a (history M a rs) r.
Proof. unfold history. rewrite fold_left_app. reflexivity. Qed.

Lemma HInv_history rs : HInv rs (history M a rs).
Proof.
  induction rs as [|r rs IH] using rev_ind.
  - split; simpl; auto.
  - rewrite history_snoc. set (f := history M a rs) in *. destruct IH as [Hp Hs].
    set (k := length rs) in *.
    assert (Hnext : next_id M f = Some (slot_of_run M (S k))).
    { unfold next_id. rewrite Hp. destruct k as [|k'] eqn:Ek.
      - unfold slot_of_run. simpl. rewrite Nat.mod_0_l by lia. reflexivity.
      - f_equal. apply next_slot. lia. }
    unfold do_run. rewrite Hnext.
    destruct (run_effect a (slot_of_run M (S k)) r f) as (E1 & E2 & E3).
    unfold HInv. rewrite app_length. simpl length. fold k. replace (k + 1) with (S k) by lia.
    split; [exact E1|]. intros i. cbn [owner].
    destruct (Nat.eqb_spec (slot_of_run M (S k)) i) as [<-|Hne].
    + rewrite E3. unfold content, rec_at. replace (S k - 1) with k by lia.
      rewrite app_nth2 by (fold k; lia). fold k. rewrite Nat.sub_diag. reflexivity.
    + rewrite E2 by congruence. rewrite Hs. destruct (owner k i) as [n|] eqn:Eo; auto.
      apply owner_range in Eo as [Hn _]. unfold rec_at. rewrite app_nth1 by (fold k; lia). reflexivity.
Qed.

Theorem C12_history rs : rs <> [] ->
  let f := history M a rs in let k := length rs in
  pointer f = PVal (slot_of_run M k) /\
  show f = Shows (norm_logs (rlogs (rec_at rs k))) (rresult (rec_at rs k)) /\
  (forall n, 1 <= n <= k -> k - n < M ->
     show_slot f (slot_of_run M n) = Shows (norm_logs (rlogs (rec_at rs n))) (rresult (rec_at rs n))) /\
  (forall i, slots f i <> None -> 1 <= i <= M).
Proof.
  intros Hne. cbv zeta. destruct (HInv_history rs) as [Hp Hs].
  assert (Hk : 1 <= length rs) by (destruct rs; [congruence|simpl; lia]).
  destruct (length rs) as [|k'] eqn:Ek; [lia|]. rewrite <- Ek in *.
  assert (Hret : forall n, 1 <= n <= length rs -> length rs - n < M ->
     show_slot (history M a rs) (slot_of_run M n) = Shows (norm_logs (rlogs (rec_at rs n))) (rresult (rec_at rs n))).
  { intros n Hn Hd. unfold show_slot. rewrite Hs, owner_recent by auto. reflexivity. }
  split; [rewrite Hp, Ek; reflexivity|]. split; [|split].
  - unfold show. rewrite Hp, Ek. rewrite <- Ek. apply Hret; lia.
  - exact Hret.
  - intros i Hi. rewrite Hs in Hi. destruct (owner (length rs) i) as [n|] eqn:Eo; [|congruence].
    apply owner_range in Eo as [_ <-]. apply slot_of_run_range.
Qed.
End H.

(* ---------- C12 with rejected invocations in between ---------- *)
Lemma invocations_completed M vs : invocations M false vs = history M true (completed vs).
Proof.
  unfold invocations, history.
  assert (G : forall f, fold_left (do_invocation M false) vs f = fold_left (do_run M true) (completed vs) f).
  { induction vs as [|v vs IH]; intros f; simpl; [reflexivity|]. destruct v as [r|]; simpl; apply IH. }
  apply G.
Qed.

(* ---------- C13: a run killed after any strict prefix of its effects ---------- *)
Definition healthy (M : nat) (f : fs) : Prop :=
  match pointer f with
  | PAbsent => True
  | PEmpty => False
  | PVal id => 1 <= id <= M /\ exists ls r, slots f id = Some (ls, Some r)
  end.

Lemma firstn_strict_prefix {A} (l : list A) x k : k < length (l ++ [x]) -> firstn k (l ++ [x]) = firstn k l.
Proof. intros H. rewrite app_length in H. simpl in H. rewrite firstn_app. replace (k - length l) with 0 by lia. simpl. apply app_nil_r. Qed.

Lemma Forall_firstn {A} (P : A -> Prop) l k : Forall P l -> Forall P (firstn k l).
Proof. revert k; induction l as [|x l IH]; intros [|k] H; simpl; auto. inversion H; subst. constructor; auto. Qed.

Theorem C13_crash_safe (M : nat) (f : fs) i (r : run_rec) k :
  2 <= M -> healthy M f -> next_id M f = Some i -> k < length (run_ops true i r) ->
  let f' := crash true f i r k in
  show f' = show f /\ healthy M f' /\ next_id M f' = Some i /\
  (forall j, j <> i -> slots f' j = slots f j).
Proof.
  intros HM Hh Hn Hk. cbv zeta. unfold crash.
  assert (Esplit : run_ops true i r = (fill_ops i r ++ [WriteTmp i]) ++ [Rename]).
  { rewrite run_ops_split. rewrite <- app_assoc. reflexivity. }
  rewrite Esplit in Hk |- *. rewrite firstn_strict_prefix by exact Hk.
  assert (Hsafe : Forall (slot_op i) (firstn k (fill_ops i r ++ [WriteTmp i]))).
  { apply Forall_firstn. apply Forall_app. split; [apply fill_ops_safe|repeat constructor]. }
  destruct (slot_ops_fold i _ f Hsafe) as [Hp Ho].
  set (f' := fold_left apply (firstn k (fill_ops i r ++ [WriteTmp i])) f) in *.
  assert (Hni : next_id M f' = Some i) by (unfold next_id in *; rewrite Hp; exact Hn).
  split; [|split; [|split; [exact Hni|exact Ho]]].
  - unfold show. rewrite Hp. destruct (pointer f) as [| |id] eqn:Ep; auto.
    unfold healthy in Hh. rewrite Ep in Hh. destruct Hh as [Hid _].
    assert (Hne : id <> i).
    { unfold next_id in Hn. rewrite Ep in Hn. inversion Hn; subst i. destruct (Nat.leb_spec M id); lia. }
    unfold show_slot. rewrite (Ho id Hne). reflexivity.
  - unfold healthy in *. rewrite Hp. destruct (pointer f) as [| |id] eqn:Ep; auto.
    destruct Hh as [Hid (ls & r0 & Hs)]. split; auto.
    assert (Hne : id <> i).
    { unfold next_id in Hn. rewrite Ep in Hn. inversion Hn; subst i. destruct (Nat.leb_spec M id); lia. }
    exists ls, r0. rewrite (Ho id Hne). exact Hs.
Qed.

(* ---------- C13 when max_retained_runs changes between runs ---------- *)
(* what every completed run leaves behind, whatever limit it ran under: the pointer names a slot that holds a result *)
Definition recorded (f : fs) : Prop :=
  match pointer f with
  | PAbsent => True
  | PEmpty => False
  | PVal id => exists ls r, slots f id = Some (ls, Some r)
  end.

Lemma healthy_recorded M f : healthy M f -> recorded f.
Proof. unfold healthy, recorded. destruct (pointer f); auto. intros [_ H]; exact H. Qed.

Lemma do_run_recorded M f r : recorded f -> recorded (do_run M true f r).
Proof.
  intros Hr. unfold do_run. destruct (next_id M f) as [i|] eqn:En; [|exact Hr].
  destruct (run_effect true i r f) as (Hp & _ & Hs).
  unfold recorded. rewrite Hp, Hs. eauto.
Qed.

Lemma history_var_recorded (rs : list (nat * run_rec)) : recorded (history_var true rs).
Proof.
  unfold history_var.
  assert (G : forall f, recorded f -> recorded (fold_left (fun f mr => do_run (fst mr) true f (snd mr)) rs f)).
  { induction rs as [|[m r] rs IH]; intros f Hf; simpl; [exact Hf|]. apply IH. apply do_run_recorded. exact Hf. }
  apply G. exact I.
Qed.

Theorem C13_crash_safe_any_limit (M : nat) (f : fs) i (r : run_rec) k :
  2 <= M -> recorded f -> next_id M f = Some i -> k < length (run_ops true i r) ->
  let f' := crash true f i r k in
  show f' = show f /\ recorded f' /\ next_id M f' = Some i /\
  (forall j, j <> i -> slots f' j = slots f j).
Proof.
  intros HM Hh Hn Hk. cbv zeta. unfold crash.
  assert (Esplit : run_ops true i r = (fill_ops i r ++ [WriteTmp i]) ++ [Rename]).
  { rewrite run_ops_split. rewrite <- app_assoc. reflexivity. }
  rewrite Esplit in Hk |- *. rewrite firstn_strict_prefix by exact Hk.
  assert (Hsafe : Forall (slot_op i) (firstn k (fill_ops i r ++ [WriteTmp i]))).
  { apply Forall_firstn. apply Forall_app. split; [apply fill_ops_safe|repeat constructor]. }
  destruct (slot_ops_fold i _ f Hsafe) as [Hp Ho].
  set (f' := fold_left apply (firstn k (fill_ops i r ++ [WriteTmp i])) f) in *.
  assert (Hni : next_id M f' = Some i) by (unfold next_id in *; rewrite Hp; exact Hn).
  assert (Hne : forall id, pointer f = PVal id -> id <> i).
  { intros id Ep. unfold next_id in Hn. rewrite Ep in Hn. inversion Hn; subst i. destruct (Nat.leb_spec M id); lia. }
  split; [|split; [|split; [exact Hni|exact Ho]]].
  - unfold show. rewrite Hp. destruct (pointer f) as [| |id] eqn:Ep; auto.
    unfold show_slot. rewrite (Ho id (Hne id eq_refl)). reflexivity.
  - unfold recorded in *. rewrite Hp. destruct (pointer f) as [| |id] eqn:Ep; auto.
    destruct Hh as (ls & r0 & Hs). exists ls, r0. rewrite (Ho id (Hne id eq_refl)). exact Hs.
Qed.

(* as found: the crash between truncate and write breaks `show` and blocks every later run *)
Theorem C13_as_found_refuted :
  exists (f : fs) i r k, healthy 3 f /\ next_id 3 f = Some i /\ k < length (run_ops false i r) /\
    show (crash false f i r k) <> show f /\ next_id 3 (crash false f i r k) = None.
Proof.
  exists {| pointer := PVal 1; tmp := None; slots := fun j => if j =? 1 then Some ([5], Some 7) else None |}.
  exists 2, {| rlogs := [6]; rresult := 8 |}, 5. repeat split; try (vm_compute; lia); try (vm_compute; eauto); try discriminate.
Qed.
