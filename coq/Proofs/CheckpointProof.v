From Coq Require Import List Bool.
From MR Require Import Model.Checkpoint.
Import ListNotations.

Lemma run_last cp ops : forall s, fold_left (step cp) ops s = last_update cp ops s.
Proof.
  induction ops as [|o ops IH]; intros s; simpl; auto.
  destruct o as [[|] r| | |]; simpl; apply IH.
Qed.

Theorem C19_store : forall cp,
  (forall ops, show cp (run cp ops) = last_update cp ops None) /\
  (forall ops r, show cp (run cp (ops ++ [Update true r])) = Some r) /\
  (forall ops, show cp (run cp (ops ++ [Delete])) = None) /\
  (forall ops, show cp (run cp (ops ++ [OutDeleteAll])) = None).
Proof.
  intros cp. unfold show, run. split; [|split; [|split]]; intros.
  - apply run_last.
  - rewrite fold_left_app. reflexivity.
  - rewrite fold_left_app. reflexivity.
  - rewrite fold_left_app. reflexivity.
Qed.
