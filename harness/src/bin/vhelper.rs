// The executable every generated monorail command resolves to (through a symlink named after the
// command).  It records how it was started and does what the scenario script tells it to:
//   $VHELPER_DIR/script.json : { "<command>|<target>": { "exit": n, "signal": n (die from that signal instead of exiting), "sleep_ms": n, "barrier": k,
//                                 "chunks": [[stream(1|2), "<hex bytes>", pause_ms_after, (repeat)], ...] } , "*": {...} }
//   $VHELPER_DIR/trace/<unique>.start.json / .end.json : argv (hex), cwd, command, monotonic ns, run number
use serde_json::{json, Value};
use std::io::Write;
use std::path::{Path, PathBuf};

fn now_ns() -> u128 {
    let mut ts = libc::timespec { tv_sec: 0, tv_nsec: 0 };
    unsafe { libc::clock_gettime(libc::CLOCK_MONOTONIC, &mut ts) };
    (ts.tv_sec as u128) * 1_000_000_000 + ts.tv_nsec as u128
}
fn hex(b: &[u8]) -> String { b.iter().map(|x| format!("{:02x}", x)).collect() }
fn unhex(s: &str) -> Vec<u8> {
    (0..s.len() / 2).filter_map(|i| u8::from_str_radix(&s[2 * i..2 * i + 2], 16).ok()).collect()
}

fn main() {
    use std::os::unix::ffi::OsStrExt;
    let start = now_ns();
    let args: Vec<std::ffi::OsString> = std::env::args_os().collect();
    let dir = match std::env::var_os("VHELPER_DIR") { Some(d) => PathBuf::from(d), None => std::process::exit(0) };
    let cwd = std::env::current_dir().unwrap_or_default();
    let root = std::env::var_os("VHELPER_ROOT").map(PathBuf::from).unwrap_or_default();
    let target = cwd.strip_prefix(&root).map(|p| p.to_path_buf()).unwrap_or_else(|_| cwd.clone());
    let target_s = String::from_utf8_lossy(target.as_os_str().as_bytes()).to_string();
    let arg0 = Path::new(&args[0]);
    let command = arg0.file_stem().map(|s| String::from_utf8_lossy(s.as_bytes()).to_string()).unwrap_or_default();
    let run_no = std::env::var("VERIF_RUN_NO").unwrap_or_default();
    let uniq = format!("{}-{}", std::process::id(), start);
    let tdir = dir.join("trace");
    let _ = std::fs::create_dir_all(&tdir);
    let base = json!({
        "command": command, "target": target_s, "argv0": hex(args[0].as_bytes()),
        "argv": args[1..].iter().map(|a| hex(a.as_bytes())).collect::<Vec<_>>(),
        "cwd": hex(cwd.as_os_str().as_bytes()), "run_no": run_no, "start_ns": start.to_string(), "pid": std::process::id(),
    });
    let _ = std::fs::write(tdir.join(format!("{}.start.json", uniq)), base.to_string());

    let script: Value = std::fs::read_to_string(dir.join("script.json")).ok()
        .and_then(|s| serde_json::from_str(&s).ok()).unwrap_or(json!({}));
    let key = format!("{}|{}", command, target_s);
    let mut ins = if !script[&key].is_null() { script[&key].clone() } else { script["*"].clone() };
    // "by_visit": [ins0, ins1, ...] - the k-th execution of this command for this target within one run follows ins_k
    // (the same command may be listed twice in one invocation); visits are counted by the visit markers left so far
    if let Some(list) = ins["by_visit"].as_array().cloned() {
        let vdir = dir.join("visits").join(format!("{}-{}", run_no, hex(key.as_bytes())));
        let _ = std::fs::create_dir_all(&vdir);
        let k = std::fs::read_dir(&vdir).map(|d| d.count()).unwrap_or(0);
        let _ = std::fs::write(vdir.join(&uniq), b"");
        if !list.is_empty() { ins = list[k.min(list.len() - 1)].clone(); }
    }

    // "chmod": [[absolute path, mode], ...] - change the permission bits of other files first (e.g. of a command file that a later
    // group or command of the same run is going to need)
    if let Some(list) = ins["chmod"].as_array() {
        use std::os::unix::fs::PermissionsExt;
        for e in list {
            if let (Some(p), Some(m)) = (e[0].as_str(), e[1].as_u64()) {
                let _ = std::fs::set_permissions(p, std::fs::Permissions::from_mode(m as u32));
            }
        }
    }
    let mut code = ins["exit"].as_i64().unwrap_or(0) as i32;
    if let Some(k) = ins["barrier"].as_u64() {
        let bdir = dir.join("barrier").join(&command).join(ins["barrier_id"].as_str().unwrap_or("g"));
        let _ = std::fs::create_dir_all(&bdir);
        let _ = std::fs::write(bdir.join(&uniq), b"");
        let deadline = now_ns() + 30_000_000_000u128;
        loop {
            let n = std::fs::read_dir(&bdir).map(|d| d.count()).unwrap_or(0) as u64;
            if n >= k { break; }
            if now_ns() > deadline { code = 99; break; }
            std::thread::sleep(std::time::Duration::from_millis(5));
        }
    }
    if let Some(chunks) = ins["chunks"].as_array() {
        let so = std::io::stdout(); let se = std::io::stderr();
        for c in chunks {
            let mut data = unhex(c[1].as_str().unwrap_or(""));
            if let Some(rep) = c[3].as_u64() { data = data.repeat(rep as usize); }       // volume without a huge script file
            if c[0].as_u64() == Some(2) { let mut h = se.lock(); let _ = h.write_all(&data); let _ = h.flush(); }
            else { let mut h = so.lock(); let _ = h.write_all(&data); let _ = h.flush(); }
            if let Some(ms) = c[2].as_u64() { if ms > 0 { std::thread::sleep(std::time::Duration::from_millis(ms)); } }
        }
    } else if ins["quiet"].as_bool() != Some(true) {
        println!("run={} cmd={} target={} out", run_no, command, target_s);
        eprintln!("run={} cmd={} target={} err", run_no, command, target_s);
    }
    if ins["detach_output"].as_bool() == Some(true) {
        // daemon-style: close both output pipes now, keep running (the parent sees end of stream long before exit)
        unsafe {
            let devnull = libc::open(b"/dev/null\0".as_ptr() as *const libc::c_char, libc::O_WRONLY);
            if devnull >= 0 { libc::dup2(devnull, 1); libc::dup2(devnull, 2); libc::close(devnull); }
        }
    }
    if let Some(ms) = ins["sleep_ms"].as_u64() { std::thread::sleep(std::time::Duration::from_millis(ms)); }
    if let Some(sig) = ins["signal"].as_i64() {
        // die from a signal instead of exiting (OOM killer, watchdog, crash): the end record is written first and carries no exit code
        let mut rec = base.clone();
        rec["end_ns"] = json!(now_ns().to_string()); rec["exit"] = Value::Null; rec["signal"] = json!(sig);
        let _ = std::fs::write(tdir.join(format!("{}.end.json", uniq)), rec.to_string());
        unsafe { libc::kill(libc::getpid(), sig as i32); }
        std::thread::sleep(std::time::Duration::from_secs(5));
    }
    let end = now_ns();
    let mut rec = base.clone();
    rec["end_ns"] = json!(end.to_string()); rec["exit"] = json!(code);
    let _ = std::fs::write(tdir.join(format!("{}.end.json", uniq)), rec.to_string());
    std::process::exit(code);
}
