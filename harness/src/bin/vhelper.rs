fn main() {}
