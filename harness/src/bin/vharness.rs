// In-process side of the correspondence check: reads one JSON request per line on stdin,
// calls the implementation through monorail::verif (hooks, cfg pnordahl_monorail_verif) and
// prints one JSON answer per line.  {"ok":..} | {"err":..} | {"panic":..}
use serde_json::{json, Value};
use std::io::{BufRead, Write};
use std::path::{Path, PathBuf};

fn strs(v: &Value) -> Vec<String> {
    v.as_array()
        .map(|a| a.iter().filter_map(|x| x.as_str().map(|s| s.to_string())).collect())
        .unwrap_or_default()
}
fn nats(v: &Value) -> Vec<usize> {
    v.as_array()
        .map(|a| a.iter().filter_map(|x| x.as_u64().map(|n| n as usize)).collect())
        .unwrap_or_default()
}

fn mk_dirs(root: &Path, mk: &[String]) {
    for p in mk {
        // relative, normalised paths only; anything else is simply not created
        if p.is_empty() || p.starts_with('/') || p.split('/').any(|c| c == "..") {
            continue;
        }
        let d = root.join(p);
        let _ = std::fs::create_dir_all(&d);
        let _ = std::fs::write(d.join("_f"), b"x");
    }
}

fn err_val(e: String) -> Value {
    match serde_json::from_str::<Value>(&e) {
        Ok(v) => json!({ "err": v }),
        Err(_) => json!({ "err": { "type": "other", "message": e } }),
    }
}

fn handle(req: &Value, scratch: &Path, n: usize) -> Value {
    let f = req["fn"].as_str().unwrap_or("");
    let work: PathBuf = scratch.join(format!("w{}", n));
    let needs_dir = matches!(f, "index_edges" | "index_groups" | "analyze");
    if needs_dir {
        let _ = std::fs::create_dir_all(&work);
        mk_dirs(&work, &strs(&req["mk"]));
    }
    let out = match f {
        "index_edges" => match monorail::verif::index_edges(req["cfg"].as_str().unwrap_or(""), &work) {
            Ok((labels, adj)) => json!({"ok": {"labels": labels, "adj": adj}}),
            Err(e) => err_val(e),
        },
        "index_groups" => match monorail::verif::index_groups(
            req["cfg"].as_str().unwrap_or(""),
            &strs(&req["visible"]),
            &work,
        ) {
            Ok(g) => json!({ "ok": g }),
            Err(e) => err_val(e),
        },
        "dag_groups" => {
            let adj: Vec<Vec<usize>> = req["adj"].as_array().map(|a| a.iter().map(nats).collect()).unwrap_or_default();
            match monorail::verif::dag_groups(&adj, &nats(&req["roots"])) {
                Ok(g) => json!({ "ok": g }),
                Err(e) => err_val(e),
            }
        }
        "analyze" => {
            let changes = if req["changes"].is_null() { None } else { Some(strs(&req["changes"])) };
            match monorail::verif::analyze(
                req["cfg"].as_str().unwrap_or(""),
                changes,
                req["sc"].as_bool().unwrap_or(false),
                req["sct"].as_bool().unwrap_or(false),
                req["stg"].as_bool().unwrap_or(false),
                &work,
            ) {
                Ok(s) => json!({ "ok": serde_json::from_str::<Value>(&s).unwrap_or(Value::Null) }),
                Err(e) => err_val(e),
            }
        }
        "unzstd" => {
            // decode a stored log / result file independently of monorail (zstd crate)
            let path = req["path"].as_str().unwrap_or("");
            match std::fs::read(path) {
                Err(e) => json!({"err": {"type": "io", "message": e.to_string()}}),
                Ok(data) => {
                    if data.is_empty() {
                        json!({"ok": "", "empty_file": true})
                    } else {
                        match zstd::stream::decode_all(&data[..]) {
                            Ok(d) => json!({"ok": d.iter().map(|b| format!("{:02x}", b)).collect::<String>()}),
                            Err(e) => json!({"err": {"type": "zstd", "message": e.to_string()}}),
                        }
                    }
                }
            }
        }
        _ => json!({"err": {"type": "harness", "message": format!("unknown fn {}", f)}}),
    };
    if needs_dir {
        let _ = std::fs::remove_dir_all(&work);
    }
    out
}

fn main() {
    let scratch = std::env::args().nth(1).map(PathBuf::from).unwrap_or_else(|| std::env::temp_dir().join(format!("vharness-{}", std::process::id())));
    let _ = std::fs::create_dir_all(&scratch);
    // keep panics from being printed in the middle of the protocol
    std::panic::set_hook(Box::new(|_| {}));
    let stdin = std::io::stdin();
    let stdout = std::io::stdout();
    let mut out = std::io::BufWriter::new(stdout.lock());
    for (n, line) in stdin.lock().lines().enumerate() {
        let line = match line { Ok(l) => l, Err(_) => break };
        if line.trim().is_empty() { continue; }
        let req: Value = match serde_json::from_str(&line) {
            Ok(v) => v,
            Err(e) => { let _ = writeln!(out, "{}", json!({"err": {"type":"harness","message": e.to_string()}})); continue; }
        };
        let scratch2 = scratch.clone();
        let res = std::panic::catch_unwind(move || handle(&req, &scratch2, n));
        let v = match res {
            Ok(v) => v,
            Err(p) => {
                let msg = p.downcast_ref::<String>().cloned().or_else(|| p.downcast_ref::<&str>().map(|s| s.to_string())).unwrap_or_default();
                json!({ "panic": msg })
            }
        };
        let _ = writeln!(out, "{}", v);
        let _ = out.flush();
    }
    let _ = std::fs::remove_dir_all(&scratch);
}
