(* Line-protocol driver around the extracted model.
   request : <name> <val>      val ::= <decimal> | ( val* ) | s<hex bytes>
   answer  : <val>             numbers in decimal, lists in parentheses *)

let rec pos_of_int n = if n = 1 then Model.XH else if n land 1 = 0 then Model.XO (pos_of_int (n lsr 1)) else Model.XI (pos_of_int (n lsr 1))
let n_of_int n = if n = 0 then Model.N0 else Model.Npos (pos_of_int n)
let rec int_of_pos = function Model.XH -> 1 | Model.XO p -> 2 * int_of_pos p | Model.XI p -> 2 * int_of_pos p + 1
let int_of_n = function Model.N0 -> 0 | Model.Npos p -> int_of_pos p

exception Parse of string

let parse (s : string) (pos : int ref) : Model.val0 =
  let len = String.length s in
  let rec skip () = if !pos < len && (s.[!pos] = ' ' || s.[!pos] = '\t') then (incr pos; skip ()) in
  let rec value () : Model.val0 =
    skip ();
    if !pos >= len then raise (Parse "eof");
    match s.[!pos] with
    | '(' -> incr pos; let items = ref [] in
        let rec loop () = skip ();
          if !pos >= len then raise (Parse "unclosed");
          if s.[!pos] = ')' then incr pos else (items := value () :: !items; loop ()) in
        loop (); Model.VL (List.rev !items)
    | 's' -> incr pos; let items = ref [] in
        let hex c = match c with '0'..'9' -> Char.code c - 48 | 'a'..'f' -> Char.code c - 87 | _ -> raise (Parse "hex") in
        while !pos + 1 < len && s.[!pos] <> ' ' && s.[!pos] <> ')' && s.[!pos] <> '(' do
          items := Model.VN (n_of_int (16 * hex s.[!pos] + hex s.[!pos + 1])) :: !items; pos := !pos + 2 done;
        Model.VL (List.rev !items)
    | '0'..'9' -> let n = ref 0 in
        while !pos < len && s.[!pos] >= '0' && s.[!pos] <= '9' do n := !n * 10 + Char.code s.[!pos] - 48; incr pos done;
        Model.VN (n_of_int !n)
    | c -> raise (Parse (Printf.sprintf "char %c at %d" c !pos))
  in value ()

let rec print buf (v : Model.val0) = match v with
  | Model.VN n -> Buffer.add_string buf (string_of_int (int_of_n n))
  | Model.VL l -> Buffer.add_char buf '('; List.iteri (fun i x -> if i > 0 then Buffer.add_char buf ' '; print buf x) l; Buffer.add_char buf ')'

let () =
  try while true do
    let line = input_line stdin in
    let sp = try String.index line ' ' with Not_found -> String.length line in
    let name = String.sub line 0 sp in
    let name_v = List.init (String.length name) (fun i -> n_of_int (Char.code name.[i])) in
    let out =
      try let pos = ref sp in let v = parse line pos in Model.dispatch name_v v
      with Parse m -> prerr_endline ("vmodel: parse error: " ^ m); Model.VL [] in
    let buf = Buffer.create 256 in print buf out; Buffer.add_char buf '\n';
    print_string (Buffer.contents buf); flush stdout
  done with End_of_file -> ()
