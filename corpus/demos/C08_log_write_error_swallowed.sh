#!/usr/bin/env bash
# Unmodified-code findings for C08 (run against an UNMODIFIED worktree).
# usage: baseline.sh <worktree>    exit 1 = at least one violation reproduced, 0 = none
#
# Case 1 (main): a write error of the log file at the end of a task (disk full, quota,
#   file size limit, I/O error) is swallowed. The compressor threads' Results are never
#   looked at (Compressor::run: `s.spawn(..)` handle dropped, thread::scope only joins),
#   and the last < 8 KiB sit in a BufWriter that is flushed by Drop (errors ignored).
#   `monorail run` exits 0 with "failed":false and status "success" while the stored
#   stdout.zst is truncated; `log show` then prints a prefix and fails "incomplete frame".
#   The fault is injected with RLIMIT_FSIZE (SIGXFSZ ignored => write(2) returns EFBIG,
#   the same shape as ENOSPC/EDQUOT).
# Case 2 (borderline): the unterminated last line a reader has already read is dropped
#   when the group is cancelled (process_reader, `token.cancelled()` arm flushes `bufs`
#   but not `buf`). Executable b exits 0 at once after writing 'complete line\npartial tail'
#   but leaves a background child holding the pipe; a sibling task fails 1.5 s later.
#   b's stored stdout lacks 'partial tail' (b is reported "error", no code).
set -u
WT=${1:?usage: baseline.sh <worktree>}
export GIT_AUTHOR_NAME=demo GIT_AUTHOR_EMAIL=demo@example.com
export GIT_COMMITTER_NAME=demo GIT_COMMITTER_EMAIL=demo@example.com
(cd "$WT" && cargo build --offline >/dev/null 2>&1) || { echo "build failed"; exit 2; }
BIN="$WT/target/debug/monorail"
S=$(mktemp -d)
trap 'rm -rf "$S"' EXIT
found=0

mkrepo() { # dir, targets...
  local R=$1; shift
  mkdir -p "$R"
  local PORT=$(( 30000 + (RANDOM * 32768 + RANDOM) % 30000 )) tj="" t
  for t in "$@"; do mkdir -p "$R/$t/monorail/cmd"; tj="$tj${tj:+, }{ \"path\": \"$t\" }"; done
  printf '{ "targets": [ %s ], "server": { "lock": { "port": %d }, "log": { "port": %d } } }\n' "$tj" $PORT $((PORT+1)) > "$R/Monorail.json"
}
commit() { (cd "$1" && git init -q . && git add -A && git commit -q -m init); }

########## Case 1
for SIZE in 6000 20000; do
  R="$S/r1_$SIZE"; mkrepo "$R" a
  head -c $SIZE /dev/urandom > "$R/a/payload.bin"
  printf '#!/usr/bin/env bash\ncat payload.bin\n' > "$R/a/monorail/cmd/emit.sh"; chmod +x "$R/a/monorail/cmd/emit.sh"
  commit "$R"
  ( cd "$R"; trap '' XFSZ; ulimit -f 4; timeout 60 "$BIN" -f "$R/Monorail.json" run -c emit -t a > "$S/run1.json" 2>"$S/run1.err" )
  rc=$?
  f=$(echo "$R"/monorail-out/run/1/emit/*/stdout.zst)
  zstd -dc "$f" > "$S/dec.bin" 2>/dev/null
  if cmp -s "$S/dec.bin" "$R/a/payload.bin"; then
    echo "case 1 ($SIZE bytes): stored log is exact (run exit $rc)"
  elif [ $rc = 0 ] && grep -q '"failed":false' "$S/run1.json"; then
    echo "case 1 ($SIZE bytes): VIOLATION - run exit 0 / failed:false / status success, but stored stdout.zst is $(stat -c %s "$f") bytes and does not decompress to the $SIZE bytes written"
    ( cd "$R"; timeout 60 "$BIN" -f "$R/Monorail.json" log show --stdout > "$S/show.bin" 2>&1; echo "         log show exit $?: $(tail -c 150 "$S/show.bin" | grep -a -o '"message":"[^"]*"')" )
    found=1
  else
    echo "case 1 ($SIZE bytes): log incomplete but the run reported the failure (exit $rc)"
  fi
done

########## Case 2
R="$S/r2"; mkrepo "$R" a b
printf '#!/usr/bin/env bash\nsleep 1.5\nexit 1\n' > "$R/a/monorail/cmd/emit.sh"
printf '#!/usr/bin/env bash\nprintf "complete line\\npartial tail"\nsleep 4 &\nexit 0\n' > "$R/b/monorail/cmd/emit.sh"
chmod +x "$R"/*/monorail/cmd/emit.sh
commit "$R"
( cd "$R"; timeout 60 "$BIN" -f "$R/Monorail.json" run -c emit > "$S/run2.json" 2>/dev/null )
bh=$(printf b | sha256sum | cut -d' ' -f1)
zstd -dc "$R/monorail-out/run/1/emit/$bh/stdout.zst" > "$S/dec2.bin" 2>/dev/null
if [ "$(cat "$S/dec2.bin")" = "$(printf 'complete line\npartial tail')" ]; then
  echo "case 2: stored log of b is exact"
else
  echo "case 2: VIOLATION (borderline) - b's executable exited 0 after writing 'complete line\\npartial tail'; stored stdout is: $(cat -v "$S/dec2.bin" | tr '\n' '|')"
  found=1
fi
exit $found
