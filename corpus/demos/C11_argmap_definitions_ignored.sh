#!/usr/bin/env bash
# Unmodified-code finding: `monorail run` ignores `argmaps.definitions` (documented in
# Monorail.reference.js: "Path to a JSON file to use for this argmap", default
# <argmaps.path>/<name>.json), although `target show --argmaps` resolves and reports it.
# usage: baseline.sh <worktree>     exit 0 = definitions honoured, 1 = ignored
set -u
WT="${1:?usage: baseline.sh <worktree>}"
( cd "$WT" && cargo build --offline >/dev/null 2>&1 ) || { echo "build failed"; exit 2; }
BIN="$WT/target/debug/monorail"
export GIT_AUTHOR_NAME=demo GIT_AUTHOR_EMAIL=demo@example.com
export GIT_COMMITTER_NAME=demo GIT_COMMITTER_EMAIL=demo@example.com
ROOT="$(mktemp -d)"; trap 'rm -rf "$ROOT"' EXIT
REPO="$ROOT/repo"
mkdir -p "$REPO/lib/monorail/cmd" "$REPO/shared"
PORT=$(( 30000 + (RANDOM * 32768 + RANDOM) % 30000 ))
cat > "$REPO/Monorail.json" <<EOF
{
  "targets": [ { "path": "lib", "argmaps": { "definitions": {
      "base": { "path": "shared/lib-base.json" },
      "ci":   { "path": "shared/lib-ci.json" } } } } ],
  "server": { "lock": { "port": $PORT }, "log": { "port": $((PORT + 1)) } }
}
EOF
printf '{"build": ["from-base-definition"]}\n' > "$REPO/shared/lib-base.json"
printf '{"build": ["from-ci-definition"]}\n'   > "$REPO/shared/lib-ci.json"
cat > "$REPO/lib/monorail/cmd/build.sh" <<'EOF'
#!/usr/bin/env bash
: > "$OUT_FILE"; for a in "$@"; do printf '%s\n' "$a" >> "$OUT_FILE"; done
EOF
chmod +x "$REPO/lib/monorail/cmd/build.sh"
( cd "$REPO" && git init -q . && git add -A && git commit -q -m init ) || exit 2
export OUT_FILE="$ROOT/argv"
echo "--- target show --argmaps:"
timeout 60 "$BIN" -f "$REPO/Monorail.json" target show --argmaps
echo
timeout 60 "$BIN" -f "$REPO/Monorail.json" run -c build -t lib --argmaps ci --args tail >/dev/null 2>&1
echo "--- argv seen by lib/build.sh (expected: from-base-definition from-ci-definition tail):"
cat "$OUT_FILE"
if [ "$(tr '\n' ' ' < "$OUT_FILE")" = "from-base-definition from-ci-definition tail " ]; then exit 0; fi
echo "argmaps.definitions were ignored by run"
exit 1
