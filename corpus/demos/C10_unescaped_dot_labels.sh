#!/usr/bin/env bash
# Reproduces two situations in which the UNMODIFIED project violates C10.
# usage: baseline.sh <worktree>    prints findings; exit 1 if any reproduces, 0 otherwise
set -u
WT=${1:?usage: baseline.sh <worktree>}
export GIT_AUTHOR_NAME=demo GIT_AUTHOR_EMAIL=demo@example.com
export GIT_COMMITTER_NAME=demo GIT_COMMITTER_EMAIL=demo@example.com
(cd "$WT" && cargo build --offline >/dev/null 2>&1) || { echo "build failed"; exit 2; }
BIN="$WT/target/debug/monorail"
S=$(mktemp -d); trap 'rm -rf "$S"' EXIT; cd "$S" || exit 2
git init -q .
PORT=$((30000 + RANDOM % 30000))
rc=0

# (A) labels are written into the dot file unescaped: a directory name holding a quote and a
#     newline injects an extra edge statement ("lib -> core", which the configuration does not declare)
ODD=$'x"];\n1 -> 0;\n//'
mkdir -p core lib "$ODD"; touch core/f lib/f "$ODD/f"
git add -A; git commit -qm init
python3 - "$S" "$PORT" "$ODD" <<'EOF'
import json, sys
root, port, odd = sys.argv[1], int(sys.argv[2]), sys.argv[3]
srv = {"lock": {"port": port}, "log": {"port": port + 1}}
json.dump({"server": srv, "targets": [{"path": "core"}, {"path": "lib"}, {"path": odd}]},
          open(root + "/A.json", "w"))
json.dump({"server": srv, "targets": [{"path": "core"}, {"path": "lib", "uses": [""]}]},
          open(root + "/B.json", "w"))
EOF
timeout 30 "$BIN" -f "$S/A.json" target render -f "$S/a.dot" >/dev/null 2>&1
echo "--- (A) dot file for three independent targets (no dependency declared):"; cat "$S/a.dot"; echo
if grep -qx '1 -> 0;' "$S/a.dot"; then
    echo "(A) REPRODUCED: the dot file contains the edge statement '1 -> 0;' (lib -> core) that no declaration implies"; rc=1
fi

# (B) an empty string as a `uses` entry (also as an `ignores` entry or a target path) aborts with a
#     panic inside trie-rs (exit status 101, no result object) instead of rendering or a clean error
timeout 30 "$BIN" -f "$S/B.json" target render -f "$S/b.dot" >"$S/b.out" 2>&1; code=$?
echo "--- (B) uses: [\"\"] -> exit status $code"; head -3 "$S/b.out"
if [ $code -eq 101 ]; then echo "(B) REPRODUCED: panic"; rc=1; fi
exit $rc
