#!/bin/bash
# Unmodified-code finding for C09. usage: baseline.sh <monorail worktree (unmodified)>
# A target declared with a trailing slash ("lib/") is not matched by a `uses` entry that
# names the same directory without the slash ("lib"): no graph edge is created, although
# change analysis does treat the user as depending on it. Cycles through such an edge are
# accepted. exit 1 = property violated, 0 = holds.
set -u
W=${1:?usage: baseline.sh <worktree>}
export GIT_AUTHOR_NAME=demo GIT_AUTHOR_EMAIL=demo@example.com
export GIT_COMMITTER_NAME=demo GIT_COMMITTER_EMAIL=demo@example.com
(cd "$W" && cargo build --offline >/dev/null 2>&1) || { echo "build failed"; exit 2; }
M="$W/target/debug/monorail"
ROOT=$(mktemp -d); trap 'rm -rf "$ROOT"' EXIT
FAIL=0
mk() { # dir, targets json
    local d=$1 n=$(( (RANDOM % 14000) * 2 + 30000 ))
    mkdir -p "$d" && cd "$d" && git init -q . || exit 2
    for t in lib lib/sub app; do
        mkdir -p "$t/monorail/cmd"; echo x > "$t/file.txt"
        printf '#!/bin/sh\necho "%s" >> "%s/EXECUTED"\n' "$t" "$d" > "$t/monorail/cmd/build.sh"
        chmod +x "$t/monorail/cmd/build.sh"
    done
    printf '{"targets": %s, "server": {"lock": {"port": %d}, "log": {"port": %d}}}\n' "$2" "$n" "$((n+1))" > Monorail.json
    git add -A >/dev/null && git commit -qm init
}
chk() { # label dir args...
    local l=$1 d=$2; shift 2
    local out rc; out=$(timeout 40 "$M" -f "$d/Monorail.json" "$@" 2>"$d/err.txt"); rc=$?
    if [ $rc -ne 0 ] && grep -q 'Cycle detected' "$d/err.txt" && [ ! -e "$d/EXECUTED" ]; then
        echo "ok [$l] $*"
    else
        echo "VIOLATION [$l] $*: rc=$rc stdout=${out:0:300} executed=$(cat "$d/EXECUTED" 2>/dev/null | tr '\n' ' ')"
        FAIL=1; rm -f "$d/EXECUTED"
    fi
}
# 1. pure uses cycle: lib/ -> app (uses app/file.txt), app -> lib/ (uses "lib")
mk "$ROOT/r1" '[{"path":"lib/","uses":["app/file.txt"]},{"path":"app","uses":["lib"]}]'
# 2. uses + nesting: lib uses "lib/sub", the directory of the target "lib/sub/" nested in it
mk "$ROOT/r2" '[{"path":"lib","uses":["lib/sub"]},{"path":"lib/sub/"}]'
for r in r1 r2; do
    chk $r "$ROOT/$r" target show --target-groups
    chk $r "$ROOT/$r" analyze --target-groups
    chk $r "$ROOT/$r" run -c build
done
chk r1 "$ROOT/r1" run -c build -t app --deps
# evidence that monorail itself regards app as depending on lib/: a change inside lib/
# is attributed to app with reason "uses"
cd "$ROOT/r1" && timeout 40 "$M" -f "$ROOT/r1/Monorail.json" checkpoint update >/dev/null 2>&1
echo y > "$ROOT/r1/lib/new.txt"
echo "change analysis: $(timeout 40 "$M" -f "$ROOT/r1/Monorail.json" analyze --change-targets 2>&1 | cut -c1-300)"
[ $FAIL -ne 0 ] && { echo "RESULT: C09 VIOLATED by unmodified code"; exit 1; }
echo "RESULT: holds"; exit 0
