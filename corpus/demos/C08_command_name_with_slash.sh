#!/bin/bash
# Unmodified code: `log show` cannot print the log of a command whose name contains '/'.
# usage: baseline.sh <worktree>     exit 0: log shown correctly; exit 1: C08 violated.
#
# A command name is an arbitrary JSON key under targets[].commands.definitions, so
# "ci/lint" is a legitimate name.  `run -c ci/lint` succeeds and stores the logs under
# <out>/run/<id>/ci/lint/<sha256(target)>/std{out,err}.zst (the name is joined into the path
# as is), but `log show` assumes <run>/<command>/<target hash>/ and therefore takes "ci" for
# the command and "lint" for a target hash: it fails with "Target not found for lint" and
# prints neither header nor bytes - for this log and for every other log of that run.
set -u
WT=${1:?usage: baseline.sh <worktree>}
(cd "$WT" && cargo build --offline >/dev/null 2>&1) || { echo "build failed"; exit 2; }
BIN="$WT/target/debug/monorail"
D=$(mktemp -d); trap 'rm -rf "$D"' EXIT
R="$D/repo"; mkdir -p "$R/alpha/scripts"
printf '#!/bin/bash\necho hello-out\necho hello-err >&2\n' > "$R/alpha/scripts/run.sh"
chmod +x "$R/alpha/scripts/run.sh"
PORT=$(( 30000 + (RANDOM * 32768 + RANDOM) % 30000 ))
cat > "$R/Monorail.json" <<EOF
{"targets":[{"path":"alpha","commands":{"definitions":{"ci/lint":{"path":"alpha/scripts/run.sh"}}}}],
 "server":{"lock":{"port":$PORT},"log":{"port":$((PORT + 1))}}}
EOF
export GIT_AUTHOR_NAME=demo GIT_AUTHOR_EMAIL=demo@example.com GIT_COMMITTER_NAME=demo GIT_COMMITTER_EMAIL=demo@example.com
(cd "$R" && git init -q . && git add -A >/dev/null 2>&1 && git commit -q -m init) || exit 2
(cd "$R" && timeout 30 "$BIN" -f "$R/Monorail.json" run -c ci/lint) > "$D/run.json" 2>/dev/null || { echo "run failed"; cat "$D/run.json"; exit 2; }
grep -q '"status":"success"' "$D/run.json" || { echo "task did not succeed"; cat "$D/run.json"; exit 2; }
(cd "$R" && find monorail-out/run -name '*.zst' | sort)
(cd "$R" && timeout 30 "$BIN" -f "$R/Monorail.json" log show --stdout) > "$D/show.out" 2> "$D/show.err"
rc=$?
if [ $rc -eq 0 ] && [ "$(tail -n +2 "$D/show.out")" = "hello-out" ] && head -n 1 "$D/show.out" | grep -q "ci/lint"; then
  echo "log shown correctly"; exit 0
fi
echo "log show exit code $rc, stdout: '$(cat "$D/show.out")', stderr: $(cat "$D/show.err")"
echo "C08 VIOLATED (unmodified code)"
exit 1
