#!/bin/bash
# Situations in which the UNMODIFIED project already violates C12 (as read literally).
# usage: baseline.sh <worktree>   prints one line per observation; exit 1 if any reproduced.
set -u
WT=${1:?usage: baseline.sh <worktree>}
(cd "$WT" && cargo build --offline >/dev/null 2>&1) || { echo "build failed"; exit 2; }
M="$WT/target/debug/monorail"
export GIT_AUTHOR_NAME=demo GIT_AUTHOR_EMAIL=demo@example.com
export GIT_COMMITTER_NAME=demo GIT_COMMITTER_EMAIL=demo@example.com
found=0

mkrepo() { # $1 = max_retained_runs ; sets S and R
  S=$(mktemp -d); cd "$S" || exit 2
  git init -q .
  local P=$((30000 + RANDOM % 30000))
  cat > Monorail.json <<EOF
{ "max_retained_runs": $1, "targets": [ { "path": "t1" }, { "path": "t2" } ],
  "server": { "lock": { "port": $P }, "log": { "port": $((P + 1)) } } }
EOF
  for t in t1 t2; do mkdir -p $t/monorail/cmd
    printf '#!/bin/sh\necho "marker $1"\n' > $t/monorail/cmd/a.sh; chmod +x $t/monorail/cmd/a.sh; done
  echo monorail-out > .gitignore; git add -A; git commit -qm init
  R="timeout 30 $M -f $S/Monorail.json"
}

# 1. An invocation that errors after the slot was set up (unknown target, undefined sequence,
#    --args with two commands, bad argmap JSON ...) wipes the slot of the OLDEST retained run
#    without becoming a run itself. With max_retained_runs = 1 that slot is the latest run.
mkrepo 1
$R run -c a -t t1 --args r1 >/dev/null 2>&1
$R run -c a -t nosuch >/dev/null 2>&1          # exits 2: "Node not found for label: nosuch"
if ! $R result show >/dev/null 2>&1; then
  echo "1a. max_retained_runs=1: after a completed run and an errored invocation, result show fails (latest completed run's slot was wiped)"; found=1
fi
rm -rf "$S"
mkrepo 3
for i in 1 2 3 4; do $R run -c a -t t1 --args r$i >/dev/null 2>&1; done   # slots: r4=1 r2=2 r3=3
$R run -s nosuchsequence -t t1 >/dev/null 2>&1
if ! $R log show --stdout --id 2 2>/dev/null | grep -q "marker r2"; then
  echo "1b. max_retained_runs=3: after 4 completed runs and an errored invocation, log show --id 2 no longer shows run 2 (one of the last 3 completed runs)"; found=1
fi
rm -rf "$S"

# 2. A command name is joined into the slot path unchecked: '-c ../7' creates run/7.
mkrepo 3
$R run -c ../7 -t t1 >/dev/null 2>&1
$R run -c ../8 -t t1 >/dev/null 2>&1
$R run -c ../9 -t t1 >/dev/null 2>&1
nd=$(ls "$S/monorail-out/run" | wc -l)
if [ "$nd" -gt 3 ]; then
  echo "2. max_retained_runs=3: three runs of (undefined) commands ../7 ../8 ../9 leave $nd run directories: $(ls "$S/monorail-out/run" | tr '\n' ' ')"; found=1
fi
rm -rf "$S"

# 3. A command name containing '/' makes log show of that run fail.
mkrepo 3
$R run -c x/y -t t1 >/dev/null 2>&1
if ! $R log show --stdout --stderr >/dev/null 2>&1; then
  echo "3. after 'run -c x/y -t t1' (exit 0), log show fails: $($R log show --stdout --stderr 2>&1 | head -1)"; found=1
fi
rm -rf "$S"
exit $found
