#!/bin/bash
# Situations in which the UNMODIFIED project already departs from C14.
# usage: baseline.sh <worktree>     prints FOUND/not found per case; exit 1 if any case was found
set -u
WT=${1:?usage: baseline.sh <worktree>}
export GIT_AUTHOR_NAME=demo GIT_AUTHOR_EMAIL=demo@example.com
export GIT_COMMITTER_NAME=demo GIT_COMMITTER_EMAIL=demo@example.com
(cd "$WT" && cargo build --offline >/dev/null 2>&1) || { echo "build failed"; exit 2; }
M="$WT/target/debug/monorail"
D=$(mktemp -d)
trap 'pkill -9 -f "$D/repo" 2>/dev/null; rm -rf "$D"' EXIT
N=$((30000 + (RANDOM * 32768 + RANDOM) % 30000))
R="$D/repo"; mkdir -p "$R/a/monorail/cmd" "$R/b/monorail/cmd"; cd "$R" || exit 2
git init -q .
printf '#!/bin/bash\ntouch "%s/slow_started"\nsleep 4\n' "$D" > a/monorail/cmd/slow.sh
printf '#!/bin/bash\nsleep 1\nexit 1\n' > a/monorail/cmd/par.sh
printf '#!/bin/bash\nsleep 5\ntouch "%s/b_finished"\n' "$D" > b/monorail/cmd/par.sh
chmod +x a/monorail/cmd/*.sh b/monorail/cmd/*.sh
git add -A && git commit -qm init
CFG="$R/Monorail.json"
mr() { timeout 30 "$M" -f "$CFG" "$@"; }
FOUND=0

echo "== A: server.lock.port = 0 is accepted and gives no mutual exclusion"
echo "{\"targets\":[{\"path\":\"a\"},{\"path\":\"b\"}],\"server\":{\"lock\":{\"port\":0},\"log\":{\"port\":$((N + 1))}}}" > "$CFG"
mr run -c slow -t a >/dev/null 2>&1 &
H=$!
for _ in $(seq 1 100); do [ -e "$D/slow_started" ] && break; sleep 0.1; done
mr checkpoint update > "$D/a.out" 2> "$D/a.err"; rc=$?
if [ $rc -eq 0 ] && kill -0 $H 2>/dev/null; then
  echo "FOUND: 'checkpoint update' exited 0 and wrote the checkpoint while a run (pid $H) was still in progress"; FOUND=1
else echo "not found (rc=$rc)"; fi
wait $H

echo "== B: executables of a failed run outlive it and overlap with the next lock holder"
echo "{\"targets\":[{\"path\":\"a\"},{\"path\":\"b\"}],\"server\":{\"lock\":{\"port\":$N},\"log\":{\"port\":$((N + 1))}}}" > "$CFG"
mr checkpoint delete >/dev/null 2>&1   # no checkpoint: a and b form one parallel group
mr run -c par >/dev/null 2>&1; echo "run exited rc=$? (a/par.sh failed after 1 s; b/par.sh sleeps 5 s)"
mr out delete --all >/dev/null 2>&1; rc=$?
if [ $rc -eq 0 ] && [ ! -e "$D/b_finished" ] && pgrep -f "$R/b/monorail/cmd/par.sh" >/dev/null; then
  echo "FOUND: 'out delete --all' acquired the lock and ran while b/monorail/cmd/par.sh of the previous run was still executing"; FOUND=1
  sleep 5; [ -e "$D/b_finished" ] && echo "       (and that executable ran to completion afterwards)"
else echo "not found (rc=$rc)"; fi

echo "== C: lock host resolving to the same address twice: nobody can ever acquire (needs unshare -m)"
printf '127.0.0.1 localhost\n127.0.0.1 duphost\n127.0.0.1 duphost\n' > "$D/hosts"
echo "{\"targets\":[{\"path\":\"a\"},{\"path\":\"b\"}],\"server\":{\"lock\":{\"host\":\"duphost\",\"port\":$N},\"log\":{\"port\":$((N + 1))}}}" > "$CFG"
out=$(unshare -m bash -c "mount --bind '$D/hosts' /etc/hosts && timeout 30 '$M' -f '$CFG' checkpoint update 2>&1; echo rc=\$?" 2>&1)
if echo "$out" | grep -q "Lock acquisition failed: Address already in use"; then
  echo "FOUND: with no other invocation alive: $(echo "$out" | head -c 250)"; FOUND=1
else echo "not found / could not set up: $(echo "$out" | head -c 200)"; fi
exit $FOUND
