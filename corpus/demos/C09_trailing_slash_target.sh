#!/bin/bash
# Observation on the UNMODIFIED code: target paths written with a trailing slash ("a/", "b/")
# never receive `uses` (or nesting) edges, because path_prefix_search requires the byte after
# the matched key to be '/', and for a key that already ends in '/' that byte is the first
# byte of the next component. A mutual `uses` between two such targets is therefore accepted.
# usage: baseline.sh <worktree>   exit 0 = cycle rejected, 1 = accepted (groups produced)
set -u
WT="${1:?usage: baseline.sh <worktree>}"
( cd "$WT" && cargo build --offline >/dev/null 2>&1 ) || { echo "build failed"; exit 2; }
BIN="$WT/target/debug/monorail"
S="$(mktemp -d)"; trap 'rm -rf "$S"' EXIT
R="$S/repo"; mkdir -p "$R/a/monorail/cmd" "$R/b/monorail/cmd"
PORT=$(( 30000 + (RANDOM * 32768 + RANDOM) % 30000 ))
cat > "$R/Monorail.json" <<EOF
{
  "server": { "lock": { "port": $PORT }, "log": { "port": $((PORT + 1)) } },
  "targets": [
    { "path": "a/", "uses": ["b/x"] },
    { "path": "b/", "uses": ["a/x"] }
  ]
}
EOF
echo x > "$R/a/x"; echo x > "$R/b/x"
( cd "$R" && timeout 40 "$BIN" -f "$R/Monorail.json" target show --target-groups >"$S/out" 2>"$S/err" )
code=$?
cat "$S/out" "$S/err"
if [ $code -ne 0 ] && grep -q "Cycle detected" "$S/err"; then echo "rejected"; exit 0; fi
echo "accepted (exit $code)"; exit 1
