#!/usr/bin/env bash
# Observation on the UNMODIFIED code (independent of the seeded change):
# a target path written with a trailing slash ("lib/") is accepted, but it never
# receives the edges the property demands: neither from a target nested in it
# ("lib/sub") nor from a target whose `uses` entry lies inside it ("lib/file.txt").
# path_prefix_search() demands that the byte AFTER the matched key be '/', but for
# key "lib/" the separator is the last byte OF the key, so every match is dropped.
#
# usage: baseline.sh <worktree>   exit 0 = edges present, 1 = edges missing
set -u
WT="${1:?usage: baseline.sh <worktree>}"
( cd "$WT" && cargo build --offline >/dev/null 2>&1 ) || { echo "build failed"; exit 2; }
BIN="$WT/target/debug/monorail"
S="$(mktemp -d)"; trap 'rm -rf "$S"' EXIT
PORT=$(( 30000 + (RANDOM * 32768 + RANDOM) % 30000 ))
mkdir -p "$S/lib/sub" "$S/app"
echo x > "$S/lib/file.txt"; echo x > "$S/lib/sub/file.txt"; echo x > "$S/app/file.txt"
cat > "$S/Monorail.json" <<EOF
{
  "server": { "lock": { "port": $PORT }, "log": { "port": $((PORT + 1)) } },
  "targets": [
    { "path": "lib/" },
    { "path": "lib/sub" },
    { "path": "app", "uses": ["lib/file.txt"] }
  ]
}
EOF
timeout 30 "$BIN" -f "$S/Monorail.json" target render --output-file "$S/out.dot" || { echo "render failed"; exit 2; }
cat "$S/out.dot"; echo
# nodes: 0 = lib/, 1 = lib/sub, 2 = app ; expected edges 1 -> 0 and 2 -> 0
if grep -qx '1 -> 0;' "$S/out.dot" && grep -qx '2 -> 0;' "$S/out.dot"; then
  echo "edges to lib/ present"; exit 0
fi
echo "MISSING: lib/sub -> lib/ and/or app -> lib/ (same config with \"lib\" instead of \"lib/\" renders both)"
exit 1
