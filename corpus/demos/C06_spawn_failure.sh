#!/usr/bin/env bash
# Shows two situations where the UNMODIFIED project does not satisfy C06.
# usage: baseline.sh <worktree>    exit 1 = a violation was observed, 0 = none
set -u
WT="${1:?usage: baseline.sh <worktree>}"
( cd "$WT" && cargo build --offline >/dev/null 2>&1 ) || { echo "build failed"; exit 2; }
BIN="$WT/target/debug/monorail"
ROOT="$(mktemp -d)"; chmod 755 "$ROOT"
trap 'rm -rf "$ROOT"' EXIT
PORT=$(( 30000 + (RANDOM * 32768 + RANDOM) % 30000 ))
cd "$ROOT" || exit 2
cat > Monorail.json <<EOF
{ "server": { "lock": { "port": $PORT }, "log": { "port": $((PORT + 1)) } },
  "targets": [ { "path": "a" } ] }
EOF
mkdir -p a/monorail/cmd
bad=0

# Case A: the command file lacks execute permission FOR THE INVOKING USER (mode 0645, owned by
# that non-root user: owner has no x bit, others have). file::is_executable() only tests
# mode & 0o111 != 0, so the run tries to spawn it, spawn fails with EACCES and the error is
# propagated with `?` out of schedule_task: exit status 2, no run result at all, instead of
# failed=true / exit 1 / not_executable.
printf '#!/bin/sh\nexit 0\n' > a/monorail/cmd/perm.sh
chmod 645 a/monorail/cmd/perm.sh
if [ "$(id -u)" = 0 ]; then
  chown -R 65534:65534 "$ROOT"
  RUNAS="setpriv --reuid=65534 --regid=65534 --clear-groups"
else
  RUNAS=""
fi
( cd / && $RUNAS timeout 60 "$BIN" -f "$ROOT/Monorail.json" run -c perm -t a > "$ROOT/perm.out" 2> "$ROOT/perm.err" ); code=$?
echo "case A (mode 0645, non-root owner): exit $code"; cat "$ROOT/perm.out" "$ROOT/perm.err"
if [ "$code" != 1 ] || ! grep -q '"status":"not_executable"' "$ROOT/perm.out"; then
  echo "  -> VIOLATION: expected exit 1 with failed=true and status not_executable"; bad=1
fi

# Case B: the file has its x bits but cannot be executed (no shebang line -> ENOEXEC; a
# missing interpreter gives ENOENT). None of the three failure kinds of the property occurs,
# yet the run does not report failed=false / exit 0 (nor any result): exit status 2.
printf 'echo hi\n' > a/monorail/cmd/noexec.sh
chmod 755 a/monorail/cmd/noexec.sh
( cd / && $RUNAS timeout 60 "$BIN" -f "$ROOT/Monorail.json" run -c noexec -t a > "$ROOT/noexec.out" 2> "$ROOT/noexec.err" ); code=$?
echo "case B (x bit set, no shebang): exit $code"; cat "$ROOT/noexec.out" "$ROOT/noexec.err"
if [ "$code" != 0 ] && [ "$code" != 1 ]; then
  echo "  -> run aborted with a fatal error, no statuses reported (borderline: outside the three failure kinds)"; bad=1
fi
exit $bad
