#!/usr/bin/env bash
# Situations in which the UNMODIFIED project already appears to violate C03.
# Usage: baseline.sh <worktree>   (exit 1 if any of the situations reproduces, 0 otherwise)
set -u
WT="${1:?usage: baseline.sh <worktree>}"
export GIT_AUTHOR_NAME=demo GIT_AUTHOR_EMAIL=demo@example.invalid
export GIT_COMMITTER_NAME=demo GIT_COMMITTER_EMAIL=demo@example.invalid
(cd "$WT" && cargo build --offline >/dev/null 2>&1) || { echo "build failed"; exit 2; }
BIN="$WT/target/debug/monorail"
D="$(mktemp -d)"; trap 'cd /; rm -rf "$D"' EXIT
cd "$D" || exit 2
git init -q . && git commit -q -m init --allow-empty || exit 2
for t in a a/b "my lib" app; do
  mkdir -p "$t/monorail/cmd"; echo x > "$t/f"
  printf '#!/bin/sh\necho hi\n' > "$t/monorail/cmd/build.sh"; chmod +x "$t/monorail/cmd/build.sh"
done
P=$(( 30000 + (RANDOM * 32768 + RANDOM) % 30000 ))
cat > Monorail.json <<EOF
{ "server": { "lock": { "port": $P }, "log": { "port": $((P+1)) } },
  "targets": [ { "path": "a/b" }, { "path": "a/" }, { "path": "my lib" },
               { "path": "app", "uses": ["my lib"] } ] }
EOF
rc=0

# 1. A target declared with a trailing slash ("a/") is not seen as enclosing "a/b":
#    both land in the same group, and the closure of a/b omits a/.
g=$(timeout 30 "$BIN" -f "$D/Monorail.json" target show --target-groups | jq -c .target_groups)
echo "target show --target-groups: $g"
if echo "$g" | jq -e 'map(index("a/")!=null and index("a/b")!=null) | any' >/dev/null; then
  echo "  -> 'a/' and 'a/b' share a group (nesting edge lost for a trailing-slash target)"; rc=1
fi
g=$(timeout 30 "$BIN" -f "$D/Monorail.json" run -c build -t a/b --deps | jq -c '[.results[0].target_groups[] | keys]')
echo "run -t a/b --deps: $g"
if ! echo "$g" | jq -e 'flatten | index("a/") != null' >/dev/null; then
  echo "  -> closure of a/b does not contain 'a/'"; rc=1
fi

# 2. A target whose name contains a space cannot be named explicitly: -t splits on ' '.
o=$(timeout 30 "$BIN" -f "$D/Monorail.json" run -c build -t "my lib" --deps 2>&1); code=$?
echo "run -t 'my lib' --deps: exit $code: $o"
if [ $code -ne 0 ]; then
  echo "  -> explicit run of an existing target fails (argument split on the space)"; rc=1
fi
exit $rc
