#!/bin/bash
# usage: out_delete_demo.sh <monorail binary>; exit 1 if `out delete --all` started from another directory leaves the checkpoint in place (or deletes someone else's data)
B=$1; D=$(mktemp -d); trap "rm -rf $D" EXIT
mkdir -p $D/repo/a $D/elsewhere/monorail-out/precious; echo keep > $D/elsewhere/monorail-out/precious/data
cd $D/repo && git init -q . && echo '{"targets":[{"path":"a"}],"server":{"lock":{"port":45891},"log":{"port":45892}}}' > Monorail.json && touch a/x && git add -A && git -c user.email=a@b -c user.name=n commit -qm i
cd $D/elsewhere
timeout 30 $B -f $D/repo/Monorail.json checkpoint update >/dev/null || exit 2
timeout 30 $B -f $D/repo/Monorail.json out delete --all; rc=$?
timeout 30 $B -f $D/repo/Monorail.json checkpoint show >/dev/null 2>&1; show=$?
echo "out delete rc=$rc; checkpoint show rc=$show; other directory's data: $(ls $D/elsewhere/monorail-out 2>/dev/null | tr '\n' ' ')"
if [ $rc -eq 0 ] && [ $show -eq 0 ]; then echo "VIOLATION: out delete --all succeeded but the checkpoint is still there"; exit 1; fi
if [ ! -f $D/elsewhere/monorail-out/precious/data ]; then echo "VIOLATION: deleted another directory's monorail-out"; exit 1; fi
[ $rc -eq 0 ] && [ $show -ne 0 ] && exit 0
exit 1
