#!/usr/bin/env bash
# Unmodified-code finding for C01: Monorail.json kept in a SUBDIRECTORY of the git repository
# (README: "located in the root of your repository. While this location and name can be
# customized ..."). monorail runs git with cwd = directory of Monorail.json:
#   git diff --name-only     prints paths relative to the REPOSITORY ROOT  (mono/lib/l.txt)
#   git ls-files --others    prints paths relative to the CWD              (lib/new.txt)
# Target/uses/ignores paths are relative to the directory of Monorail.json, so every tracked
# (modified, staged or committed) change maps to no target; only untracked files map.
# usage: baseline.sh <worktree>     exit 0 = mapping correct, 1 = violated
set -u
WT=${1:?usage: baseline.sh <worktree>}
export GIT_AUTHOR_NAME=demo GIT_AUTHOR_EMAIL=demo@example.com
export GIT_COMMITTER_NAME=demo GIT_COMMITTER_EMAIL=demo@example.com
(cd "$WT" && cargo build --offline >/dev/null 2>&1) || { echo "build failed"; exit 2; }
BIN="$WT/target/debug/monorail"
D=$(mktemp -d); trap 'rm -rf "$D"' EXIT
cd "$D" && git init -q . || exit 2
P=$((30000 + RANDOM % 30000))
mkdir -p mono/app mono/lib
echo 1 > mono/app/a.txt; echo 1 > mono/lib/l.txt
echo monorail-out > mono/.gitignore
cat > mono/Monorail.json <<EOF
{ "targets": [ { "path": "app", "uses": ["lib"] }, { "path": "lib" } ],
  "server": { "lock": { "port": $P }, "log": { "port": $((P + 1)) } } }
EOF
git add -A && git commit -qm init || exit 2
CFG="$D/mono/Monorail.json"
timeout 30 "$BIN" -f "$CFG" checkpoint update >/dev/null || exit 2

fail=0
echo 2 >> mono/lib/l.txt                      # tracked file inside target lib, used by app
out=$(timeout 30 "$BIN" -f "$CFG" analyze --changes --change-targets)
echo "pending modification : $out"
[ "$(jq -c .targets <<<"$out")" = '["app","lib"]' ] || fail=1
git commit -qam second
out=$(timeout 30 "$BIN" -f "$CFG" analyze --changes --change-targets)
echo "committed            : $out"
[ "$(jq -c .targets <<<"$out")" = '["app","lib"]' ] || fail=1
echo new > mono/lib/new.txt                   # untracked: this one IS mapped
out=$(timeout 30 "$BIN" -f "$CFG" analyze --changes --change-targets)
echo "plus untracked file  : $out"
exit $fail
