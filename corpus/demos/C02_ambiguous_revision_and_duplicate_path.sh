#!/usr/bin/env bash
# Situations in which the UNMODIFIED code already departs from C02.
# usage: baseline.sh <worktree>   (prints findings; exit 1 if any departure is observed)
set -u
WT=${1:?usage: baseline.sh <worktree>}
export GIT_AUTHOR_NAME=demo GIT_AUTHOR_EMAIL=demo@example.com
export GIT_COMMITTER_NAME=demo GIT_COMMITTER_EMAIL=demo@example.com
export GIT_CONFIG_GLOBAL=/dev/null GIT_CONFIG_SYSTEM=/dev/null
(cd "$WT" && cargo build --offline >/dev/null 2>&1) || { echo "build failed"; exit 2; }
M="$WT/target/debug/monorail"
D=$(mktemp -d); trap 'rm -rf "$D"' EXIT
R="$D/repo"; mkdir "$R"; cd "$R" || exit 2
git init -q -b main .
P=$((30000 + RANDOM % 29000))
echo "{\"targets\":[{\"path\":\"t1\"}],\"server\":{\"lock\":{\"port\":$P},\"log\":{\"port\":$((P + 1))}}}" > Monorail.json
echo monorail-out > .gitignore
mkdir t1; echo a > t1/a.txt; echo keep > keep.txt
git add -A; git commit -qm c1
bad=0

# (A) a revision name (tag/branch) used as checkpoint id / --begin / --end that is also the
#     name of a file or directory in the repository root: git is called without a `--`
#     separator, so it refuses ("ambiguous argument: both revision and filename") and
#     analyze reports an error instead of the change set.
git tag v1
echo x > v1; git add v1; git commit -qm c2
echo edit >> t1/a.txt
timeout 20 "$M" -f "$R/Monorail.json" checkpoint update -i v1 >/dev/null
out=$(timeout 20 "$M" -f "$R/Monorail.json" analyze --changes 2>&1); rc=$?
echo "(A) checkpoint id 'v1' (a tag) + file named 'v1': rc=$rc"; echo "    $out" | head -c 300; echo
[ $rc -ne 0 ] && bad=1
git checkout -q -- t1/a.txt

# (B) a tracked, unmodified file removed from the index only (`git rm --cached`): it is
#     listed by both `git diff <checkpoint>` (deleted from the index) and
#     `git ls-files --others` (untracked), so the same path is reported twice.
timeout 20 "$M" -f "$R/Monorail.json" checkpoint update >/dev/null
git rm -q --cached keep.txt
out=$(timeout 20 "$M" -f "$R/Monorail.json" analyze --changes 2>&1)
echo "(B) git rm --cached keep.txt: $out"
n=$(printf '%s' "$out" | jq '[.changes[] | select(.path=="keep.txt")] | length')
[ "$n" != "1" ] && bad=1
exit $bad
