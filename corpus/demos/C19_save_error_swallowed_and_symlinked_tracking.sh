#!/usr/bin/env bash
# Observations about the UNMODIFIED project and property C19 (independent of the seeded change).
# usage: baseline.sh <worktree>    prints findings; exit 1 if at least one violation reproduced.
#  A. write errors while saving the checkpoint are swallowed (needs root: mounts a tiny tmpfs)
#  B. `out delete --all` leaves the checkpoint when <out_dir>/tracking is a symlink to a directory
set -u
WT="${1:?usage: baseline.sh <worktree>}"
( cd "$WT" && cargo build --offline >/dev/null 2>&1 ) || { echo "build failed"; exit 2; }
BIN="$WT/target/debug/monorail"
export GIT_AUTHOR_NAME=d GIT_AUTHOR_EMAIL=d@e GIT_COMMITTER_NAME=d GIT_COMMITTER_EMAIL=d@e
D="$(mktemp -d)"; R="$D/repo"; MNT="$R/monorail-out/tracking"
trap 'umount "$MNT" 2>/dev/null; rm -rf "$D"' EXIT
mkdir -p "$R/one"; echo a > "$R/one/a"
PORT=$(( 30000 + (RANDOM * 32768 + RANDOM) % 30000 ))
cat > "$R/Monorail.json" <<EOF
{"targets":[{"path":"one"}],"server":{"lock":{"port":$PORT},"log":{"port":$((PORT+1))}}}
EOF
echo monorail-out > "$R/.gitignore"
git -C "$R" init -q . && git -C "$R" add -A && git -C "$R" commit -qm initial
mr() { timeout 30 "$BIN" -f "$R/Monorail.json" "$@"; }
bad=0

echo "=== A: checkpoint update on a full file system"
mkdir -p "$MNT"
if mount -t tmpfs -o size=16k tmpfs "$MNT" 2>/dev/null; then
  dd if=/dev/zero of="$MNT/filler" bs=1k count=64 >/dev/null 2>&1   # fill it up
  mr checkpoint update; urc=$?
  echo "update rc=$urc, checkpoint file size: $(stat -c %s "$MNT/checkpoint.json.zst" 2>/dev/null)"
  mr checkpoint show; src=$?
  echo "show rc=$src"
  if [ $urc -eq 0 ] && [ $src -ne 0 ]; then
    echo "VIOLATION A: update reported success but show fails (analyze, run and checkpoint delete fail the same way)"
    bad=1
  fi
  umount "$MNT"
else
  echo "skipped (cannot mount tmpfs)"
fi

echo "=== B: out delete --all with <out_dir>/tracking being a symlink to a directory"
rm -rf "$R/monorail-out"; mkdir -p "$R/monorail-out" "$D/persist"
ln -s "$D/persist" "$R/monorail-out/tracking"
mr checkpoint update >/dev/null || echo "update failed"
mr out delete --all; echo "out delete rc=$?"
if mr checkpoint show; then
  echo "VIOLATION B: show still succeeds after out delete --all; analyze says: $(mr analyze)"
  bad=1
fi
exit $bad
