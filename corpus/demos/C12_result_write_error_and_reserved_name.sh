#!/bin/bash
# Situations in which the UNMODIFIED project violates C12. usage: baseline.sh <worktree>
# Prints one line per finding; exit 1 if any finding reproduces, 0 otherwise.
set -u
WT=${1:?usage: baseline.sh <worktree>}
( cd "$WT" && timeout 170 cargo build --offline >/dev/null 2>&1 ) || { echo "build failed"; exit 2; }
M="$WT/target/debug/monorail"
export GIT_AUTHOR_NAME=demo GIT_AUTHOR_EMAIL=demo@example.com
export GIT_COMMITTER_NAME=demo GIT_COMMITTER_EMAIL=demo@example.com
TOP=$(mktemp -d); trap 'rm -rf "$TOP"' EXIT
FOUND=0
found() { echo "REPRODUCED: $*"; FOUND=1; }

# mkrepo <dir> <max_retained_runs> <number of targets>
mkrepo() {
  local R=$1 MAX=$2 N=$3 P=$((30000 + RANDOM % 30000)) i
  mkdir -p "$R" && cd "$R" && git init -q . || exit 2
  python3 - "$MAX" "$N" "$P" <<'EOF'
import json, sys
mx, n, p = int(sys.argv[1]), int(sys.argv[2]), int(sys.argv[3])
json.dump({"max_retained_runs": mx,
           "targets": [{"path": "target_with_a_rather_long_name_%03d" % i} for i in range(n)],
           "server": {"lock": {"port": p}, "log": {"port": p + 1}}}, open("Monorail.json", "w"))
EOF
  for i in $(seq 0 $((N - 1))); do
    local d; d=$(printf 'target_with_a_rather_long_name_%03d' $i)
    mkdir -p $d/monorail/cmd
    printf '#!/bin/sh\necho "out %s a $MARK"\n' $d > $d/monorail/cmd/a.sh
    printf '#!/bin/sh\necho "out %s slow $MARK"; sleep 20\n' $d > $d/monorail/cmd/slow.sh
    chmod +x $d/monorail/cmd/*.sh
  done
  git add -A && git commit -qm init || exit 2
}
T0=target_with_a_rather_long_name_000
same_as() { [ "$(jq -cS 'del(.timestamp)' <<<"$1")" = "$(jq -cS 'del(.timestamp)' <<<"$2")" ]; }

# U1: a write error while storing the result document is swallowed (store_run_output drops the
# BufWriter returned by encoder.finish() without flushing it): the run exits 0, prints its
# document and advances the run pointer, but result.json.zst is truncated -> `result show` fails.
# Fault: file size limit of 1 KiB (RLIMIT_FSIZE, SIGXFSZ ignored -> EFBIG); disk full / quota act alike.
mkrepo "$TOP/u1" 2 120; F="$TOP/u1/Monorail.json"
MARK=one timeout 60 "$M" -f "$F" run -c a >/dev/null 2>&1
printed=$( (trap '' XFSZ; ulimit -f 1; MARK=two timeout 60 "$M" -f "$F" run -c a 2>/dev/null; echo "rc=$?" >&2) 2>"$TOP/u1.rc" | cat)
shown=$(timeout 30 "$M" -f "$F" result show 2>"$TOP/u1.err")
if grep -q 'rc=0' "$TOP/u1.rc" && [ -n "$printed" ] && ! same_as "$printed" "$shown"; then
  found "U1 run exited 0 and printed a document under a file size limit, but result show gives: $(head -c 200 "$TOP/u1.err")"
fi

# U2: an invocation that is rejected AFTER the slot was recycled costs a retained run its logs and
# result: a command name longer than 255 bytes passes the name check, then creating its log
# directory fails with ENAMETOOLONG (fatal error, nothing recorded) - the slot is already wiped.
LONG=$(printf 'x%.0s' $(seq 1 300))
mkrepo "$TOP/u2" 2 1; F="$TOP/u2/Monorail.json"
MARK=r1 timeout 30 "$M" -f "$F" run -c a -t $T0 >/dev/null 2>&1
MARK=r2 timeout 30 "$M" -f "$F" run -c a -t $T0 >/dev/null 2>&1
before=$(timeout 30 "$M" -f "$F" log show --id 1 --stdout 2>&1)
timeout 30 "$M" -f "$F" run -c "$LONG" -t $T0 >/dev/null 2>&1; rc=$?
after=$(timeout 30 "$M" -f "$F" log show --id 1 --stdout 2>&1)
if [ "$before" != "$after" ]; then
  found "U2 (max=2) rejected invocation (rc=$rc, over-long command name) wiped retained run 1: log show --id 1 now prints '$(echo "$after" | head -c 120)'"
fi
mkrepo "$TOP/u2b" 1 1; F="$TOP/u2b/Monorail.json"
printed=$(MARK=r1 timeout 30 "$M" -f "$F" run -c a -t $T0 2>/dev/null)
timeout 30 "$M" -f "$F" run -c "$LONG" -t $T0 >/dev/null 2>&1
shown=$(timeout 30 "$M" -f "$F" result show 2>&1)
same_as "$printed" "$shown" || found "U2 (max=1) after the rejected invocation result show gives: $(echo "$shown" | head -c 200)"

# U3: a command called result.json.zst (a legal single-component name): its log directory takes the
# place of the result file, the tasks are executed, then storing the result fails (EISDIR): fatal
# error, run not recorded, retained slot lost.
mkrepo "$TOP/u3" 2 1; F="$TOP/u3/Monorail.json"
MARK=r1 timeout 30 "$M" -f "$F" run -c a -t $T0 >/dev/null 2>&1
MARK=r2 timeout 30 "$M" -f "$F" run -c a -t $T0 >/dev/null 2>&1
before=$(timeout 30 "$M" -f "$F" log show --id 1 --stdout 2>&1)
timeout 30 "$M" -f "$F" run -c result.json.zst -t $T0 >/dev/null 2>&1; rc=$?
after=$(timeout 30 "$M" -f "$F" log show --id 1 --stdout 2>&1)
[ "$before" = "$after" ] || found "U3 run -c result.json.zst (rc=$rc) wiped retained run 1"

# U4: the same command twice in one run (-c a a, or a sequence plus -c): both executions write
# <slot>/a/<target>/stdout.zst, the second truncates the first: the result lists two executions,
# log show has the lines of one.
mkrepo "$TOP/u4" 2 1; F="$TOP/u4/Monorail.json"
printed=$(MARK=r1 timeout 30 "$M" -f "$F" run -c a a -t $T0 2>/dev/null)
nres=$(jq '.results | length' <<<"$printed")
nlines=$(timeout 30 "$M" -f "$F" log show --stdout 2>/dev/null | grep -c '^out ')
[ "$nres" = "$nlines" ] || found "U4 run -c a a: result has $nres command executions, log show has the output of $nlines"

# U5: max_retained_runs=1 and a run that is killed (SIGKILL) while its command executes: the only
# slot was already recycled, so the most recent COMPLETED run's result and logs are gone.
mkrepo "$TOP/u5" 1 1; F="$TOP/u5/Monorail.json"
printed=$(MARK=r1 timeout 30 "$M" -f "$F" run -c a -t $T0 2>/dev/null)
MARK=r2 timeout 30 "$M" -f "$F" run -c slow -t $T0 >/dev/null 2>&1 &
pid=$!
for i in $(seq 1 50); do [ -d "$TOP/u5/monorail-out/run/1/slow" ] && break; sleep 0.1; done
sleep 0.3; pkill -KILL -P $pid 2>/dev/null; kill -KILL $pid 2>/dev/null; wait $pid 2>/dev/null
pkill -KILL -f "$TOP/u5/" 2>/dev/null
shown=$(timeout 30 "$M" -f "$F" result show 2>&1)
same_as "$printed" "$shown" || found "U5 (max=1) after a killed run result show gives: $(echo "$shown" | head -c 160)"

exit $FOUND
