#!/usr/bin/env bash
# Baseline observation (UNMODIFIED code): a command NAME containing a path that climbs
# out of the new run slot ("../4/hello" while slot 4 holds the last completed run) makes
# the killed run create/truncate its log archives inside the previous run's slot.
# Same checks as demo.sh. usage: baseline.sh <worktree>   exit 1 = property violated
set -u
WT=${1:?usage: demo.sh <worktree>}
(cd "$WT" && cargo build --offline >/dev/null 2>&1) || { echo "build failed"; exit 2; }
BIN="$WT/target/debug/monorail"
[ -x "$BIN" ] || { echo "no binary"; exit 2; }

export GIT_AUTHOR_NAME=demo GIT_AUTHOR_EMAIL=demo@example.com
export GIT_COMMITTER_NAME=demo GIT_COMMITTER_EMAIL=demo@example.com

D=$(mktemp -d)
R="$D/repo"
mkdir -p "$R"
PORT=$(( 30000 + (RANDOM * 32768 + RANDOM) % 30000 ))
CFG="$R/Monorail.json"
childpid=""
cleanup() {
  [ -n "$childpid" ] && kill -9 "$childpid" 2>/dev/null
  rm -rf "$D"
}
trap cleanup EXIT

write_cfg() { # $1 = max_retained_runs
  cat > "$CFG" <<EOF
{
  "max_retained_runs": $1,
  "server": {"lock": {"port": $PORT}, "log": {"port": $((PORT + 1))}},
  "targets": [ {"path": "app"} ]
}
EOF
}
mr() { timeout 60 "$BIN" -f "$CFG" "$@"; }
# JSON output without the volatile output timestamp (if any)
strip_ts() {
  python3 -c '
import json,sys
s=sys.stdin.read()
try:
    d=json.loads(s); d.pop("timestamp",None); print(json.dumps(d,sort_keys=True))
except Exception:
    print(s)'
}
result_show() { mr result show 2>&1 | strip_ts; }
checkpoint_show() { mr checkpoint show 2>&1 | strip_ts; }
log_show() { mr log show --stdout --stderr 2>&1; }

cd "$R"
git init -q . || exit 2
mkdir -p app/monorail/cmd
cat > app/monorail/cmd/hello.sh <<EOF
#!/usr/bin/env bash
n=\$(cat "$D/counter" 2>/dev/null || echo 0); n=\$((n+1)); echo \$n > "$D/counter"
echo "hello number \$n"
echo "hello err \$n" >&2
EOF
cat > app/monorail/cmd/slow.sh <<EOF
#!/usr/bin/env bash
echo "slow started"
echo \$\$ > "$D/slow.pid"
exec sleep 25
EOF
chmod +x app/monorail/cmd/*.sh
write_cfg 5
git add -A && git commit -q -m init || exit 2
mr checkpoint update >/dev/null 2>&1 || { echo "checkpoint update failed"; exit 2; }

# four completed runs with a retention of five: the run pointer ends at slot 4
for i in 1 2 3 4; do
  mr run -c hello -t app >/dev/null 2>&1 || { echo "setup run $i failed"; exit 2; }
done


res_before=$(result_show)
log_before=$(log_show)
cp_before=$(checkpoint_show)
cpsum_before=$(sha256sum monorail-out/tracking/checkpoint.json.zst | cut -d' ' -f1)
echo "$res_before" | grep -q '"hello"' || { echo "unexpected result before crash: $res_before"; exit 2; }
echo "$log_before" | grep -q 'hello number 4' || { echo "unexpected log before crash: $log_before"; exit 2; }

# the run that crashes: killed while its child is executing
"$BIN" -f "$CFG" run -c ../4/hello slow -t app >/dev/null 2>&1 &
mpid=$!
for _ in $(seq 1 300); do [ -s "$D/slow.pid" ] && break; sleep 0.1; done
if [ ! -s "$D/slow.pid" ]; then kill -9 $mpid 2>/dev/null; echo "child never started"; exit 2; fi
childpid=$(cat "$D/slow.pid")
sleep 0.3
{ kill -9 $mpid; wait $mpid; } 2>/dev/null
kill -9 "$childpid" 2>/dev/null

res_after=$(result_show)
log_after=$(log_show)
cp_after=$(checkpoint_show)
cpsum_after=$(sha256sum monorail-out/tracking/checkpoint.json.zst | cut -d' ' -f1)

bad=0
if [ "$res_before" != "$res_after" ]; then
  echo "VIOLATION: result show changed after the crash"
  echo "  before: $res_before"; echo "  after:  $res_after"; bad=1
fi
if [ "$log_before" != "$log_after" ]; then
  echo "VIOLATION: log show changed after the crash"
  echo "  before: $log_before"; echo "  after:  $log_after"; bad=1
fi
if [ "$cp_before" != "$cp_after" ] || [ "$cpsum_before" != "$cpsum_after" ]; then
  echo "VIOLATION: checkpoint changed after the crash"; bad=1
fi

# the next run succeeds normally and is what result/log show then report
if ! mr run -c hello -t app >/dev/null 2>&1; then
  echo "VIOLATION: run after the crash failed"; bad=1
else
  log_next=$(log_show)
  echo "$log_next" | grep -q 'hello number 5' || { echo "VIOLATION: log show after the next run: $log_next"; bad=1; }
  echo "$log_next" | grep -q 'slow started' && { echo "VIOLATION: next run shows logs of the crashed run"; bad=1; }
  result_show | grep -q '"failed": false' || { echo "VIOLATION: result show after the next run: $(result_show)"; bad=1; }
fi

[ $bad -eq 0 ] && echo "OK: property holds on this scenario"
exit $bad
