"""Configuration-file scenarios for C17 (generate / tamper) and C18 (re-serialisation)."""
import hashlib, json, os, shutil, subprocess, tempfile
import vlib, runscen, gen_config as G

BASE = {"targets": [{"path": "svc/a"}, {"path": "svc/b", "uses": ["svc/a"]}, {"path": "lib"}]}

def mk_dir(ctx, cfg):
    d = tempfile.mkdtemp(prefix="cfg-", dir=ctx.scratch)
    for t in cfg["targets"]:
        os.makedirs(os.path.join(d, t["path"], "monorail", "cmd"), exist_ok=True)
        open(os.path.join(d, t["path"], "_f"), "w").write("x")
        p = os.path.join(d, t["path"], "monorail", "cmd", "build")
        if not os.path.lexists(p): os.symlink(vlib.BIN_VHELPER, p)
    return d

def cli(d, *args, stdin=None, env=None, timeout=120):
    e = dict(os.environ); e.update(vlib.GIT_ENV)
    if env: e.update(env)
    r = subprocess.run([vlib.BIN_MONORAIL, "-f", os.path.join(d, "Monorail.json")] + list(args), cwd=d, env=e,
                       stdout=subprocess.PIPE, stderr=subprocess.PIPE, input=stdin, timeout=timeout)
    def last(b):
        for line in reversed(b.decode("utf-8", "replace").strip().splitlines()):
            try: return json.loads(line)
            except Exception: continue
        return None
    return r.returncode, last(r.stdout), last(r.stderr), r

def source_doc(pad, lock_port, log_port):
    doc = {"source": {"path": "Monorail.src.json"}, "targets": BASE["targets"],
           "server": {"lock": {"port": lock_port, "bind_timeout_ms": 1000}, "log": {"port": log_port, "bind_timeout_ms": 1000}}}
    if pad: doc["sequences"] = {"pad": ["x" * pad]}
    return doc

def generate(ctx, d, gen_size=None, src_pad=0):
    """Write a source file and run `config generate`; optionally steer the GENERATED file to an exact size."""
    lock_port, log_port = vlib.fresh_ports()
    pad = 0
    for attempt in range(4):
        doc = source_doc(pad, lock_port, log_port)
        src = json.dumps(doc, indent=2) + "\n" + " " * src_pad
        open(os.path.join(d, "Monorail.src.json"), "w").write(src)
        rc, out, err, raw = cli(d, "config", "generate", stdin=src.encode())
        if rc != 0: return None
        size = os.path.getsize(os.path.join(d, "Monorail.json"))
        if gen_size is None or size == gen_size: break
        pad = max(0, pad + (gen_size - size))
    return {"src": open(os.path.join(d, "Monorail.src.json"), "rb").read(), "gen": open(os.path.join(d, "Monorail.json"), "rb").read(),
            "lock": open(os.path.join(d, "Monorail.lock"), "rb").read()}

APIS = [("config_show", ["config", "show"]), ("target_show", ["target", "show", "--target-groups"]), ("analyze", ["analyze", "--target-groups"]),
        ("target_render", ["target", "render", "-f", "out.dot"]), ("checkpoint_update", ["checkpoint", "update"]), ("run", ["run", "-c", "build", "-t", "lib"]),
        ("out_delete", ["out", "delete", "--all"])]

def side_effects(d, hd):
    return {"dot": os.path.exists(os.path.join(d, "out.dot")),
            "checkpoint": os.path.exists(os.path.join(d, "monorail-out", "tracking", "checkpoint.json.zst")),
            "runs": sorted(os.listdir(os.path.join(d, "monorail-out", "run"))) if os.path.isdir(os.path.join(d, "monorail-out", "run")) else [],
            "traces": len(os.listdir(os.path.join(hd, "trace"))) if os.path.isdir(os.path.join(hd, "trace")) else 0,
            "marker": os.path.exists(os.path.join(d, "monorail-out", "keep", "marker"))}

def file_facts(ids, gen_bytes, sha_ids):
    """What the loader sees in the generated file: does it parse as a Config with a source, which checksum it embeds."""
    try:
        v = json.loads(gen_bytes.decode("utf-8"))
        ok = isinstance(v, dict) and isinstance(v.get("targets", []), list) and set(v.keys()) <= {"source", "out_dir", "max_retained_runs", "change_provider", "targets", "sequences", "server"}
    except Exception:
        return False, False, []
    src = v.get("source") if ok else None
    has = isinstance(src, dict)
    if has and not (set(src.keys()) <= {"path", "algorithm", "checksum"} and isinstance(src.get("path"), str)): return False, False, []
    s = []
    if has and isinstance(src.get("checksum"), str):
        s = [sha_ids.setdefault(src["checksum"], 10**6 + len(sha_ids))]
    return ok, has, s

def tamper_bytes(rng, data, kind, pos_class):
    n = len(data)
    if kind == "append": return data + rng.choice([b"\n", b" ", b"x", b"\n\n  "])
    if kind == "truncate": return data[:max(0, n - rng.randint(1, min(n, 40)))]
    pos = {"first": 0, "last": n - 1, "b8191": 8191, "b8192": 8192, "b8190": 8190, "b65536": 65536}.get(pos_class)
    if pos is None or pos >= n: pos = rng.randrange(n)
    old = data[pos]
    new = (old + 1) % 256 if old not in (0x22, 0x5c) else 0x41
    # keep it a byte that does not make the edit invisible (e.g. space -> tab inside JSON whitespace is still a change of bytes)
    return data[:pos] + bytes([new]) + data[pos + 1:]

def c17_case(ctx, rng, gen_size, which, kind, pos_class):
    d = mk_dir(ctx, BASE); hd = tempfile.mkdtemp(prefix="helper-", dir=ctx.scratch)
    json.dump({"*": {}}, open(os.path.join(hd, "script.json"), "w"))
    env = {"VHELPER_DIR": hd, "VHELPER_ROOT": d}
    try:
        files = generate(ctx, d, gen_size=gen_size, src_pad=rng.choice([0, 0, 9000, 70000]))
        case = {"gen_size": gen_size, "tamper": which, "kind": kind, "pos": pos_class}
        if files is None:
            ctx.record(case, True, False, False, False, detail={"what": "config generate failed"}); return
        ids, sha_ids = {}, {}
        def cid(b):
            i = ids.setdefault(b, len(ids) + 1); sha_ids[hashlib.sha256(b).hexdigest()] = i; return i
        cid(files["src"]); cid(files["gen"])
        lock_sum = json.loads(files["lock"])["checksum"]
        # 1. untouched: every API succeeds
        ok_all = True; failed_api = None
        for name, args in APIS[:4]:
            rc, out, err, raw = cli(d, *args, env=env)
            if rc != 0: ok_all = False; failed_api = (name, err)
        parses, has, s = file_facts(ids, files["gen"], sha_ids)
        v = ctx.model.call("cfgfile", parses, has, s, [cid(files["src"])], cid(files["gen"]), [sha_ids.get(lock_sum, 10**6 + 999)], ok_all)
        ctx.count("untouched_gen_%s" % ("le8k" if len(files["gen"]) <= 8192 else "gt8k"))
        ctx.record(dict(case, phase="untouched", actual_gen_size=len(files["gen"])), True, bool(v[2]), bool(v[3]) and ok_all, len(files["gen"]) > 8192,
                   sample={"gen_size": len(files["gen"]), "src_size": len(files["src"]), "untouched_usable": ok_all} if len(files["gen"]) > 8192 else None,
                   detail={"what": "untouched files must be usable", "gen_size": len(files["gen"]), "failed_api": failed_api})
        if os.path.exists(os.path.join(d, "out.dot")): os.remove(os.path.join(d, "out.dot"))
        # 2. tamper exactly one file
        new = dict(files)
        if which == "lock":
            lk = json.loads(files["lock"]); c = lk["checksum"]; i = rng.randrange(len(c))
            lk["checksum"] = c[:i] + ("0" if c[i] != "0" else "1") + c[i + 1:]
            new["lock"] = json.dumps(lk).encode()
        elif which == "lock_missing":
            new["lock"] = None
        elif which == "src_missing":
            new["src"] = None
        else:
            new[which] = tamper_bytes(rng, files[which], kind, pos_class)
        if new[which if which in new else {"lock_missing": "lock", "src_missing": "src"}[which]] == files.get(which):
            return
        for k, fn in (("src", "Monorail.src.json"), ("gen", "Monorail.json"), ("lock", "Monorail.lock")):
            p = os.path.join(d, fn)
            if new[k] is None:
                if os.path.exists(p): os.remove(p)
            else: open(p, "wb").write(new[k])
        os.makedirs(os.path.join(d, "monorail-out", "keep"), exist_ok=True); open(os.path.join(d, "monorail-out", "keep", "marker"), "w").write("m")
        before = side_effects(d, hd)
        results = {}
        for name, args in APIS:
            rc, out, err, raw = cli(d, *args, env=env); results[name] = rc
        # `log tail` reads the configuration as well (its host and port); it blocks when it works, so: it must be gone, with an error, within
        # three seconds - still serving after that counts as "succeeded"
        e_ = dict(os.environ); e_.update(vlib.GIT_ENV); e_.update(env)
        lt = subprocess.Popen([vlib.BIN_MONORAIL, "-f", os.path.join(d, "Monorail.json"), "log", "tail", "--stdout", "--stderr"], cwd=d, env=e_, stdout=subprocess.PIPE, stderr=subprocess.PIPE)
        try: lt.wait(timeout=3); results["log_tail"] = lt.returncode
        except subprocess.TimeoutExpired:
            lt.kill(); lt.wait(); results["log_tail"] = 0
        after = side_effects(d, hd)
        any_ok = any(rc == 0 for rc in results.values())
        all_fail = all(rc != 0 for rc in results.values())
        acted = after != before
        parses, has, s = file_facts(ids, new["gen"], sha_ids)
        lock_id = []
        if new["lock"] is not None:
            try: lock_id = [sha_ids.setdefault(json.loads(new["lock"])["checksum"], 10**6 + len(sha_ids) + 7)]
            except Exception: lock_id = []
        v = ctx.model.call("cfgfile", parses, has, s, [] if new["src"] is None else [cid(new["src"])], cid(new["gen"]), lock_id, any_ok)
        spec = all_fail and not acted
        ctx.count("tamper_%s_%s" % (which, kind if which in ("src", "gen") else "")); ctx.count("pos_" + str(pos_class))
        ctx.record(dict(case, phase="tampered", actual_gen_size=len(files["gen"])), True, bool(v[2]) and (all_fail or not any_ok is False), spec, True,
                   sample={"gen_size": len(files["gen"]), "tamper": which, "kind": kind, "pos": pos_class, "api_exit_codes": results},
                   detail={"what": "after tampering one file every API must fail and do nothing", "results": results, "acted": acted, "before": before, "after": after,
                           "model_usable": bool(v[1])})
    finally:
        shutil.rmtree(d, ignore_errors=True); shutil.rmtree(hd, ignore_errors=True)

def c17_sweep(ctx, rng, stride=1, which="gen"):
    """Every single-byte edit of the generated file (or the source): each must be rejected by the loader."""
    d = mk_dir(ctx, BASE)
    try:
        files = generate(ctx, d)
        if files is None:
            ctx.record({"sweep": which}, True, False, False, False, detail={"what": "config generate failed"}); return
        fn = {"gen": "Monorail.json", "src": "Monorail.src.json", "lock": "Monorail.lock"}[which]
        data = files[which]
        accepted = []
        def same_lock(b):
            # an edit of the lockfile that leaves a parseable file with the identical checksum string is not a change of the checksum
            try: return json.loads(b.decode("utf-8")).get("checksum") == json.loads(data.decode("utf-8")).get("checksum")
            except Exception: return False
        for off in range(0, len(data), stride):
            # the lockfile is small: every single-bit flip of every byte (this includes the upper/lower-case forms of hex letters)
            news = [data[off] ^ (1 << b) for b in range(8)] if which == "lock" else [(data[off] ^ 1), (data[off] + 1) % 256 if data[off] not in (0x22, 0x5c) else 0x41]
            for new in news:
                if new == data[off]: continue
                if which == "lock" and same_lock(data[:off] + bytes([new]) + data[off + 1:]): continue
                open(os.path.join(d, fn), "wb").write(data[:off] + bytes([new]) + data[off + 1:])
                rc, out, err, raw = cli(d, "config", "show")
                rc2, out2, err2, raw2 = cli(d, "target", "show") if which != "lock" else (1, None, None, None)
                ctx.evaluations += 1; ctx.traces_validated += 1
                if rc == 0 or rc2 == 0:
                    accepted.append({"offset": off, "old": data[off], "new": new, "context": data[max(0, off - 12):off + 12].decode("latin1")})
        if which != "lock":
            # every one-byte append (each kind of white space included: a final newline is a change of bytes) and the first truncations
            variants = [("append", data + bytes([b])) for b in (0x0a, 0x0d, 0x20, 0x09, 0x00, 0x7d, 0x78)] + [("append", data + b"\r\n")] + \
                       [("truncate", data[:len(data) - k]) for k in (1, 2, 3)] + ([("strip_final_newline", data[:-1])] if data.endswith(b"\n") else [])
            for what, new_data in variants:
                open(os.path.join(d, fn), "wb").write(new_data)
                rc, out, err, raw = cli(d, "config", "show"); rc2, out2, err2, raw2 = cli(d, "target", "show")
                ctx.evaluations += 1; ctx.traces_validated += 1; ctx.count("sweep_%s_%s" % (which, what))
                if rc == 0 or rc2 == 0:
                    accepted.append({"edit": what, "tail": new_data[-6:].hex()})
        open(os.path.join(d, fn), "wb").write(data)
        rc, out, err, raw = cli(d, "config", "show")
        ok = not accepted and rc == 0
        ctx.count("sweep_%s_offsets" % which, len(range(0, len(data), stride)))
        ctx.record({"sweep": which, "size": len(data), "stride": stride}, True, ok, ok, True,
                   sample={"sweep": which, "file_size": len(data), "edits_tried": (8 if which == "lock" else 2) * len(range(0, len(data), stride)), "accepted": len(accepted)},
                   detail={"what": "single-byte edits of the %s file that the loader accepted" % which, "accepted": accepted[:8], "restored_ok": rc == 0})
    finally:
        shutil.rmtree(d, ignore_errors=True)

def c17_layout_case(ctx, rng, layout):
    """The process's working directory is not the directory of the configuration file (monorail is started from the repository root with
    -f cfg/Monorail.json, or from a subdirectory with -f ../Monorail.json): untouched files stay usable, a touched source is still refused."""
    lock_port, log_port = vlib.fresh_ports()
    d = mk_dir(ctx, BASE)
    try:
        if layout == "config_in_subdir":
            cwd = d; cfgdir = os.path.join(d, "cfg"); os.makedirs(cfgdir); src_rel = "cfg/Monorail.src.json"
        else:
            cwd = os.path.join(d, "tools"); os.makedirs(cwd); cfgdir = d; src_rel = "../Monorail.src.json"
        doc = source_doc(0, lock_port, log_port); doc["source"]["path"] = src_rel
        src = json.dumps(doc, indent=1).encode()
        src_file = os.path.normpath(os.path.join(cwd, src_rel)); open(src_file, "wb").write(src)
        cfgfile = os.path.join(cfgdir, "Monorail.json")
        def run(*args, stdin=None):
            e = dict(os.environ); e.update(vlib.GIT_ENV)
            r = subprocess.run([vlib.BIN_MONORAIL, "-f", cfgfile] + list(args), cwd=cwd, env=e, input=stdin, capture_output=True, timeout=60)
            return r.returncode
        rc_gen = run("config", "generate", stdin=src)
        ok_untouched = [run("config", "show"), run("target", "show")]
        open(src_file, "wb").write(src[:40] + bytes([src[40] ^ 1]) + src[41:])
        refused = [run("config", "show"), run("target", "show")]
        ok = rc_gen == 0 and all(r == 0 for r in ok_untouched) and all(r != 0 for r in refused)
        v = ctx.model.call("cfgfile", True, False, [], [], 1, [], rc_gen == 0 and all(r == 0 for r in ok_untouched))
        ctx.count("layout_" + layout)
        ctx.record({"layout": layout}, True, bool(v[2]), ok, True, sample={"layout": layout, "generate_rc": rc_gen, "untouched_rcs": ok_untouched, "touched_source_rcs": refused},
                   detail={"what": "working directory differs from the configuration file's directory", "generate_rc": rc_gen, "untouched_rcs": ok_untouched, "touched_source_rcs": refused})
    finally:
        shutil.rmtree(d, ignore_errors=True)

def run_c17(ctx, scale):
    for layout in ("config_in_subdir", "cwd_in_subdir"): c17_layout_case(ctx, ctx.rng, layout)
    c17_sweep(ctx, ctx.rng, stride=1 if not ctx.quick() else 1, which="gen")
    c17_sweep(ctx, ctx.rng, stride=1, which="lock")
    if not ctx.quick(): c17_sweep(ctx, ctx.rng, stride=1, which="src")
    rng = ctx.rng
    sizes = [None, 8191, 8192, 8193, 20000] if ctx.quick() else [None, 4000, 8190, 8191, 8192, 8193, 8194, 16384, 65536, 65537, 200000, 300000]
    whiches = ["src", "gen", "lock", "gen", "src", "lock_missing", "src_missing"]
    n = (28 if ctx.quick() else 600) * scale
    for i in range(n):
        size = sizes[i % len(sizes)]
        which = whiches[(i // len(sizes)) % len(whiches)] if i >= len(sizes) * 2 else ["gen", "src"][i // len(sizes) % 2]
        kind = rng.choice(["edit", "edit", "append", "truncate"])
        pos = rng.choice(["first", "last", "b8190", "b8191", "b8192", "b65536", "random"])
        if i < len(sizes): kind, which = "append", "gen"       # the boundary case: append to a generated file of each size
        c17_case(ctx, rng, size, which, kind, pos)

# ---------------------------------------------------------------- C18
def serialisations(rng, cfg):
    keys = list(cfg.keys())
    def shuffled(o):
        if isinstance(o, dict):
            items = list(o.items()); rng.shuffle(items); return {k: shuffled(v) for k, v in items}
        if isinstance(o, list): return [shuffled(x) for x in o]
        return o
    compact = json.dumps(cfg, separators=(",", ":"), ensure_ascii=False)
    # the same strings written with escape sequences: every character of every string value as \uXXXX (surrogate pairs beyond the BMP),
    # the member names as well, and every solidus as \/ (what ASCII-only and HTML-safe serialisers emit)
    def esc(st): return '"' + "".join("\\u%04x" % u for u in __import__("struct").unpack("<%dH" % (len(st.encode("utf-16-le")) // 2), st.encode("utf-16-le"))) + '"'
    def dump_esc(o, keys_too):
        if isinstance(o, dict): return "{" + ",".join((esc(k) if keys_too else json.dumps(k)) + ":" + dump_esc(v, keys_too) for k, v in o.items()) + "}"
        if isinstance(o, list): return "[" + ",".join(dump_esc(x, keys_too) for x in o) + "]"
        if isinstance(o, str): return esc(o)
        return json.dumps(o)
    out = [("compact", compact), ("escaped_values", dump_esc(cfg, False)), ("escaped_names_too", dump_esc(cfg, True)),
           ("escaped_solidus", json.dumps(cfg, ensure_ascii=False).replace("/", "\\/")), ("pretty2", json.dumps(cfg, indent=2, ensure_ascii=False)), ("pretty8", json.dumps(cfg, indent=8)),
           ("shuffled", json.dumps(shuffled(cfg), indent=1, ensure_ascii=False))]
    # every kind of JSON white space, in every position: CRLF line endings (a Windows editor, core.autocrlf), a leading or a
    # trailing CR / CRLF / tab, CR between tokens
    pretty = json.dumps(cfg, indent=2, ensure_ascii=False)
    out += [("crlf_pretty", pretty.replace("\n", "\r\n") + "\r\n"), ("crlf_tail", compact + "\r\n"), ("crlf_lead", "\r\n" + compact),
            ("cr_lead_tail", "\r" + compact + "\r"), ("tab_lead_tail", "\t" + compact + "\t\n"), ("tabs_pretty", json.dumps(cfg, indent="\t", ensure_ascii=False)),
            ("cr_between", compact.replace(",", ",\r", 3))]
    # a multi-byte UTF-8 character placed so that each of its bytes falls on a multiple of 8192 (any chunked reader's seam)
    enc = compact.encode("utf-8")
    mb = next((i for i, b in enumerate(enc) if b >= 0x80), None)
    if mb is not None:
        for seam in (8192, 16384, 65536, 131072):
            for delta in (0, 1, 2):
                pad = seam - mb - delta
                if pad >= 0: out.append(("seam_%d_%d" % (seam, delta), " " * pad + compact))
    for size in (1200000, 3000000):      # beyond a megabyte
        out.append(("lead_pad_%d" % size, " " * (size - len(compact)) + compact)); out.append(("tail_pad_%d" % size, compact + "\n" * (size - len(compact))))
    for size in (9000, 70000, 300000):
        pad = max(0, size - len(compact))
        out.append(("lead_pad_%d" % size, " " * pad + compact))
        out.append(("tail_pad_%d" % size, compact + "\n" * pad))
        j = compact.index(",") + 1
        out.append(("mid_pad_%d" % size, compact[:j] + " " * pad + compact[j:]))
    return out

def c18_case(ctx, rng, n_targets, explicit=False):
    lock_port, log_port = vlib.fresh_ports()
    if n_targets <= 8:
        cfg = G.gen_config(rng, nmax=n_targets)
        if rng.random() < 0.7: cfg["targets"].append({"path": "svc/caf\u00e9 \u65e5\u672c"})
    else:
        cfg = {"targets": [{"path": "pkg/t%03d" % i, **({"uses": ["pkg/t%03d" % rng.randrange(i)]} if i and rng.random() < 0.5 else {})} for i in range(n_targets)]}
    cfg["server"] = {"lock": {"port": lock_port, "bind_timeout_ms": 1000}, "log": {"port": log_port, "bind_timeout_ms": 1000}}
    # optional members written out explicitly (strings of every kind: plain, with a solidus, non-ASCII, beyond the BMP)
    if rng.random() < 0.6 or explicit: cfg["out_dir"] = rng.choice(["monorail-out", "build/r\u00e9sultats", "out dir", "out/\U0001F4E6"])
    if rng.random() < 0.4: cfg["server"]["lock"]["host"] = "127.0.0.1"
    if rng.random() < 0.4: cfg["server"]["log"]["host"] = "127.0.0.1"
    if rng.random() < 0.4: cfg["change_provider"] = {"use": "git"}
    d = mk_dir(ctx, cfg)
    try:
        ref = None
        sers = serialisations(rng, cfg)
        stale = rng.choice(["none", "matches_first", "matches_other", "garbage_checksum"])
        if stale != "none":
            # e.g. left over from an earlier `config generate`: a source-less configuration has nothing to do with it
            which = sers[0][1] if stale == "matches_first" else sers[min(3, len(sers) - 1)][1]
            cs = hashlib.sha256(which.encode("utf-8")).hexdigest() if stale != "garbage_checksum" else "0" * 64
            json.dump({"checksum": cs}, open(os.path.join(d, "Monorail.lock"), "w"))
        ctx.count("lockfile_" + stale)
        # state written under one serialisation (a checkpoint) must be found under every other one: the directory is a git repository
        genv = {**os.environ, **vlib.GIT_ENV}
        for cmd in (["git", "init", "-q", "-b", "main"], ["git", "add", "-A"], ["git", "commit", "-q", "-m", "init"]):
            subprocess.run(cmd, cwd=d, env=genv, capture_output=True)
        open(os.path.join(d, "Monorail.json"), "w", encoding="utf-8").write(sers[0][1])
        cli(d, "checkpoint", "update")
        for name, text in sers:
            open(os.path.join(d, "Monorail.json"), "w", encoding="utf-8").write(text)
            outs = {}
            for api, args in (("config_show", ["config", "show"]), ("analyze", ["analyze", "--target-groups"]), ("target_show", ["target", "show", "--target-groups"]),
                              ("checkpoint_show", ["checkpoint", "show"])):
                rc, out, err, raw = cli(d, *args)
                if out: out.pop("timestamp", None)
                if err: err.pop("timestamp", None)
                outs[api] = [rc, out if rc == 0 else (err or {}).get("type")]
            size = len(text.encode('utf-8'))
            if ref is None: ref = outs; ref_name = name
            same = outs == ref
            accepted = all(v[0] == 0 for v in outs.values()) or outs["config_show"][0] == 0
            v = ctx.model.call("cfgfile", True, False, [], [], 1, [], outs["config_show"][0] == 0)
            ctx.count("ser_" + name.split("_")[0]);  ctx.count("size_" + ("le8k" if size <= 8192 else "le64k" if size <= 65536 else "gt64k"))
            ctx.record({"targets": n_targets, "serialisation": name, "size": size, "cfg": cfg if n_targets <= 8 else "generated-%d" % n_targets}, True, bool(v[2]), same and bool(v[3]), size > 8192,
                       sample={"serialisation": name, "size": size, "targets": len(cfg["targets"]), "exit_codes": {k: v[0] for k, v in outs.items()}} if size > 8192 else None,
                       detail={"what": "same JSON value, different bytes: outputs must be identical to the %s serialisation" % ref_name, "serialisation": name, "size": size,
                               "exit_codes": {k: v[0] for k, v in outs.items()}, "ref_exit_codes": {k: v[0] for k, v in ref.items()}})
    finally:
        shutil.rmtree(d, ignore_errors=True)

def c18_generate_case(ctx, rng, n_targets):
    """`config generate` reads the configuration from standard input: the same JSON value piped in different serialisations
    (and delivered in one or several writes) must produce the same generated file, lockfile and outputs."""
    import time
    lock_port, log_port = vlib.fresh_ports()
    doc = source_doc(0, lock_port, log_port)
    doc["targets"] = BASE["targets"] + [{"path": "pkg/t%03d" % i} for i in range(n_targets)]
    d = mk_dir(ctx, doc)
    try:
        open(os.path.join(d, "Monorail.src.json"), "w").write(json.dumps(doc))      # the source file on disk never changes
        sers = serialisations(rng, doc)
        sers = sers[:4] + [x for x in sers[4:] if x[0].endswith("_9000") or x[0].endswith("_70000")][:4] + [x for x in sers if x[0].startswith(("crlf", "cr_", "tab"))] + [("split_writes", sers[0][1]), ("split_writes_pretty", sers[1][1])]
        ref = None
        for name, text in sers:
            for f in ("Monorail.json", "Monorail.lock"):
                if os.path.exists(os.path.join(d, f)): os.remove(os.path.join(d, f))
            data = text.encode("utf-8")
            e = dict(os.environ); e.update(vlib.GIT_ENV)
            p = subprocess.Popen([vlib.BIN_MONORAIL, "-f", os.path.join(d, "Monorail.json"), "config", "generate"], cwd=d, env=e,
                                 stdin=subprocess.PIPE, stdout=subprocess.PIPE, stderr=subprocess.PIPE)
            try:
                if name.startswith("split_writes"):
                    h = len(data) // 2
                    p.stdin.write(data[:h]); p.stdin.flush(); time.sleep(0.4); p.stdin.write(data[h:])
                else:
                    p.stdin.write(data)
                p.stdin.close()
            except (BrokenPipeError, OSError):
                pass            # the program stopped reading before the end of its input: judged by its outputs below
            so = p.stdout.read(); se = p.stderr.read(); rc = p.wait(timeout=60)
            gen = open(os.path.join(d, "Monorail.json"), "rb").read() if os.path.exists(os.path.join(d, "Monorail.json")) else None
            lock = open(os.path.join(d, "Monorail.lock"), "rb").read() if os.path.exists(os.path.join(d, "Monorail.lock")) else None
            rc2, out2, err2, raw2 = cli(d, "config", "show")
            if out2: out2.pop("timestamp", None)
            got = [rc, gen, lock, rc2, out2 if rc2 == 0 else None]
            if ref is None: ref, ref_name = got, name
            same = got == ref
            size = len(data)
            v = ctx.model.call("cfgfile", True, False, [], [], 1, [], rc == 0)
            ctx.count("generate_" + name.split("_")[0]); ctx.count("generate_size_" + ("le8k" if size <= 8192 else "gt8k"))
            ctx.record({"generate": True, "targets": n_targets, "serialisation": name, "size": size}, True, bool(v[2]), same and rc == 0, size > 8192 or name.startswith("split"),
                       sample={"api": "config generate (stdin)", "serialisation": name, "size": size, "rc": rc} if size > 8192 else None,
                       detail={"what": "config generate: same JSON value on stdin, different bytes / delivery: outputs must equal those of the %s serialisation" % ref_name,
                               "serialisation": name, "size": size, "rc": rc, "ref_rc": ref[0], "generated_same": gen == ref[1], "lock_same": lock == ref[2], "config_show_rc": rc2,
                               "stderr": se.decode("utf-8", "replace")[-300:]})
    finally:
        shutil.rmtree(d, ignore_errors=True)

def run_c18(ctx, scale):
    rng = ctx.rng
    plan = [3, 6, 300] if ctx.quick() else [2, 3, 5, 8, 40, 300, 300] * 10
    for n in plan * scale:
        c18_case(ctx, rng, n, explicit=(n == plan[0]))
    for n in ([2, 150] if ctx.quick() else [0, 2, 40, 150, 400] * 4) * scale:
        c18_generate_case(ctx, rng, n)
