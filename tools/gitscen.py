"""Real git + real monorail scenarios for C02 (change set), C07 (checkpoint update --pending) and
C19 (checkpoint store).  The repository state handed to the model is OBSERVED from git after every
operation (ls-tree, ls-files, the files on disk), never mirrored, so the harness does not bake in a
second opinion of what git operations mean."""
import hashlib, json, os, shutil, subprocess, tempfile
import vlib, gen_config as G

NAMES = ["a/f.txt", "a/g.txt", "a/sub/h.rs", "b/x y.txt", "b/ünï.txt", 'c/q"uote.txt', "c/back\\slash.txt",
         "c/tab\there.txt", "d/plain", "d/deep/er/file.c", "top.txt", "ign/skipped.txt", "a/日本.txt", "b/z.txt", "a/big.bin",
         " lead/x.txt", "b/notes ", "d/caf\u00e9\u00a0", "\u3000wide.txt", "a/ inner lead.txt"]     # leading / trailing blanks (ASCII, NBSP, ideographic space) are part of a name
CFG = {"targets": [{"path": "a"}, {"path": "b", "uses": ["d/deep"]}, {"path": "c", "ignores": ["c/tab\there.txt"]}, {"path": "a/sub"}]}

class Repo:
    def __init__(self, ctx, object_format=None, sub=None):
        self.ctx = ctx
        self.object_format = object_format
        self.sub = sub
        self.serial = 0
        self.blob_ids = {}        # git blob sha -> small content id
        self.sha256_ids = {}      # sha256 hex -> content id
        self.commits = []
        self.ever_empty = set()
        self.repo = vlib.mk_repo(ctx, CFG, extra_files={"a/_keep": "k", "b/_keep": "k", "c/_keep": "k", "a/sub/_keep": "k"}, object_format=object_format)
        with open(os.path.join(self.repo, ".gitignore"), "a") as f: f.write("ign/\n")
        vlib.git(self.repo, "add", "-A"); vlib.git(self.repo, "commit", "-q", "-m", "ignore")
        if sub:
            # the configuration lives in a subdirectory of the git repository: the repository root becomes the parent directory, everything
            # so far moves below <sub>/, and there are files outside it that change as well (they are nobody's business here)
            outer = tempfile.mkdtemp(prefix="outer-", dir=ctx.scratch)
            shutil.move(self.repo, os.path.join(outer, sub)); shutil.move(os.path.join(outer, sub, ".git"), os.path.join(outer, ".git"))
            self.outer = outer; self.repo = os.path.join(outer, sub)
            os.makedirs(os.path.join(outer, "elsewhere")); open(os.path.join(outer, "elsewhere", "tracked.txt"), "w").write("outside the project\n")
            vlib.git(self.repo, "add", "-A"); vlib.git(self.repo, "commit", "-q", "-m", "project moved below " + sub)
        self.commits.append(self.rev("HEAD"))
    def rev(self, ref): return vlib.git(self.repo, "rev-parse", ref).decode().strip()
    def fresh_content(self, rng, base=None):
        self.serial += 1
        lines = ["line %d of generation %d" % (i, self.serial if i % 9 == 0 else 0) for i in range(60)]
        if base is not None and len(base) < 100000:   # similar to an existing file (>50% shared) so that rename detection would fire
            lines = base.decode("utf-8", "replace").splitlines()[:55] + ["edit %d" % self.serial]
        return ("\n".join(lines) + "\n").encode()
    def cid_of_bytes(self, data):
        blob = hashlib.sha1(b"blob %d\0" % len(data) + data).hexdigest()
        cid = self.blob_ids.setdefault(blob, len(self.blob_ids) + 1)
        self.sha256_ids[hashlib.sha256(data).hexdigest()] = cid
        return cid
    def tree_of(self, commit):
        out = vlib.git(self.repo, "ls-tree", "-r", "-z", commit)
        t = []
        for ent in out.split(b"\0"):
            if not ent: continue
            meta, path = ent.split(b"\t", 1)
            blob = meta.split()[2].decode()
            if blob not in self.blob_ids:
                data = vlib.git(self.repo, "cat-file", "blob", blob)
                self.blob_ids[blob] = self.cid_of_bytes(data)      # (the repository's own object name may be SHA-1 or SHA-256)
            t.append([path, self.blob_ids[blob]])
        return t
    def observe(self, extra_commits=()):
        idx = [p for p in vlib.git(self.repo, "ls-files", "-z").split(b"\0") if p]
        work = []
        for root, dirs, files in os.walk(self.repo.encode()):
            dirs[:] = [d for d in dirs if d not in (b".git", b"monorail-out")]
            for f in files:
                full = os.path.join(root, f)
                rel = os.path.relpath(full, self.repo.encode())
                work.append([rel, self.cid_of_bytes(open(full, "rb").read())])
        head = self.tree_of("HEAD")
        trees = {c: self.tree_of(c) for c in extra_commits}
        uni = set(p for p, _ in work) | set(idx) | set(p for p, _ in head)
        for t in trees.values(): uni |= set(p for p, _ in t)
        ignored = [p for p, _ in work if p.startswith(b"ign/")]
        return {"universe": sorted(uni), "head": head, "tracked": idx, "work": work, "ignored": ignored, "trees": trees}
    def repo_val(self, st):
        return [st["universe"], st["head"], st["tracked"], st["work"], st["ignored"]]
    def pending_val(self, pending):
        if pending is None: return []
        m = []
        for p, hexd in pending.items():
            if hexd == "": d = []
            else:
                if hexd not in self.sha256_ids:
                    self.sha256_ids[hexd] = 10**6 + len(self.sha256_ids)
                d = [self.sha256_ids[hexd]]
            m.append([p.encode("utf-8", "surrogateescape"), d])
        return [m]
    # ---- operations
    def apply(self, rng, op=None):
        r = self.repo
        existing = [n for n in NAMES if os.path.isfile(os.path.join(r, n))]
        if self.sub and rng.random() < 0.25:
            # something happens outside the project directory (tracked file edited, untracked file created): never part of the change set
            with open(os.path.join(self.outer, "elsewhere", "tracked.txt"), "a") as f: f.write("edit %d\n" % self.serial)
            open(os.path.join(self.outer, "elsewhere", "new%d.txt" % self.serial), "w").write("x"); self.serial += 1
        op = op or rng.choice(["write", "write", "write", "modify", "delete", "mv", "gitmv", "add", "addall", "rmcached", "commit", "commit", "empty", "big", "bigtail", "bigtail", "rewrite_same", "rewrite_same",
                               "amend", "reset", "branch"])
        genv = {**os.environ, **vlib.GIT_ENV}
        if op == "amend" and len(self.commits) >= 2:
            # rewrite the tip: a checkpoint taken at the old tip now names a commit that is no longer an ancestor of HEAD
            if rng.random() < 0.5: vlib.git(r, "add", "-A")
            rc = subprocess.run(["git", "commit", "-q", "--amend", "--allow-empty", "-m", "amended %d" % self.serial], cwd=r, capture_output=True, env=genv).returncode
            self.serial += 1
            if rc == 0: self.commits.append(self.rev("HEAD")); return ("amend",)
        if op == "reset" and len(self.commits) >= 3:
            # move HEAD back (index and files keep their state or only the files do): commits made since are off the branch
            mode = rng.choice(["--soft", "--mixed"])
            rc = subprocess.run(["git", "reset", "-q", mode, "HEAD~1"], cwd=r, capture_output=True, env=genv).returncode
            if rc == 0: return ("reset", mode)
        if op == "branch" and len(self.commits) >= 3:
            # continue on a side branch that forks from an older commit (files that would be overwritten make git refuse: then nothing happens)
            base = rng.choice(self.commits[:-1]); self.serial += 1
            rc = subprocess.run(["git", "checkout", "-q", "-b", "side%d" % self.serial, base], cwd=r, capture_output=True, env=genv).returncode
            if rc == 0: return ("branch", base[:8])
        if op == "bulk":
            # many new files at once: more than two analysis batches (50), an odd number of them
            k = rng.choice([101, 113, 150, 127])
            d = rng.choice(["a/bulk", "b/gen ä", "d/many"])
            os.makedirs(os.path.join(r, d), exist_ok=True)
            for i in range(k):
                open(os.path.join(r, d, "%s %03d.txt" % (rng.choice(["f", "é", "z z"]), i)), "wb").write(b"bulk %d %d\n" % (self.serial, i))
            self.serial += 1
            return ("bulk", d, k)
        if op == "bulkwide":
            # several hundred new files whose names are mostly multi-byte characters (2, 3 and 4 bytes): each of git's path lists
            # then runs to tens of kilobytes, so that it arrives in several pipe reads whose boundaries fall inside characters
            k = rng.choice([260, 333, 410])
            d = rng.choice(["a/宽", "b/gén", "d/many"])
            os.makedirs(os.path.join(r, d), exist_ok=True)
            stems = ["é", "日本語", "\U0001F600", "ü", "名前", "ß"]
            for i in range(k):
                nm = "".join(rng.choice(stems) for _ in range(rng.randint(6, 12))) + "%03d" % i
                open(os.path.join(r, d, nm), "wb").write(b"wide %d %d\n" % (self.serial, i))
            self.serial += 1
            return ("bulkwide", d, k)
        if op == "big":
            # a file larger than any read buffer (3 MiB); a later "bigtail" changes only bytes far beyond the first megabytes
            import random as _r
            data = _r.Random(self.serial).randbytes(3 * 1024 * 1024 + 17); self.serial += 1
            os.makedirs(os.path.join(r, "a"), exist_ok=True)
            open(os.path.join(r, "a/big.bin"), "wb").write(data); return ("big", "a/big.bin")
        if op == "bigtail" and os.path.isfile(os.path.join(r, "a/big.bin")) and os.path.getsize(os.path.join(r, "a/big.bin")) > 2600000:
            with open(os.path.join(r, "a/big.bin"), "r+b") as f:
                f.seek(2600000); f.write(b"tail edit %d" % self.serial)
            self.serial += 1; return ("bigtail", "a/big.bin")
        if op == "empty":
            # a zero-length file: its checksum must still differ from the empty checksum that stands for "no such file"
            n = rng.choice(NAMES); os.makedirs(os.path.dirname(os.path.join(r, n)) or r, exist_ok=True)
            open(os.path.join(r, n), "wb").close(); self.ever_empty.add(n); return ("empty", n)
        if op == "rewrite_same" and existing:
            # the same bytes written anew (an editor's save without changes, a revert by hand, a copy renamed into place): new inode and
            # times, so git's cached stat information is stale, but the content is what it was - not a change
            n = rng.choice(existing); fp = os.path.join(r, n); data = open(fp, "rb").read()
            open(fp + ".tmp~", "wb").write(data); os.replace(fp + ".tmp~", fp); os.utime(fp, (1700000000 + self.serial, 1700000000 + self.serial)); self.serial += 1
            return ("rewrite_same", n)
        if op == "write":
            n = rng.choice(NAMES); os.makedirs(os.path.dirname(os.path.join(r, n)) or r, exist_ok=True)
            open(os.path.join(r, n), "wb").write(self.fresh_content(rng)); return ("write", n)
        if op == "modify" and existing:
            n = rng.choice(existing); base = open(os.path.join(r, n), "rb").read()
            open(os.path.join(r, n), "wb").write(self.fresh_content(rng, base)); return ("modify", n)
        if op == "delete" and existing:
            n = rng.choice(existing); os.remove(os.path.join(r, n)); return ("delete", n)
        if op in ("mv", "gitmv") and existing:
            n = rng.choice(existing); m = rng.choice([x for x in NAMES if x != n])
            os.makedirs(os.path.dirname(os.path.join(r, m)) or r, exist_ok=True)
            if op == "gitmv":
                rc = subprocess.run(["git", "mv", "-f", n, m], cwd=r, capture_output=True, env={**os.environ, **vlib.GIT_ENV}).returncode
                if rc == 0:
                    if n in self.ever_empty: self.ever_empty.add(m)
                    return ("gitmv", n, m)
            if n in self.ever_empty: self.ever_empty.add(m)
            os.replace(os.path.join(r, n), os.path.join(r, m)); return ("mv", n, m)
        if op == "add" and existing:
            n = rng.choice(existing); vlib.git(r, "add", "-f" if n.startswith("ign/") and rng.random() < 0.0 else "--", n, check=False); return ("add", n)
        if op == "addall":
            vlib.git(r, "add", "-A"); return ("addall",)
        if op == "rmcached":
            idx = [p for p in vlib.git(r, "ls-files", "-z").split(b"\0") if p and p.decode("utf-8", "replace") in NAMES]
            if idx:
                n = rng.choice(idx); vlib.git(r, "rm", "--cached", "-q", "--", n.decode(), check=False); return ("rmcached", n.decode())
        if op == "commit":
            if rng.random() < 0.6: vlib.git(r, "add", "-A")
            rc = subprocess.run(["git", "commit", "-q", "-m", "c%d" % len(self.commits)], cwd=r, capture_output=True, env={**os.environ, **vlib.GIT_ENV}).returncode
            if rc == 0: self.commits.append(self.rev("HEAD")); return ("commit",)
        return ("noop",)

def show_checkpoint(repo):
    rc, out, err, raw = vlib.monorail(repo.repo, "checkpoint", "show")
    if rc != 0 or not out: return None
    return out["checkpoint"]

def names_of(out):
    return [c["path"].encode("utf-8", "surrogateescape") for c in (out.get("changes") or [])]

def eval_changes(ctx, repo, opts, focus, trail):
    """analyze --changes with the given --begin/--end against the observed state and the stored checkpoint."""
    cp = show_checkpoint(repo)
    args = ["analyze", "--changes"]
    need = []
    # a revision may be given in any form git understands (full name, abbreviation, tag): "alias" maps the commit to what is typed
    alias = opts.get("alias", {})
    if opts.get("begin"): args += ["--begin", alias.get(opts["begin"], opts["begin"])]; need.append(opts["begin"])
    if opts.get("end"): args += ["--end", alias.get(opts["end"], opts["end"])]; need.append(opts["end"])
    if cp and cp["id"]: need.append(cp["id"])
    rc, out, err, raw = vlib.monorail(repo.repo, *args)
    st = repo.observe(extra_commits=need)
    if cp is None:
        # no checkpoint: the change provider is not consulted at all
        ok = rc == 0 and out and out.get("checkpointed") is False and not out.get("changes")
        ctx.count("no_checkpoint")
        ctx.record({"trail": trail, "opts": opts}, True, ok, ok, False, detail={"out": out, "err": err})
        return out
    impl = [1, names_of(out)] if rc == 0 and out else [0, 3]
    cp_tree = [st["trees"][cp["id"]]] if cp["id"] else []
    b = [st["trees"][opts["begin"]]] if opts.get("begin") else []
    e = [st["trees"][opts["end"]]] if opts.get("end") else []
    v = ctx.model.call("git_changes", repo.repo_val(st), cp_tree, b, e, repo.pending_val(cp.get("pending")), impl)
    model_names = [bytes(x).decode("utf-8", "replace") for x in v[1]]
    agree, spec = bool(v[2]), bool(v[3])
    nontriv = len(model_names) >= 2 and (bool(cp.get("pending")) or bool(opts))
    case = {"trail": trail, "opts": opts, "checkpoint": cp}
    ctx.count("analyze_" + ("range" if opts.get("end") else "begin" if opts.get("begin") else "plain"))
    ctx.count("pending" if cp.get("pending") else "no_pending")
    ctx.record(case, True, agree, spec, nontriv,
               sample={"ops": trail[-6:], "opts": opts, "reported": [n.decode("utf-8", "replace") for n in impl[1]] if impl[0] == 1 else impl} if nontriv else None,
               detail={"impl": [n.decode("utf-8", "replace") for n in impl[1]] if impl[0] == 1 else (err or raw.stderr.decode("utf-8", "replace")[-300:]), "model": model_names})
    return out

def do_update(ctx, repo, rng, trail, focus, with_id=None, pending=None):
    old = show_checkpoint(repo)
    pending = rng.random() < 0.6 if pending is None else pending
    args = ["checkpoint", "update"]
    if with_id: args += ["--id", with_id]
    if pending: args += ["--pending"]
    st = repo.observe()
    head_id = repo.rev("HEAD")
    rc, out, err, raw = vlib.monorail(repo.repo, *args)
    trail.append(["update", with_id, pending])
    if rc != 0 or not out:
        ctx.record({"trail": trail}, True, False, False, False, detail={"what": "checkpoint update failed", "err": err})
        return None
    new = out["checkpoint"]
    v = ctx.model.call("cp_pending", repo.repo_val(st), pending, repo.pending_val(old.get("pending") if old else None), repo.pending_val(new.get("pending")))
    id_ok = new["id"] == (with_id or head_id)
    shown = show_checkpoint(repo)
    show_ok = shown == new
    agree = bool(v[2]) and id_ok and show_ok
    ctx.count("update_" + ("id" if with_id else "head") + ("_pending" if pending else ""))
    ctx.record({"trail": list(trail)}, True, agree, agree, bool(new.get("pending")),
               sample={"ops": trail[-5:], "checkpoint": {"id": new["id"][:8], "pending": sorted((new.get("pending") or {}).keys())}} if new.get("pending") else None,
               detail={"new": new, "shown": shown, "id_ok": id_ok, "show_ok": show_ok, "pending_model_agrees": bool(v[2])})
    return new

def failing_update(ctx, repo, rng, trail):
    """An update that cannot succeed (git cannot be run): it must exit non-zero and leave the store exactly as it was -
    in particular no checkpoint may appear where there was none."""
    before = show_checkpoint(repo)
    args = ["checkpoint", "update", "--git-path", "/nonexistent/bin/git"] + (["--pending"] if rng.random() < 0.5 else [])
    rc, out, err, raw = vlib.monorail(repo.repo, *args)
    trail.append(["update_that_fails", args[2:]])
    after = show_checkpoint(repo)
    rc2, an, err2, raw2 = vlib.monorail(repo.repo, "analyze")
    want_all = sorted(t["path"] for t in CFG["targets"])
    ok = rc != 0 and after == before
    if before is None: ok = ok and rc2 == 0 and bool(an) and an.get("checkpointed") is False and an.get("targets") == want_all
    ctx.count("failing_update_%s" % ("no_checkpoint" if before is None else "over_checkpoint"))
    ctx.record({"trail": list(trail), "what": "an update that fails leaves the store unchanged"}, True, ok, ok, before is None,
               sample={"ops": trail[-4:], "rc": rc, "show_before": before, "show_after": after} if before is None else None,
               detail={"rc": rc, "show_before": before, "show_after": after, "analyze": an if before is None else None})

def unborn_head_update(ctx, repo, rng, trail):
    """HEAD names a branch that has no commit yet (a fresh repository, `git checkout --orphan`): an update without --id has no commit to
    record - it must fail and leave the store as it was (in particular it must not store the word HEAD)."""
    genv = {**os.environ, **vlib.GIT_ENV}
    sym = subprocess.run(["git", "symbolic-ref", "-q", "HEAD"], cwd=repo.repo, capture_output=True, env=genv)
    cur_ref = sym.stdout.decode().strip() if sym.returncode == 0 else None
    cur_sha = repo.rev("HEAD")
    repo.serial += 1
    if rng.random() < 0.5 and not os.path.lexists(os.path.join(repo.repo, "HEAD")):
        # a work-tree file named like the reference: `git rev-parse HEAD` would echo it as a path
        open(os.path.join(repo.repo, "HEAD"), "wb").write(b"not the ref\n"); trail.append(["root_file_named", "HEAD"]); ctx.count("root_file_named_HEAD")
    subprocess.run(["git", "symbolic-ref", "HEAD", "refs/heads/unborn-%d" % repo.serial], cwd=repo.repo, capture_output=True, env=genv)
    try:
        before = show_checkpoint(repo)
        args = ["checkpoint", "update"] + (["--pending"] if rng.random() < 0.5 else [])
        rc, out, err, raw = vlib.monorail(repo.repo, *args)
        after = show_checkpoint(repo)
    finally:
        if cur_ref: subprocess.run(["git", "symbolic-ref", "HEAD", cur_ref], cwd=repo.repo, capture_output=True, env=genv)
        else: subprocess.run(["git", "update-ref", "--no-deref", "HEAD", cur_sha], cwd=repo.repo, capture_output=True, env=genv)
    trail.append(["update_on_unborn_head", args[2:]])
    ok = rc != 0 and after == before
    ctx.count("update_on_unborn_head")
    ctx.record({"trail": list(trail), "what": "checkpoint update without --id while HEAD has no commit"}, True, ok, ok, True,
               sample={"ops": trail[-3:], "rc": rc, "show_before": before, "show_after": after}, detail={"rc": rc, "out": out, "err": err, "show_before": before, "show_after": after})

def odd_id_update(ctx, repo, rng, trail):
    """--id is stored and returned verbatim, whatever it looks like (a revision read from a CRLF file keeps its carriage return): show
    returns exactly what the update returned.  An ordinary update follows, so that the history goes on from a usable checkpoint."""
    sha = rng.choice(repo.commits)
    odd = rng.choice([sha + "\r", sha + " ", " " + sha, sha + "\n", "\t" + sha[:12]])
    rc, out, err, raw = vlib.monorail(repo.repo, "checkpoint", "update", "--id", odd)
    trail.append(["update_with_odd_id", odd])
    shown = show_checkpoint(repo)
    ok = (rc == 0 and out is not None and out["checkpoint"]["id"] == odd and shown == out["checkpoint"]) or (rc != 0 and out is None)
    ctx.count("update_with_odd_id_" + ("accepted" if rc == 0 else "refused"))
    ctx.record({"trail": list(trail), "what": "an --id with white space around it: show returns what update returned"}, True, ok, ok, True,
               sample={"id": odd, "rc": rc, "shown": shown}, detail={"id": odd, "rc": rc, "returned": out, "shown": shown})
    do_update(ctx, repo, rng, trail, "C19")

STRACE = shutil.which("strace")
def write_error_update(ctx, repo, rng, trail):
    """The file system refuses the data (no space left: every write(2) to the checkpoint file or its temporary fails with ENOSPC, injected
    by strace).  Either the update reports the failure - then the store is as it was - or it reports success - then show returns what it
    printed.  Exit status 0 with nothing stored is neither."""
    if not STRACE:
        ctx.count("strace_unavailable"); return
    before = show_checkpoint(repo)
    tdir = os.path.join(repo.repo, "monorail-out", "tracking")
    args = ["checkpoint", "update"] + (["--pending"] if rng.random() < 0.5 else [])
    e = dict(os.environ); e.update(vlib.GIT_ENV)
    cmd = [STRACE, "-f", "-o", "/dev/null", "-e", "trace=write,pwrite64,writev", "-e", "inject=write,pwrite64,writev:error=ENOSPC",
           "-P", os.path.join(tdir, "checkpoint.json.zst"), "-P", os.path.join(tdir, "checkpoint.json.zst.tmp"),
           vlib.BIN_MONORAIL, "-f", os.path.join(repo.repo, "Monorail.json")] + args
    try: r = subprocess.run(cmd, cwd=repo.repo, env=e, capture_output=True, timeout=120)
    except subprocess.TimeoutExpired:
        ctx.count("strace_timeout"); return
    if b"ptrace" in r.stderr and r.returncode not in (0, 1, 2):
        ctx.count("strace_unusable"); return
    trail.append(["update_with_write_errors", args[2:]])
    printed = None
    for line in reversed(r.stdout.decode("utf-8", "replace").strip().splitlines()):
        try: printed = json.loads(line).get("checkpoint"); break
        except Exception: continue
    after = show_checkpoint(repo)
    ok = (after == printed and printed is not None) if r.returncode == 0 else (after == before)
    ctx.count("update_with_write_errors_%s" % ("reported_success" if r.returncode == 0 else "reported_failure"))
    ctx.record({"trail": list(trail), "what": "checkpoint update while every write to the checkpoint file fails (ENOSPC)"}, True, ok, ok, True,
               sample={"ops": trail[-3:], "rc": r.returncode, "show_before": before, "show_after": after},
               detail={"rc": r.returncode, "printed": printed, "show_before": before, "show_after": after, "stderr": r.stderr.decode("utf-8", "replace")[-300:]})

def scenario(ctx, sseed, focus, force_huge=False):
    import random
    rng = random.Random(sseed)
    # one history in four lives in a SHA-256 repository (object names of 64 hex digits)
    fmt = "sha256" if rng.random() < 0.25 else None
    sub = "mono" if random.Random(sseed ^ 0x2545f491).random() < 0.25 else None
    repo = Repo(ctx, object_format=fmt, sub=sub)
    ctx.count("object_format_" + (fmt or "sha1")); ctx.count("config_in_" + ("subdirectory" if sub else "repository_root"))
    trail = [["scenario_seed", sseed, focus], ["object_format", fmt or "sha1"]]
    n_ops = rng.randint(8, 16)
    side = random.Random(sseed ^ 0x5bd1e995)          # (a stream of its own: stored scenario seeds keep their meaning)
    wide_at = side.randrange(n_ops) if side.random() < 0.2 else None
    revert_at = side.randrange(n_ops) if side.random() < 0.35 else None
    h = side.random() < 0.04
    huge_at = side.randrange(n_ops) if (force_huge or (h and not ctx.quick())) else None
    try:
        # a little history first
        for _ in range(rng.randint(1, 4)):
            trail.append(list(repo.apply(rng, "write"))); 
            if rng.random() < 0.7: trail.append(list(repo.apply(rng, "commit")))
        do_update(ctx, repo, rng, trail, focus, with_id=(rng.choice(repo.commits) if rng.random() < 0.3 else None))
        if focus == "C19" and side.random() < 0.3: unborn_head_update(ctx, repo, side, trail)
        if focus == "C19" and side.random() < 0.3: odd_id_update(ctx, repo, side, trail)
        if side.random() < 0.15:
            # a file named HEAD in the repository root
            open(os.path.join(repo.repo, "HEAD"), "wb").write(b"not the ref\n"); trail.append(["root_file_named", "HEAD"]); ctx.count("root_file_named_HEAD")
        for i in range(n_ops):
            if focus == "C19" and huge_at == i:
                # a pending set whose stored form exceeds a megabyte: what update printed is what show returns, nothing less
                hd = os.path.join(repo.repo, "d", "huge"); os.makedirs(hd, exist_ok=True)
                for j in range(6000): open(os.path.join(hd, "%05d-%s" % (j, "n" * 170)), "wb").write(b"h%d\n" % (j % 7))
                trail.append(["huge_untracked_set", 6000])
                new = do_update(ctx, repo, rng, trail, focus, pending=True)
                ok = new is not None and len(new.get("pending") or {}) >= 6000
                rc, an, err, raw = vlib.monorail(repo.repo, "analyze", "--changes")
                ok = ok and rc == 0 and bool(an) and an.get("checkpointed") is True and an.get("changes") == []
                ctx.count("huge_pending_set")
                ctx.record({"trail": list(trail), "what": "a checkpoint with 6000 pending paths (over 1 MiB stored) is returned whole and keeps working"}, True, ok, ok, True,
                           sample={"pending_entries": len((new or {}).get("pending") or {}), "analyze_rc": rc}, detail={"analyze_rc": rc, "err": err, "update_ok": new is not None})
                shutil.rmtree(hd)
                continue
            if focus == "C19" and revert_at == i:
                # an edit recorded as pending, then taken back without a commit: the next update finds the same commit and nothing
                # pending - and must still replace what is stored
                tracked = [p_.decode("utf-8", "replace") for p_ in vlib.git(repo.repo, "ls-files", "-z").split(b"\0") if p_]
                cand = [n for n in tracked if n in NAMES and os.path.isfile(os.path.join(repo.repo, n))]
                if cand:
                    vlib.git(repo.repo, "add", "-A"); subprocess.run(["git", "commit", "-q", "-m", "clean"], cwd=repo.repo, capture_output=True, env={**os.environ, **vlib.GIT_ENV})
                    repo.commits.append(repo.rev("HEAD"))
                    n_ = side.choice(cand); fp = os.path.join(repo.repo, n_); orig = open(fp, "rb").read()
                    open(fp, "wb").write(orig + b"an edit that will be taken back\n"); trail.append(["modify", n_])
                    do_update(ctx, repo, rng, trail, focus, pending=True)
                    open(fp, "wb").write(orig); trail.append(["revert", n_])
                    do_update(ctx, repo, rng, trail, focus, pending=True)
                    ctx.count("edit_reverted_between_updates")
                continue
            if focus == "C02" and wide_at == i:
                # one list of untracked paths, then (committed) one list of changed paths, each far beyond one pipe read
                trail.append(list(repo.apply(side, "bulkwide")))
                eval_changes(ctx, repo, {}, focus, list(trail))
                trail.append(list(repo.apply(rng, "addall"))); trail.append(list(repo.apply(rng, "commit")))
                eval_changes(ctx, repo, {}, focus, list(trail))
                ctx.count("wide_bulk_lists")
                continue
            r = rng.random()
            if focus == "C19" and r < 0.35 or r < 0.12:
                k = rng.random()
                if k < 0.45:
                    do_update(ctx, repo, rng, trail, focus, with_id=(rng.choice(repo.commits) if rng.random() < 0.3 else None))
                elif k < 0.55 and focus == "C19":
                    w = side.random()
                    if w < 0.3: failing_update(ctx, repo, rng, trail)
                    elif w < 0.55: write_error_update(ctx, repo, side, trail)
                    elif w < 0.8: unborn_head_update(ctx, repo, side, trail)
                    else: odd_id_update(ctx, repo, side, trail)
                elif k < 0.8:
                    had = show_checkpoint(repo) is not None
                    rc, out, err, raw = vlib.monorail(repo.repo, "checkpoint", "delete"); trail.append(["cp_delete"])
                    ok = (rc == 0) == had and show_checkpoint(repo) is None
                    ctx.record({"trail": list(trail)}, True, ok, ok, False, detail={"what": "checkpoint delete", "rc": rc, "had": had})
                    after_delete(ctx, repo, trail)
                    if focus == "C19" and rng.random() < 0.5: failing_update(ctx, repo, rng, trail)
                else:
                    # half of the time the command is started somewhere else - in a directory that has a monorail-out of its own
                    elsewhere = None
                    if rng.random() < 0.5:
                        elsewhere = tempfile.mkdtemp(prefix="elsewhere-", dir=ctx.scratch)
                        os.makedirs(os.path.join(elsewhere, "monorail-out", "precious")); open(os.path.join(elsewhere, "monorail-out", "precious", "data"), "w").write("keep")
                    tdir = os.path.join(repo.repo, "monorail-out", "tracking")
                    if side.random() < 0.3 and os.path.isdir(tdir) and not os.path.islink(tdir):
                        # the tracking directory lives somewhere else (a persistent cache) and is linked into the output directory
                        cache = tempfile.mkdtemp(prefix="cache-", dir=ctx.scratch); os.rmdir(cache)
                        shutil.move(tdir, cache); os.symlink(cache, tdir); trail.append(["tracking_dir_is_a_symlink"]); ctx.count("tracking_dir_symlinked")
                    rc, out, err, raw = vlib.monorail(repo.repo, "out", "delete", "--all", cwd=elsewhere); trail.append(["out_delete_all", "from another directory" if elsewhere else "from the repository root"])
                    ok = rc == 0 and show_checkpoint(repo) is None and (elsewhere is None or os.path.isfile(os.path.join(elsewhere, "monorail-out", "precious", "data")))
                    ctx.count("out_delete_from_" + ("elsewhere" if elsewhere else "root"))
                    ctx.record({"trail": list(trail)}, True, ok, ok, False, detail={"what": "out delete --all", "rc": rc})
                    after_delete(ctx, repo, trail)
                    if focus == "C19" and rng.random() < 0.5: failing_update(ctx, repo, rng, trail)
                continue
            if focus == "C07" and r < 0.45:
                if rng.random() < 0.25: c07_stale_round(ctx, repo, rng, trail)
                else: c07_round(ctx, repo, rng, trail)
                continue
            if focus == "C02" and rng.random() < 0.08:
                # a file larger than any read buffer is recorded as pending, then only its far tail changes
                trail.append(list(repo.apply(rng, "big")))
                do_update(ctx, repo, rng, trail, focus, pending=True)
                eval_changes(ctx, repo, {}, focus, list(trail))
                trail.append(list(repo.apply(rng, "bigtail")))
                eval_changes(ctx, repo, {}, focus, list(trail))
                continue
            trail.append(list(repo.apply(rng, "bulk" if (focus == "C02" and rng.random() < 0.12) else None)))
            opts = {}
            k = rng.random()
            if k < 0.2 and repo.commits: opts["begin"] = rng.choice(repo.commits)
            elif k < 0.4 and len(repo.commits) >= 2:
                opts["begin"] = rng.choice(repo.commits); opts["end"] = rng.choice(repo.commits)
            elif k < 0.5 and repo.commits: opts["end"] = rng.choice(repo.commits)
            if opts and rng.random() < 0.4:
                al = {}
                for c in sorted(set(v for v in opts.values() if isinstance(v, str))):
                    if rng.random() < 0.5: al[c] = c[:12]
                    else:
                        tag = "v-%s" % c[:7]
                        subprocess.run(["git", "tag", "-f", tag, c], cwd=repo.repo, capture_output=True, env={**os.environ, **vlib.GIT_ENV}); al[c] = tag
                        if side.random() < 0.5:
                            # a file of that very name in the repository root: the name still denotes the revision
                            open(os.path.join(repo.repo, tag), "wb").write(b"a file named like the tag\n"); trail.append(["root_file_named_like_revision", tag]); ctx.count("revision_name_is_also_a_file")
                opts["alias"] = al; ctx.count("revision_by_alias")
            eval_changes(ctx, repo, opts, focus, list(trail))
    finally:
        shutil.rmtree(getattr(repo, "outer", repo.repo), ignore_errors=True)

def after_delete(ctx, repo, trail):
    rc, out, err, raw = vlib.monorail(repo.repo, "analyze")
    want = sorted(t["path"] for t in CFG["targets"])
    ok = rc == 0 and out and out.get("checkpointed") is False and out.get("targets") == want
    rc2, out2, err2, raw2 = vlib.monorail(repo.repo, "checkpoint", "show")
    ok = ok and rc2 != 0
    ctx.count("after_delete")
    ctx.record({"trail": list(trail), "what": "no checkpoint => checkpointed=false, all targets, show fails"}, True, ok, ok, True,
               sample={"ops": trail[-4:], "analyze": out, "show_rc": rc2}, detail={"analyze": out, "show_rc": rc2})

def c07_stale_round(ctx, repo, rng, trail):
    """A path that was pending (deleted) at one update --pending, then restored and committed; a second update --pending
    on the clean tree; then the committed file is deleted: the deletion must be reported."""
    r = repo.repo
    vlib.git(r, "add", "-A"); subprocess.run(["git", "commit", "-q", "-m", "clean"], cwd=r, capture_output=True, env={**os.environ, **vlib.GIT_ENV})
    repo.commits.append(repo.rev("HEAD"))
    tracked = [p.decode("utf-8", "replace") for p in vlib.git(r, "ls-files", "-z").split(b"\0") if p]
    cand = [n for n in tracked if n in NAMES and os.path.isfile(os.path.join(r, n))]
    if not cand: return
    n = rng.choice(cand)
    os.remove(os.path.join(r, n)); trail.append(["delete", n])
    if do_update(ctx, repo, rng, trail, "C07", pending=True) is None: return
    vlib.git(r, "checkout", "--", n); trail.append(["restore", n])
    new = do_update(ctx, repo, rng, trail, "C07", pending=True)
    if new is None: return
    rc, out, err, raw = vlib.monorail(r, "analyze", "--changes")
    ok0 = rc == 0 and out and out.get("changes") == []
    os.remove(os.path.join(r, n)); trail.append(["novel_delete", n])
    out = eval_changes(ctx, repo, {}, "C07", list(trail))
    got = set(c["path"] for c in (out or {}).get("changes") or [])
    ok = ok0 and got == {n}
    ctx.count("stale_snapshot_round")
    ctx.record({"trail": list(trail), "what": "deleting a committed file after an update --pending on a clean tree must be reported, whatever an EARLIER update had recorded for that path"},
               True, ok, ok, True, sample={"deleted": n, "reported": sorted(got), "checkpoint_pending": new.get("pending")},
               detail={"deleted": n, "reported": sorted(got), "checkpoint": new, "clean_after_update": ok0})
    vlib.git(r, "checkout", "--", n); trail.append(["restore", n])

def c07_round(ctx, repo, rng, trail):
    """update --pending in whatever dirty state we are in; nothing may be reported; then novel edits re-flag exactly."""
    for _ in range(rng.randint(0, 3)): trail.append(list(repo.apply(rng)))
    new = do_update(ctx, repo, rng, trail, "C07", pending=True)
    if new is None: return
    rc, out, err, raw = vlib.monorail(repo.repo, "analyze", "--changes", "--change-targets")
    ok = rc == 0 and out and out.get("changes") == [] and out.get("targets") == []
    ctx.count("fixpoint")
    ctx.record({"trail": list(trail), "what": "after update --pending analyze must report nothing"}, True, ok, ok, bool(new.get("pending")),
               detail={"analyze": out, "err": err})
    if rng.random() < 0.35 and len(repo.commits) >= 3:
        # the history is rewritten under the checkpoint without touching a single file: the checkpointed commit is no longer an
        # ancestor of HEAD (amended message, HEAD moved back, side branch), yet nothing has changed, so nothing may be reported
        genv = {**os.environ, **vlib.GIT_ENV}
        # (only rewrites that leave the index alone: `reset --mixed` would turn tracked files into untracked ones, which are changes)
        how = rng.choice(["amend_message", "reset_soft"])
        cmd = {"amend_message": ["git", "commit", "-q", "--amend", "--allow-empty", "-m", "reworded"],
               "reset_soft": ["git", "reset", "-q", "--soft", "HEAD~1"]}[how]
        if subprocess.run(cmd, cwd=repo.repo, capture_output=True, env=genv).returncode == 0:
            if how == "amend_message": repo.commits.append(repo.rev("HEAD"))
            trail.append(["history_rewritten", how])
            out = eval_changes(ctx, repo, {}, "C07", list(trail))
            ok = out is not None and out.get("changes") == []
            ctx.count("fixpoint_after_" + how)
            ctx.record({"trail": list(trail), "what": "history rewritten under the checkpoint, no file touched: still nothing to report"}, True, ok, ok, True,
                       sample={"how": how, "reported": [c["path"] for c in (out or {}).get("changes") or []]}, detail={"analyze": out})
    edited = set()
    r = repo.repo
    for _ in range(rng.randint(1, 4)):
        kind = rng.choice(["create", "modify", "delete", "create_empty", "truncate", "bigtail"])
        existing = [n for n in NAMES if os.path.isfile(os.path.join(r, n)) and not n.startswith("ign/")]
        committed = set(p.decode("utf-8", "replace") for p, _ in repo.tree_of(new["id"]))
        if kind == "create":
            cand = [n for n in NAMES if not os.path.exists(os.path.join(r, n)) and not n.startswith("ign/")]
            if not cand: continue
            n = rng.choice(cand); os.makedirs(os.path.dirname(os.path.join(r, n)) or r, exist_ok=True)
            open(os.path.join(r, n), "wb").write(repo.fresh_content(rng))
        elif kind == "bigtail":
            bp = os.path.join(r, "a/big.bin")
            if not (os.path.isfile(bp) and os.path.getsize(bp) > 2600000) or "a/big.bin" in edited: continue
            n = "a/big.bin"
            with open(bp, "r+b") as f:
                f.seek(2600000 + rng.randrange(1000)); f.write(b"novel tail %d" % repo.serial)
            repo.serial += 1
        elif kind == "create_empty":
            # never existed at update time -> now exists with zero length (a state it never had)
            cand = [n for n in NAMES if not os.path.exists(os.path.join(r, n)) and not n.startswith("ign/") and n not in edited and n not in committed and n not in repo.ever_empty]
            if not cand: continue
            n = rng.choice(cand); os.makedirs(os.path.dirname(os.path.join(r, n)) or r, exist_ok=True)
            open(os.path.join(r, n), "wb").close(); repo.ever_empty.add(n)
        elif kind == "truncate":
            # novel only if the checkpoint commit does not already hold this path as an empty file
            empty_id = repo.cid_of_bytes(b"")
            empty_in_commit = set(p.decode("utf-8", "replace") for p, c in repo.tree_of(new["id"]) if c == empty_id)
            cand = [n for n in existing if os.path.getsize(os.path.join(r, n)) > 0 and n not in edited and n not in empty_in_commit and n not in repo.ever_empty]
            if not cand: continue
            n = rng.choice(cand); open(os.path.join(r, n), "wb").close(); repo.ever_empty.add(n)
        elif kind == "modify" and existing:
            n = rng.choice(existing); open(os.path.join(r, n), "wb").write(repo.fresh_content(rng))
        elif kind == "delete":
            cand = [n for n in existing if n in committed and n not in edited]
            tracked = set(p.decode("utf-8", "replace") for p in vlib.git(r, "ls-files", "-z").split(b"\0") if p)
            cand = [n for n in cand if n in tracked]
            if not cand: continue
            n = rng.choice(cand); os.remove(os.path.join(r, n))
        else:
            continue
        edited.add(n); trail.append(["novel_" + kind, n])
        out = eval_changes(ctx, repo, {}, "C07", list(trail))
        got = set(c["path"] for c in (out or {}).get("changes") or [])
        ok = got == edited
        ctx.count("reflag")
        ctx.record({"trail": list(trail), "what": "novel edits since update --pending must be exactly the reported changes"}, True, ok, ok, True,
                   sample={"edited": sorted(edited), "reported": sorted(got)}, detail={"edited": sorted(edited), "reported": sorted(got)})
        # and exactly their targets reappear (C01's mapping applied to these changes)
        rc, out2, err2, raw2 = vlib.monorail(r, "analyze")
        if rc == 0 and out2:
            impl = [1, [out2["targets"], []]]
            v = ctx.model.call("C01", G.cfg_val(CFG), sorted(got), False, impl)
            ctx.record({"trail": list(trail), "what": "targets of the re-flagged paths"}, True, bool(v[2]), bool(v[3]), False,
                       detail={"targets": out2["targets"], "model": [vlib.dstr(x) for x in v[1][0]]})
    do_update(ctx, repo, rng, trail, "C07", pending=True)
    rc, out, err, raw = vlib.monorail(repo.repo, "analyze", "--changes")
    ok = rc == 0 and out and out.get("changes") == [] and out.get("targets") == []
    ctx.record({"trail": list(trail), "what": "a further update --pending clears the re-flagged paths"}, True, ok, ok, True, detail={"analyze": out})

def run(ctx, scale, focus):
    n = {"C02": (20, 300), "C07": (14, 200), "C19": (12, 150)}[focus]
    cdir = os.path.join(vlib.VERIF, "corpus", focus)
    if os.path.isdir(cdir):
        for f in sorted(os.listdir(cdir)):
            scenario(ctx, json.load(open(os.path.join(cdir, f)))["scenario_seed"], focus)
    for i in range((n[0] if ctx.quick() else n[1]) * scale):
        scenario(ctx, ctx.rng.getrandbits(32), focus, force_huge=(focus == "C19" and i == 1))

def replay(ctx, case, focus):
    c = case.get("case", case)
    trail = c.get("trail") or c.get("case", {}).get("trail")
    sseed = trail[0][1]
    scenario(ctx, sseed, focus, force_huge=any(isinstance(t, list) and t and t[0] == "huge_untracked_set" for t in trail))
    return {"scenario_seed": sseed, "spec_failures": [d for _, d in ctx.spec_failures][:5], "disagreements": [d for _, d in ctx.tie_breaks][:5],
            "evaluations": ctx.evaluations}
