"""Scenarios around `monorail run`'s scheduler for C04 (order), C05 (coverage), C06 (failure handling),
C16 (concurrency inside a group).  Children are vhelper processes with scripted run times and exit codes;
their own monotonic timestamps are the observations."""
import json, os, random, shutil
import vlib, runscen, gen_config as G

CMDS = ["build", "test", "lint"]
# sequence names deliberately not in alphabetical order of their position in typical invocations
SEQS = {"zz_prep": ["lint"], "main": ["build"], "aa_post": ["test"]}
STATUS = {"success": 0, "error": 1, "undefined": 2, "not_executable": 3, "skipped": 4}

def gen_dag_config(rng, n=None):
    if n is None and rng.random() < 0.3:
        # layered shape with shared dependencies and a tail beneath them: app -> {liba, libb} -> core -> base (+ extras)
        w = rng.randint(2, 3)
        targets = [{"path": "app", "uses": ["lib%d" % i for i in range(w)]}] + \
                  [{"path": "lib%d" % i, "uses": ["core"] + (["lib%d" % (i - 1)] if i and rng.random() < 0.3 else [])} for i in range(w)] + \
                  [{"path": "core", "uses": ["base"]}, {"path": "base"}]
        if rng.random() < 0.5: targets.append({"path": "tool"})
        if rng.random() < 0.5: targets.append({"path": "base/gen", "uses": []})
        rng.shuffle(targets)
        return {"targets": targets, "sequences": SEQS}
    n = n or rng.randint(2, 7)
    names = []
    for i in range(n):
        if names and rng.random() < 0.25:
            names.append(rng.choice(names) + "/sub%d" % i)          # nested: depends on its parent
        elif names and rng.random() < 0.2:
            names.append(rng.choice(names).split("/")[0] + "%d" % i)  # string-prefix sibling
        elif rng.random() < 0.1:
            # a long path (41..90 bytes) made mostly of 2-, 3- and 4-byte characters: wherever such a name is cut, padded or
            # measured in bytes, the cut falls inside a character
            names.append("wide/" + "".join(rng.choice(["\u00e9", "\u65e5", "\u672c", "\U0001F600", "\u00fc", "x"]) for _ in range(rng.randint(14, 26))) + "%d" % i)
        else:
            # mostly plain names; now and then an odd but legal one (non-ASCII, dots, upper case).  No blanks: -t/-c/-s values are
            # blank-delimited by design (clap value_delimiter), so such a target cannot be named on the command line
            names.append(("t%d" % i) if rng.random() < 0.8 else rng.choice(["ünï%d", "日本%d", "Dot.ted%d", "UPPER%d"]) % i)
    targets = []
    for i, p in enumerate(names):
        t = {"path": p}
        cands = [q for q in names[:i] if not q.startswith(p + "/") and not p.startswith(q + "/")]
        k = rng.choice([0, 0, 1, 1, 2]) if cands else 0
        if k: t["uses"] = [q if rng.random() < 0.6 else q + rng.choice(["/src", "/src/lib.rs", "/"]) for q in rng.sample(cands, min(k, len(cands)))]      # the dependency's directory, or a path inside it
        pref = [q for q in cands if p.startswith(q)]          # e.g. t12 uses t1, core-utils uses core
        if pref and rng.random() < 0.7: t["uses"] = sorted(set(t.get("uses", []) + [rng.choice(pref)]))
        if rng.random() < 0.3: t["commands"] = {"path": rng.choice([p + "/scripts", "tools/cmd_" + p.replace("/", "_")])}     # commands kept outside the default directory
        targets.append(t)
    rng.shuffle(targets)
    return {"targets": targets, "sequences": SEQS}

def depth_map(groups):
    return {t: gi for gi, g in enumerate(groups) for t in g}

def run_case(ctx, rng, focus, forced=None):
    cfg = forced["cfg"] if forced else gen_dag_config(rng)
    paths = [t["path"] for t in cfg["targets"]]
    # invocation
    use_seq = rng.random() < (0.6 if focus == "C04" else 0.3)
    seqs = rng.sample(list(SEQS), rng.randint(1, 3)) if use_seq else []
    cmds = rng.sample(CMDS, rng.randint(0 if use_seq else 1, 2))
    expected_cmds = sum((cfg["sequences"][s] for s in seqs), []) + cmds
    if len(set(expected_cmds)) != len(expected_cmds):      # duplicate commands are outside the properties' wording
        cmds = [c for c in cmds if c not in sum((cfg["sequences"][s] for s in seqs), [])]
        expected_cmds = sum((cfg["sequences"][s] for s in seqs), []) + cmds
    if not expected_cmds: cmds = ["build"]; expected_cmds = ["build"]
    plain = bool(forced and forced.get("plain"))      # one command, everything defined and succeeding
    if plain: seqs, cmds, expected_cmds = [], ["build"], ["build"]
    if forced and forced.get("only_cmds"): seqs, cmds, expected_cmds = [], list(forced["only_cmds"]), list(forced["only_cmds"])
    if forced and forced.get("seqs_and_cmds"):
        seqs, cmds = list(forced["seqs_and_cmds"][0]), list(forced["seqs_and_cmds"][1])
        expected_cmds = sum((cfg["sequences"][q] for q in seqs), []) + cmds
    mode = rng.choice(["all", "changed", "explicit", "deps", "deps"] if focus != "C05" else ["all", "changed", "explicit", "deps", "deps", "deps"])
    if forced: mode = forced["mode"]
    fou = rng.random() < 0.4
    if forced and "fou" in forced: fou = forced["fou"]
    kinds = {}
    for c in CMDS:
        for p in paths:
            r = rng.random()
            kinds[(c, p)] = "exec" if plain else "undef" if r < 0.1 else "noexec" if r < 0.13 else "noexec_link" if r < 0.16 else "noexec_format" if r < 0.18 else "noexec_interp" if r < 0.2 else "exec"
    if forced and forced.get("all_exec"):
        for k_ in kinds: kinds[k_] = "exec"          # a directed case: nothing else in the run is undefined or unexecutable
    if forced and forced.get("kinds"):
        for k, v in forced["kinds"].items(): kinds[tuple(k.split("|", 1))] = v
    rr = runscen.RunRepo(ctx, cfg, kinds=kinds, commands=CMDS)
    try:
        args = []
        if seqs: args += ["-s"] + seqs
        if cmds: args += ["-c"] + cmds
        named = None
        if mode in ("explicit", "deps"):
            named = forced["named"] if forced else rng.sample(paths, rng.randint(1, min(3, len(paths))))
            args += ["-t"] + named
            if mode == "deps": args.append("--deps")
        if fou: args.append("--fail-on-undefined")
        changed = None
        range_opts = []
        if mode == "changed":
            rc, out, err, raw = vlib.monorail(rr.repo, "checkpoint", "update")
            if rng.random() < 0.4 or (forced or {}).get("interval"):
                # an explicit change interval (--begin / --end) given to run and to analyze alike: two more commits, each touching some targets
                revs = [vlib.git(rr.repo, "rev-parse", "HEAD").decode().strip()]
                for ci in range(2):
                    for p in rng.sample(paths, rng.randint(1, len(paths))):
                        open(os.path.join(rr.repo, p, "commit%d_%d.txt" % (ci, rng.randrange(1000))), "w").write("x")
                    vlib.git(rr.repo, "add", "-A"); vlib.git(rr.repo, "commit", "-q", "-m", "c%d" % ci)
                    revs.append(vlib.git(rr.repo, "rev-parse", "HEAD").decode().strip())
                range_opts = rng.choice([["--begin", revs[0], "--end", revs[1]], ["--begin", revs[1]], ["--end", revs[1]], ["--begin", revs[1], "--end", revs[2]]])
                args += range_opts; ctx.count("run_with_change_interval")
            for p in rng.sample(paths, rng.randint(0, len(paths))):
                open(os.path.join(rr.repo, p, "new_%d.txt" % rng.randrange(1000)), "w").write("x")
        # what analyze says right now (member order inside groups, selected targets)
        rc, an, err, raw = vlib.monorail(rr.repo, "analyze", "--target-groups", *range_opts)
        if rc != 0 or not an:
            ctx.count("analyze_rejected"); return
        if mode in ("all", "changed"):
            sel_groups = an["target_groups"]; selected = an["targets"]
        elif mode == "deps":
            # the expected closure and layering come from the MODEL (adj_of + api_groups), not from the implementation
            r = ctx.harness.call(fn="index_groups", cfg=G.cfg_json(cfg), mk=paths, visible=named)
            import graphs
            mv = ctx.model.call("index_groups", G.cfg_val(cfg), named, graphs.enc_groups_impl(r))
            if mv[1][0] != 1: ctx.count("deps_rejected"); return
            sel_groups = [[vlib.dstr(x) for x in g] for g in mv[1][1]]; selected = sorted(t for g in sel_groups for t in g)
        else:
            sel_groups = None; selected = sorted(named)
        depth = depth_map(sel_groups) if sel_groups else {t: 0 for t in selected}
        maxd = max(depth.values()) if depth else 0
        # script: run times and exit codes
        timing = rng.choice(["deps_slower", "deps_slower", "random", "zero"])
        if forced and forced.get("timing"): timing = forced["timing"]
        script = {"*": {}}
        fail_at = set()
        if forced and "fail_at" in forced:
            fail_at = set(tuple(x) for x in forced["fail_at"])
        elif rng.random() < (0.75 if focus == "C06" else 0.35) and not plain:
            for _ in range(rng.choice([1, 1, 2])):
                fail_at.add((rng.choice(expected_cmds), rng.choice(selected) if selected else None))
        codes = {}
        for c in expected_cmds:
            for t in selected:
                ms = {"deps_slower": 25 * (maxd - depth.get(t, 0)) + rng.randint(0, 15), "random": rng.randint(0, 90), "zero": 0}[timing]
                ins = {"sleep_ms": ms}
                if forced and "%s|%s" % (c, t) in forced.get("sleep_ms", {}): ins["sleep_ms"] = forced["sleep_ms"]["%s|%s" % (c, t)]
                if (c, t) in fail_at:
                    if focus == "C06" and rng.random() < 0.3:
                        # the executable does not exit at all: it is killed by a signal (no exit code; 256+signal in the model)
                        ins["signal"] = rng.choice([9, 15, 6])
                    else: ins["exit"] = rng.randint(1, 255)
                codes[(c, t)] = 256 + ins["signal"] if "signal" in ins else ins.get("exit", 0)
                script["%s|%s" % (c, t)] = ins
        if focus == "C06" and fail_at and sel_groups and rng.random() < 0.5:
            # a sibling of the failing task that closes its output early and succeeds later: it cannot be cancelled
            # through its log readers, so its success is processed AFTER the failure
            for (fc, ft) in list(fail_at):
                grp = next((g for g in sel_groups if ft in g), [])
                sibs = [t for t in grp if t != ft and (fc, t) not in fail_at and kinds.get((fc, t), "exec") == "exec"]
                if sibs and ("%s|%s" % (fc, ft)) in script:
                    sb = rng.choice(sibs)
                    script["%s|%s" % (fc, ft)]["sleep_ms"] = 0
                    script["%s|%s" % (fc, sb)] = {"sleep_ms": 400, "detach_output": True}
        if focus == "C04" and selected and rng.random() < 0.4 and not plain:
            # daemon-style executables: close both output pipes at once and keep running for a second - "has exited" is
            # about the process, not about its pipes, so nothing at a later position may start before they are gone
            for _ in range(rng.choice([1, 2])):
                k = "%s|%s" % (rng.choice(expected_cmds), rng.choice(selected))
                if k in script and "exit" not in script[k]:
                    script[k] = {"sleep_ms": rng.choice([700, 900, 1200]), "detach_output": True}
            ctx.count("detached_long_runner")
        if focus in ("C05", "C06") and selected and rng.random() < 0.4:
            # what a child prints is no business of the scheduler: bytes that are not UTF-8 (Latin-1 text, binary), a NUL, no final newline
            for _ in range(rng.choice([1, 2])):
                k = "%s|%s" % (rng.choice(expected_cmds), rng.choice(selected))
                if k in script and "chunks" not in script[k]:
                    script[k]["chunks"] = [[1, rng.choice([b"caf\xe9 ok\n", b"\xff\xfe binary \x00 bytes\n", b"\xc3\x28 broken utf-8"]).hex(), 0], [2, b"warn: \xa4 sign".hex(), 0]]
            ctx.count("non_utf8_output")
        if any(isinstance(v, dict) and "signal" in v for v in script.values()): ctx.count("failure_by_signal")
        eff_kinds, flip = kinds, None
        if focus == "C06" and len(expected_cmds) >= 2 and selected and (rng.random() < 0.35 or (forced or {}).get("flip")):
            # the execute permission of a command file changes DURING the run: a task of the first command flips the x bit of a file
            # that the last command needs.  What counts is the state when that task is due, not when the plan was made.
            c1, c2 = expected_cmds[0], expected_cmds[-1]
            actors = [t for t in selected if kinds.get((c1, t), "exec") == "exec" and (c1, t) not in fail_at]
            victims = [t for t in selected if kinds.get((c2, t), "exec") in ("exec", "noexec")]
            if actors and victims:
                a, vt = rng.choice(actors), rng.choice(victims)
                tcfg = next(t for t in cfg["targets"] if t["path"] == vt)
                cdir = os.path.join(rr.repo, tcfg.get("commands", {}).get("path") or os.path.join(vt, "monorail", "cmd"))
                vf = os.path.join(cdir, c2)
                # both directions equally often: the bit is there at planning time and gone when the task is due, or the other way round
                was = (forced or {}).get("flip") or rng.choice(["exec", "noexec"])
                kinds = dict(kinds); kinds[(c2, vt)] = was; eff_kinds = kinds
                if os.path.lexists(vf): os.remove(vf)
                shutil.copy(vlib.BIN_VHELPER, vf); os.chmod(vf, 0o755 if was == "exec" else 0o644)      # a regular file: its own mode bits
                script["%s|%s" % (c1, a)]["chmod"] = [[vf, 0o644 if was == "exec" else 0o755]]
                flip = (c1, a, c2, vt, "noexec" if was == "exec" else "exec")
                ctx.count("x_bit_%s_during_run" % ("removed" if was == "exec" else "added"))
        rr.script = script; rr.write_script()
        rc, out, err, raw = rr.run(*args)
        traces = rr.traces()
        if flip and any(tr["command"] == flip[0] and tr["target"] == flip[1] for tr in traces):      # the flipping task did run
            eff_kinds = dict(kinds); eff_kinds[(flip[2], flip[3])] = flip[4]
        case = {"cfg": cfg, "args": args, "kinds": {"%s|%s" % k: v for k, v in kinds.items() if v != "exec"}, "script": script, "mode": mode}
        if forced: case["forced"] = forced
        evaluate(ctx, focus, case, cfg, rr, rc, out, err, traces, expected_cmds, selected, sel_groups, eff_kinds, codes, fou, mode, timing)
    finally:
        rr.close()

def evaluate(ctx, focus, case, cfg, rr, rc, out, err, traces, expected_cmds, selected, sel_groups, kinds, codes, fou, mode, timing):
    ctx.count("mode_" + mode); ctx.count("timing_" + timing)
    if out is None or "results" not in out:
        # an internal error: never allowed when the invocation itself is valid
        ctx.record(case, True, False, False, True, detail={"what": "run ended with an internal error instead of a result", "rc": rc, "err": err})
        return
    res = runscen.result_statuses(out)
    # ---- member order inside each group: the order analyze/index reports (same code path), restricted to the doc's members
    order_in = {}
    if sel_groups:
        for g in sel_groups:
            for i, t in enumerate(g): order_in[t] = i
    plan, task_of, impl_res = [], {}, []
    for ci, (cmd, groups) in enumerate(res):
        cp = []
        for gi, g in enumerate(groups):
            members = sorted(g.keys(), key=lambda t: (order_in.get(t, 0), t))
            defs = []
            for ki, t in enumerate(members):
                defs.append({"exec": 0, "undef": 1}.get(kinds.get((cmd, t), "exec"), 2))
                task_of[(cmd, t)] = (ci, gi, ki)
                st, code = g[t]
                impl_res.append([[ci, gi, ki], [STATUS.get(st, 9), [] if code is None else [code]]])
            cp.append(defs)
        plan.append(cp)
    started = {}
    for tr in traces:
        started.setdefault((tr["command"], tr["target"]), []).append(tr)
    # ---- choice list reconstructed from the observation
    choices = []
    for ci, (cmd, groups) in enumerate(res):
        for gi, g in enumerate(groups):
            exited = [(t, started[(cmd, t)][0]) for t in g if (cmd, t) in started and started[(cmd, t)][0].get("end_ns")]
            exited.sort(key=lambda x: x[1]["end_ns"])
            with_code = [t for t, _ in exited if g[t][0] == "success" or (g[t][0] == "error" and (g[t][1] is not None or codes.get((cmd, t), 0) >= 256))]
            for t in with_code: choices.append([1, list(task_of[(cmd, t)])])
            for t in [t for t in with_code if g[t][0] == "success"]: choices.append([2, list(task_of[(cmd, t)])])
            for t in [t for t in with_code if g[t][0] == "error"]: choices.append([2, list(task_of[(cmd, t)])])
            for t in g:
                if g[t][0] == "error" and g[t][1] is None and t not in with_code: choices.append([3, list(task_of[(cmd, t)])])
    code_list = [[list(task_of[k]), v] for k, v in codes.items() if k in task_of]
    v = ctx.model.call("sched", plan, fou, code_list, choices, impl_res, bool(out.get("failed")))
    agree = bool(v[2])
    model_exit = v[1][3] if v[1] else None
    # ---- specification, evaluated on what the implementation did
    problems = []
    def pos(cmd, t): return task_of[(cmd, t)][:2]
    flat = [(cmd, t, g[t]) for cmd, groups in res for g in groups for t in g]
    if focus == "C04":
        if [c for c, _ in res] != expected_cmds: problems.append({"commands_order": [c for c, _ in res], "expected": expected_cmds})
        recs = [(pos(tr["command"], tr["target"]), tr) for tr in traces if (tr["command"], tr["target"]) in task_of]
        for p1, a in recs:
            for p2, b in recs:
                if p1 < p2 and not (a.get("end_ns") and a["end_ns"] < b["start_ns"]):
                    problems.append({"started_before_earlier_position_exited": [b["command"], b["target"]], "earlier": [a["command"], a["target"]]})
        # direct dependencies inside the run: the edges come from the MODEL (Model.Index.adj_of), not from the implementation
        r = ctx.harness.call(fn="index_edges", cfg=G.cfg_json(cfg), mk=[t["path"] for t in cfg["targets"]])
        import props.c10 as c10
        mv = ctx.model.call("C10", G.cfg_val(cfg), c10.enc_impl(r))
        if mv[1][0] == 1 and mode != "explicit":
            labels = [vlib.dstr(x) for x in mv[1][1][0]]; adj = mv[1][1][1]
            for cmd, _ in res:
                for i, row in enumerate(adj):
                    for j in row:
                        a, b = started.get((cmd, labels[i])), started.get((cmd, labels[j]))
                        if a and b and not (b[0].get("end_ns") and b[0]["end_ns"] < a[0]["start_ns"]):
                            problems.append({"dependent_started_before_dependency_exited": [cmd, labels[i], labels[j]]})
    if focus == "C05":
        want = sorted((c, t) for c in expected_cmds for t in selected)
        got = sorted((c, t) for c, t, _ in flat)
        if want != got: problems.append({"planned_pairs": got[:20], "expected": want[:20]})
        if mode in ("all", "changed", "deps") and sel_groups is not None:
            for cmd, groups in res:
                if [sorted(g.keys()) for g in groups] != [sorted(g) for g in sel_groups]:
                    problems.append({"groups_differ_from_analyze": [sorted(g.keys()) for g in groups], "analyze": sel_groups}); break
        if mode == "explicit":
            for cmd, groups in res:
                if any(len(g) != 1 for g in groups): problems.append({"explicit_targets_not_one_at_a_time": [sorted(g.keys()) for g in groups]})
        failed_seen = False
        for c, t, (st, code) in flat:
            n = len(started.get((c, t), []))
            k = kinds.get((c, t), "exec")
            if n > 1: problems.append({"started_more_than_once": [c, t, n]})
            if k == "undef" and n != 0: problems.append({"undefined_started": [c, t]})
            if k == "exec" and st != "skipped" and n != 1: problems.append({"defined_not_started": [c, t, st, n]})
            if k.startswith("noexec") and n != 0: problems.append({"not_executable_started": [c, t, k]})
            if st == "skipped" and n != 0: problems.append({"skipped_started": [c, t]})
        extra = [k for k in started if k not in task_of]
        if extra: problems.append({"started_outside_plan": extra[:5]})
    if focus == "C06":
        any_bad = False
        for c, t, (st, code) in flat:
            trs = started.get((c, t), [])
            if st == "success" and not (len(trs) == 1 and trs[0].get("exit") == 0 and code == 0): problems.append({"success_untrue": [c, t, code, [x.get("exit") for x in trs]]})
            if st == "error" and code is not None and not (len(trs) == 1 and trs[0].get("exit") == code): problems.append({"error_code_untrue": [c, t, code, [x.get("exit") for x in trs]]})
            if any(x.get("signal") for x in trs) and not (st == "error" and code is None): problems.append({"killed_by_signal_but_reported": [c, t, st, code]})
            if st in ("undefined", "not_executable", "skipped") and trs: problems.append({"no_process_status_but_started": [c, t, st]})
            if st not in STATUS: problems.append({"unexpected_status": [c, t, st]})
            if (st == "error") or st == "not_executable" or (st == "undefined" and fou): any_bad = True
        # an `error` without a code for a process that exited 0 by itself is a cancelled sibling: somebody else in its group must really have failed
        for ci_, (cmd_, groups_) in enumerate(res):
            for g_ in groups_:
                def really_failed(t_):
                    st_, code_ = g_[t_]; trs_ = started.get((cmd_, t_), [])
                    return st_ == "not_executable" or (st_ == "undefined" and fou) or any(x.get("exit") not in (0, None) or x.get("signal") for x in trs_)
                for t_ in g_:
                    st_, code_ = g_[t_]; trs_ = started.get((cmd_, t_), [])
                    if st_ == "error" and code_ is None and trs_ and all(x.get("exit") == 0 and not x.get("signal") for x in trs_) and not any(really_failed(u_) for u_ in g_ if u_ != t_):
                        problems.append({"error_reported_for_a_process_that_exited_0_and_nothing_else_failed": [cmd_, t_]})
        exited_bad = any(tr.get("exit") not in (0, None) or tr.get("signal") for trs in started.values() for tr in trs)
        if bool(out.get("failed")) != (any_bad or exited_bad): problems.append({"failed_flag": out.get("failed"), "should_be": any_bad or exited_bad})
        if rc != (1 if out.get("failed") else 0): problems.append({"exit_status": rc, "failed": out.get("failed")})
        # nothing from a later group / command starts after the first failing position; those are skipped
        first_bad = None
        for c, t, (st, code) in flat:
            if st == "error" or st == "not_executable" or (st == "undefined" and fou):
                p = pos(c, t); first_bad = p if first_bad is None or p < first_bad else first_bad
        if first_bad is not None:
            for c, t, (st, code) in flat:
                if pos(c, t) > first_bad and (st != "skipped" or started.get((c, t))):
                    problems.append({"after_failure_not_skipped": [c, t, st]})
    ok = not problems
    nontriv = len(flat) >= 3 and (len(res) >= 2 or any(len(g) >= 2 for _, gs in res for g in gs))
    if focus == "C06": nontriv = nontriv and bool(out.get("failed"))
    ctx.record(case, True, agree, ok, nontriv,
               sample={"args": case["args"], "targets": [t["path"] for t in cfg["targets"]], "statuses": [[c, t, s[0]] for c, t, s in flat][:12], "failed": out.get("failed"), "rc": rc} if nontriv else None,
               detail={"problems": problems[:6], "model_agrees": agree, "model": v[1], "impl_results": impl_res, "choices": choices, "rc": rc, "failed": out.get("failed")})

def forced_delay_case(ctx, rng, point, ms, n_targets):
    """C06: delay the run's own bookkeeping at a guarded point (verif::point) - the outcome must not change."""
    cfg = {"targets": [{"path": "g%d" % i} for i in range(n_targets)]}
    rr = runscen.RunRepo(ctx, cfg, commands=["build"])
    try:
        fail = rng.random() < 0.4
        rr.script = {"*": {"sleep_ms": rng.choice([0, 5, 20])}}
        if fail: rr.script["build|g%d" % rng.randrange(n_targets)] = {"exit": rng.randint(1, 255)}
        rr.write_script()
        rc, out, err, raw = rr.run("-c", "build", env={"MONORAIL_VERIF_POINTS": "%s=sleep:%d" % (point, ms)}, timeout=180)
        case = {"forced_delay": point, "ms": ms, "targets": n_targets, "script": rr.script}
        ctx.count("forced_" + point)
        if out is None or "results" not in out:
            ctx.record(case, True, False, False, True, detail={"what": "run ended with an internal error instead of a result", "rc": rc, "err": err}); return
        res = runscen.result_statuses(out)
        bad = [t for _, gs in res for g in gs for t, (st, code) in g.items() if st not in ("success", "error", "skipped")]
        exp_failed = fail
        ok = (bool(out.get("failed")) == exp_failed) and rc == (1 if exp_failed else 0) and not bad
        ctx.record(case, True, ok, ok, True, sample={"point": point, "ms": ms, "targets": n_targets, "rc": rc, "failed": out.get("failed")},
                   detail={"rc": rc, "failed": out.get("failed"), "expected_failed": exp_failed, "statuses": res})
    finally:
        rr.close()

def run(ctx, scale, focus):
    n = {"C04": (20, 250), "C05": (36, 400), "C06": (24, 300)}[focus]
    cdir = os.path.join(vlib.VERIF, "corpus", focus)
    if os.path.isdir(cdir):
        for f in sorted(os.listdir(cdir)):
            run_case(ctx, random.Random(json.load(open(os.path.join(cdir, f)))["case_seed"]), focus)
    if focus == "C04":
        # an executable that simply takes long (tens of seconds, far beyond any internal interval): what depends on it still waits
        long_cfg = {"targets": [{"path": "slowlib"}, {"path": "app", "uses": ["slowlib"]}, {"path": "tool"}], "sequences": SEQS}
        for ms in ([21500] if ctx.quick() else [21500, 31000, 61000]):
            run_case(ctx, random.Random(ctx.rng.getrandbits(32)), focus, forced={"cfg": long_cfg, "mode": "all", "named": [], "sleep_ms": {"build|slowlib": ms, "lint|slowlib": 0, "test|slowlib": 0}, "plain": True})
    if focus == "C04":
        # a chain whose target paths are long and multi-byte throughout (every byte length from 41 up, so that any fixed byte offset
        # falls inside a character for some of them): the order must hold for them as for any other name
        for rep in range(1 if ctx.quick() else 6):
            r0 = random.Random(ctx.rng.getrandbits(32))
            def wname(i): return "wide/" + "".join(r0.choice(["\u00e9", "\u65e5", "\u672c", "\U0001F600", "\u00fc"]) for _ in range(r0.randint(12, 22))) + "x" * (i % 4) + "%d" % i
            nm = [wname(i) for i in range(5)]
            wcfg = {"targets": [{"path": nm[0]}] + [{"path": nm[i], "uses": [nm[i - 1]] + ([nm[0]] if i > 1 and r0.random() < 0.5 else [])} for i in range(1, 4)] + [{"path": nm[4], "uses": [nm[1]]}], "sequences": SEQS}
            r0.shuffle(wcfg["targets"])
            cs = r0.getrandbits(32)
            run_case(ctx, random.Random(cs), focus, forced={"case_seed": cs, "cfg": wcfg, "mode": "all", "named": [], "timing": "deps_slower", "plain": rep % 2 == 0})
            ctx.count("long_multibyte_chain")
    if focus == "C06":
        for point, ms in (("compressor_between_shutdowns", 40), ("compressor_before_join", 60), ("compressor_between_shutdowns", 5)) * (1 if ctx.quick() else 8):
            forced_delay_case(ctx, ctx.rng, point, ms, ctx.rng.choice([3, 4, 5]))
    if focus == "C06":
        # wide groups in which entries that start no process (undefined, not executable) sit BEFORE entries that do: every status must
        # still be reported under the name of the target it belongs to (the failing one, the succeeding ones, the ones never started)
        for rep in range(3 if ctx.quick() else 24):
            r0 = random.Random(ctx.rng.getrandbits(32))
            nw = r0.randint(4, 7)
            cfgw = {"targets": [{"path": "w%d" % i} for i in range(nw)] + ([{"path": "top", "uses": ["w0", "w%d" % (nw - 1)]}] if r0.random() < 0.5 else []), "sequences": SEQS}
            holes = r0.sample(range(nw - 1), r0.randint(1, 2))
            kindsw = {"build|w%d" % i: r0.choice(["undef", "undef", "undef"]) for i in holes}
            later = [i for i in range(nw) if i > min(holes) and i not in holes]
            fa = [["build", "w%d" % r0.choice(later)]] if later and r0.random() < 0.6 else []
            cs = r0.getrandbits(32)
            run_case(ctx, random.Random(cs), focus, forced={"case_seed": cs, "cfg": cfgw, "mode": "all", "named": [], "kinds": kindsw, "fou": False, "fail_at": fa, "only_cmds": ["build"] if r0.random() < 0.5 else ["build", "test"]})
            ctx.count("undefined_before_defined_in_group")
    if focus == "C06":
        # the execute bit of a command file changes while the run is under way, in each direction
        for rep, fl in enumerate(["exec", "noexec"] * (1 if ctx.quick() else 6)):
            r0 = random.Random(ctx.rng.getrandbits(32)); cs = r0.getrandbits(32)
            fcfg = {"targets": [{"path": "f%d" % i} for i in range(3)], "sequences": SEQS}
            run_case(ctx, random.Random(cs), focus, forced={"case_seed": cs, "cfg": fcfg, "mode": "all", "named": [], "fou": False, "fail_at": [], "only_cmds": ["build", "test"], "flip": fl, "all_exec": True})
    if focus == "C05":
        # --deps from a target whose name merely extends its dependency's name, or that reaches it through a sub-path
        pcfg = {"targets": [{"path": "core"}, {"path": "core-tests", "uses": ["core/src"]}, {"path": "web", "uses": ["core-tests"]}, {"path": "app"}, {"path": "app2", "uses": ["app"]},
                            {"path": "api"}, {"path": "api-gen", "uses": ["api/schema.json"]}], "sequences": SEQS}
        for nm in (["core-tests", "web", "app2", "api-gen"] if not ctx.quick() else ["core-tests", "app2"]):
            r0 = random.Random(ctx.rng.getrandbits(32)); cs = r0.getrandbits(32)
            run_case(ctx, random.Random(cs), focus, forced={"case_seed": cs, "cfg": pcfg, "mode": "deps", "named": [nm], "all_exec": True})
            ctx.count("deps_from_prefix_named_target")
    if focus == "C06":
        # a failing command of a target whose path is long and multi-byte throughout: it fails the run like any other
        for rep in range(2 if ctx.quick() else 8):
            r0 = random.Random(ctx.rng.getrandbits(32)); cs = r0.getrandbits(32)
            def wname(i): return "wide/" + "".join(r0.choice(["\u00e9", "\u65e5", "\u672c", "\U0001F600", "\u00fc"]) for _ in range(r0.randint(12, 22))) + "x" * (i % 4) + "%d" % i
            nm = [wname(i) for i in range(4)]
            wcfg = {"targets": [{"path": nm[0]}, {"path": nm[1], "uses": [nm[0]]}, {"path": nm[2], "uses": [nm[1]]}, {"path": nm[3]}], "sequences": SEQS}
            run_case(ctx, random.Random(cs), focus, forced={"case_seed": cs, "cfg": wcfg, "mode": "all", "named": [], "fou": False, "all_exec": True, "only_cmds": ["build", "test"], "fail_at": [["build", nm[rep % 2]]]})
            ctx.count("failure_on_long_multibyte_target")
    if focus == "C05":
        # run with an explicit change interval: it must execute what analyze reports for the same --begin / --end
        for rep in range(3 if ctx.quick() else 12):
            r0 = random.Random(ctx.rng.getrandbits(32)); cs = r0.getrandbits(32)
            run_case(ctx, random.Random(cs), focus, forced={"case_seed": cs, "cfg": gen_dag_config(r0, n=r0.randint(3, 5)), "mode": "changed", "named": [], "interval": True})
    if focus == "C05":
        # sequences and commands in one invocation: the expanded sequences come first, then the commands, all of them
        for rep in range(2 if ctx.quick() else 10):
            r0 = random.Random(ctx.rng.getrandbits(32)); cs = r0.getrandbits(32)
            sq = r0.sample(list(SEQS), r0.randint(1, 2))
            cm = [c for c in CMDS if c not in sum((SEQS[q] for q in sq), [])][:r0.randint(1, 2)]
            scfg = gen_dag_config(r0, n=r0.randint(2, 4))
            run_case(ctx, random.Random(cs), focus, forced={"case_seed": cs, "cfg": scfg, "mode": "all", "named": [], "seqs_and_cmds": [sq, cm]})
            ctx.count("sequences_and_commands_together")
    if focus == "C04":
        # a dependent whose name merely extends its dependency's name (core-utils uses core, t12 uses t1), the dependency slower
        for rep in range(2 if ctx.quick() else 10):
            r0 = random.Random(ctx.rng.getrandbits(32)); cs = r0.getrandbits(32)
            pcfg = {"targets": [{"path": "core"}, {"path": "core-utils", "uses": ["core"]}, {"path": "t1"}, {"path": "t12", "uses": ["t1/src"]}, {"path": "t1/inner"},
                                {"path": "libs"}, {"path": "libs/core"}, {"path": "svc", "uses": ["libs/core/src"]},      # a used path inside a target nested in another one
                                {"path": "d\u00e9p"}, {"path": "app", "uses": ["d\u00e9p/src"]}, {"path": "\u65e5\u672c/lib"}, {"path": "tool", "uses": ["\u65e5\u672c/lib/x.rs"]}], "sequences": SEQS}
            r0.shuffle(pcfg["targets"])
            run_case(ctx, random.Random(cs), focus, forced={"case_seed": cs, "cfg": pcfg, "mode": "all", "named": [], "timing": "deps_slower", "plain": True})
            ctx.count("prefix_named_dependents")
    if focus == "C05":
        # every single named target with --deps on layered graphs with shared dependencies and a tail beneath them
        for rep in range(2 if ctx.quick() else 12):
            r0 = random.Random(ctx.rng.getrandbits(32))
            shape = None
            while shape is None or "app" not in [t["path"] for t in shape["targets"]]: shape = gen_dag_config(r0)
            for t in shape["targets"]:
                run_case(ctx, random.Random(r0.getrandbits(32)), focus, forced={"cfg": shape, "mode": "deps", "named": [t["path"]]})
    for _ in range((n[0] if ctx.quick() else n[1]) * scale):
        cs = ctx.rng.getrandbits(32)
        before = len(ctx.spec_failures) + len(ctx.tie_breaks)
        run_case(ctx, random.Random(cs), focus)
        for lst in (ctx.spec_failures, ctx.tie_breaks):
            for i in range(len(lst)):
                if isinstance(lst[i][0], dict) and "case_seed" not in lst[i][0]: lst[i][0]["case_seed"] = cs

def replay(ctx, case, focus):
    c = case.get("case", case)
    if "forced" in c: run_case(ctx, random.Random(c.get("case_seed", c["forced"].get("case_seed", ctx.seed))), focus, forced=c["forced"])
    elif "case_seed" in c: run_case(ctx, random.Random(c["case_seed"]), focus)
    return {"spec_failures": [d for _, d in ctx.spec_failures][:3], "disagreements": [d for _, d in ctx.tie_breaks][:3]}
