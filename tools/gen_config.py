"""Generators for monorail configurations and change sets (shared by C01 C03 C05 C09 C10 ...).
Everything is drawn from the rng passed in, so a seed reproduces a run exactly."""
import json

COMPS = ["a", "ab", "app", "app2", "app-web", "lib", "b", "core", "x", "src", "ü", "日本", " sp", "tr ", "é\u00a0"]   # odd but legal: non-ASCII, leading / trailing blanks
SUFFIX = ["2", "-web", "b", "_x", ".d"]
FILES = ["f.txt", "main.rs", "README.md", "x", "mod.rs"]

def rand_path(rng, maxdepth=3):
    return "/".join(rng.choice(COMPS) for _ in range(rng.randint(1, maxdepth)))

def gen_target_paths(rng, n):
    paths = []
    tries = 0
    while len(paths) < n and tries < 200:
        tries += 1
        r = rng.random()
        if paths and r < 0.35:      # nest under an existing target
            p = rng.choice(paths) + "/" + rand_path(rng, 2)
        elif paths and r < 0.6:     # sibling sharing a string prefix
            p = rng.choice(paths) + rng.choice(SUFFIX)
        elif paths and r < 0.7:     # parent directory of an existing target
            q = rng.choice(paths).split("/")
            p = "/".join(q[:rng.randint(1, len(q))])
        else:
            p = rand_path(rng, 3)
        if p not in paths and len(p.split("/")) <= 6:
            paths.append(p)
    return paths

def gen_uses_entry(rng, paths, own, earlier):
    r = rng.random()
    pool = earlier if (earlier and rng.random() < 0.8) else paths
    if r < 0.3 and pool:            # another target
        return rng.choice(pool)
    if r < 0.5 and pool:            # something inside another target
        return rng.choice(pool) + "/" + rng.choice(["src", "f.txt", "core/x"])
    if r < 0.6 and pool:            # a directory above a target
        q = rng.choice(pool).split("/")
        return "/".join(q[:max(1, len(q) - 1)])
    if r < 0.75 and pool:           # string-prefix sibling of a target (not a component prefix)
        return rng.choice(pool) + rng.choice(SUFFIX)
    if r < 0.85:                    # outside any target
        return "common/" + rng.choice(["log", "error", "util/x"])
    return rand_path(rng, 3)

def gen_ignore_entry(rng, paths, own, uses):
    r = rng.random()
    nested = [q for q in paths if q.startswith(own + "/")]
    if nested and rng.random() < 0.3:          # an ancestor ignoring something inside (or all of) a target nested under it
        d = rng.choice(nested)
        return d if rng.random() < 0.3 else d + "/" + rng.choice(FILES + ["src", "gen", "core/x"])
    if r < 0.35:
        return own + "/" + rng.choice(FILES)
    if r < 0.5:
        return own + "/" + rng.choice(["src", "core", "x/y"])
    if r < 0.7 and uses:
        u = rng.choice(uses)
        return u if rng.random() < 0.4 else u + "/" + rng.choice(FILES)
    if r < 0.8 and paths:
        return rng.choice(paths)
    if r < 0.9:
        return own + rng.choice(SUFFIX)
    return rand_path(rng, 3)

def gen_config(rng, nmax=7, acyclic_bias=True, with_ignores=True):
    n = rng.randint(1, nmax)
    paths = gen_target_paths(rng, n)
    order = list(paths); rng.shuffle(order)          # "earlier" relation used to keep most graphs acyclic
    targets = []
    for p in paths:
        earlier = [q for q in order[:order.index(p)] if not (p == q or p.startswith(q + "/") or q.startswith(p + "/"))] if acyclic_bias else []
        t = {"path": p}
        k = rng.choice([0, 0, 1, 1, 2, 3])
        if k:
            t["uses"] = [gen_uses_entry(rng, paths, p, earlier) for _ in range(k)]
        if with_ignores:
            k = rng.choice([0, 0, 0, 1, 1, 2])
            if k:
                t["ignores"] = [gen_ignore_entry(rng, paths, p, t.get("uses", [])) for _ in range(k)]
        targets.append(t)
    rng.shuffle(targets)                              # declaration order is arbitrary
    return {"targets": targets}

def gen_nested_interplay(rng):
    """Directed family: nesting x uses x ignores acting on the SAME changes - an ancestor ignores something inside a nested target
    that itself uses a path elsewhere; the change set hits both the ignored region and the used path (plus noise)."""
    root = rng.choice(COMPS); child = root + "/" + rng.choice(COMPS)
    lib = rng.choice([c for c in COMPS if c != root] or ["zlib"])
    if rng.random() < 0.4: lib = lib + "/" + rng.choice(COMPS)
    used = rng.choice([lib, lib + "/src", lib + "/f.txt", "common/util/x"])
    ign = rng.choice([child + "/gen", child + "/f.txt", child, child + "/core/x"])
    targets = [{"path": root, "ignores": [ign]}, {"path": child, "uses": [used]}, {"path": lib}]
    if rng.random() < 0.5:
        g = child + "/" + rng.choice(COMPS)
        t = {"path": g}
        if rng.random() < 0.5: t["uses"] = [used]
        if rng.random() < 0.5: targets[0]["ignores"].append(g + "/" + rng.choice(FILES))
        if rng.random() < 0.3: targets[1].setdefault("ignores", []).append(g)
        targets.append(t)
    if rng.random() < 0.4: targets[0].setdefault("uses", []).append(used)
    if rng.random() < 0.3: targets[1].setdefault("ignores", []).append(used if rng.random() < 0.5 else used + "/" + rng.choice(FILES))
    for _ in range(rng.randint(0, 2)):
        p = rand_path(rng, 2)
        if p not in [t["path"] for t in targets]: targets.append({"path": p, "uses": [rng.choice([child, root + "/x", used])]})
    rng.shuffle(targets)
    cfg = {"targets": targets}
    inside_ign = ign if rng.random() < 0.3 and ign != child else ign + "/" + rng.choice(FILES)
    hit_used = used if used.endswith(".txt") else used + "/" + rng.choice(FILES)
    core = [inside_ign, hit_used]
    extra = gen_changes(rng, cfg, rng.choice([0, 1, 3, 10, 60]))
    changes = core + extra
    if rng.random() < 0.7: rng.shuffle(changes)
    return cfg, changes

def gen_malformed_config(rng):
    cfg = gen_config(rng)
    t = rng.choice(cfg["targets"])
    kind = rng.choice(["trailing", "dot", "dup", "double", "leading", "useslash"])
    if kind == "trailing":
        # a directory written with a trailing slash, with something nested in it and something else using a path inside it
        base = t["path"]; t["path"] = base + "/"
        if rng.random() < 0.7 and base + "/sub" not in [x["path"] for x in cfg["targets"]]: cfg["targets"].append({"path": base + "/sub"})
        others = [x for x in cfg["targets"] if x is not t and not x["path"].startswith(base + "/")]
        if others and rng.random() < 0.7: rng.choice(others).setdefault("uses", []).append(rng.choice([base + "/" + rng.choice(FILES), base, base + "/"]))      # inside it, the directory itself without and with the slash
    elif kind == "dot": t["path"] = "./" + t["path"]
    elif kind == "dup": cfg["targets"].append({"path": t["path"]})
    elif kind == "double": t["path"] = t["path"].replace("/", "//", 1) if "/" in t["path"] else t["path"] + "//z"
    elif kind == "leading": t["path"] = "/" + t["path"]
    elif kind == "useslash": t.setdefault("uses", []).append(t["path"] + "/")
    return cfg, kind

def gen_changes(rng, cfg, n):
    paths = [t["path"] for t in cfg["targets"]]
    entries = [e for t in cfg["targets"] for e in t.get("uses", []) + t.get("ignores", [])]
    out = []
    for _ in range(n):
        r = rng.random()
        if r < 0.3 and paths:
            p = rng.choice(paths) + "/" + rng.choice(FILES)
        elif r < 0.4 and paths:
            p = rng.choice(paths) + "/" + rand_path(rng, 2) + "/" + rng.choice(FILES)
        elif r < 0.55 and entries:
            e = rng.choice(entries)
            p = e if rng.random() < 0.4 else e + "/" + rng.choice(FILES)
        elif r < 0.7 and paths:      # string-prefix neighbour
            p = rng.choice(paths) + rng.choice(SUFFIX) + ("/" + rng.choice(FILES) if rng.random() < 0.7 else "")
        elif r < 0.8 and paths:      # the target path itself / a parent directory file
            q = rng.choice(paths).split("/")
            p = "/".join(q[:rng.randint(1, len(q))]) if rng.random() < 0.5 else "/".join(q[:-1] + [rng.choice(FILES)])
        elif r < 0.9:
            p = "common/" + rng.choice(["log/a.rs", "error/b.rs", "util/x/c"])
        else:
            p = rand_path(rng, 4)
        out.append(p)
    return out

def cfg_val(cfg):
    """Wire form of a configuration: list of (path, uses, ignores)."""
    return [[t["path"], list(t.get("uses", [])), list(t.get("ignores", []))] for t in cfg["targets"]]

def cfg_json(cfg, extra=None):
    d = dict(cfg)
    if extra: d.update(extra)
    return json.dumps(d)

def all_small_configs(universe, max_targets, max_uses):
    """Exhaustive: every ordered choice of <= max_targets distinct target paths from `universe`,
    each with every subset of <= max_uses uses entries from `universe`."""
    import itertools
    uses_opts = [()]
    for k in range(1, max_uses + 1):
        uses_opts += list(itertools.combinations(universe, k))
    for n in range(1, max_targets + 1):
        for ps in itertools.permutations(universe, n):
            for us in itertools.product(uses_opts, repeat=n):
                yield {"targets": [dict(path=p, **({"uses": list(u)} if u else {})) for p, u in zip(ps, us)]}

def normalised(cfg, changes=()):
    """Inside the properties' quantifier: normalised relative paths (no '.', '..' components; the model treats
    them as ordinary names, the filesystem does not)."""
    ps = [t["path"] for t in cfg["targets"]] + [e for t in cfg["targets"] for e in t.get("uses", []) + t.get("ignores", [])] + list(changes or ())
    return all(c not in (".", "..") for p in ps for c in p.split("/"))
