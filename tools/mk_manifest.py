#!/usr/bin/env python3
"""Regenerates MANIFEST.json from the property modules that exist under tools/props."""
import json, os, sys, importlib, subprocess
sys.path.insert(0, os.path.dirname(os.path.abspath(__file__)))
V = os.path.dirname(os.path.dirname(os.path.abspath(__file__)))
props = [json.loads(l) for l in open(os.path.join(V, "properties.jsonl"))]
NA_REASON = {}
DESIGN_REF = {}
checks, na = [], []
hooks_commits = subprocess.run(["git", "-C", "/repo", "log", "--format=%h %s"], capture_output=True, text=True).stdout.splitlines()
hook_commits = [l.split()[0] for l in hooks_commits if l.split(" ", 1)[1].startswith("verif hooks")]
for p in props:
    pid = p["id"]
    try:
        mod = importlib.import_module("props." + pid.lower())
    except ModuleNotFoundError:
        na.append({"property_id": pid, "reason": NA_REASON.get(pid, "check not built yet (the planned model/theorem/tie is in DESIGN.md section 5); not claimed")})
        continue
    checks.append({
        "property_id": pid,
        "quick_cmd": "./check %s --tier quick" % pid,
        "thorough_cmd": "./check %s --tier thorough" % pid,
        "evidence_file": "evidence/%s.json" % pid,
        "replay_cmd_template": "./check %s --replay {path}" % pid,
        "engine": "coq-model-correspondence",
        "level_claimed": {"category": "proof", "text": mod.LEVEL_NOTE, "design_ref": "DESIGN.md section 5, " + pid},
        "level_note": "Trusted base: " + "; ".join(mod.TRUSTED),
        "technique": getattr(mod, "TECHNIQUE", "Coq 8.16 theorem about an executable Gallina model + differential correspondence (extracted model vs implementation) on generated inputs"),
    })
m = {
 "version": 1,
 "setup_cmd": "./setup.sh",
 "hooks": {"guard": "pnordahl_monorail_verif",
           "enable": "RUSTFLAGS=\"--cfg tokio_unstable --cfg pnordahl_monorail_verif\" cargo build --offline (harness/ has monorail as a path dependency on /repo; ./check rebuilds it and the monorail binary on every run)",
           "baseline_off_cmd": "cd /repo && cargo test --workspace --no-fail-fast --offline",
           "source_commits": hook_commits, "add_only": True},
 "engines": [{"name": "coq-model-correspondence", "path": "tools/check.py",
              "serves_properties": [c["property_id"] for c in checks],
              "kind_free_text": "Coq 8.16.1 development under coq/ (models, proofs, property statements), extracted to OCaml (ocaml/vmodel), compared with the implementation (Rust hooks through harness/, or the real binary) by tools/props/*.py"}],
 "checks": checks,
 "notes": "See DESIGN.md. known_findings.json lists genuine defects (all fixed so far). Every check rebuilds Coq (make), re-checks its theorems' assumptions, rebuilds /repo's working tree with hooks, and runs the correspondence.",
 "not_applicable": na,
}
json.dump(m, open(os.path.join(V, "MANIFEST.json"), "w"), indent=1)
print("checks:", [c["property_id"] for c in checks], "not claimed:", len(na))
