#!/bin/bash
# usage: seed_eval_alt.sh <id> [extra check ids...]  - like seed_eval.sh, but the checks run against the scratch worktree itself
# (VERIF_ALT / VERIF_REPO: own build cache, evidence and replays under .cache/alt-<id>), so /repo is never touched
id=$1; shift
out=/tmp/seed_$id.out
log=/tmp/seed_eval_$id.log
: > $log
echo "## confirm: tests pass with the change" | tee -a $log
(cd /tmp/seed_$id && cargo test --offline 2>&1 | grep -E "^test result" | head -1) | tee -a $log
echo "## demo with change (expect 1)" | tee -a $log
(timeout 900 bash $out/demo.sh /tmp/seed_$id >> $log 2>&1 < /dev/null; echo "demo_with_change rc=$?") | tee -a $log
echo "## demo without change (expect 0)" | tee -a $log
(timeout 900 bash $out/demo.sh /tmp/clean >> $log 2>&1 < /dev/null; echo "demo_clean rc=$?") | tee -a $log
echo "## checks against the worktree with the change (VERIF_ALT)" | tee -a $log
for c in $id "$@"; do
  (cd /verif && VERIF_ALT=seed VERIF_REPO=/tmp/seed_$id timeout 3000 ./check $c 2>&1 | grep -E "^VIOLATION|^property=|^ERROR|^NOTE" | head -6) | tee -a $log
done
