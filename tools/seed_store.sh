#!/bin/bash
# usage: seed_store.sh <id> <property> "<needs>" "<caught-by>"   - copy a confirmed seeded change into /verif/seeded/<id>/
id=$1; prop=$2; needs=$3; caught=$4; dest=${5:-$1}
d=/verif/seeded/$dest; mkdir -p $d
cp /tmp/seed_$id.out/patch.diff /tmp/seed_$id.out/demo.sh $d/ 2>/dev/null
cp /tmp/seed_$id.out/notes.md $d/notes.md 2>/dev/null
python3 - "$id" "$prop" "$needs" "$caught" "$dest" <<'PY'
import json,sys
id,prop,needs,caught,dest=sys.argv[1:6]
log=open('/tmp/seed_eval_%s.log'%id).read() if __import__('os').path.exists('/tmp/seed_eval_%s.log'%id) else ''
json.dump({"id":dest,"breaks_property":prop,"needs_to_manifest":needs,
 "confirmed":{"cargo_test_with_change":"74 passed" in log or "test result: ok" in log,"demo_with_change_rc":1 if "demo_with_change rc=1" in log else None,"demo_clean_rc":0 if "demo_clean rc=0" in log else None},
 "what_i_ran":"tools/seed_eval.sh %s: cargo test --offline in the scratch worktree with the change, demo.sh against the changed and an unchanged worktree, then `git -C /repo apply patch.diff`, ./check <ids>, `git -C /repo checkout -- .`"%id,
 "caught_by":caught,
 "check_output":[l for l in log.splitlines() if l.startswith(("VIOLATION","property="))]},open('/verif/seeded/%s/meta.json'%dest,'w'),indent=1)
PY
