"""C18 - configuration meaning depends only on its JSON value."""
import cfgscen
THEOREMS = [("Properties.C18", "C18_holds"), ("AsFound.C17", "C18_as_found_refuted")]
CORRESPONDENCE = "config show / analyze --target-groups / target show -g on re-serialisations of one JSON value == Model.CfgFile.loaded_value"
LEVEL_NOTE = ("Coq theorem C18_holds: the loader's result is a function of the JSON value the whole file denotes (same value => same loaded configuration; accepted iff it parses; "
              "a source-less configuration needs nothing else), with serde_json as the parse oracle. Tied to Config::new by loading each generated configuration in compact, pretty, "
              "key-shuffled and whitespace-padded (9 KB, 70 KB, 300 KB; leading, trailing, interior) serialisations and with 300 targets, and requiring identical output from three APIs.")
TRUSTED = ["Coq 8.16.1 kernel; no axioms", "serde_json as the oracle of which value a byte string denotes", "modelled, not verified: the Rust source"]
RULE = ("configurations of 3, 6 and 300 targets (thorough: more) x 16+ serialisations each (among them every string written with \\uXXXX escapes - values only, member names too - and every solidus as \\/; optional members such as out_dir, hosts, change_provider written out explicitly), read from the configuration file by config show / analyze / target show, and piped into `config generate` (also delivered in two writes 0.4 s apart); non-trivial = serialisation larger than 8 KiB or split delivery; distinct by (config, serialisation)")
def run(ctx, scale): cfgscen.run_c18(ctx, scale)
def replay(ctx, case):
    c = case.get("case", case)
    if c.get("generate"): cfgscen.c18_generate_case(ctx, ctx.rng, c.get("targets", 2))
    else: cfgscen.c18_case(ctx, ctx.rng, c.get("targets", 3))
    return {"spec_failures": [d for _, d in ctx.spec_failures][:3], "disagreements": [d for _, d in ctx.tie_breaks][:3]}
