"""C10 - the dependency relation is exactly what the configuration declares."""
import json, os, subprocess, re
import vlib, gen_config as G

THEOREMS = [("Properties.C10", "C10_holds"), ("AsFound.C10", "C10_as_found_refuted"), ("Harness.OracleProof", "spec_edges_iff")]
CORRESPONDENCE = "Index::new adjacency list (verif::index_edges, target render) == Model.Index.adj_of"
LEVEL_NOTE = ("Coq theorem C10_holds: for every well-formed configuration the model's adjacency list has an edge i->j exactly "
              "when target i depends on target j by whole path components, rows are duplicate-free, in range, and the dot rendering "
              "has one node line per target and one edge line per dependency. Tied to src/core/mod.rs by running Index::new "
              "(hook verif::index_edges and the CLI `target render`) and the extracted model on the same generated configurations.")
TRUSTED = ["Coq 8.16.1 kernel (coqc); no axioms (Print Assumptions: closed under the global context)",
           "extraction to OCaml via ExtrOcamlBasic only; ocaml/vmodel.ml driver; the edge oracle spec_edges of Harness/Glue.v is proved to be the statement's graph clauses applied to the implementation's answer (Harness/OracleProof.v spec_edges_iff)",
           "trie-rs common_prefix_search modelled as 'stored non-empty keys that are byte prefixes of the query'",
           "hooks src/verif.rs (index_edges) and the Python/Rust harness; serde_json parsing of the configuration",
           "modelled, not verified: the Rust source itself (Index::new second pass, Dag::set, render_dotfile)"]
RULE = ("random configurations (1-7 targets; nested, string-prefix siblings, uses naming targets/files in targets/dirs above targets/"
        "outside paths; shuffled declaration order) plus a malformed stream (model-vs-impl only) plus exhaustive small configs in the "
        "thorough tier; non-trivial = well-formed with at least one dependency edge and at least one non-edge between distinct targets; "
        "distinct = by configuration")

def impl_edges(ctx, cfg):
    r = ctx.harness.call(fn="index_edges", cfg=G.cfg_json(cfg), mk=[t["path"] for t in cfg["targets"]])
    return enc_impl(r)

def enc_impl(r):
    if "ok" in r:
        return [1, [r["ok"]["labels"], r["ok"]["adj"]]]
    if "panic" in r:
        return [2, 0]
    msg = r["err"].get("message", "")
    kind = 1 if (r["err"].get("type") == "graph" and "Cycle" in msg) else 2 if "Duplicate label" in msg else 3
    return [0, kind]

def eval_case(ctx, cfg, via="hook", impl=None):
    if impl is None:
        impl = impl_edges(ctx, cfg)
    v = ctx.model.call("C10", G.cfg_val(cfg), impl)
    in_scope, mv, agree, spec = bool(v[0]) and G.normalised(cfg), v[1], bool(v[2]), bool(v[3])
    nontriv = False
    if in_scope and impl[0] == 1:
        adj = impl[1][1]
        ne = sum(len(r) for r in adj); n = len(adj)
        nontriv = ne > 0 and ne < n * (n - 1)
    case = {"cfg": cfg, "via": via}
    detail = {"impl": impl, "model": mv, "in_scope": in_scope, "agree": agree, "spec_ok": spec}
    ctx.count("via_" + via); ctx.count("targets_%d" % len(cfg["targets"])); ctx.count("in_scope" if in_scope else "out_of_scope")
    ctx.record(case, in_scope, agree, spec, nontriv,
               sample={"cfg": cfg, "impl_adj": impl[1][1] if impl[0] == 1 else impl} if nontriv else None, detail=detail,
               # outside the quantifier an I/O error (e.g. an absolute target path that does not exist) is not modelled
               tie_relevant=in_scope or impl != [0, 3])
    return detail

def cli_render(ctx, cfg):
    """The real binary: `monorail target render`, then parse the dot file."""
    d = os.path.join(ctx.scratch, "cli%d" % ctx.evaluations); os.makedirs(d)
    for t in cfg["targets"]:
        os.makedirs(os.path.join(d, t["path"]), exist_ok=True)
        open(os.path.join(d, t["path"], "_f"), "w").write("x")
    open(os.path.join(d, "Monorail.json"), "w").write(G.cfg_json(cfg))
    # the output file usually exists already (an earlier render of a larger configuration): what is left in it afterwards
    # must be this configuration's graph and nothing else
    kind = ctx.evaluations % 3
    if kind == 1:
        open(os.path.join(d, "g.dot"), "w").write("digraph {\n" + "".join('%d [label="old/t%d"];\n' % (i, i) for i in range(40)) + "".join("%d -> %d;\n" % (i + 1, i) for i in range(39)) + "}\n")
    elif kind == 2:
        big = {"targets": cfg["targets"] + [{"path": "zz_extra/t%02d" % i, "uses": [cfg["targets"][0]["path"]]} for i in range(12)]}
        open(os.path.join(d, "Monorail.json"), "w").write(G.cfg_json(big))
        subprocess.run([vlib.BIN_MONORAIL, "-f", os.path.join(d, "Monorail.json"), "target", "render", "-f", "g.dot"], cwd=d, capture_output=True, text=True, timeout=60)
        open(os.path.join(d, "Monorail.json"), "w").write(G.cfg_json(cfg))
    ctx.count("render_into_" + ["fresh_file", "existing_longer_file", "file_of_a_larger_configuration"][kind])
    p = subprocess.run([vlib.BIN_MONORAIL, "-f", os.path.join(d, "Monorail.json"), "target", "render", "-f", "g.dot"],
                       cwd=d, capture_output=True, text=True, timeout=60)
    if p.returncode != 0:
        try:
            e = json.loads(p.stderr.strip().splitlines()[-1])
        except Exception:
            e = {"type": "other", "message": p.stderr}
        return enc_impl({"err": e})
    dot = open(os.path.join(d, "g.dot")).read()
    nodes = {}
    adj = {}
    for line in dot.splitlines():
        m = re.match(r'^(\d+) \[label="(.*)"\];$', line)
        if m:
            # a label is a quoted dot string: \" \\ and \n are escapes; an unescaped quote inside it means the string ended early
            body = m.group(2)
            if re.search(r'(?<!\\)(?:\\\\)*"', body): nodes[len(nodes) + 1000] = "<unescaped quote in label %r>" % body
            nodes[int(m.group(1))] = re.sub(r'\\(.)', lambda k: {"n": "\n"}.get(k.group(1), k.group(1)), body); continue
        m = re.match(r'^(\d+) -> (\d+);$', line)
        if m: adj.setdefault(int(m.group(1)), []).append(int(m.group(2)))
    n = len(nodes)
    # exactly one closing brace, at the very end: anything after it (the tail of an older, longer file) is "something else"
    if dot.count("}") != 1 or not dot.rstrip().endswith("}"):
        nodes[n] = "<text after the closing brace>"; n += 1
    return [1, [[nodes.get(i, "") for i in range(n)], [adj.get(i, []) for i in range(n)]]]

def run(ctx, scale):
    rng = ctx.rng
    # corpus first
    cdir = os.path.join(vlib.VERIF, "corpus", "C10")
    if os.path.isdir(cdir):
        for f in sorted(os.listdir(cdir)):
            eval_case(ctx, json.load(open(os.path.join(cdir, f)))["cfg"], via="corpus")
    n = (600 if ctx.quick() else 20000) * scale
    for i in range(n):
        if i % 10 == 9:
            cfg, kind = G.gen_malformed_config(rng); ctx.count("malformed_" + kind)
        else:
            cfg = G.gen_config(rng, with_ignores=False)
        eval_case(ctx, cfg)
    for i in range((12 if ctx.quick() else 150) * scale):
        cfg = G.gen_config(rng, with_ignores=False)
        if i % 2 == 0:
            # a directory whose name contains what ends or breaks a quoted dot string
            odd = rng.choice(['q"r', "back\\slash", 'x"];\n1 -> 0;\n//', "two\nlines", 'tail\\'])
            if odd not in [t["path"] for t in cfg["targets"]]:
                cfg["targets"].append({"path": odd, "uses": [cfg["targets"][0]["path"]]}); ctx.count("label_needing_escapes")
        eval_case(ctx, cfg, via="cli", impl=cli_render(ctx, cfg))
    if not ctx.quick() or scale > 1:
        uni = ["a", "ab", "a/b", "a/bc", "b", "a/b/c", "ab/c", "x"]
        cnt = 0
        for cfg in G.all_small_configs(uni, 3 if not ctx.quick() else 2, 1):
            eval_case(ctx, cfg, via="exhaustive"); cnt += 1
        ctx.notes.append("exhaustive small universe: %d configurations over %s" % (cnt, uni))

def replay(ctx, case):
    cfg = case["cfg"] if "cfg" in case else case["case"]["cfg"]
    d = eval_case(ctx, cfg)
    return d

def shrink(ctx, case, detail):
    """Greedy: drop targets, then uses entries, while the spec still fails on the implementation."""
    cfg = case["cfg"]
    def fails(c):
        if not c["targets"] or ctx.shrink_expired(): return False
        impl = impl_edges(ctx, c)
        v = ctx.model.call("C10", G.cfg_val(c), impl)
        return bool(v[0]) and G.normalised(c) and not bool(v[3])
    changed = True
    while changed:
        changed = False
        for i in range(len(cfg["targets"])):
            c = {"targets": cfg["targets"][:i] + cfg["targets"][i + 1:]}
            if fails(c): cfg = c; changed = True; break
        if changed: continue
        for i, t in enumerate(cfg["targets"]):
            for j in range(len(t.get("uses", []))):
                t2 = dict(t); t2["uses"] = t["uses"][:j] + t["uses"][j + 1:]
                if not t2["uses"]: del t2["uses"]
                c = {"targets": cfg["targets"][:i] + [t2] + cfg["targets"][i + 1:]}
                if fails(c): cfg = c; changed = True; break
            if changed: break
    impl = impl_edges(ctx, cfg)
    v = ctx.model.call("C10", G.cfg_val(cfg), impl)
    return {"cfg": cfg, "via": "hook"}, {"impl": impl, "model": v[1], "in_scope": bool(v[0]), "agree": bool(v[2]), "spec_ok": bool(v[3])}
