"""C09 - cyclic configurations are always rejected and nothing is executed."""
import graphs
THEOREMS = [("Properties.C09", "C09_holds"), ("Properties.C09", "C09_index_holds"), ("Harness.OracleProof", "cyclic_b_iff")]
CORRESPONDENCE = "Dag / Index::new / analyze on cyclic inputs == Model.Dag.api_groups (ErrCycle)"
LEVEL_NOTE = ("Coq theorem C09_holds (graph level, unbounded): whenever a cycle is reachable from the roots the model of the grouping API returns "
              "ErrCycle - never Ok, never Panic (usize underflow / index out of range), never fuel exhaustion, so termination is part of the "
              "statement. Tied to src/core/graph.rs and Index::new by hooks on exhaustive small digraphs, random graphs and generated configs.")
TRUSTED = ["Coq 8.16.1 kernel; no axioms (closed under the global context)",
           "extraction (ExtrOcamlBasic) + ocaml/vmodel.ml; Harness/Glue.v (its cycle oracle cyclic_b - successor iteration, independent of the model's Kahn loop - is proved equivalent to cyclic_from: Harness/OracleProof.v cyclic_b_iff)",
           "hooks src/verif.rs",
           "'run starts no executable' is covered by C05/C06 scenarios (a rejected configuration never reaches the plan); here: the grouping APIs",
           "modelled, not verified: the Rust source itself"]
RULE = ("same enumeration as C03; in scope = a cycle is reachable from the roots (uses alone, or uses + nesting at index level); "
        "non-trivial = in scope with >=2 edges / >=3 targets; distinct by input")
def run(ctx, scale): graphs.run(ctx, scale, True)
def replay(ctx, case): return graphs.replay(ctx, case, True)
def shrink(ctx, case, detail): return graphs.shrink(ctx, case, detail, True)
