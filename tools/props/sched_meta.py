CORR = "monorail run with scripted child processes (result document, exit status, children's own timestamps) == Model.Sched step function on the reconstructed choice list"
TRUSTED = ["Coq 8.16.1 kernel; no axioms", "extraction + vmodel; Harness/Glue.v check_sched (drives the model: scheduler steps saturated between observed events)",
           "the specification clauses are evaluated on the implementation's output by tools/schedscen.py (Python, not extracted from Coq)",
           "tokio: JoinSet::join_next returns a task only after it finished; OS: a child's last write precedes its exit; CLOCK_MONOTONIC is system-wide",
           "cannot be exhibited by a theorem: real interleavings of OS processes and tokio tasks - the model covers every choice list, the tie samples real schedules",
           "modelled, not verified: the Rust source (src/app/run.rs)"]
THEOREMS_C04 = [("Properties.C04", "C04_holds")]
NOTE_C04 = ("Coq theorem C04_holds, for every plan, exit-code assignment and choice list (schedule): a task is spawned only after every task spawned earlier at a different "
            "(command, group) position has exited - so nothing of a later group or command starts before everything earlier has exited - and the command list is the expanded "
            "sequences followed by --commands. Partial: process exit and task join are tokio/OS behaviour. Tied by real runs with dependencies made slower than dependents: every "
            "child records its own start/end, which must be ordered across positions and along every dependency edge.")
RULE_C04 = ("random acyclic configurations (2-7 targets, nesting, prefix siblings), 1-3 commands and sequences, modes all/changed/-t/-t --deps, child run times: dependencies slower "
            "than dependents (50%), random, zero; 10% of the generated names and one directed chain are 41-90-byte paths of multi-byte characters; directed configurations with dependents whose names merely extend "
            "their dependency's name (core-utils uses core, t12 uses t1/src); daemon-style executables; one dependency running 21.5 s; non-trivial = >=3 planned tasks and >=2 positions; distinct by invocation")
THEOREMS_C05 = [("Properties.C05", "C05_holds"), ("Properties.C05", "C05_completes_holds")]
NOTE_C05 = ("Coq theorem C05_holds, for every plan and every choice list that runs to completion: every planned task has exactly one result entry, is spawned at most once, exactly once "
            "when it is defined, executable and nothing failed before it was reached, and never when undefined or not executable. Selection (changed / all / named / named+deps) composes "
            "C01, C02 and C03's models and is tied by real runs: planned pairs = commands x selected targets, groups equal to what analyze --target-groups reports at that moment, "
            "children counted per (command, target) from their own trace files.")
RULE_C05 = ("as C04, plus checkpoints with random changed files; 10% undefined and 10% non-executable commands (no x bit, link to such a file, x bit without #!, #! of a missing interpreter); invocations with sequences and commands together; "
            "every single named target with --deps on layered shapes; non-trivial = >=3 planned tasks; distinct by invocation")
THEOREMS_C06 = [("Properties.C06", "C06_holds"), ("Properties.C06", "C06_shutdown_holds"), ("AsFound.C06", "C06_as_found_refuted")]
NOTE_C06 = ("Coq theorem C06_holds, for every plan, exit codes and completed schedule: failed is set iff some spawned child exited non-zero or was killed by a signal (model: code >= 256, recorded as an error without a code), a reached task was not executable, or (with "
            "--fail-on-undefined) undefined; after the first failing position nothing later is spawned and those entries are skipped; success means exit 0, error with a code means "
            "exactly that code, undefined/not_executable/skipped mean no spawn; exit status 1/0 accordingly. A second theorem (C06_shutdown_holds) covers the compressor's shutdown protocol: for every thread count, client count and interleaving no "
            "send ever finds its channel closed (no internal error). Partial: real thread/task interleavings are exercised by forced delays at guarded points. Tied by real runs with failures planted at every kind of position.")
RULE_C06 = ("as C04 with a failure planted in 75% of the runs (exit 1..255, death by SIGKILL/SIGTERM/SIGABRT - no exit code -, missing x bit, undefined with/without --fail-on-undefined, two failures); plus forced delays between the "
            "compressor shutdown messages on groups of 3-5; directed wide groups with undefined entries before defined and failing ones; the x bit of a later command's file removed or added by a task during the run; non-trivial = run that failed with >=3 planned tasks; distinct by invocation")
