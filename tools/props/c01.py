"""C01 - change-to-target mapping is exact."""
import json, os
import vlib, gen_config as G

THEOREMS = [("Properties.C01", "C01_holds"), ("AsFound.C01", "C01_as_found_insert_refuted"), ("AsFound.C01", "C01_as_found_prefix_refuted"),
            ("Harness.OracleProof", "spec_C01_summary_iff"), ("Harness.OracleProof", "spec_C01_breakdown_iff")]
CORRESPONDENCE = "analyze (verif::analyze hook, CLI analyze) == Model.Index.summary / breakdown"
LEVEL_NOTE = ("Coq theorem C01_holds (unbounded in targets, nesting depth, changes, batch size): for every well-formed configuration and "
              "normalised change paths the model's summary lies between the two readings of the documented don't-care (and equals the strict one), "
              "contains only configured targets, is strongly sorted, equals the non-ignored part of the per-change breakdown and is independent of "
              "order, multiplicity and batch size. Tied to src/app/analyze.rs + Index::new by the verif::analyze hook on generated configurations "
              "and 0..400 changes, and by the CLI on real git repositories.")
TRUSTED = ["Coq 8.16.1 kernel; no axioms (closed under the global context)",
           "extraction (ExtrOcamlBasic) + ocaml/vmodel.ml; Harness/Glue.v check_C01 (decoders; the oracle spec_C01 is proved to be exactly the statement's clauses about one answer: Harness/OracleProof.v spec_C01_summary_iff / spec_C01_breakdown_iff)",
           "trie-rs common_prefix_search modelled as stored non-empty byte prefixes; rayon par_chunks/reduce modelled as chunk-wise union",
           "hooks src/verif.rs; HashSet modelled as a sorted duplicate-free list",
           "modelled, not verified: the Rust source itself"]
RULE = ("generated configurations (nesting, string-prefix siblings, uses/ignores naming targets, files, directories, outside paths) x change lists of "
        "0..400 paths (>=20% above the batch size 50), a directed family (15%) in which an ancestor ignores part of a nested target that uses a path elsewhere and the changes hit both, plus permuted/duplicated variants of the same change set; malformed stream model-vs-impl only; "
        "non-trivial = in scope, >=1 changed target and >=1 unchanged target or an ignores/uses entry decided the outcome; distinct by (config, changes)")

def impl_analyze(ctx, cfg, changes, sc=True, sct=True, stg=False):
    r = ctx.harness.call(fn="analyze", cfg=G.cfg_json(cfg), mk=[t["path"] for t in cfg["targets"]], changes=changes, sc=sc, sct=sct, stg=stg)
    return enc_impl(r)

RCODE = {"target": 0, "uses": 1, "ignores": 2}
def enc_impl(r):
    if "ok" in r:
        o = r["ok"]
        brk = [[c["path"], [[t["path"], RCODE[t["reason"]]] for t in (c.get("targets") or [])]] for c in (o.get("changes") or [])]
        return [1, [o["targets"], brk]]
    if "panic" in r: return [2, 0]
    msg = r["err"].get("message", "")
    kind = 1 if (r["err"].get("type") == "graph" and "Cycle" in msg) else 2 if "Duplicate label" in msg else 3
    return [0, kind]

def eval_case(ctx, cfg, changes, via="hook", impl=None, flags=(True, True, False)):
    if impl is None:
        impl = impl_analyze(ctx, cfg, changes, *flags)
    with_brk = bool(flags[0] and flags[1])
    v = ctx.model.call("C01", G.cfg_val(cfg), changes, with_brk, impl)
    in_scope, mv, agree, spec = bool(v[0]) and G.normalised(cfg, changes), v[1], bool(v[2]), bool(v[3])
    nontriv = False
    if in_scope and impl[0] == 1:
        nt = len(impl[1][0])
        has_ign = any(e[1] == 2 for c in impl[1][1] for e in c[1])
        has_use = any(e[1] == 1 for c in impl[1][1] for e in c[1])
        nontriv = (0 < nt < len(cfg["targets"])) or has_ign or has_use
    case = {"cfg": cfg, "changes": changes, "via": via, "flags": list(flags)}
    ctx.count("flags_%d%d%d" % tuple(int(x) for x in flags))
    detail = {"impl_targets": impl[1][0] if impl[0] == 1 else impl, "model_targets": [vlib.dstr(x) for x in mv[0]] if mv else None,
              "in_scope": in_scope, "agree": agree, "spec_ok": spec}
    ctx.count("via_" + via); ctx.count("in_scope" if in_scope else "out_of_scope")
    nchg = len(changes); ctx.count("changes_" + ("0" if nchg == 0 else "1-50" if nchg <= 50 else "51-150" if nchg <= 150 else "151+"))
    ctx.record(case, in_scope, agree, spec, nontriv,
               sample={"cfg": cfg, "changes": changes[:6], "n_changes": nchg, "targets": detail["impl_targets"]} if nontriv and nchg < 8 else None,
               detail=detail, tie_relevant=in_scope or impl != [0, 3])
    return detail, impl

def gen_case(rng):
    if rng.random() < 0.15: return G.gen_nested_interplay(rng)
    cfg = G.gen_config(rng)
    r = rng.random()
    n = 0 if r < 0.05 else rng.randint(1, 6) if r < 0.45 else rng.randint(7, 50) if r < 0.7 else rng.randint(51, 150) if r < 0.88 else rng.randint(151, 400)
    return cfg, G.gen_changes(rng, cfg, n)

def cli_case(ctx, rng):
    """Real binary, real git: the changes are files created after a checkpoint; model input = the changes the CLI itself reports."""
    cfg = G.gen_config(rng)
    tpaths = set(t["path"] for t in cfg["targets"])
    repo = vlib.mk_repo(ctx, cfg)
    rc, out, err, raw = vlib.monorail(repo, "checkpoint", "update")
    if rc != 0:
        return
    made = []
    for p in G.gen_changes(rng, cfg, rng.randint(1, 12)):
        full = os.path.join(repo, p)
        if p in tpaths or os.path.isdir(full) or any(os.path.isfile(os.path.join(repo, "/".join(p.split("/")[:i]))) for i in range(1, len(p.split("/")))):
            continue
        try:
            os.makedirs(os.path.dirname(full), exist_ok=True)
            if os.path.isdir(full): continue
            open(full, "w").write("new"); made.append(p)
        except OSError:
            continue
    rc, out, err, raw = vlib.monorail(repo, "analyze", "--changes", "--change-targets")
    if rc == 0 and out:
        impl = enc_impl({"ok": out})
        changes = [c["path"] for c in out.get("changes") or []]
    else:
        impl = enc_impl({"err": err or {"type": "other", "message": raw.stderr.decode("utf-8", "replace")}})
        changes = made
    eval_case(ctx, cfg, changes, via="cli", impl=impl)

def run(ctx, scale):
    rng = ctx.rng
    cdir = os.path.join(vlib.VERIF, "corpus", "C01")
    if os.path.isdir(cdir):
        for f in sorted(os.listdir(cdir)):
            c = json.load(open(os.path.join(cdir, f)))
            eval_case(ctx, c["cfg"], c["changes"], via="corpus")
            eval_case(ctx, c["cfg"], c["changes"], via="corpus", flags=(False, False, False))
            eval_case(ctx, c["cfg"], c["changes"], via="corpus", flags=(False, False, True))
    for i in range((500 if ctx.quick() else 15000) * scale):
        if i % 12 == 11:
            cfg, kind = G.gen_malformed_config(rng); changes = G.gen_changes(rng, cfg, rng.randint(0, 8)); ctx.count("malformed_" + kind)
            if rng.random() < 0.3 and changes: changes[0] = changes[0] + "/"
            eval_case(ctx, cfg, changes)
            continue
        cfg, changes = gen_case(rng)
        d, impl = eval_case(ctx, cfg, changes)
        # the summary must not depend on which parts of the output were asked for (analyze, analyze --changes, run's own call)
        fl = rng.choice([(False, False, False), (True, False, False), (False, True, False), (False, False, True), (True, True, True)])
        d3, impl3 = eval_case(ctx, cfg, changes, via="flags", flags=fl)
        if impl[0] == 1 and (impl3[0] != 1 or impl3[1][0] != impl[1][0]):
            ctx.spec_failures.append(({"cfg": cfg, "changes": changes, "flags": list(fl), "via": "flags"},
                                      {"what": "summary depends on the output flags", "with_breakdown": impl[1][0], "with_flags": impl3[1][0] if impl3[0] == 1 else impl3}))
        if i % 4 == 0 and changes and impl[0] == 1:
            # same change set, different order / multiplicity: the implementation's own outputs must coincide
            perm = list(changes); rng.shuffle(perm); perm = perm + perm[:rng.randint(0, len(perm))]
            d2, impl2 = eval_case(ctx, cfg, perm, via="permuted")
            if impl2[0] != 1 or impl2[1][0] != impl[1][0]:
                ctx.spec_failures.append(({"cfg": cfg, "changes": changes, "permuted": perm, "via": "permuted"},
                                          {"what": "summary depends on order/multiplicity of the changes", "a": impl[1][0], "b": impl2[1][0] if impl2[0] == 1 else impl2}))
    for i in range((10 if ctx.quick() else 200) * scale):
        cli_case(ctx, rng)

def replay(ctx, case):
    c = case.get("case", case)
    d, impl = eval_case(ctx, c["cfg"], c["changes"], flags=tuple(c.get("flags", (True, True, False))))
    if "permuted" in c:
        d2, impl2 = eval_case(ctx, c["cfg"], c["permuted"])
        d = {"first": d, "second": d2}
    return d

def shrink(ctx, case, detail):
    if "permuted" in case: return case, detail
    cfg, changes = case["cfg"], case["changes"]
    flags = tuple(case.get("flags", (True, True, False)))
    def fails(c, ch):
        if not c["targets"] or ctx.shrink_expired(): return False
        impl = impl_analyze(ctx, c, ch, *flags)
        v = ctx.model.call("C01", G.cfg_val(c), ch, bool(flags[0] and flags[1]), impl)
        return bool(v[0]) and G.normalised(c, ch) and not bool(v[3])
    changed = True
    while changed:
        changed = False
        # halve the change list first, then drop ever smaller chunks, then single removals
        if len(changes) > 4:
            for part in (changes[:len(changes) // 2], changes[len(changes) // 2:]):
                if fails(cfg, part): changes = part; changed = True; break
            if changed: continue
            k = len(changes) // 4
            while k >= 2 and not changed:
                for i in range(0, len(changes), k):
                    ch = changes[:i] + changes[i + k:]
                    if ch and fails(cfg, ch): changes = ch; changed = True; break
                k //= 2
            if changed: continue
        for i in range(len(changes)):
            ch = changes[:i] + changes[i + 1:]
            if fails(cfg, ch): changes = ch; changed = True; break
        if changed: continue
        for i in range(len(cfg["targets"])):
            c = {"targets": cfg["targets"][:i] + cfg["targets"][i + 1:]}
            if fails(c, changes): cfg = c; changed = True; break
        if changed: continue
        for i, t in enumerate(cfg["targets"]):
            for key in ("uses", "ignores"):
                for j in range(len(t.get(key, []))):
                    t2 = dict(t); t2[key] = t[key][:j] + t[key][j + 1:]
                    if not t2[key]: del t2[key]
                    c = {"targets": cfg["targets"][:i] + [t2] + cfg["targets"][i + 1:]}
                    if fails(c, changes): cfg = c; changed = True; break
                if changed: break
            if changed: break
    d, impl = eval_case(ctx, cfg, changes, flags=flags)
    return {"cfg": cfg, "changes": changes, "via": "hook", "flags": list(flags)}, d
