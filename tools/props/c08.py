"""C08 - stored logs are byte-exact and isolated per task."""
import logscen
THEOREMS = [("Properties.C08", "C08_holds"), ("AsFound.C08", "C08_as_found_refuted"), ("Properties.C08", "C08_liveness_holds"), ("Properties.C08", "C08_drain_holds")]
CORRESPONDENCE = "monorail run with children writing scripted chunks/pauses on both streams; stored *.zst decoded independently == Model.Reader.run (out = arrived)"
LEVEL_NOTE = ("Coq theorem C08_holds: (reader) for every sequence of arrivals, polls, flush ticks and end of stream - any line lengths, no trailing newline, pauses inside a line, any bytes - "
              "once the reader has returned without error the compressor has been handed exactly the bytes written, in order; (compressor) for every number of threads and every interleaving "
              "of sends and receives, what is written to or queued for a log file is exactly what its own client sent. C08_liveness_holds: after the child closes its pipe, every continuation with (unread bytes + 2) polls makes the reader return, so the first clause's premise is always reachable. Partial: zstd, BufReader, OS pipes and the select! race itself are "
              "runtime. Tied by real runs of 1-24 concurrent tasks writing text and binary chunks with pauses that straddle the 500 ms flush inside a line; logs decoded with the zstd crate; "
              "log show parsed into header + bytes per log.")
TRUSTED = ["Coq 8.16.1 kernel; no axioms", "tokio read_until appends partial data to the caller's buffer (tokio 1.41.1 source); mpsc is FIFO per channel", "zstd round trip; OS pipes deliver bytes in order",
           "the event list fed to the model is a plausible schedule reconstructed from the script (ticks per 500 ms of pause); the theorem covers every schedule", "modelled, not verified: the Rust source"]
RULE = ("runs with 2-24 targets x 2 streams (one run with 2 MB of text per stream, compared with the stored files and with what `log show` prints), without a log listener, with one attached throughout, and with one killed 0.2-1.2 s into the run; per stream 0-5 chunks: text lines (35% split by a 560-1050 ms pause), binary blobs, 8191/8192/8193/70000-byte lines, empty writes, CRLF, no trailing newline; "
        "non-trivial = every run (>= 4 streams); distinct by script")
def run(ctx, scale): logscen.run(ctx, scale, "C08")
def replay(ctx, case): return logscen.replay(ctx, case, "C08")
