"""C11 - executables get the documented argv, working directory and resolution."""
import json, os, random
import vlib, runscen

THEOREMS = [("Properties.C11", "C11_holds")]
CORRESPONDENCE = "monorail run (children record argv, cwd, argv[0]) == Model.Plan argv_of (build_table (run_loads ..)) / resolve"
LEVEL_NOTE = ("Coq theorem C11_holds: the argument-map merge implemented as nested per-target/per-command tables yields, for each run target and command, exactly base ++ each "
              "--argmaps file in order ++ --args, with nothing from another target or command and missing files contributing nothing; resolution picks the configured definition path "
              "when non-empty, otherwise the file of the command directory whose stem is the command name. Partial: process spawning (argv passing, chdir) is OS behaviour. Tied by real "
              "runs whose children record argv (byte-exact), cwd and argv[0], over custom argmap/command directories, definitions with and without paths, and arguments with spaces, "
              "quotes, empty strings and non-ASCII characters.")
TRUSTED = ["Coq 8.16.1 kernel; no axioms", "extraction + vmodel; Harness/Glue.v check_plan", "serde_json parsing of argmap files; Path::file_stem modelled by Model.Plan.stem",
           "unique stem per command directory (as the property assumes); NUL cannot occur in an argument", "modelled, not verified: the Rust source"]
RULE = ("2-5 targets x 1-2 commands; per target: base/named/missing argmap files in default or custom directories, commands by stem with various extensions and decoys, or by definition "
        "path; --argmaps lists with repeats and missing names, --no-base-argmaps, --args with one command and one target; non-trivial = some child received >=2 arguments from >=2 sources; "
        "distinct by invocation")

ARGS = ["plain", "two words", "", 'q"uote', "it's", "ünï", "a=b", "--looks-like-flag=1", "tab\tx", "{json}", "$HOME", "*", "back\\slash", "日本", "features=a,b", ",", "x,", ";semi;colon", "a:b|c"]

def case(ctx, rng, deps_directed=False):
    """deps_directed: a named target reaches an unnamed dependency through --deps, and that dependency has argument maps of its own"""
    n = rng.randint(2, 5)
    names_pool = ["dev", "ci", "ci.linux", "rel-1.2", "missing"]      # names with dots beside a name that is their prefix: each names its own file
    targets, files, defs_by_target, dir_by_target, argdir_by_target = [], [], {}, {}, {}
    side11 = random.Random(rng.getrandbits(32) ^ 0x11)
    cmds = rng.sample(["build", "test"], rng.randint(1, 2))
    cfg_targets = []
    shared_cmd_dir = rng.random() < 0.4          # several targets point at ONE command directory and differ only in definitions
    for i in range(n):
        p = "svc%d" % i if rng.random() < 0.7 else "pkg/deep/t%d" % i
        t = {"path": p}
        if rng.random() < 0.3:
            t["argmaps"] = {"path": p + "/conf/am"}; argdir_by_target[p] = p + "/conf/am"
        else: argdir_by_target[p] = p + "/monorail/argmap"
        if shared_cmd_dir and rng.random() < 0.8:
            t["commands"] = {"path": "tools/cmd"}; dir_by_target[p] = "tools/cmd"
        elif rng.random() < 0.3:
            t["commands"] = {"path": p + "/scripts"}; dir_by_target[p] = p + "/scripts"
        else: dir_by_target[p] = p + "/monorail/cmd"
        if targets and (rng.random() < 0.5 or deps_directed): t["uses"] = [rng.choice(targets)]          # dependencies: reached by --deps without being named
        cfg_targets.append(t); targets.append(p)
    if deps_directed:
        # a target that the named one does not depend on, whose base argmap is not even JSON: none of this run's business
        cfg_targets.append({"path": "unrelated"}); argdir_by_target["unrelated"] = "unrelated/monorail/argmap"; dir_by_target["unrelated"] = "unrelated/monorail/cmd"
    cfg = {"targets": cfg_targets}
    rr = runscen.RunRepo(ctx, cfg, commands=[])
    try:
        # commands: by stem (various extensions, decoys) or by definition path
        resolution = {}
        entries_by_dir = {}                        # one (shared) entry list per command directory
        def stem_file(d, entries, c, p, ext):
            """the file of directory d whose stem is c (the property assumes there is at most one): installed once"""
            have = [e for e in entries if e == c or (e.startswith(c + ".") and "." not in e[len(c) + 1:])]
            if have: return have[0]
            rr.install(c, p, "exec", cmd_dir=d, ext=ext); entries.append(c + ext); return c + ext
        for t in cfg_targets:
            p = t["path"]; d = os.path.join(rr.repo, dir_by_target[p]); os.makedirs(d, exist_ok=True)
            entries = entries_by_dir.setdefault(dir_by_target[p], [])
            shared = dir_by_target[p] == "tools/cmd"
            for c in cmds:
                kind = rng.choice(["stem", "stem", "stem_ext", "defpath", "def_empty", "undef", "defpath_missing"] + (["defpath", "defpath"] if shared else []))
                if kind in ("stem", "stem_ext", "def_empty"):
                    ext = "" if kind == "stem" else rng.choice([".sh", ".py", ".bin"])
                    stem_file(d, entries, c, p, ext)
                    if kind == "def_empty": t.setdefault("commands", {}).setdefault("definitions", {})[c] = {"path": ""}
                elif kind == "defpath":
                    rel = "tools/bin/%s_%s_impl" % (p.replace("/", "_"), c)
                    os.makedirs(os.path.join(rr.repo, "tools/bin"), exist_ok=True)
                    if os.path.lexists(os.path.join(rr.repo, rel)): os.remove(os.path.join(rr.repo, rel))
                    os.symlink(vlib.BIN_VHELPER, os.path.join(rr.repo, rel))
                    t.setdefault("commands", {}).setdefault("definitions", {})[c] = {"path": rel}
                    # a same-stem file in the command directory must NOT be chosen
                    if rng.random() < 0.5: stem_file(d, entries, c, p, ".decoy")
                elif kind == "defpath_missing":
                    # the configured path does not exist (renamed/deleted script) while a file with the command's stem sits in
                    # the command directory: the configured path is still THE executable - nothing else may be started
                    rel = "tools/bin/%s_%s_gone" % (p.replace("/", "_"), c)
                    t.setdefault("commands", {}).setdefault("definitions", {})[c] = {"path": rel}
                    stem_file(d, entries, c, p, ".sh")
                resolution[(c, p)] = kind
            for decoy in rng.sample(["builder.sh", "xbuild", "build.tar.gz", "tests", ".build"], 2):
                fp = os.path.join(d, decoy)
                if not os.path.lexists(fp): os.symlink(vlib.BIN_VHELPER, fp); entries.append(decoy)
            dir_by_target[p + "#entries"] = entries
        # argmap files
        for t in cfg_targets:
            p = t["path"]; d = os.path.join(rr.repo, argdir_by_target[p]); os.makedirs(d, exist_ok=True)
            for nm in ["base"] + names_pool[:4]:
                # one argmap in five has a definition: its file lives where argmaps.definitions.<name>.path says, and a decoy with other
                # entries sits at the default place <argmaps.path>/<name>.json
                defined = side11.random() < 0.2
                if rng.random() < 0.6 or (deps_directed and nm == "base") or defined:
                    cm = {}
                    for c in (["build", "test"] if deps_directed and nm == "base" else rng.sample(["build", "test", "other"], rng.randint(0, 3))):
                        cm[c] = [rng.choice(ARGS) for _ in range(rng.randint(1 if deps_directed else 0, 3))]
                    if defined:
                        rel = "conf/argmaps/%s.%s.json" % (p.replace("/", "_"), nm)
                        os.makedirs(os.path.join(rr.repo, "conf/argmaps"), exist_ok=True)
                        json.dump(cm, open(os.path.join(rr.repo, rel), "w"))
                        t.setdefault("argmaps", {}).setdefault("definitions", {})[nm] = {"path": rel}
                        if side11.random() < 0.6: json.dump({"build": ["decoy-at-the-default-place"], "test": ["decoy"]}, open(os.path.join(d, nm + ".json"), "w"))
                        ctx.count("argmap_by_definition")
                    else:
                        json.dump(cm, open(os.path.join(d, nm + ".json"), "w"))
                    files.append([p, nm, [[c, a] for c, a in cm.items()]])
        if deps_directed:
            os.makedirs(os.path.join(rr.repo, "unrelated/monorail/argmap"), exist_ok=True)
            open(os.path.join(rr.repo, "unrelated/monorail/argmap/base.json"), "w").write("{ this is not JSON"); ctx.count("invalid_argmap_outside_the_closure")
        vlib.write_config(rr.repo, cfg)     # definitions were added after the repository was created
        json.dump({**json.load(open(os.path.join(rr.repo, "Monorail.json")))}, open(os.path.join(rr.repo, "Monorail.json"), "w"))
        use_base = rng.random() < 0.75 or deps_directed
        names = [rng.choice(names_pool) for _ in range(rng.choice([0, 1, 2, 3]))]
        single = rng.random() < 0.35 or deps_directed
        run_targets = [rng.choice(targets)] if single else (targets if rng.random() < 0.5 else rng.sample(targets, rng.randint(1, n)))
        if deps_directed: run_targets = [targets[-1]]          # the last declared target always uses an earlier one
        run_cmds = [cmds[0]] if single else cmds
        args = ["-c"] + run_cmds
        explicit = single or set(run_targets) != set(targets)
        with_deps = False
        if explicit:
            args += ["-t"] + run_targets
            if rng.random() < 0.4 or deps_directed: args.append("--deps"); with_deps = True
        if names: args += ["-m"] + names
        if not use_base: args.append("--no-base-argmaps")
        run_args = []
        if single and rng.random() < 0.8:
            a = [x for x in (rng.choice(ARGS) for _ in range(rng.randint(1, 3))) if not x.startswith("-")] or ["v"]
            args += ["-a"] + a; run_args = [[run_targets[0], run_cmds[0], a]]
        rc, out, err, raw = rr.run(*args)
        traces = rr.traces()
        case_d = {"cfg": cfg, "args": args, "files": files}
        if out is None:
            ctx.record(case_d, True, False, False, False, detail={"what": "no result document", "rc": rc, "err": err}); return
        by = {}
        for t in traces:
            cmd = t["command"]
            for c in run_cmds:
                if cmd == "%s_%s_impl" % (t["target"].replace("/", "_"), c): cmd = c
            by[(cmd, t["target"])] = t
        queries, cwd_ok, multi = [], True, False
        status = {(cmd, t): st for cmd, gs in runscen.result_statuses(out) for g in gs for t, (st, code) in g.items()}
        if with_deps:
            # every target the run reached (named or pulled in as a dependency) is a run target: its argument maps are loaded too
            run_targets = sorted(set(t for (_, t) in status) | set(run_targets)); ctx.count("with_deps")
        for c in run_cmds:
            for p in run_targets:
                if status.get((c, p)) == "skipped": continue      # an earlier not-executable entry stopped the run: nothing to compare
                tr = by.get((c, p))
                kind = resolution.get((c, p), "undef")
                entries = dir_by_target[p + "#entries"]
                defp = []
                tdef = next(t for t in cfg_targets if t["path"] == p).get("commands", {}).get("definitions", {}).get(c)
                if tdef is not None: defp = [tdef["path"]]
                if tr is None:
                    # nothing was started: for a configured-but-missing path that is the right outcome (resolved to the path, not executable)
                    impl_res = [[True, defp[0]]] if (kind == "defpath_missing" and defp) else []
                    queries.append([p, c, [], defp, entries, impl_res, False]); continue
                argv0 = bytes.fromhex(tr["argv0"]).decode("utf-8", "replace")
                if kind == "defpath" or (kind == "defpath_missing" and not os.path.basename(argv0).startswith(c + ".")): impl_res = [[True, os.path.relpath(argv0, rr.repo)]]
                else: impl_res = [[False, os.path.basename(argv0)]]
                queries.append([p, c, tr["argv_s"], defp, entries, impl_res, True])
                if bytes.fromhex(tr["cwd"]).decode() != os.path.join(rr.repo, p): cwd_ok = False
                if len(tr["argv_s"]) >= 2: multi = True
        v = ctx.model.call("plan", files, use_base, names, sorted(set(run_targets)), run_args, queries)
        agree = bool(v[2])
        ok = agree and cwd_ok
        ctx.count("single" if single else "multi"); ctx.count("shared_command_dir" if sum(1 for t in targets if dir_by_target[t] == "tools/cmd") >= 2 else "own_command_dirs")
        ctx.count("base_on" if use_base else "base_off"); ctx.count("argmaps_%d" % len(names))
        ctx.record(case_d, True, agree, ok, multi,
                   sample={"args": args, "children": [[q[1], q[0], [a.decode("utf-8", "replace") for a in q[2]]] for q in queries][:4]} if multi else None,
                   detail={"cwd_ok": cwd_ok, "model": v[1], "impl": [[q[0], q[1], [a.decode("utf-8", "replace") if isinstance(a, bytes) else a for a in q[2]], q[5]] for q in queries], "rc": rc})
    finally:
        rr.close()

def run(ctx, scale):
    for _ in range((40 if ctx.quick() else 400) * scale):
        cs = ctx.rng.getrandbits(32)
        n0 = len(ctx.spec_failures), len(ctx.tie_breaks)
        case(ctx, random.Random(cs), deps_directed=(_ % 8 == 7))
        for lst in (ctx.spec_failures, ctx.tie_breaks):
            for c, d in lst:
                if isinstance(c, dict) and "case_seed" not in c: c["case_seed"] = cs; c["deps_directed"] = (_ % 8 == 7)

def replay(ctx, c):
    c = c.get("case", c)
    case(ctx, random.Random(c["case_seed"]), deps_directed=c.get("deps_directed", False))
    return {"spec_failures": [d for _, d in ctx.spec_failures][:3], "disagreements": [d for _, d in ctx.tie_breaks][:3]}
