"""C15 - log streaming never affects the outcome of a run."""
import logscen
THEOREMS = [("Properties.C15", "C15_holds"), ("AsFound.C08", "C15_as_found_refuted")]
CORRESPONDENCE = "the same scripted run with no listener vs with `log tail` attached / filtered / killed == Model.Reader core_eq"
LEVEL_NOTE = ("Coq theorem C15_holds: for every behaviour of the stream sink (each write may succeed or fail, attached or not) and every event list, the reader's compressor bytes, "
              "termination and error flag are identical - so statuses, exit status and stored logs cannot depend on the listener. Partial: TCP and process death are runtime. Tied by running "
              "each scenario twice - without a listener, and with `log tail` (all filter shapes) killed before the run, mid-output, between groups or never - and comparing result documents, "
              "exit status and every stored log byte for byte.")
TRUSTED = ["Coq 8.16.1 kernel; no axioms", "a write to a dead listener's socket fails (or succeeds) without blocking indefinitely", "modelled, not verified: the Rust source"]
RULE = ("2-layer configurations of 4-6 targets with text output and pauses; listener absent / present with stdout, stderr, both, target filters; killed before, at 0.05 s, 0.25 s, 0.7 s, never; "
        "non-trivial = every pair of runs; distinct by scenario")
def run(ctx, scale): logscen.run(ctx, scale, "C15")
def replay(ctx, case): return logscen.replay(ctx, case, "C15")
