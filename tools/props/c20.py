"""C20 - what `log tail` prints reassembles to each task's log, within its filters."""
import logscen
THEOREMS = [("Properties.C20", "C20_holds"), ("Properties.C20", "C20_filter_holds"), ("Properties.C20", "C20_cancel_holds"), ("AsFound.C20", "C20_as_found_refuted")]
CORRESPONDENCE = "`log tail` output captured during real runs == Model.Reader.mrun (tail_of) and the stored logs"
LEVEL_NOTE = ("Coq theorem C20_holds: for every interleaving of the tasks' flushes onto the shared connection the output is a sequence of header-tagged blocks; the blocks carrying one task's "
              "header concatenate to exactly what that reader sent, which (listener up) is exactly its compressor bytes; unattached readers send nothing. Partial: TCP and the connection mutex are "
              "runtime. Tied by capturing a real `log tail` during runs of 3-10 concurrent tasks writing text on both streams, for stream and target filters, and comparing per (stream, target, "
              "command) with the stored logs.")
TRUSTED = ["Coq 8.16.1 kernel; no axioms", "tokio Mutex serialises LogServerClient::data; TCP delivers in order", "generated text never contains a line that parses as a header", "modelled, not verified: the Rust source"]
RULE = ("3-10 tasks x 2 streams of newline-terminated text with pauses; filters: both streams, stdout only, stderr only, two targets; one CRLF case; one burst case; one case whose listener output is not read for 3 s while 6 tasks write ~20 MB (back-pressure onto the shared connection); multi-command runs with command filters; a failing task among 10-14 chatty siblings; a multi-megabyte line; a filter naming 38 of 40 targets with 130-character paths (filter line of several kilobytes); non-trivial = every run; distinct by script")
def run(ctx, scale): logscen.run(ctx, scale, "C20")
def replay(ctx, case): return logscen.replay(ctx, case, "C20")
