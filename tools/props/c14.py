"""C14 - mutating invocations on one repository are mutually exclusive."""
import shutil, sys, json, os, random, signal, subprocess, time
import vlib, runscen

THEOREMS = [("Properties.C14", "C14_holds"), ("Properties.C14", "C14_multi_address_holds"), ("Properties.C14", "C14_lone_acquires_holds"), ("AsFound.C14", "C14_as_found_refuted"), ("AsFound.C14", "C14_lone_acquires_refuted_without_dedup")]
CORRESPONDENCE = "concurrent run / checkpoint update / checkpoint delete / out delete processes == Model.Lock step function on the observed start/exit order"
LEVEL_NOTE = ("Coq theorem C14_holds, for every number of processes and every interleaving of starts, effect steps and kills: at most one process is past lock acquisition; effects are "
              "produced only by the holder; a process whose bind is refused does nothing but end; after the holder's exit or kill the next process acquires at once. Partial: the OS provides "
              "the bind (exclusive per address, freed at process death). Tied by real processes: a holder parked right after acquisition (verif::point), 2-6 contenders of all four APIs at "
              "random offsets (must exit non-zero with a lock error, start no executable, leave the output directory byte-identical), holder ended by exit / failure / SIGKILL followed by "
              "an immediate invocation (must succeed), simultaneous starts (exactly one may pass), a run killed while its command is still executing (the orphan must not keep the lock), and briefly held locks (a contender whose logged acquisition attempt falls inside the "
              "holder's observed tenure must fail even though the holder releases 0.3-0.8 s later).")
TRUSTED = ["Coq 8.16.1 kernel; no axioms", "POSIX: bind on a listening address is exclusive; the listener is released when the process dies", "hooks: after_lock_* points (guarded)",
           "that each API's first action is the acquisition is what the tie checks (the model's op lists start with Start = bind)", "modelled, not verified: the Rust source"]
RULE = ("rounds: holder API in {run, checkpoint update, checkpoint delete, out delete}, 2-6 contenders with random APIs and start offsets 0-300 ms, holder end in {exit, failing run, SIGKILL}; "
        "plus orphan rounds (run killed by SIGKILL/SIGTERM while its command sleeps 2.5 s, next invocation at once), simultaneous-start rounds of 3-6 processes and brief-hold rounds (holder parked 300-800 ms, one contender with -v whose 'Acquiring lock' timestamp is compared with the tenure); "
        "plus, on a lock host with two addresses (native, or `lockhost` = 127.0.0.1 + 127.0.0.2 in a private mount namespace with its own /etc/hosts): contenders against a parked holder, and partial-hold rounds "
        "(a foreign listener on one of the addresses while A starts, gone when B starts: A and B never both past acquisition); non-trivial = every round (>=2 contenders); distinct by round parameters")

CFG = {"targets": [{"path": "a"}, {"path": "b", "uses": ["a"]}], "sequences": {"all": ["build"]}}
APIS = {"run": ["run", "-c", "build"], "checkpoint_update": ["checkpoint", "update"], "checkpoint_delete": ["checkpoint", "delete"], "out_delete": ["out", "delete", "--all"]}
# the same four APIs in their other argument shapes (contenders are drawn from both tables)
VARIANTS = {"checkpoint_update_id": ["checkpoint", "update", "--id", "0123456789abcdef0123456789abcdef01234567"],
            "checkpoint_update_pending": ["checkpoint", "update", "--pending"],
            "checkpoint_update_id_pending": ["checkpoint", "update", "--id", "0123456789abcdef0123456789abcdef01234567", "--pending"],
            "run_targets": ["run", "-c", "build", "-t", "a"], "run_deps": ["run", "-c", "build", "-t", "b", "--deps"], "run_sequence": ["run", "-s", "all"],
            "run_undefined_command": ["run", "-c", "nosuchcommand"], "out_delete_plain": ["out", "delete"]}
ALL_SHAPES = {**APIS, **VARIANTS}
_deck = []
def next_shape(rng):
    """contenders are dealt from a shuffled deck of all shapes, so every shape contends at least once per run"""
    if not _deck:
        _deck.extend(sorted(ALL_SHAPES)); rng.shuffle(_deck)
    return _deck.pop()

def listening(port):
    hexp = "%04X" % port
    for fn in ("/proc/net/tcp", "/proc/net/tcp6"):
        try:
            for line in open(fn).read().splitlines()[1:]:
                f = line.split()
                if f[1].endswith(":" + hexp) and f[3] == "0A": return True
        except OSError: pass
    return False

def snapshot(d):
    out = {}
    for root, dirs, files in os.walk(d):
        for f in files:
            p = os.path.join(root, f)
            try: out[os.path.relpath(p, d)] = (os.path.getsize(p), open(p, "rb").read()[:4096])
            except OSError: pass
        for x in dirs: out[os.path.relpath(os.path.join(root, x), d) + "/"] = 0
    return out

def spawn(rr, api, points=None, prefix=()):
    env = dict(os.environ); env.update(vlib.GIT_ENV); env.update(rr.env())
    if points: env["MONORAIL_VERIF_POINTS"] = points
    return subprocess.Popen(list(prefix) + [vlib.BIN_MONORAIL, "-f", os.path.join(rr.repo, "Monorail.json")] + ALL_SHAPES[api], cwd=rr.repo, env=env,
                            stdout=subprocess.PIPE, stderr=subprocess.PIPE)

def lock_error(stderr):
    for line in stderr.decode("utf-8", "replace").splitlines():
        try:
            e = json.loads(line)
            if e.get("type") == "server" and "Lock" in e.get("message", ""): return True
        except Exception: pass
    return False

def set_lock_host(rr, host):
    full = json.load(open(os.path.join(rr.repo, "Monorail.json")))
    full["server"]["lock"]["host"] = host
    json.dump(full, open(os.path.join(rr.repo, "Monorail.json"), "w"))

def holder_round(ctx, rng, holder_api, n_cont, end_kind):
    rr = runscen.RunRepo(ctx, CFG, commands=["build"])
    try:
        # the lock address is host AND port: half of the rounds use a loopback address other than the default 127.0.0.1
        host = rng.choice(["127.0.0.1", "127.0.0.2", "127.0.0.77"])
        if host != "127.0.0.1": set_lock_host(rr, host)
        ctx.count("lock_host_" + ("default" if host == "127.0.0.1" else "other_loopback"))
        vlib.monorail(rr.repo, "checkpoint", "update"); vlib.monorail(rr.repo, "run", "-c", "build", env=rr.env())
        rr.clear_traces()
        rr.script = {"*": {"exit": 3 if end_kind == "failure" else 0}}; rr.write_script()
        h = spawn(rr, holder_api, "after_lock_%s=sleep:1500" % holder_api)
        t0 = time.time()
        while not listening(rr.lock_port) and time.time() - t0 < 10: time.sleep(0.01)
        case = {"holder": holder_api, "contenders": n_cont, "end": end_kind}
        if not listening(rr.lock_port):
            h.kill(); h.communicate()
            ctx.record(case, True, False, False, True, detail={"what": "holder never bound the lock address"}); return
        before = snapshot(rr.out_dir())
        conts = []
        for i in range(n_cont):
            time.sleep(rng.random() * 0.3 / n_cont)
            api = next_shape(rng); conts.append((api, spawn(rr, api)))
        results = []
        for api, p in conts:
            try: so, se = p.communicate(timeout=20)
            except subprocess.TimeoutExpired: p.kill(); so, se = p.communicate()
            results.append({"api": api, "rc": p.returncode, "lock_error": lock_error(se)})
        holder_parked = h.poll() is None
        after = snapshot(rr.out_dir())
        traces = rr.traces()
        refused_ok = all(r["rc"] not in (0, None) and r["lock_error"] for r in results)
        ok = holder_parked and refused_ok and before == after and not traces
        # model: holder starts first, then contenders start; nothing acted yet
        choices = [[0, 0, 1]] + [[0, i + 1, 1] for i in range(n_cont)]
        v = ctx.model.call("lock", n_cont + 2, choices, [i + 1 for i, r in enumerate(results) if r["rc"] != 0 and r["lock_error"]], [])
        ctx.count("holder_" + holder_api); ctx.count("contenders_%d" % n_cont)
        ctx.record(dict(case, phase="contention"), True, bool(v[2]), ok, True,
                   sample={"holder": holder_api, "contenders": [r["api"] for r in results], "exit_codes": [r["rc"] for r in results]},
                   detail={"results": results, "holder_parked": holder_parked, "out_dir_unchanged": before == after, "executables_started": len(traces)})
        # end of the holder
        if end_kind == "sigkill":
            h.send_signal(signal.SIGKILL); h.communicate()
        else:
            try: h.communicate(timeout=60)
            except subprocess.TimeoutExpired: h.kill(); h.communicate()
        nxt = spawn(rr, "checkpoint_update")
        so, se = nxt.communicate(timeout=60)
        ok2 = nxt.returncode == 0
        choices2 = choices + [[2 if end_kind == "sigkill" else 1, 0, 0], [1, 0, 0], [0, n_cont + 1, 1]]
        v2 = ctx.model.call("lock", n_cont + 2, choices2, [i + 1 for i in range(n_cont)], [0] if end_kind != "sigkill" else [])
        ctx.count("end_" + end_kind)
        ctx.record(dict(case, phase="after holder ended"), True, True, ok2, True,
                   detail={"what": "the invocation right after the holder ended must acquire the lock", "rc": nxt.returncode, "stderr": se.decode("utf-8", "replace")[-300:]})
    finally:
        rr.close()

def acquiring_at(stderr):
    """wall-clock time of the contender's 'Acquiring lock' record (it runs with -v)"""
    import datetime
    for line in stderr.decode("utf-8", "replace").splitlines():
        try:
            e = json.loads(line)
            if e.get("message") == "Acquiring lock":
                ts = e["timestamp"]; head, frac = ts.split(".")
                return datetime.datetime.strptime(head, "%Y-%m-%dT%H:%M:%S").replace(tzinfo=datetime.timezone.utc).timestamp() + float("0." + frac.split("+")[0])
        except Exception: pass
    return None

def brief_hold_round(ctx, rng, holder_api, hold_ms):
    """The holder releases the lock shortly AFTER the contender tried to acquire it: the contender must still have failed (at once,
    with a lock error, without acting) - waiting behind the holder and then going ahead is not what the property allows."""
    rr = runscen.RunRepo(ctx, CFG, commands=["build"])
    try:
        vlib.monorail(rr.repo, "checkpoint", "update"); rr.clear_traces()
        rr.script = {"*": {"exit": 0}}; rr.write_script()
        h = spawn(rr, holder_api, "after_lock_%s=sleep:%d" % (holder_api, hold_ms))
        t0 = time.time()
        while not listening(rr.lock_port) and time.time() - t0 < 10: time.sleep(0.005)
        case = {"brief_hold": holder_api, "hold_ms": hold_ms}
        if not listening(rr.lock_port):
            h.kill(); h.communicate(); ctx.record(case, True, False, False, True, detail={"what": "holder never bound the lock address"}); return
        t_listen = time.time()
        api = rng.choice(list(ALL_SHAPES))
        before = snapshot(rr.out_dir())
        env = dict(os.environ); env.update(vlib.GIT_ENV); env.update(rr.env())
        c = subprocess.Popen([vlib.BIN_MONORAIL, "-v", "-f", os.path.join(rr.repo, "Monorail.json")] + ALL_SHAPES[api], cwd=rr.repo, env=env, stdout=subprocess.PIPE, stderr=subprocess.PIPE)
        last_held = t_listen
        while h.poll() is None and time.time() - t0 < 30:
            t = time.time()
            if listening(rr.lock_port) and h.poll() is None: last_held = t
            time.sleep(0.005)
        try: so, se = c.communicate(timeout=30)
        except subprocess.TimeoutExpired: c.kill(); so, se = c.communicate()
        h.communicate()
        t_a = acquiring_at(so + b"\n" + se)      # tracing records go to stdout
        contended = t_a is not None and t_listen < t_a < last_held - 0.02      # it tried while the holder demonstrably still held the lock
        refused = c.returncode not in (0, None) and lock_error(se)
        ok = (not contended) or refused
        # model: holder starts (acquires), contender starts (refused, ends), holder exits
        v = ctx.model.call("lock", 2, [[0, 0, 1], [0, 1, 1], [1, 0, 0]], [1] if refused else [], [0])
        agree = bool(v[2]) if contended else True
        ctx.count("brief_hold_" + ("contended" if contended else "not_contended"))
        ctx.record(case, contended, agree, ok, contended,
                   sample={"holder": holder_api, "hold_ms": hold_ms, "contender": api, "exit_code": c.returncode} if contended else None,
                   detail={"what": "a contender that tried to acquire while the lock was held must exit non-zero with a lock error, even when the holder releases a moment later",
                           "contender": api, "rc": c.returncode, "lock_error": lock_error(se), "acquiring_at": t_a, "held_from": t_listen, "held_until_at_least": last_held,
                           "stderr": se.decode("utf-8", "replace")[-400:]})
    finally:
        rr.close()

def orphan_round(ctx, rng, end_kind):
    """The holder is a `run` whose command is still executing when monorail is killed (or whose command outlives nothing - control):
    the lock belongs to the monorail process, not to what it spawned, so the next invocation acquires at once even though the
    orphaned command is still alive."""
    rr = runscen.RunRepo(ctx, CFG, commands=["build"])
    try:
        vlib.monorail(rr.repo, "checkpoint", "update"); rr.clear_traces()
        rr.script = {"*": {"sleep_ms": 2500}}; rr.write_script()
        h = spawn(rr, "run")
        t0 = time.time()
        while not rr.traces() and time.time() - t0 < 15: time.sleep(0.02)
        started = bool(rr.traces())
        case = {"orphan": end_kind}
        if not started:
            h.kill(); h.communicate(); ctx.record(case, True, False, False, True, detail={"what": "the holder's command never started"}); return
        h.send_signal(signal.SIGKILL if end_kind == "sigkill" else signal.SIGTERM); h.communicate()
        t_dead = time.time()
        nxt = spawn(rr, rng.choice(["checkpoint_update", "out_delete", "checkpoint_delete"]))
        so, se = nxt.communicate(timeout=60)
        orphan_alive = any(not t.get("end_ns") for t in rr.traces()) and time.time() - t_dead < 2.4
        ok = nxt.returncode == 0 and not lock_error(se)
        v = ctx.model.call("lock", 2, [[0, 0, 1], [2, 0, 0], [0, 1, 1]], [], [])
        ctx.count("orphan_%s" % end_kind); ctx.count("orphan_alive" if orphan_alive else "orphan_already_gone")
        ctx.record(case, True, bool(v[2]) and ok, ok, True,
                   sample={"holder": "run killed while its command runs", "signal": end_kind, "next_rc": nxt.returncode, "orphan_alive": orphan_alive},
                   detail={"what": "after the holder was killed the next invocation must acquire the lock at once, whatever the holder had spawned",
                           "rc": nxt.returncode, "lock_error": lock_error(se), "orphan_alive": orphan_alive, "stderr": se.decode("utf-8", "replace")[-300:]})
        time.sleep(max(0, 2.6 - (time.time() - t0)))      # let the orphan finish before the directory goes away
    finally:
        rr.close()

def multi_address_host():
    """A host name that resolves to several bindable loopback addresses on this machine (typically `localhost` = ::1 + 127.0.0.1),
    or None.  The lock address is then a SET of socket addresses, and holding the lock must mean holding all of them."""
    import socket
    for name in ([os.environ["VERIF_MULTI_HOST"]] if os.environ.get("VERIF_MULTI_HOST") else []) + ["localhost", "ip6-localhost", "localhost6", socket.gethostname()]:
        try: infos = socket.getaddrinfo(name, 0, type=socket.SOCK_STREAM)
        except OSError: continue
        addrs = []
        for fam, _, _, _, sa in infos:
            if sa[0] in addrs: continue
            try:
                sk = socket.socket(fam, socket.SOCK_STREAM); sk.bind((sa[0], 0) if fam == socket.AF_INET else (sa[0], 0, 0, 0)); sk.close(); addrs.append(sa[0])
            except OSError: pass
        if len(addrs) >= 2: return name, addrs, ()
    return hosts_namespace()

_NS = {}
def hosts_namespace():
    """No such name on this machine: give the invocations a private mount namespace whose /etc/hosts maps `lockhost` to
    127.0.0.1 and 127.0.0.2 (unshare -m + bind mount; needs the privilege to do so, otherwise None)."""
    if "v" in _NS: return _NS["v"]
    _NS["v"] = None
    if not shutil.which("unshare"): return None
    hosts = os.path.join(vlib.CACHE, "lockhost.hosts")
    try: base = open("/etc/hosts").read()
    except OSError: base = "127.0.0.1 localhost\n"
    open(hosts, "w").write(base.rstrip("\n") + "\n127.0.0.1 lockhost\n127.0.0.2 lockhost\n127.0.0.3 duphost\n127.0.0.3 duphost\n")
    prefix = ("unshare", "-m", "sh", "-c", 'mount --bind "$0" /etc/hosts && exec "$@"', hosts)
    probe = ("import socket,sys\nr=sorted(set(i[4][0] for i in socket.getaddrinfo('lockhost',0,type=socket.SOCK_STREAM)))\n"
             "for a in r:\n s=socket.socket(); s.bind((a,0)); s.close()\nprint(' '.join(r))")
    try: p = subprocess.run(list(prefix) + [sys.executable, "-c", probe], capture_output=True, timeout=20)
    except Exception: return None
    addrs = p.stdout.decode().split()
    if p.returncode == 0 and addrs == ["127.0.0.1", "127.0.0.2"]: _NS["v"] = ("lockhost", addrs, prefix)
    return _NS["v"]

def multi_address_round(ctx, rng):
    found = multi_address_host()
    if found is None:
        ctx.count("multi_address_host_unavailable"); return
    name, addrs, prefix = found
    ctx.count("multi_address_host_" + ("native" if not prefix else "by_hosts_namespace"))
    partial_hold_round(ctx, rng, name, addrs, prefix)
    if prefix: duplicate_address_round(ctx, rng, prefix)
    rr = runscen.RunRepo(ctx, CFG, commands=["build"])
    try:
        full = json.load(open(os.path.join(rr.repo, "Monorail.json")))
        full["server"]["lock"]["host"] = name
        json.dump(full, open(os.path.join(rr.repo, "Monorail.json"), "w"))
        holder_api = rng.choice(list(APIS))
        h = spawn(rr, holder_api, "after_lock_%s=sleep:1500" % holder_api, prefix=prefix)
        t0 = time.time()
        while not listening(rr.lock_port) and time.time() - t0 < 10: time.sleep(0.01)
        time.sleep(0.1)
        conts = [(a, spawn(rr, a, prefix=prefix)) for a in [next_shape(rng) for _ in range(3)]]
        results = []
        for api, p in conts:
            try: so, se = p.communicate(timeout=20)
            except subprocess.TimeoutExpired: p.kill(); so, se = p.communicate()
            results.append({"api": api, "rc": p.returncode, "lock_error": lock_error(se)})
        parked = h.poll() is None
        try: h.communicate(timeout=60)
        except subprocess.TimeoutExpired: h.kill(); h.communicate()
        ok = parked and all(r["rc"] not in (0, None) and r["lock_error"] for r in results)
        v = ctx.model.call("lock", 4, [[0, 0, 1]] + [[0, i + 1, 1] for i in range(3)], [i + 1 for i, r in enumerate(results) if r["rc"] != 0 and r["lock_error"]], [])
        ctx.count("multi_address_host_round")
        ctx.record({"multi_address_host": name, "addresses": addrs, "holder": holder_api}, True, bool(v[2]), ok, True,
                   sample={"lock_host": name, "addresses": addrs, "contenders": [r["api"] for r in results], "exit_codes": [r["rc"] for r in results]},
                   detail={"what": "the lock host resolves to several addresses: contenders must still be refused while the holder is alive", "results": results, "holder_parked": parked})
    finally:
        rr.close()

def partial_hold_round(ctx, rng, name, addrs, prefix):
    """One address of the lock host is taken by someone else while invocation A starts, and free again when B starts 0.4 s
    later (A, if it acquired, is parked for 1.5 s after acquisition).  A may be refused or may acquire - but A and B can never
    both be past acquisition together: a lock that is content with a subset of its addresses lets each hold a different one."""
    import socket
    for k in range(len(addrs)):
        rr = runscen.RunRepo(ctx, CFG, commands=["build"])
        try:
            full = json.load(open(os.path.join(rr.repo, "Monorail.json")))
            full["server"]["lock"]["host"] = name
            json.dump(full, open(os.path.join(rr.repo, "Monorail.json"), "w"))
            fam = socket.AF_INET6 if ":" in addrs[k] else socket.AF_INET
            foreign = socket.socket(fam, socket.SOCK_STREAM)
            try: foreign.bind((addrs[k], rr.lock_port)); foreign.listen(1)
            except OSError:
                foreign.close(); ctx.count("partial_hold_foreign_bind_failed"); continue
            a_api, b_api = rng.choice(["run", "checkpoint_update"]), next_shape(rng)
            a = spawn(rr, a_api, "after_lock_%s=sleep:1500" % a_api, prefix=prefix)
            time.sleep(0.4)
            foreign.close()
            a_done_early = a.poll() is not None
            b = spawn(rr, b_api, prefix=prefix)
            try: bo, be = b.communicate(timeout=30)
            except subprocess.TimeoutExpired: b.kill(); bo, be = b.communicate()
            a_alive_after_b = a.poll() is None
            try: ao, ae = a.communicate(timeout=60)
            except subprocess.TimeoutExpired: a.kill(); ao, ae = a.communicate()
            a_acq, b_acq = not lock_error(ae), not lock_error(be)
            both = a_acq and b_acq and a_alive_after_b and not a_done_early
            ctx.count("partial_hold_A_%s" % ("acquired" if a_acq else "refused"))
            ctx.record({"multi_address_host": name, "addresses": addrs, "foreign_on": addrs[k], "a": a_api, "b": b_api}, True, not both, not both, True,
                       sample={"lock_host": name, "foreign_listener_on": addrs[k], "A": [a_api, a.returncode, a_acq], "B": [b_api, b.returncode, b_acq]},
                       detail={"what": "two invocations past lock acquisition at the same time, each holding a different address of the one lock host" if both else "ok",
                               "A": {"api": a_api, "rc": a.returncode, "acquired": a_acq, "alive_after_B": a_alive_after_b},
                               "B": {"api": b_api, "rc": b.returncode, "acquired": b_acq}})
        finally:
            rr.close()

def duplicate_address_round(ctx, rng, prefix):
    """A lock host whose one address the resolver lists twice (the name entered twice in the hosts file): with nobody else alive an
    invocation acquires the lock at once; while it holds it, a contender is refused."""
    rr = runscen.RunRepo(ctx, CFG, commands=["build"])
    try:
        set_lock_host(rr, "duphost")
        a_api = rng.choice(["run", "checkpoint_update"])
        a = spawn(rr, a_api, "after_lock_%s=sleep:1200" % a_api, prefix=prefix)
        time.sleep(0.5)
        b = spawn(rr, "checkpoint_update", prefix=prefix)
        try: bo, be = b.communicate(timeout=30)
        except subprocess.TimeoutExpired: b.kill(); bo, be = b.communicate()
        try: ao, ae = a.communicate(timeout=60)
        except subprocess.TimeoutExpired: a.kill(); ao, ae = a.communicate()
        ok = a.returncode == 0 and not lock_error(ae) and b.returncode != 0 and lock_error(be)
        ctx.count("duplicate_address_round")
        ctx.record({"multi_address_host": "duphost", "duplicate_address": True, "a": a_api}, True, ok, ok, True,
                   sample={"lock_host": "duphost (127.0.0.3 listed twice)", "first": [a_api, a.returncode], "contender_rc": b.returncode},
                   detail={"what": "first invocation must acquire (nobody else alive), the contender must be refused", "first": {"api": a_api, "rc": a.returncode, "lock_error": lock_error(ae), "stderr": ae.decode("utf-8", "replace")[-200:]},
                           "contender": {"rc": b.returncode, "lock_error": lock_error(be)}})
    finally:
        rr.close()

def simultaneous_round(ctx, rng, n):
    rr = runscen.RunRepo(ctx, CFG, commands=["build"])
    try:
        apis = [rng.choice(["run", "checkpoint_update", "out_delete"]) for _ in range(n)]
        ps = [spawn(rr, a, "after_lock_%s=sleep:1200" % a) for a in apis]
        res = []
        for a, p in zip(apis, ps):
            try: so, se = p.communicate(timeout=60)
            except subprocess.TimeoutExpired: p.kill(); so, se = p.communicate()
            res.append({"api": a, "rc": p.returncode, "lock_error": lock_error(se)})
        winners = [r for r in res if not r["lock_error"]]
        ok = len(winners) == 1 and all(r["rc"] != 0 for r in res if r["lock_error"])
        w = res.index(winners[0]) if winners else 0
        order = [w] + [i for i in range(n) if i != w]
        v = ctx.model.call("lock", n, [[0, i, 1] for i in order], [i for i, r in enumerate(res) if r["lock_error"]], [])
        ctx.count("simultaneous_%d" % n)
        ctx.record({"simultaneous": n, "apis": apis}, True, bool(v[2]), ok, True,
                   sample={"apis": apis, "exit_codes": [r["rc"] for r in res], "lock_errors": [r["lock_error"] for r in res]},
                   detail={"what": "started together, each parked 1.2 s after acquisition: exactly one may pass", "results": res})
    finally:
        rr.close()

def run(ctx, scale):
    rng = ctx.rng
    rounds = [("run", "exit"), ("checkpoint_update", "sigkill"), ("out_delete", "exit"), ("run", "failure"), ("checkpoint_delete", "exit"), ("run", "sigkill")]
    reps = 1 if ctx.quick() else 10
    for _ in range(reps * scale):
        for api, end in rounds:
            holder_round(ctx, rng, api, rng.randint(2, 6), end)
        for api in (["checkpoint_update", "run"] if ctx.quick() else list(APIS)):
            brief_hold_round(ctx, rng, api, rng.choice([300, 450, 600, 800]))
        for kind in ["sigkill", "sigterm"]:
            orphan_round(ctx, rng, kind)
        multi_address_round(ctx, rng)
        for n in ([3, 5] if ctx.quick() else [3, 4, 5, 6]):
            simultaneous_round(ctx, rng, n)

def replay(ctx, c):
    c = c.get("case", c)
    if "multi_address_host" in c: multi_address_round(ctx, ctx.rng)
    elif "orphan" in c: orphan_round(ctx, ctx.rng, c["orphan"])
    elif "brief_hold" in c: brief_hold_round(ctx, ctx.rng, c["brief_hold"], c["hold_ms"])
    elif "simultaneous" in c: simultaneous_round(ctx, ctx.rng, c["simultaneous"])
    else: holder_round(ctx, ctx.rng, c["holder"], c["contenders"], c["end"])
    return {"spec_failures": [d for _, d in ctx.spec_failures][:3], "disagreements": [d for _, d in ctx.tie_breaks][:3]}
