"""C03 - target groups are a valid dependency layering of every acyclic configuration."""
import graphs
THEOREMS = [("Properties.C03", "C03_holds"), ("Properties.C03", "C03_index_holds"), ("Properties.C03", "C03_prune_holds"), ("AsFound.C03", "C03_as_found_refuted"),
            ("Harness.OracleProof", "valid_layering_b_iff"), ("Harness.OracleProof", "valid_pruned_b_iff"), ("Harness.OracleProof", "cyclic_b_iff")]
CORRESPONDENCE = "Dag::set_subtree_visibility + get_labeled_groups / Index::new / analyze pruning == Model.Dag.api_groups, Harness.Glue.model_index_groups"
LEVEL_NOTE = ("Coq theorem C03_holds (graph level, unbounded): for every well-formed adjacency list and root set from which no cycle is "
              "reachable, the model of set_subtree_visibility* + get_labeled_groups returns Ok with groups that are duplicate-free, cover exactly "
              "the nodes reachable from the roots, are non-empty, and put every node strictly after each of its dependencies (proved via the "
              "in-degree invariant of Kahn's algorithm and the BFS-marks-the-closure lemma; no fuel exhaustion, no usize underflow). "
              "Tied to src/core/graph.rs, Index::new and the pruning loop of analyze by hooks verif::dag_groups / index_groups / analyze.")
TRUSTED = ["Coq 8.16.1 kernel; no axioms (closed under the global context)",
           "extraction (ExtrOcamlBasic) + ocaml/vmodel.ml; Harness/Glue.v decoders; the decidable oracles valid_layering_b, valid_pruned_b and cyclic_b are proved equivalent to valid_layering / valid_pruned / cyclic_from (Harness/OracleProof.v), so the specification verdict computed on the implementation's output is the Prop-level statement",
           "hooks src/verif.rs; HashMap/HashSet/VecDeque of the Rust std lib modelled as lists",
           
           "modelled, not verified: the Rust source itself"]
RULE = ("exhaustive digraphs on <=3 nodes x all root subsets (thorough: + all loop-free 4-node digraphs), random DAGs up to 60 nodes with planted "
        "diamonds/redundant edges and random relabelling, generated configurations with random visible subsets, analyze --target-groups with and "
        "without changes; in scope = acyclic from the roots; non-trivial = in scope with >=2 edges (graphs), >=3 targets and a uses edge (configs), "
        ">=2 groups (analyze); distinct by input")
def run(ctx, scale): graphs.run(ctx, scale, False)
def replay(ctx, case): return graphs.replay(ctx, case, False)
def shrink(ctx, case, detail): return graphs.shrink(ctx, case, detail, False)
