import schedscen
from props.sched_meta import *
THEOREMS = THEOREMS_C06; LEVEL_NOTE = NOTE_C06; RULE = RULE_C06; CORRESPONDENCE = CORR
def run(ctx, scale): schedscen.run(ctx, scale, "C06")
def replay(ctx, case): return schedscen.replay(ctx, case, "C06")
