"""C02 - the reported change set is exactly the difference from the checkpoint."""
import gitscen
THEOREMS = [("Properties.C02", "C02_holds"), ("AsFound.C02", "C02_as_found_refuted")]
CORRESPONDENCE = "monorail analyze --changes [--begin/--end] on a real git repository == Model.Git.all_changes_opts on the observed repository state"
LEVEL_NOTE = ("Coq theorem C02_holds over an abstract repository state (any paths/contents, injective sha): a path is reported iff it differs between the "
              "checkpoint commit and the working tree (or between --begin and --end) or is untracked and not ignored, and its current checksum is not the one "
              "recorded in a non-empty pending map; a move is a deletion plus a creation. Partial by construction: git's own diff machinery is modelled "
              "(diff1/diff2/others), and that model is validated against real git 2.39 on every run: after every operation of a generated history the repository "
              "state is observed from git (ls-tree, ls-files, file contents) and the CLI's output is compared with the extracted model; names with spaces, "
              "quotes, backslashes, tabs and non-ASCII characters must come back verbatim and sorted.")
TRUSTED = ["Coq 8.16.1 kernel; no axioms", "extraction + vmodel; Harness/Glue.v check_git_changes (concrete instance: contents are content ids, sha = Some)",
           "SHA-256 collision-free on the contents met and never the empty string (Section hypotheses sha_inj, sha_nonempty)",
           "git 2.39 diff --name-only / ls-files --others --exclude-standard / rev-parse behave as diff1/diff2/others (validated by the correspondence, not proved)",
           "gitignore limited to whole directories (monorail-out, ign/); zstd + serde_json round trip of the checkpoint file",
           "modelled, not verified: the Rust source (src/core/git.rs, file.rs, tracking.rs)"]
RULE = ("generated histories (write/modify/delete/mv/git mv/add/add -A/rm --cached/commit, checkpoint update with and without --id/--pending) over a name pool "
        "with odd characters; after each operation analyze --changes with no range / --begin / --begin --end / --end; non-trivial = >=2 reported paths and a pending map "
        "or a range in play; one history in five adds 260-410 files with mostly multi-byte names (untracked, then committed: each git list is tens of kilobytes long); revisions named by a tag "
        "that is also a root file, a root file named HEAD; the reported list must be strictly sorted (each path once); distinct by operation trail")
def run(ctx, scale): gitscen.run(ctx, scale, "C02")
def replay(ctx, case): return gitscen.replay(ctx, case, "C02")
