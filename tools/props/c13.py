"""C13 - a crash during `run` never damages previously recorded state."""
import hashlib, json, os, re, signal, subprocess, time
import vlib, runscen

THEOREMS = [("Properties.C13", "C13_holds"), ("Properties.C13", "C13_any_limit_holds"), ("AsFound.C13", "C13_as_found_refuted'")]
CORRESPONDENCE = "monorail run killed at guarded points / by SIGKILL == Model.Tracking.crash (every strict prefix of run_ops)"
LEVEL_NOTE = ("Coq theorem C13_holds (every M >= 2, every healthy store, every strict prefix of a run's file-system effects): result show / log show are unchanged, the "
              "store stays healthy, the next run uses the same slot and every other retained run is untouched; the checkpoint is not among a run's effects. C13_any_limit_holds: the same for a store left by runs that each ran under their own max_retained_runs (the pointer may name a slot above the present limit), tied by scenarios that lower the limit under the pointer before the crash. Partial: "
              "file-system atomicity (rename(2), invisibility of a killed process's partial writes to other files) is assumed. Tied to the code by killing the real "
              "binary at every guarded point (verif::point abort) and by SIGKILL at random times while children run, then checking result show, log show, checkpoint show, "
              "the on-disk state against the model, and that a fresh run succeeds; and, without any hook, by killing the run (strace signal injection) at the k-th "
              "rename / fsync / mkdir / unlinkat / openat / write call of each of its threads for every k until a run gets through, plus - because strace counts per thread and the end of a run may execute on any worker thread - the first calls that name the pointer file, its temporary, the next slot and its result file (-P path); about 80 crash points per history; a kill that lands after the run has recorded itself completely counts as a completed run.")
TRUSTED = ["Coq 8.16.1 kernel; no axioms", "POSIX rename is atomic; a killed process's partial writes to a new file are invisible to readers of other files",
           "hooks: verif::point call sites (guarded) and the harness's SIGKILL timing", "strace 6.1 (-f -b execve -e inject=<call>:signal=SIGKILL:when=k; counts are per call name and thread); skipped and counted when ptrace is unavailable", "modelled, not verified: the Rust source"]
RULE = ("M in {2,3} with 1..M+1 completed runs, and M in {10,11} (thorough: 10,11,12,20) with exactly M completed runs so that the crash hits the wrap-around from slot M to slot 1; a checkpoint, then one run killed at each guarded point (slot set-up, before/after the result file, inside the pointer save, "
        "during execution between compressor shutdown messages) or by SIGKILL after a random delay while children sleep; non-trivial = a completed run existed before the crash; "
        "plus one syscall-level crash sweep per run of the check (thorough: four); plus max_retained_runs lowered under the pointer before the crash (5->3 after 4 runs, 4->2 after 4; thorough: six such); distinct by (M, history length, crash point)")

CFG = {"targets": [{"path": "libs/a"}, {"path": "libs/b", "uses": ["libs/a"]}, {"path": "app", "uses": ["libs/b"]}]}
POINTS = ["after_lock_run", "run_after_slot_setup", "compressor_between_shutdowns", "compressor_before_join", "run_before_store_result",
          "run_after_store_result", "run_save_after_truncate", "run_save_before_rename"]

def observe(rr, ids, M):
    slots = rr.slots(); ptr = rr.pointer()
    obs_slots = []
    for i in range(M + 3):
        if i in slots:
            sl = slots[i]
            ls = sorted(ids.setdefault(("log", p, hashlib.sha1(d or b"").hexdigest()), len(ids) + 1) for p, d in sl["logs"].items())
            res = [] if sl["result"] is None else [ids.setdefault(("result", json.dumps(runscen.strip_result(sl["result"]), sort_keys=True)), len(ids) + 1)]
            obs_slots.append([ls, res])
        else:
            obs_slots.append([])
    return [[] if ptr is None else [0] if ptr == "corrupt" else [1, ptr], obs_slots], slots, ptr

def scenario(ctx, rng, M, n_done, crash):
    rr = runscen.RunRepo(ctx, CFG, M=M, commands=["build", "test"])
    ids, recs = {}, []
    last_doc = None
    try:
        rc, cp0, _, _ = vlib.monorail(rr.repo, "checkpoint", "update")
        for n in range(n_done):
            rc, out, err, raw = rr.run("-c", *rng.sample(["build", "test"], rng.randint(1, 2)))
            if rc != 0 or out is None:
                ctx.record({"M": M, "what": "set-up run failed"}, True, False, False, False, detail={"rc": rc, "err": err}); return
            last_doc = out
            obs, slots, ptr = observe(rr, ids, M)
            recs.append([obs[1][ptr][0], obs[1][ptr][1][0]])
        rc, cp_before, _, _ = vlib.monorail(rr.repo, "checkpoint", "show")
        before_obs, _, _ = observe(rr, ids, M)
        # the crashing run
        rr.script = {"*": {"sleep_ms": 250 if crash == "sigkill" else 0}}; rr.write_script()
        rr.run_no += 1; rr.clear_traces()
        env = dict(os.environ); env.update(vlib.GIT_ENV); env.update(rr.env())
        if crash != "sigkill":
            env["MONORAIL_VERIF_POINTS"] = "%s=abort:1" % crash
        p = subprocess.Popen([vlib.BIN_MONORAIL, "-f", os.path.join(rr.repo, "Monorail.json"), "run", "-c", "build", "test"],
                             cwd=rr.repo, env=env, stdout=subprocess.PIPE, stderr=subprocess.PIPE)
        if crash == "sigkill":
            time.sleep(rng.random() * 0.6)
            p.send_signal(signal.SIGKILL)
        try:
            so, se = p.communicate(timeout=60)
        except subprocess.TimeoutExpired:
            p.kill(); so, se = p.communicate()
        killed = p.returncode < 0
        time.sleep(0.35 if crash == "sigkill" else 0.05)      # let orphaned children finish
        case = {"M": M, "completed_runs": n_done, "crash": crash}
        if not killed:
            # the point was not reached (e.g. a save point that no longer exists): the run simply completed
            ctx.count("point_not_reached_" + crash)
            if p.returncode == 0:
                obs, slots, ptr = observe(rr, ids, M); recs.append([obs[1][ptr][0], obs[1][ptr][1][0]])
                try: last_doc = json.loads(so.decode().strip().splitlines()[-1])
                except Exception: pass
        else:
            ctx.count("killed_at_" + crash)
            obs, slots, ptr = observe(rr, ids, M)
            v = ctx.model.call("crash", M, recs, [[], 0], obs)
            agree, spec = bool(v[2]), bool(v[3])
            rc2, shown, err2, _ = vlib.monorail(rr.repo, "result", "show")
            if last_doc is None:
                ok_show = rc2 != 0 and (err2 or {}).get("type") in ("tracking_log_info_not_found",)
            else:
                ok_show = rc2 == 0 and runscen.strip_result(shown) == runscen.strip_result(last_doc)
            rcl, _, errl, rawl = vlib.monorail(rr.repo, "log", "show", "--stdout", "--stderr")
            nums = set(int(x) for x in re.findall(rb"^run=(\d+) ", rawl.stdout, flags=re.M))
            ok_log = (rcl == 0 and nums <= {n_done}) if last_doc is not None else rcl != 0
            rc3, cp_after, _, _ = vlib.monorail(rr.repo, "checkpoint", "show")
            ok_cp = cp_after is not None and cp_before is not None and cp_after.get("checkpoint") == cp_before.get("checkpoint")
            ok = spec and ok_show and ok_log and ok_cp
            ctx.record(case, True, agree, ok, n_done >= 1,
                       sample={"M": M, "completed_runs": n_done, "crash": crash, "pointer_after": ptr} if n_done >= 1 else None,
                       detail={"model_agrees": agree, "state_ok": spec, "ok_show": ok_show, "show_err": err2, "ok_log": ok_log, "log_rc": rcl, "ok_cp": ok_cp, "pointer": ptr})
        # the next run must succeed normally - also when it is a DIFFERENT invocation than the one that crashed: nothing the crashed
        # run left in the slot may survive into it (its logs are exactly the new run's, `log show` works and shows only the new run)
        rr.script = {"*": {}}; rr.write_script()
        next_cmds = rng.choice([["build"], ["test"], ["build", "test"]])
        next_args = ["-c"] + next_cmds + (["-t", rng.choice(["libs/a", "app"])] if rng.random() < 0.5 else [])
        rc, out, err, raw = rr.run(*next_args)
        ok_next = rc == 0 and out is not None and not out.get("failed")
        leftovers, foreign, log_rc, markers = [], [], None, []
        if ok_next:
            obs, slots, ptr = observe(rr, ids, M)
            planned = set()
            for cmd, groups in runscen.result_statuses(out):
                for g in groups:
                    for t in g:
                        for sfile in ("stdout.zst", "stderr.zst"): planned.add(os.path.join(cmd, runscen.thash(t), sfile))
            cur = slots.get(ptr, {"logs": {}, "result": None})
            leftovers = [p for p in cur["logs"] if p not in planned]
            foreign = [p for p, d in cur["logs"].items() if d and not d.startswith(b"run=%d " % rr.run_no)]
            rcl, _, _, rawl = vlib.monorail(rr.repo, "log", "show", "--stdout", "--stderr")
            log_rc = rcl; markers = sorted(set(int(x) for x in re.findall(rb"^run=(\d+) ", rawl.stdout, flags=re.M)))
            recs.append([obs[1][ptr][0], obs[1][ptr][1][0]])
            v = ctx.model.call("tracking", M, recs, obs)
            ok_next = bool(v[3]) and not leftovers and not foreign and rcl == 0 and set(markers) <= {rr.run_no}; agree2 = bool(v[2])
        else:
            agree2 = False
        ctx.record(dict(case, what="next run after the crash", next_args=next_args), True, agree2, ok_next, True,
                   detail={"rc": rc, "err": err, "what": "the run after the crash must succeed and satisfy C12: only its own files in the slot, log show works",
                           "leftover_files": leftovers[:4], "foreign_content": foreign[:4], "log_show_rc": log_rc, "log_show_markers": markers})
    finally:
        rr.close()

def lowered_limit_scenario(ctx, rng, M0, k, M1, crash):
    """max_retained_runs is lowered (M0 -> M1, 2 <= M1 < k <= M0) after k completed runs, so the pointer names a slot above the present
    limit; then a run is killed.  The last completed run must still be what result show / log show return (C13_any_limit_holds)."""
    rr = runscen.RunRepo(ctx, CFG, M=M0, commands=["build", "test"])
    ids, hist, last_doc = {}, [], None
    try:
        vlib.monorail(rr.repo, "checkpoint", "update")
        for n in range(k):
            rc, out, err, raw = rr.run("-c", *rng.sample(["build", "test"], rng.randint(1, 2)))
            if rc != 0 or out is None:
                ctx.record({"M": M0, "what": "set-up run failed"}, True, False, False, False, detail={"rc": rc, "err": err}); return
            last_doc = out
            obs, slots, ptr = observe(rr, ids, M0)
            hist.append([M0, [obs[1][ptr][0], obs[1][ptr][1][0]]])
        rc, cp_before, _, _ = vlib.monorail(rr.repo, "checkpoint", "show")
        cfgp = os.path.join(rr.repo, "Monorail.json")
        full = json.load(open(cfgp)); full["max_retained_runs"] = M1; json.dump(full, open(cfgp, "w"))
        rr.script = {"*": {"sleep_ms": 250 if crash == "sigkill" else 0}}; rr.write_script()
        rr.run_no += 1; rr.clear_traces()
        env = dict(os.environ); env.update(vlib.GIT_ENV); env.update(rr.env())
        if crash != "sigkill": env["MONORAIL_VERIF_POINTS"] = "%s=abort:1" % crash
        p = subprocess.Popen([vlib.BIN_MONORAIL, "-f", cfgp, "run", "-c", "build", "test"], cwd=rr.repo, env=env, stdout=subprocess.PIPE, stderr=subprocess.PIPE)
        if crash == "sigkill":
            time.sleep(0.05 + rng.random() * 0.5); p.send_signal(signal.SIGKILL)
        try: so, se = p.communicate(timeout=60)
        except subprocess.TimeoutExpired: p.kill(); so, se = p.communicate()
        time.sleep(0.35 if crash == "sigkill" else 0.05)
        case = {"lowered_limit": [M0, M1], "completed_runs": k, "crash": crash}
        if p.returncode >= 0:
            ctx.count("lowered_limit_point_not_reached"); return
        obs, slots, ptr = observe(rr, ids, M0)
        v = ctx.model.call("crash_var", M0, hist, M1, [[], 0], obs)
        rc2, shown, err2, _ = vlib.monorail(rr.repo, "result", "show")
        ok_show = rc2 == 0 and runscen.strip_result(shown) == runscen.strip_result(last_doc)
        rcl, _, _, rawl = vlib.monorail(rr.repo, "log", "show", "--stdout", "--stderr")
        nums = set(int(x) for x in re.findall(rb"^run=(\d+) ", rawl.stdout, flags=re.M))
        ok_log = rcl == 0 and nums <= {k}
        rc3, cp_after, _, _ = vlib.monorail(rr.repo, "checkpoint", "show")
        ok_cp = cp_after is not None and cp_before is not None and cp_after.get("checkpoint") == cp_before.get("checkpoint")
        ok = bool(v[3]) and ok_show and ok_log and ok_cp
        ctx.count("lowered_limit_killed_at_" + crash)
        ctx.record(case, True, bool(v[2]), ok, True, sample={"limit": [M0, M1], "completed_runs": k, "crash": crash, "pointer_after": ptr},
                   detail={"model_agrees": bool(v[2]), "state_ok": bool(v[3]), "ok_show": ok_show, "show_err": err2, "ok_log": ok_log, "ok_cp": ok_cp, "pointer": ptr})
        rr.script = {"*": {}}; rr.write_script()
        rc, out, err, raw = rr.run("-c", "build")
        rc4, shown2, _, _ = vlib.monorail(rr.repo, "result", "show")
        ok_next = rc == 0 and out is not None and not out.get("failed") and rc4 == 0 and runscen.strip_result(shown2) == runscen.strip_result(out)
        ctx.record(dict(case, what="next run after the crash"), True, ok_next, ok_next, True, detail={"rc": rc, "err": err, "show_rc": rc4})
    finally:
        rr.close()

import shutil
STRACE = shutil.which("strace")
FILE_CALLS = "%file,fsync,fdatasync,ftruncate"
# strace counts `when=k` per system call NAME (and per thread), so each name is swept on its own
SWEEP_CALLS = ["rename", "renameat2", "fsync", "fdatasync", "ftruncate", "mkdir", "mkdirat", "rmdir", "unlink", "unlinkat", "openat", "write"]

def syscall_sweep(ctx, rng, M, n_done, step=1, cap=80):
    """Crash points without hooks: the run is killed (SIGKILL, injected by strace) at the k-th call of one file-system system call (rename,
    openat, mkdir, unlinkat, fsync, write, ...) by one of its threads, for every such call name and k = 1, 2, 3, ... until a run gets through.  After every such crash: result show, log show and the checkpoint are what
    they were, the on-disk state is one the model allows, and (every few k) a fresh run succeeds."""
    quick_write_skip = ctx.quick()
    if not STRACE:
        ctx.count("strace_unavailable"); return
    rr = runscen.RunRepo(ctx, CFG, M=M, commands=["build", "test"])
    ids, recs, last_doc, last_no = {}, [], None, None
    try:
        rc, cp0, _, _ = vlib.monorail(rr.repo, "checkpoint", "update")
        def completed_run(*args):
            nonlocal last_doc, last_no
            rc, out, err, raw = rr.run(*args)
            if rc != 0 or out is None: return False
            last_doc, last_no = out, rr.run_no
            obs, slots, ptr = observe(rr, ids, M); recs.append([obs[1][ptr][0], obs[1][ptr][1][0]])
            return True
        for _ in range(n_done):
            if not completed_run("-c", *rng.sample(["build", "test"], rng.randint(1, 2))):
                ctx.record({"sweep": "syscall", "M": M}, True, False, False, False, detail={"what": "set-up run failed"}); return
        rc, cp_before, _, _ = vlib.monorail(rr.repo, "checkpoint", "show")
        killed_n, bad, per_name = 0, [], {}
        # strace counts per thread as well, and the end of a run (result file, pointer) may execute on any worker thread, where those calls
        # are that thread's first few: they are addressed by PATH instead (-P restricts matching to calls naming that file)
        out_dir = rr.out_dir()
        def targeted():
            for rel in ("tracking/run.json.tmp", "tracking/run.json", "run/@next/result.json.zst", "run/@next"):
                for nm in ("openat", "rename", "mkdir", "unlinkat", "rmdir", "write", "copy_file_range", "sendfile", "ftruncate"):
                    for kk in (1, 2, 3): yield (nm, kk, rel)
        for name, k, rel in [(nm, kk, None) for nm in SWEEP_CALLS for kk in range(1, cap + 1)] + list(targeted()):
            key = name if rel is None else "%s@%s" % (name, rel)
            if per_name.get(key, {}).get("done") or len(bad) >= 3: continue
            st_ = per_name.setdefault(key, {"through": 0, "killed": 0, "done": False})
            if name == "write" and quick_write_skip and k % 2 == 0: continue
            path_args = []
            if rel is not None:
                cur_ptr = rr.pointer(); nxt = (cur_ptr % M) + 1 if isinstance(cur_ptr, int) else 1
                path_args = ["-P", os.path.join(out_dir, rel.replace("@next", str(nxt)))]
            rr.run_no += 1; rr.clear_traces()
            env = dict(os.environ); env.update(vlib.GIT_ENV); env.update(rr.env())
            p = subprocess.run([STRACE, "-f", "-b", "execve", "-o", "/dev/null"] + path_args + ["-e", "trace=" + name, "-e", "inject=%s:signal=SIGKILL:when=%d" % (name, k),
                                vlib.BIN_MONORAIL, "-f", os.path.join(rr.repo, "Monorail.json"), "run", "-c", "build", "test"], cwd=rr.repo, env=env, capture_output=True, timeout=120)
            if p.returncode in (137, -9):
                killed_n += 1; st_["through"] = 0; st_["killed"] += 1
                time.sleep(0.05)
                obs, slots, ptr = observe(rr, ids, M)
                v = ctx.model.call("crash", M, recs, [[], 0], obs)
                rc2, shown, err2, _ = vlib.monorail(rr.repo, "result", "show")
                rcl, _, _, rawl = vlib.monorail(rr.repo, "log", "show", "--stdout", "--stderr")
                nums = set(int(x) for x in re.findall(rb"^run=(\d+) ", rawl.stdout, flags=re.M))
                rc3, cp_after, _, _ = vlib.monorail(rr.repo, "checkpoint", "show")
                ok_cp = cp_after is not None and cp_before is not None and cp_after.get("checkpoint") == cp_before.get("checkpoint")
                # the kill may also land AFTER the run has recorded itself completely (e.g. while it prints its report): then it is simply
                # the latest completed run - the pointer names its slot, the slot holds its result, show / log show return that run
                cur = slots.get(ptr) if isinstance(ptr, int) else None
                if cur and cur["result"] not in (None, "corrupt") and cur["logs"] and all(d is None or d == b"" or d.startswith(b"run=%d " % rr.run_no) for d in cur["logs"].values()) \
                   and any(d and d.startswith(b"run=%d " % rr.run_no) for d in cur["logs"].values()):
                    recs2 = recs + [[obs[1][ptr][0], obs[1][ptr][1][0]]]
                    v2 = ctx.model.call("tracking", M, recs2, obs)
                    if bool(v2[3]) and rc2 == 0 and runscen.strip_result(shown) == runscen.strip_result(cur["result"]) and rcl == 0 and nums <= {rr.run_no} and ok_cp:
                        recs.append(recs2[-1]); last_doc, last_no = cur["result"], rr.run_no
                        st_["recorded_fully"] = st_.get("recorded_fully", 0) + 1
                        continue
                ok_show = (rc2 == 0 and runscen.strip_result(shown) == runscen.strip_result(last_doc)) if last_doc is not None else rc2 != 0
                ok_log = (rcl == 0 and nums <= {last_no}) if last_doc is not None else rcl != 0
                ok = bool(v[3]) and ok_show and ok_log and ok_cp
                if not (ok and bool(v[2])):
                    bad.append({"call": key, "k": k, "state_ok": bool(v[3]), "model_agrees": bool(v[2]), "ok_show": ok_show, "ok_log": ok_log, "ok_cp": ok_cp, "pointer": ptr})
                if killed_n % 8 == 0 and not completed_run("-c", "build"):
                    bad.append({"call": name, "k": k, "what": "the run after the crash failed"})
            elif p.returncode in (0, 1):
                st_["through"] += 1
                if st_["through"] >= 2 or st_["killed"] == 0: st_["done"] = True      # no thread makes that many calls of this name
                try: last_doc = json.loads(p.stdout.decode().strip().splitlines()[-1]); last_no = rr.run_no
                except Exception: pass
                obs, slots, ptr = observe(rr, ids, M); recs.append([obs[1][ptr][0], obs[1][ptr][1][0]])
            elif b'"kind":"error"' in p.stderr or b'"kind": "error"' in p.stderr:
                # monorail itself refused to run (exit 2 with an error object): after the crashes so far the store is in a state the next run cannot
                # start from - that is damage, not a tracing problem
                bad.append({"call": key, "k": k, "what": "the run after the crashes so far failed to start", "rc": p.returncode, "stderr": p.stderr.decode("utf-8", "replace")[-200:], "pointer": rr.pointer()})
                break
            else:
                # strace could not trace (no ptrace permission): nothing learnt
                ctx.count("strace_unusable"); ctx.notes.append("strace injection unusable: rc=%s %s" % (p.returncode, p.stderr.decode("utf-8", "replace")[-120:])); return
        ctx.count("syscall_crash_points", killed_n)
        for nm, st_ in per_name.items():
            if st_["killed"]: ctx.count("crash_points_at_" + nm.replace("/", "_"), st_["killed"])
        ok = not bad
        ctx.record({"sweep": "syscall", "M": M, "completed_runs": n_done, "step": step}, True, ok and all(b.get("model_agrees", True) for b in bad), ok, killed_n > 0,
                   sample={"crash_points_tried": killed_n, "per_call": {nm: st_["killed"] for nm, st_ in per_name.items() if st_["killed"]}, "M": M},
                   detail={"what": "SIGKILL on entry to the k-th file-system call of a thread of `run`", "crash_points_tried": killed_n, "failures": bad})
    finally:
        rr.close()

def run(ctx, scale):
    import random
    rng = ctx.rng
    reps = 1 if ctx.quick() else 12
    for _ in range(reps * scale):
        for crash in POINTS + ["sigkill"] * (3 if ctx.quick() else 6):
            M = rng.choice([2, 3])
            n_done = rng.choice([0, 1, 2, M, M + 1]) if not ctx.quick() else rng.choice([1, 2, M + 1])
            scenario(ctx, random.Random(rng.getrandbits(32)), M, n_done, crash)
    # two-digit slot numbers (the default max_retained_runs is 10): the crash comes exactly where the slot number wraps from M to 1
    for M, crash in ([(10, "run_after_slot_setup"), (11, "sigkill")] if ctx.quick() else [(10, "run_after_slot_setup"), (10, "sigkill"), (11, "run_after_slot_setup"), (12, "run_before_store_result"), (20, "run_after_slot_setup")]) * scale:
        scenario(ctx, random.Random(rng.getrandbits(32)), M, M, crash)
    # three-digit retention (no wrap-around in reach: the point is the slot naming and the model's range)
    scenario(ctx, random.Random(rng.getrandbits(32)), 100, 2, "run_before_store_result")
    # max_retained_runs lowered under the pointer, then a crash
    for M0, k, M1, crash in ([(5, 4, 3, "run_after_slot_setup"), (4, 4, 2, "sigkill")] if ctx.quick() else
                             [(5, 4, 3, "run_after_slot_setup"), (4, 4, 2, "sigkill"), (10, 7, 2, "run_before_store_result"), (6, 5, 4, "run_save_before_rename"), (3, 3, 2, "compressor_before_join"), (12, 11, 10, "sigkill")]) * scale:
        lowered_limit_scenario(ctx, random.Random(rng.getrandbits(32)), M0, k, M1, crash)
    # every file-system call of the run as a crash point (strace injection; no hooks involved)
    for M, n_done in ([(2, 2)] if ctx.quick() else [(2, 1), (2, 2), (3, 4), (10, 10)]) * scale:
        syscall_sweep(ctx, random.Random(rng.getrandbits(32)), M, n_done)
    # one history with no completed run at all
    scenario(ctx, random.Random(rng.getrandbits(32)), 2, 0, "run_save_after_truncate")
    scenario(ctx, random.Random(rng.getrandbits(32)), 2, 0, "run_after_slot_setup")

def replay(ctx, case):
    import random
    c = case.get("case", case)
    if "lowered_limit" in c:
        lowered_limit_scenario(ctx, random.Random(ctx.seed), c["lowered_limit"][0], c["completed_runs"], c["lowered_limit"][1], c["crash"])
        return {"spec_failures": [d for _, d in ctx.spec_failures][:3], "disagreements": [d for _, d in ctx.tie_breaks][:3]}
    if c.get("sweep") == "syscall":
        syscall_sweep(ctx, random.Random(ctx.seed), c.get("M", 2), c.get("completed_runs", 2), c.get("step", 1))
        return {"spec_failures": [d for _, d in ctx.spec_failures][:3], "disagreements": [d for _, d in ctx.tie_breaks][:3]}
    scenario(ctx, random.Random(ctx.seed), c["M"], c["completed_runs"], c["crash"])
    return {"spec_failures": [d for _, d in ctx.spec_failures][:3], "disagreements": [d for _, d in ctx.tie_breaks][:3]}
