"""C07 - after `checkpoint update -p` nothing is changed; later edits re-flag exactly."""
import gitscen
THEOREMS = [("Properties.C07", "C07_holds"), ("AsFound.C07", "C07_as_found_refuted")]
CORRESPONDENCE = "checkpoint update --pending then analyze on a real git repository == Model.Git.update_p / all_changes"
LEVEL_NOTE = ("Coq theorem C07_holds: for every repository state and every previously stored pending map, the changes computed against the checkpoint that "
              "`update --pending` produces are empty (so no targets and an empty plan); in any later state a path whose content/absence differs from the commit and "
              "from its state at update time is reported, whatever an earlier update had recorded, and an unchanged tracked path is not. Needs SHA-256 injective and never ''. Tied by real-git scenarios: update -p "
              "in dirty states (staged, unstaged, untracked, deleted, moved), then novel creations/modifications/deletions, which must be exactly the reported "
              "changes and (through C01's model) exactly the reported targets, then a further update which must clear them.")
TRUSTED = ["Coq 8.16.1 kernel; no axioms", "SHA-256 idealised (sha_inj, sha_nonempty)", "git modelled as in C02 and validated against real git by the same runs",
           "'run executes nothing' follows from the empty target list through C05's plan model; the run itself is exercised by C05's scenarios",
           "modelled, not verified: the Rust source (src/app/checkpoint.rs, src/core/git.rs, file.rs)"]
RULE = ("histories as in C02, with rounds of: 0-3 random operations, update --pending, analyze must be empty, 1-4 novel edits (create / modify to fresh content / "
        "delete a committed tracked file) each followed by analyze (reported = edited set; targets = C01 model of them), update --pending, analyze empty; "
        "non-trivial = a pending map was recorded or a re-flag comparison was made; distinct by trail")
def run(ctx, scale): gitscen.run(ctx, scale, "C07")
def replay(ctx, case): return gitscen.replay(ctx, case, "C07")
