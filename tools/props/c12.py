"""C12 - latest-run addressing and bounded retention hold over any run history."""
import hashlib, json, os, re, subprocess, time
import vlib, runscen

THEOREMS = [("Properties.C12", "C12_holds"), ("Properties.C12", "C12_invocations_holds"), ("Properties.C12", "C12_confinement_holds"), ("AsFound.C12", "C12_as_found_refuted"), ("AsFound.C12", "C12_confinement_as_found_refuted")]
CORRESPONDENCE = "monorail run histories (pointer file, run/<id> directories, result show, log show [--id]) == Model.Tracking.history"
LEVEL_NOTE = ("Coq theorem C12_holds (every max_retained_runs >= 1, every history length): after the completed runs r1..rk the pointer addresses slot ((k-1) mod M)+1, "
              "that slot holds exactly rk's log files and result (wipe-then-create), each of the last min(k,M) runs is intact in its slot, and no slot outside 1..M exists. "
              "Tied to src/app/run.rs / tracking.rs / result.rs / log.rs by real run histories of 3M+2 runs with different commands, targets and outcomes per run: after "
              "every run the on-disk state (pointer, every slot's decoded files) is compared with the extracted model and result show / log show [--id N] are checked against it. C12_invocations_holds states the same over every sequence of invocations "
              "(completed runs and rejected ones in any order); AsFound/C12.v refutes it for the pinned commit's slot wipe before validation.")
TRUSTED = ["Coq 8.16.1 kernel; no axioms", "extraction + vmodel; Harness/Glue.v check_tracking", "zstd decoding of stored files by the zstd crate in the harness",
           "modelled, not verified: the Rust source"]
RULE = ("M in {1,2,3,5} and two-digit M (10; thorough 10,11,12); 3M+2 runs per history, each with a random non-empty subset of 3 commands, explicit targets or all targets, sometimes a failing or undefined command, an aborted invocation in between (20%), an invocation that monorail rejects before executing anything (25%: unknown target / sequence, --args with two commands, invalid argmap, command names ../7, ../1/build, x/y - exit 2, store and every retained run as before), or another (quick) `run` attempted while the run executes; "
        "non-trivial = history step at which some slot has been reused (run number > M) or a failure occurred; distinct by (M, step, invocation)")

CFG = {"targets": [{"path": "libs/a"}, {"path": "libs/b", "uses": ["libs/a"]}, {"path": "app", "uses": ["libs/b/src"]}, {"path": "tools"}]}
CMDS = ["build", "test", "lint"]

def intern(table, key):
    return table.setdefault(key, len(table) + 1)

WIDE = {"targets": [{"path": "w/t%03d" % i} for i in range(330)]}     # one run over all of them stores a result record of ~17 KB (compressed)

def observed(ids, slots, ptr, M):
    obs_slots = []
    for i in range(M + 3):
        if i in slots:
            sl = slots[i]
            ls = sorted(intern(ids, ("log", p, hashlib.sha1(d or b"").hexdigest())) for p, d in sl["logs"].items())
            res = [] if sl["result"] is None else [intern(ids, ("result", json.dumps(runscen.strip_result(sl["result"]), sort_keys=True)))]
            obs_slots.append([ls, res])
        else:
            obs_slots.append([])
    return [[] if ptr is None else [0] if ptr == "corrupt" else [1, ptr], obs_slots]

def retained_shown(rr, slots, run_nos, n, M):
    """log show --id N for every retained run (the last min(n, M) completed ones) and plain log show for the latest"""
    why = None
    for back in range(0, min(n, M)):
        m = n - back; sid = (m - 1) % M + 1; m_no = run_nos[m - 1]
        rcl, _, _, rawl = vlib.monorail(rr.repo, "log", "show", "--id", str(sid), "--stdout", "--stderr")
        nums = set(int(x) for x in re.findall(rb"^run=(\d+) ", rawl.stdout, flags=re.M))
        want_nonempty = any(d for d in slots.get(sid, {"logs": {}})["logs"].values())
        if rcl != 0 or (nums - {m_no}) or (want_nonempty and m_no not in nums):
            why = {"id": sid, "run": m, "marker": m_no, "rc": rcl, "saw_markers": sorted(nums)}
    if n >= 1:
        rcl, _, _, rawl = vlib.monorail(rr.repo, "log", "show", "--stdout", "--stderr")
        nums = set(int(x) for x in re.findall(rb"^run=(\d+) ", rawl.stdout, flags=re.M))
        if rcl != 0 or (nums - {run_nos[n - 1]}): why = {"latest": True, "rc": rcl, "saw_markers": sorted(nums)}
    return why

REJECTED = {"unknown_target": ["-c", "build", "-t", "no/such/target"], "unknown_sequence": ["-s", "nosuchsequence"],
            "args_with_two_commands": ["-c", "build", "test", "-t", "tools", "--args", "x"], "invalid_argmap": ["-c", "build", "-t", "tools", "--argmaps", "broken"],
            # command names that would leave the run slot or nest inside it (the name is the log directory's name)
            "command_name_leaves_slot": ["-c", "../7", "-t", "tools"], "command_name_into_other_slot": ["-c", "build", "../1/build", "-t", "tools"],
            "command_name_with_slash": ["-c", "x/y", "-t", "tools"]}

def rejected_invocation(ctx, rng, rr, ids, recs, run_nos, M, last_doc):
    """An invocation that monorail rejects (exit 2, nothing executed) is not a run: every retained run stays exactly as it was."""
    kind = rng.choice(sorted(REJECTED))
    os.makedirs(os.path.join(rr.repo, "tools", "monorail", "argmap"), exist_ok=True)
    open(os.path.join(rr.repo, "tools", "monorail", "argmap", "broken.json"), "w").write("{ this is not JSON")
    no = rr.run_no
    rc, out, err, raw = rr.run(*REJECTED[kind])
    started = rr.traces()
    rr.run_no = no
    slots = rr.slots(); ptr = rr.pointer()
    v = ctx.model.call("tracking", M, recs, observed(ids, slots, ptr, M))
    n = len(recs)
    why = retained_shown(rr, slots, run_nos, n, M)
    rc2, shown, err2, _ = vlib.monorail(rr.repo, "result", "show")
    ok_show = (rc2 == 0 and runscen.strip_result(shown) == runscen.strip_result(last_doc)) if last_doc is not None else rc2 != 0
    ok = rc not in (0, 1) and out is None and not started and bool(v[3]) and why is None and ok_show
    ctx.count("rejected_" + kind)
    ctx.record({"M": M, "step": n, "rejected_invocation": kind, "args": REJECTED[kind]}, True, bool(v[2]), ok, n >= 1,
               sample={"M": M, "completed_runs": n, "rejected": kind, "rc": rc, "pointer": ptr} if n >= 1 else None,
               detail={"what": "a rejected invocation must leave every retained run as it was", "rc": rc, "err": err, "model_state_agrees": bool(v[2]), "spec": bool(v[3]),
                       "log_show": why, "ok_show": ok_show, "started": len(started)})

def history(ctx, rng, M, n_runs, CFG=CFG, CMDS=CMDS, wide=False):
    kinds = {} if wide else {("lint", "tools"): "undef", ("test", "tools"): "noexec"}
    rr = runscen.RunRepo(ctx, CFG, kinds=kinds, M=M, commands=CMDS)
    ids = {}
    recs = []
    run_nos = []
    last_doc = None
    try:
        for n in range(1, n_runs + 1):
            cmds = rng.sample(CMDS, rng.randint(1, len(CMDS)))
            args = ["-c"] + cmds
            targets = None
            if rng.random() < (0.34 if wide else 0.5):
                targets = rng.sample([t["path"] for t in CFG["targets"]], rng.randint(1, 3))
                args += ["-t"] + targets
                if rng.random() < 0.5: args.append("--deps")
            # a guided run that finds nothing to do (a checkpoint exists and nothing changed since): it completes, prints a document with
            # no targets, and is the latest run from then on
            empty_guided = (not wide) and rng.random() < 0.12
            if empty_guided:
                args = ["-c"] + cmds; targets = None
                vlib.monorail(rr.repo, "checkpoint", "update", "--pending"); ctx.count("empty_guided_run")
            rr.script = {"*": {}}
            if (not wide) and rng.random() < 0.25:
                rr.write_script(); rejected_invocation(ctx, rng, rr, ids, recs, run_nos, M, last_doc)
            if rng.random() < 0.3:
                rr.script["%s|%s" % (rng.choice(cmds), rng.choice([t["path"] for t in CFG["targets"]]))] = {"exit": rng.randint(1, 255)}
            rr.write_script()
            if rng.random() < 0.2:
                # an invocation that dies after producing logs but before storing its result (it is not one of the
                # completed runs r1..rk; whatever it left in the slot must be gone after the next completed run)
                other = ["-c"] + rng.sample(CMDS, rng.randint(1, len(CMDS)))
                rr.run(*other, env={"MONORAIL_VERIF_POINTS": "run_before_store_result=abort:1"})
                ctx.count("aborted_invocation")
            overlapped = None
            spare = [c for c in CMDS if c not in cmds]
            if spare and rng.random() < 0.3 and not empty_guided:
                # while this run is executing, another `run` (a quick one, other command) is attempted on the same repository: it is
                # not one of the completed runs r1..rk, and the history must come out exactly as if it had never been tried
                for c in cmds:
                    for t in CFG["targets"]: rr.script.setdefault("%s|%s" % (c, t["path"]), {})["sleep_ms"] = 1200
                rr.write_script()
                rr.run_no += 1; rr.clear_traces(); a_no = rr.run_no
                base = [vlib.BIN_MONORAIL, "-f", os.path.join(rr.repo, "Monorail.json"), "run"]
                env = dict(os.environ); env.update(vlib.GIT_ENV); env.update(rr.env())
                pa = subprocess.Popen(base + args, cwd=rr.repo, env=env, stdout=subprocess.PIPE, stderr=subprocess.PIPE)
                t0 = time.time()
                while not rr.traces() and time.time() - t0 < 10 and pa.poll() is None: time.sleep(0.02)
                tried = False
                if pa.poll() is None and rr.traces():
                    rr.run_no = a_no + 1
                    envb = dict(os.environ); envb.update(vlib.GIT_ENV); envb.update(rr.env())
                    pb = subprocess.run(base + ["-c", spare[0]], cwd=rr.repo, env=envb, capture_output=True, timeout=120)
                    tried = True
                    a_alive_after = pa.poll() is None
                so, se = pa.communicate(timeout=180)
                rr.run_no = a_no
                rc, out, err = pa.returncode, None, None
                for line in reversed(so.decode("utf-8", "replace").strip().splitlines()):
                    try: out = json.loads(line); break
                    except Exception: continue
                if tried and not a_alive_after:
                    # the first run ended while the second was being started: which of them came first is a matter of timing, so
                    # this history says nothing (never observed with 1.2 s tasks; kept for soundness under load)
                    ctx.count("overlap_ambiguous"); return
                if tried:
                    overlapped = {"intruder_rc": pb.returncode}; ctx.count("overlapping_invocation")
            else:
                rc, out, err, raw = rr.run(*args)
            if empty_guided: vlib.monorail(rr.repo, "checkpoint", "delete")
            case = {"M": M, "step": n, "args": args, "script": rr.script, "wide": wide, "empty_guided": empty_guided}
            if out is not None: last_doc = out
            if out is None:
                ctx.record(case, True, False, False, False, detail={"what": "run produced no result document", "rc": rc, "err": err})
                return
            # result show returns the document the run printed
            rc2, shown, err2, _ = vlib.monorail(rr.repo, "result", "show")
            ok_show = rc2 == 0 and runscen.strip_result(shown) == runscen.strip_result(out)
            slots = rr.slots(); ptr = rr.pointer()
            # every file in the current slot belongs to THIS run
            planned = set()
            for cmd, groups in runscen.result_statuses(out):
                for g in groups:
                    for t in g:
                        for s in ("stdout.zst", "stderr.zst"):
                            planned.add(os.path.join(cmd, runscen.thash(t), s))
            cur = slots.get(ptr, {"logs": {}, "result": None})
            leftovers = [p for p in cur["logs"] if p not in planned]
            foreign = [p for p, d in cur["logs"].items() if d and not d.startswith(b"run=%d " % rr.run_no)]
            ok_slot = not leftovers and not foreign and runscen.strip_result(cur["result"]) == runscen.strip_result(out)
            # the record this run left, as model input
            logs = sorted(intern(ids, ("log", p, hashlib.sha1(d or b"").hexdigest())) for p, d in cur["logs"].items())
            recs.append([logs, intern(ids, ("result", json.dumps(runscen.strip_result(out), sort_keys=True)))])
            obs = observed(ids, slots, ptr, M)
            extra_dirs = [k for k in slots if not (isinstance(k, int) and k < M + 3)]
            v = ctx.model.call("tracking", M, recs, obs)
            agree, spec = bool(v[2]), bool(v[3])
            # log show --id N for every retained run, and for one that is gone
            run_nos.append(rr.run_no)
            why = retained_shown(rr, slots, run_nos, n, M); ok_logs = why is None
            ok = ok_show and ok_slot and ok_logs and not extra_dirs and spec
            nontriv = n > M or bool(out.get("failed"))
            ctx.count("M_%d" % M); ctx.count("failed_run" if out.get("failed") else "ok_run"); ctx.count("explicit_targets" if targets else "all_targets")
            ctx.count("result_entries_" + ("gt150" if sum(len(g) for _, gs in runscen.result_statuses(out) for g in gs) > 150 else "le150"))
            ctx.record(case, True, agree, ok, nontriv,
                       sample={"M": M, "step": n, "args": args, "pointer": ptr, "slot_dirs": sorted(str(k) for k in slots)} if nontriv else None,
                       detail={"ok_show": ok_show, "ok_slot": ok_slot, "leftovers": leftovers, "foreign": foreign, "ok_logs": ok_logs, "why": why,
                               "extra_dirs": extra_dirs, "model_agrees": agree, "spec": spec, "pointer": ptr, "overlapped": overlapped})
    finally:
        rr.close()

NAME_POOL = ["build", "ok.name", "result.json.zst", "result.json", "stdout.zst", "a-b_c", "\u00fcn\u00ef", "\u65e5\u672c", "..", ".", "...", "..x", "x..", "a/", "/abs", "a//b", "./a", "a/.", "../7", "../1/build", "x/y", "a/../b", "x\\y", "~", "CON", "a:b"]
import shutil
STRACE = shutil.which("strace")
def result_write_error_round(ctx, rng):
    """The file system refuses the data of the run's result file (no space left: every write(2) to run/<next>/result.json.zst fails with
    ENOSPC, injected by strace).  Then the run has not completed: it must not exit 0/1 with a document, and `result show` / `log show` still
    return the previous run; the next run works."""
    if not STRACE:
        ctx.count("strace_unavailable"); return
    M = rng.choice([2, 3])
    rr = runscen.RunRepo(ctx, {"targets": [{"path": "t1"}, {"path": "t2"}]}, M=M, commands=["build"])
    try:
        docs = []
        for _ in range(rng.randint(1, M + 1)):
            rc, out, err, raw = rr.run("-c", "build")
            if rc != 0 or out is None:
                ctx.record({"result_write_error": True, "what": "set-up run failed"}, True, False, False, False, detail={"rc": rc, "err": err}); return
            docs.append(out)
        ptr = rr.pointer(); nxt = 1 if ptr >= M else ptr + 1
        rr.run_no += 1; rr.clear_traces()
        env = dict(os.environ); env.update(vlib.GIT_ENV); env.update(rr.env())
        target = os.path.join(rr.out_dir(), "run", str(nxt), "result.json.zst")
        try:
            p = subprocess.run([STRACE, "-f", "-b", "execve", "-o", "/dev/null", "-e", "trace=write,pwrite64,writev", "-e", "inject=write,pwrite64,writev:error=ENOSPC", "-P", target,
                                vlib.BIN_MONORAIL, "-f", os.path.join(rr.repo, "Monorail.json"), "run", "-c", "build"], cwd=rr.repo, env=env, capture_output=True, timeout=120)
        except subprocess.TimeoutExpired:
            ctx.count("strace_timeout"); return
        if b"ptrace" in p.stderr and p.returncode not in (0, 1, 2):
            ctx.count("strace_unusable"); return
        rc2, shown, err2, _ = vlib.monorail(rr.repo, "result", "show")
        new_doc = None
        for line in reversed(p.stdout.decode("utf-8", "replace").strip().splitlines()):
            try: new_doc = json.loads(line); break
            except Exception: continue
        if p.returncode in (0, 1) and new_doc is not None:
            ok = rc2 == 0 and runscen.strip_result(shown) == runscen.strip_result(new_doc)        # reported as completed: then it must be shown
        else:
            ok = rc2 == 0 and runscen.strip_result(shown) == runscen.strip_result(docs[-1]) and rr.pointer() == ptr
        rc3, out3, err3, _ = rr.run("-c", "build")
        ok_next = rc3 == 0 and out3 is not None
        ctx.count("result_write_error_%s" % ("reported_completed" if p.returncode in (0, 1) else "reported_failure"))
        ctx.record({"result_write_error": True, "M": M, "completed_runs": len(docs)}, True, ok and ok_next, ok and ok_next, True,
                   sample={"M": M, "completed_runs": len(docs), "rc": p.returncode, "show_rc": rc2},
                   detail={"what": "writes to the result file fail with ENOSPC", "rc": p.returncode, "show_rc": rc2, "show_err": err2, "pointer_before": ptr, "pointer_after": rr.pointer(), "next_run_rc": rc3,
                           "stderr": p.stderr.decode("utf-8", "replace")[-300:]})
    finally:
        rr.close()

def command_name_round(ctx, rng):
    """Which command names `run` accepts: decided by the model of the check in get_all_commands (Model.RunPaths.name_accepted, proved to
    be 'one path component that is not . or ..'); an accepted name's log directory is run/<slot>/<name>/<hash> and nothing else appears."""
    rr = runscen.RunRepo(ctx, {"targets": [{"path": "t1"}]}, M=3, commands=["build"])
    try:
        for name in rng.sample(NAME_POOL, 10 if ctx.quick() else len(NAME_POOL)):
            v = ctx.model.call("cmdname", name)
            want = bool(v[0])
            before = set(os.listdir(os.path.join(rr.out_dir(), "run"))) if os.path.isdir(os.path.join(rr.out_dir(), "run")) else set()
            rc, out, err, raw = rr.run("-c", name, "-t", "t1")
            accepted = rc in (0, 1) and out is not None
            ptr = rr.pointer(); slots = rr.slots()
            dirs = set(str(k) for k in slots)
            ok = accepted == want and dirs <= {"1", "2", "3"}
            if accepted:
                sd = os.path.join(rr.out_dir(), "run", str(ptr))
                ok = ok and sorted(os.listdir(sd)) == sorted([name, "result.json.zst"]) and os.listdir(os.path.join(sd, name)) == [runscen.thash("t1")]
                rcl, _, _, _ = vlib.monorail(rr.repo, "log", "show", "--stdout", "--stderr")
                ok = ok and rcl == 0
            else:
                ok = ok and dirs == before
            ctx.count("command_name_" + ("accepted" if accepted else "rejected"))
            ctx.record({"command_name": name}, True, accepted == want, ok, True, sample={"name": name, "accepted": accepted, "model": want},
                       detail={"name": name, "accepted": accepted, "model_accepts": want, "rc": rc, "err": err, "run_dirs": sorted(dirs)})
    finally:
        rr.close()

def run(ctx, scale):
    import random
    rng = ctx.rng
    plan = [(2, 8), (1, 4), (3, 11), (10, 13), (100, 3)] if ctx.quick() else [(100, 4), (1000, 3)] + [(m, 3 * m + 2) for m in (1, 2, 3, 5)] * 8 + [(10, 23), (11, 25), (12, 14)] * 2
    for (M, n) in plan * scale:
        history(ctx, random.Random(rng.getrandbits(32)), M, n)
    command_name_round(ctx, random.Random(rng.getrandbits(32)))
    for _ in range(1 if ctx.quick() else 6): result_write_error_round(ctx, random.Random(rng.getrandbits(32)))
    # a configuration with hundreds of targets: the stored result record is far larger than any I/O buffer
    for (M, n) in ([(2, 4)] if ctx.quick() else [(2, 6), (3, 8)]) * scale:
        history(ctx, random.Random(rng.getrandbits(32)), M, n, CFG=WIDE, CMDS=["build", "test"], wide=True)

def replay(ctx, case):
    import random
    c = case.get("case", case)
    if c.get("result_write_error"):
        result_write_error_round(ctx, random.Random(ctx.seed))
        return {"spec_failures": [d for _, d in ctx.spec_failures][:3], "disagreements": [d for _, d in ctx.tie_breaks][:3]}
    if "command_name" in c:
        command_name_round(ctx, random.Random(ctx.seed))
        return {"spec_failures": [d for _, d in ctx.spec_failures][:3], "disagreements": [d for _, d in ctx.tie_breaks][:3]}
    if c.get("wide"): history(ctx, random.Random(ctx.seed), c.get("M", 2), c.get("step", 3) + 1, CFG=WIDE, CMDS=["build", "test"], wide=True)
    else: history(ctx, random.Random(ctx.seed), c.get("M", 2), c.get("step", 6) + 1)
    return {"spec_failures": [d for _, d in ctx.spec_failures][:3], "disagreements": [d for _, d in ctx.tie_breaks][:3]}
