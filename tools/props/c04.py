import schedscen
from props.sched_meta import *
THEOREMS = THEOREMS_C04; LEVEL_NOTE = NOTE_C04; RULE = RULE_C04; CORRESPONDENCE = CORR
def run(ctx, scale): schedscen.run(ctx, scale, "C04")
def replay(ctx, case): return schedscen.replay(ctx, case, "C04")
