"""C17 - a generated config is usable iff source, output and lockfile are untouched."""
import cfgscen
THEOREMS = [("Properties.C17", "C17_holds"), ("AsFound.C17", "C17_as_found_refuted")]
CORRESPONDENCE = "config generate + every config-reading API on tampered/untouched files == Model.CfgFile.usable"
LEVEL_NOTE = ("Coq theorem C17_holds (files of every length): given an injective sha and a JSON round trip, after generate the three untouched files are usable, and changing the "
              "source, the generated file (any edit, truncation, append) or the lockfile checksum - the other two untouched - makes every API fail before acting. Tied to "
              "src/core/mod.rs + src/app/config.rs by real `config generate` runs steering the generated file to sizes around 8191/8192/8193/65536 bytes and beyond, then "
              "tampering one file (edit at first/last/boundary/random offsets, truncate, append, remove) and invoking seven APIs, checking exit codes and the absence of any effect.")
TRUSTED = ["Coq 8.16.1 kernel; no axioms", "SHA-256 injective on the files met (sha_inj); serde_json parse/pretty-print round trip (parse_render)",
           "a consistent rewrite of generated file and lockfile together is outside the property", "harness: tools/cfgscen.py file_facts (what a file parses to) uses Python's json",
           "modelled, not verified: the Rust source"]
RULE = ("an exhaustive sweep: both a bit flip and an increment at EVERY offset of a generated file (thorough: also of the source), each of which two APIs must reject; then generated-file sizes {default, 8191, 8192, 8193, 20000} (thorough: up to 300 KiB) x tamper target {source, generated, lockfile checksum, missing lockfile, missing source} x "
        "{edit, append, truncate} x position class; each case = untouched phase (4 APIs must succeed) + tampered phase (7 APIs must fail and do nothing); non-trivial = generated file "
        "> 8 KiB or a tamper phase; distinct by (size, target, kind, position)")
def run(ctx, scale): cfgscen.run_c17(ctx, scale)
def replay(ctx, case):
    c = case.get("case", case)
    if "layout" in c:
        cfgscen.c17_layout_case(ctx, ctx.rng, c["layout"])
        return {"spec_failures": [d for _, d in ctx.spec_failures][:3]}
    if "sweep" in c:
        cfgscen.c17_sweep(ctx, ctx.rng, c.get("stride", 1), c["sweep"])
        return {"spec_failures": [d for _, d in ctx.spec_failures][:3]}
    cfgscen.c17_case(ctx, ctx.rng, c.get("gen_size"), c.get("tamper", "gen"), c.get("kind", "append"), c.get("pos", "last"))
    return {"spec_failures": [d for _, d in ctx.spec_failures][:3], "disagreements": [d for _, d in ctx.tie_breaks][:3]}
