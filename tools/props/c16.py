"""C16 - all members of a target group execute concurrently."""
import json, os, random, shutil
import vlib, runscen
from props.sched_meta import TRUSTED, CORR as CORRESPONDENCE

THEOREMS = [("Properties.C16", "C16_holds"), ("Properties.C16", "C16_completes_holds")]
LEVEL_NOTE = ("Coq theorem C16_holds (every plan, every group size): from the moment the scheduler reaches a group whose members are all defined and executable, scheduler steps "
              "alone - no child exit or reap in between - start every member before it begins to wait. Partial: that spawning does not block on the OS is runtime behaviour. Tied by "
              "real runs in which every member of a group of 2..48 children waits on a file-system barrier until all members have started (30 s dead-man, exit 99): the run must succeed, with and without a log listener attached.")
RULE = ("group sizes {2,3,8,24,48} (thorough: 2..64) at the first, middle or last position of a 3-layer plan and under a second command; non-trivial = every case (the barrier makes sequential "
        "execution fail); the same with a `log tail --stdout --stderr` listener attached and drained, requested by name with --deps, with all members sharing one executable, behind 300 undefined plan entries, "
        "and under --fail-on-undefined (which changes nothing when every member defines the command); distinct by (size, position, commands, listener, flags)")

def case(ctx, rng, n, position, two_cmds, undefined_ahead=0, listener=False, named=False, shared_exec=False, flags=(), one_cpu=False):
    members = ["grp/m%02d" % i for i in range(n)]
    targets = []
    if position in ("middle", "last"): targets.append({"path": "base"})
    for m in members:
        t = {"path": m}
        if position in ("middle", "last"): t["uses"] = ["base"]
        targets.append(t)
    if position in ("first", "middle"): targets.append({"path": "top", "uses": list(members)})
    if shared_exec:
        # every member maps the command to ONE shared executable (commands.definitions.<cmd>.path): still one process per member, all at once
        for t in targets:
            if t["path"] in members: t["commands"] = {"definitions": {"build": {"path": "tools/sync_build"}}}
    rng.shuffle(targets)
    cfg = {"targets": targets}
    cmds = ["lint", "build"] if two_cmds else ["build"]
    rr = runscen.RunRepo(ctx, cfg, commands=cmds)
    if shared_exec:
        os.makedirs(os.path.join(rr.repo, "tools"), exist_ok=True); os.symlink(vlib.BIN_VHELPER, os.path.join(rr.repo, "tools", "sync_build"))
    # commands no target defines: their entries are `undefined`, nothing is started for them, and they must not
    # slow down or starve the groups that follow
    ghost = ["ghost%d" % i for i in range(undefined_ahead)]
    cmds = ghost + cmds
    try:
        rr.script = {"*": {}}
        for m in members: rr.script["%s|%s" % ("sync_build" if shared_exec else "build", m)] = {"barrier": n, "barrier_id": "g"}
        rr.write_script()
        lst = None
        if listener:
            # a `log tail` listener is attached for the whole run (and read promptly): streaming output to it must not
            # make the members of a group wait for one another
            import logscen, threading
            lst = logscen.start_listener(rr, ["--stdout", "--stderr"])
            threading.Thread(target=lambda: [None for _ in iter(lambda: lst.stdout.read(65536), b"")], daemon=True).start()
        try:
            # named=True: the group requested explicitly (`-t <every member> --deps`; in first position no member has a dependency) instead of through the change set
            extra = (["-t"] + list(members) + ["--deps"]) if named else []
            # one_cpu: monorail (and its children) confined to a single processor, as in a 1-cpu container or CI runner: how many members
            # of a group run at once must not depend on how many processors there are
            prefix = ("taskset", "-c", str(sorted(os.sched_getaffinity(0))[0])) if one_cpu and shutil.which("taskset") else ()
            if one_cpu: ctx.count("one_cpu" if prefix else "taskset_unavailable")
            rc, out, err, raw = rr.run("-c", *cmds, *extra, *flags, timeout=120, prefix=prefix)
        except Exception as e:
            import subprocess
            subprocess.run(["pkill", "-f", rr.repo], capture_output=True)
            rc, out, err, raw = -9, None, {"type": "timeout", "message": str(e)[:200]}, None
        if lst is not None:
            lst.terminate()
            try: lst.wait(timeout=10)
            except Exception: lst.kill()
        traces = rr.traces()
        c = {"size": n, "position": position, "commands": cmds, "undefined_ahead": undefined_ahead, "listener": listener, "named": named, "shared_exec": shared_exec, "flags": list(flags), "one_cpu": one_cpu}
        for f in flags: ctx.count("flag_" + f)
        ctx.count("shared_executable" if shared_exec else "own_executables")
        ctx.count("requested_by_name" if named else "requested_by_changes")
        ctx.count("listener_attached" if listener else "no_listener")
        ctx.count("undefined_ahead_%d" % (undefined_ahead * len(targets)))
        ctx.count("size_%d" % n); ctx.count("pos_" + position)
        if out is None:
            ctx.record(c, True, False, False, True, detail={"what": "no result document", "rc": rc, "err": err}); return
        st = {t: s for cmd, gs in runscen.result_statuses(out) if cmd == "build" for g in gs for t, s in g.items()}
        timed_out = [t["target"] for t in traces if t.get("exit") == 99]
        grp = [g for cmd, gs in runscen.result_statuses(out) if cmd == "build" for g in gs if members[0] in g]
        together = bool(grp) and set(members) <= set(grp[0].keys())
        ok = rc == 0 and not out.get("failed") and all(st.get(m, ("?",))[0] == "success" for m in members) and not timed_out and together
        # overlap evidence from the children's own clocks: every member started before any member ended
        ms = [t for t in traces if t["command"] in ("build", "sync_build") and t["target"] in members]
        overlap = bool(ms) and max(t["start_ns"] for t in ms) < min((t["end_ns"] or 0) for t in ms)
        ctx.record(c, True, ok and overlap, ok, True,
                   sample={"size": n, "position": position, "commands": cmds, "rc": rc, "all_started_before_any_ended": overlap},
                   detail={"rc": rc, "failed": out.get("failed"), "timed_out": timed_out[:5], "members_in_one_group": together, "overlap": overlap,
                           "statuses": {m: st.get(m) for m in members[:6]}})
    finally:
        rr.close()

def run(ctx, scale):
    rng = ctx.rng
    sizes = [2, 3, 8, 24, 48] if ctx.quick() else [2, 3, 4, 5, 8, 13, 16, 24, 32, 48, 64] * 3
    for i, n in enumerate(sizes * scale):
        case(ctx, random.Random(rng.getrandbits(32)), n, ["first", "middle", "last"][i % 3], i % 2 == 1)
    # the same, behind a few hundred plan entries that start nothing
    for n in ([24, 48] if ctx.quick() else [8, 24, 48, 64]):
        case(ctx, random.Random(rng.getrandbits(32)), n, "first", False, undefined_ahead=-(-300 // n))
    # the group requested by naming its members (with --deps), with and without dependencies among the named targets
    for i, (n, pos) in enumerate([(6, "first"), (24, "middle")] if ctx.quick() else [(2, "first"), (6, "first"), (24, "middle"), (48, "last"), (33, "first")]):
        case(ctx, random.Random(rng.getrandbits(32)), n, pos, False, named=True)
    # all members run one shared executable
    for i, (n, pos) in enumerate([(6, "middle"), (24, "first")] if ctx.quick() else [(2, "first"), (6, "middle"), (24, "first"), (48, "last")]):
        case(ctx, random.Random(rng.getrandbits(32)), n, pos, False, shared_exec=True)
    # invocation flags that change nothing when every member defines the command: the group still starts whole
    for i, (n, pos) in enumerate([(5, "first"), (24, "middle")] if ctx.quick() else [(2, "first"), (5, "first"), (24, "middle"), (48, "last")]):
        case(ctx, random.Random(rng.getrandbits(32)), n, pos, i % 2 == 1, flags=("--fail-on-undefined",), named=(i % 3 == 2))
    # confined to one processor
    for i, (n, pos) in enumerate([(24, "first"), (48, "middle")] if ctx.quick() else [(17, "first"), (24, "first"), (48, "middle"), (64, "last")]):
        case(ctx, random.Random(rng.getrandbits(32)), n, pos, False, one_cpu=True)
    # the same with a `log tail` listener attached
    for i, n in enumerate([2, 5, 24] if ctx.quick() else [2, 3, 5, 8, 24, 48]):
        case(ctx, random.Random(rng.getrandbits(32)), n, ["middle", "first", "last"][i % 3], False, listener=True)

def replay(ctx, c):
    c = c.get("case", c)
    case(ctx, random.Random(ctx.seed), c["size"], c["position"], "lint" in c.get("commands", []), c.get("undefined_ahead", 0), c.get("listener", False), c.get("named", False), c.get("shared_exec", False), tuple(c.get("flags", ())), c.get("one_cpu", False))
    return {"spec_failures": [d for _, d in ctx.spec_failures][:3], "disagreements": [d for _, d in ctx.tie_breaks][:3]}
