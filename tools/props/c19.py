"""C19 - the checkpoint store reflects the last update; without one everything is changed."""
import gitscen
THEOREMS = [("Properties.C19", "C19_holds")]
CORRESPONDENCE = "checkpoint update/show/delete, out delete --all on a real repository == Model.Checkpoint store + Model.Git.update_pending"
LEVEL_NOTE = ("Coq theorem C19_holds: for every sequence of update/show/delete/out-delete operations, show returns what the most recent successful update returned, "
              "and nothing after a delete. Tied by real scenarios interleaving these operations with commits and edits: each update's id must be HEAD (or --id), its "
              "pending map must equal the model's (including the retained-pending behaviour), show must return it verbatim, and after delete/out delete --all show fails "
              "and analyze reports checkpointed=false with every configured target.")
TRUSTED = ["Coq 8.16.1 kernel; no axioms", "zstd + serde_json round trip of checkpoint.json.zst", "git rev-parse HEAD",
           "'run covers every target' after deletion is exercised by C05's scenarios (no-checkpoint mode)",
           "modelled, not verified: the Rust source (src/app/checkpoint.rs, src/core/tracking.rs, src/app/out.rs)"]
RULE = ("histories with ~35% store operations (update [--id] [--pending], updates that fail because git cannot be run - also right after a delete -, delete, out delete --all) between edits and commits; after each: show vs the update's own output, "
        "id vs rev-parse HEAD, pending vs model; non-trivial = update that recorded a pending map, or the post-delete check; distinct by trail")
def run(ctx, scale): gitscen.run(ctx, scale, "C19")
def replay(ctx, case): return gitscen.replay(ctx, case, "C19")
