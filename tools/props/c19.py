"""C19 - the checkpoint store reflects the last update; without one everything is changed."""
import gitscen
THEOREMS = [("Properties.C19", "C19_holds"), ("Properties.C19", "C19_save_holds"), ("AsFound.C19", "C19_as_found_refuted")]
CORRESPONDENCE = "checkpoint update/show/delete, out delete --all on a real repository == Model.Checkpoint store + Model.Git.update_pending"
LEVEL_NOTE = ("Coq theorem C19_holds: for every sequence of update/show/delete/out-delete operations, show returns what the most recent successful update returned, "
              "and nothing after a delete. Tied by real scenarios interleaving these operations with commits and edits: each update's id must be HEAD (or --id), its "
              "pending map must equal the model's (including the retained-pending behaviour), show must return it verbatim, and after delete/out delete --all show fails "
              "and analyze reports checkpointed=false with every configured target. C19_save_holds (Model/CheckpointSave.v): when the file system may refuse a save's data, show returns the record of the most recent update "
              "that REPORTED success - a refused save reports failure and changes nothing; AsFound/C19.v refutes it for the pinned commit's truncate-in-place save whose write error was swallowed.")
TRUSTED = ["Coq 8.16.1 kernel; no axioms", "zstd + serde_json round trip of checkpoint.json.zst", "git rev-parse HEAD",
           "'run covers every target' after deletion is exercised by C05's scenarios (no-checkpoint mode)",
           "modelled, not verified: the Rust source (src/app/checkpoint.rs, src/core/tracking.rs, src/app/out.rs)"]
RULE = ("histories with ~35% store operations (update [--id] [--pending], updates that fail because git cannot be run - also right after a delete -, delete, out delete --all - from the repository root or another directory, also with the tracking directory being a symbolic link -, updates under which every write to the checkpoint file fails with ENOSPC (strace injection), an edit recorded as pending and then taken back between two updates, one pending set of 6000 paths) between edits and commits; after each: show vs the update's own output, "
        "id vs rev-parse HEAD, pending vs model; non-trivial = update that recorded a pending map, or the post-delete check; distinct by trail")
def run(ctx, scale): gitscen.run(ctx, scale, "C19")
def replay(ctx, case): return gitscen.replay(ctx, case, "C19")
