import schedscen
from props.sched_meta import *
THEOREMS = THEOREMS_C05; LEVEL_NOTE = NOTE_C05; RULE = RULE_C05; CORRESPONDENCE = CORR
def run(ctx, scale): schedscen.run(ctx, scale, "C05")
def replay(ctx, case): return schedscen.replay(ctx, case, "C05")
