"""Log capture scenarios for C08 (stored logs), C15 (a listener never changes the outcome) and C20 (what a
listener prints): real child processes writing scripted chunks with scripted pauses on both streams."""
import shutil, json, os, random, re, signal, subprocess, time
import vlib, runscen

HDR = re.compile(rb"^\[monorail \| (?:\x1b\[[0-9;]*m)?(stdout\.zst|stderr\.zst)(?:\x1b\[0m)? \| (.*) \| (.*)\]$")

def gen_stream(rng, kind):
    """[(bytes, pause_ms_after)] for one stream."""
    chunks = []
    n = rng.randint(0, 5)
    for i in range(n):
        r = rng.random()
        if kind == "text" or r < 0.5:
            line = ("%s line %d " % (rng.choice(["alpha", "beta", "gamma"]), i)).encode() + b"x" * rng.choice([0, 3, 40, 300])
            if rng.random() < 0.35:      # a pause in the middle of the line, straddling the 500 ms flush
                cut = rng.randint(1, len(line))
                chunks.append((line[:cut], rng.choice([560, 650, 1050])))
                chunks.append((line[cut:] + b"\n", rng.choice([0, 0, 20])))
            else:
                chunks.append((line + b"\n", rng.choice([0, 0, 10, 120, 600])))
        elif r < 0.65:
            chunks.append((bytes(rng.randrange(256) for _ in range(rng.randint(1, 200))), rng.choice([0, 30, 620])))
        elif r < 0.72:
            # large and incompressible: more than one zstd block (128 KiB), compresses worse than any internal output buffer
            chunks.append((rng.randbytes(rng.choice([150000, 300000, 700000])), rng.choice([0, 0, 600])))
        elif r < 0.8:
            chunks.append((b"L" * rng.choice([8191, 8192, 8193, 70000]) + b"\n", 0))
        elif r < 0.9:
            chunks.append((b"\n", 0)); chunks.append((b"", 0))
        else:
            chunks.append((b"crlf line\r\n", 0))
    if kind != "text" and rng.random() < 0.4:
        chunks.append((b"no trailing newline", rng.choice([0, 0, 600])))
    return chunks

def events_of(chunks):
    es = []
    for data, pause in chunks:
        if data: es.append([0, data]); es.append([2, b""])
        for _ in range(pause // 500): es.append([3, b""])
    es.append([1, b""])
    es += [[2, b""]] * (sum(d.count(b"\n") for d, _ in chunks) + 3)
    return es

def make_burst_case(rng, n_targets, lines):
    """Every task prints bursts of thousands of short lines on both streams at the same moment: single flushes far
    larger than any internal batching, competing for the shared connection."""
    targets = [{"path": "t%02d" % i} for i in range(n_targets)]
    script, written = {"*": {"quiet": True}}, {}
    for t in targets:
        merged, so, se = [], [], []
        for b in range(3):
            o = b"".join(b"%s out b%d %05d\n" % (t["path"].encode(), b, i) for i in range(lines))
            e = b"".join(b"%s err b%d %05d\n" % (t["path"].encode(), b, i) for i in range(lines))
            merged.append([1, o.hex(), 0]); merged.append([2, e.hex(), 120]); so.append((o, 0)); se.append((e, 120))
        script["build|%s" % t["path"]] = {"chunks": merged}
        written[t["path"]] = {"stdout": so, "stderr": se}
    return {"targets": targets}, script, written

def make_volume_case(rng, n_targets, mb):
    """Tens of megabytes of newline-terminated text on both streams, so that a listener which is not being read for a few
    seconds pushes back through the socket onto the run (the first target stays small: its stream is also replayed on the model)."""
    targets = [{"path": "t%02d" % i} for i in range(n_targets)]
    script, written = {"*": {"quiet": True}}, {}
    for i, t in enumerate(targets):
        tp = t["path"].encode()
        if i == 0:
            o = b"".join(b"%s small out %04d\n" % (tp, k) for k in range(200)); e = b"%s small err\n" % tp
            script["build|%s" % t["path"]] = {"chunks": [[1, o.hex(), 50], [2, e.hex(), 0]]}
            written[t["path"]] = {"stdout": [(o, 50)], "stderr": [(e, 0)]}; continue
        lo = tp + b" out " + bytes(rng.choice(b"abcdefghijklmnopqrstuvwxyz0123456789") for _ in range(rng.randint(60, 140))) + b"\n"
        le = tp + b" err " + bytes(rng.choice(b"ABCDEFGHIJKLMNOPQRSTUVWXYZ") for _ in range(rng.randint(60, 140))) + b"\n"
        ro, re_ = mb * 1000000 // len(lo), mb * 1000000 // len(le)
        script["build|%s" % t["path"]] = {"chunks": [[1, lo.hex(), 0, ro], [2, le.hex(), 0, re_]]}
        written[t["path"]] = {"stdout": [(lo * ro, 0)], "stderr": [(le * re_, 0)]}
    return {"targets": targets}, script, written

LONG_NAME = "a/" + "\u65e5\u672c\u8a9e\u306e\u3068\u3066\u3082\u9577\u3044\u30bf\u30fc\u30b2\u30c3\u30c8\u540d\u524d\u3067\u3054\u3056\u3044\u307e\u3059\u3088\u308d\u3057\u304f\u306d\u3048"   # 83 bytes, multi-byte throughout

def make_cancel_case(rng, n_chatty):
    """One group: a task that fails after ~0.7 s and chatty siblings printing a line every 10 ms.  The failure cancels the group
    while every sibling holds lines read since its last 500 ms flush and all of them flush at once onto the shared connection."""
    targets = [{"path": "boom"}] + [{"path": "chat%02d" % i} for i in range(n_chatty)]
    script, written = {"*": {"quiet": True}}, {}
    script["build|boom"] = {"chunks": [[1, b"boom: about to fail\n".hex(), rng.choice([650, 730, 810])]], "exit": 1}
    written["boom"] = {"stdout": [(b"boom: about to fail\n", 0)], "stderr": []}
    for t in targets[1:]:
        tp = t["path"].encode(); so, se, merged = [], [], []
        for i in range(220):
            o = b"%s line %03d\n" % (tp, i); merged.append([1, o.hex(), 10]); so.append((o, 10))
            if i % 7 == 0:
                e = b"%s err %03d\n" % (tp, i); merged.append([2, e.hex(), 0]); se.append((e, 0))
        script["build|%s" % t["path"]] = {"chunks": merged}
        written[t["path"]] = {"stdout": so, "stderr": se}
    return {"targets": targets}, script, written

def make_case(rng, n_targets, kind, layers=1, long_last=False):
    targets = [{"path": "t%02d" % i} for i in range(n_targets)]
    if long_last: targets[-1]["path"] = LONG_NAME
    if layers == 2:
        for t in targets[n_targets // 2:]: t["uses"] = [targets[0]["path"]]
    script, written = {"*": {"quiet": True}}, {}
    for t in targets:
        so, se = gen_stream(rng, kind), gen_stream(rng, kind)
        merged = []
        i = j = 0
        while i < len(so) or j < len(se):
            if j >= len(se) or (i < len(so) and rng.random() < 0.5): merged.append([1, so[i][0].hex(), so[i][1]]); i += 1
            else: merged.append([2, se[j][0].hex(), se[j][1]]); j += 1
        script["build|%s" % t["path"]] = {"chunks": merged}
        written[t["path"]] = {"stdout": so, "stderr": se}
    return {"targets": targets}, script, written

def stored_logs(rr, out):
    ptr = rr.pointer(); slots = rr.slots()
    return slots.get(ptr, {"logs": {}})["logs"]

def check_stored(ctx, rr, out, written, case, focus_record=True):
    """C08: every stored log decompresses to exactly the bytes written to that stream."""
    logs = stored_logs(rr, out)
    bad, agree_all = [], True
    for tpath, streams in written.items():
        for sname, chunks in streams.items():
            rel = os.path.join("build", runscen.thash(tpath), sname + ".zst")
            want = b"".join(d for d, _ in chunks)
            got = logs.get(rel)
            got_b = got if got is not None else b""
            v = ctx.model.call("reader", events_of(chunks), False, [], got_b, [])
            if not bool(v[2]): agree_all = False
            if got_b != want:
                bad.append({"target": tpath, "stream": sname, "wrote": len(want), "stored": len(got_b),
                            "first_difference": next((k for k in range(min(len(want), len(got_b))) if want[k] != got_b[k]), min(len(want), len(got_b))),
                            "wrote_head": want[:60].decode("latin1"), "stored_head": got_b[:60].decode("latin1")})
    return bad, agree_all, logs

def parse_blocks(data):
    """Split tail / log show output into (stream, target, command) -> concatenated bytes.  Header lines introduce blocks."""
    parts, key, junkp = {}, None, []
    for line in data.split(b"\n"):
        m = HDR.match(line)
        if m:
            key = (m.group(1).decode(), m.group(2).decode(), m.group(3).decode()); parts.setdefault(key, []); continue
        if key is None: junkp.append(line + b"\n")
        else: parts[key].append(line); parts[key].append(b"\n")
    blocks = {k: b"".join(v) for k, v in parts.items()}; junk = b"".join(junkp)
    # the split added one newline too many at the very end
    if key is not None and data and not data.endswith(b"\n"): blocks[key] = blocks[key][:-1]
    elif key is not None: blocks[key] = blocks[key][:-1] if blocks[key].endswith(b"\n") and data.endswith(b"\n") else blocks[key]
    return blocks, junk

def c08_twice_case(ctx, rng, first_longer=True):
    """The same command listed twice in one invocation: both executions write the same two log files one after the other.  Whatever is
    kept, each stored log must be a well-formed archive holding the complete output of one of the executions (never a mixture, never an
    undecodable file), and `log show` must work."""
    cfg = {"targets": [{"path": "t00"}, {"path": "t01"}]}
    big = b"".join(b"first execution line %05d %s\n" % (i, rng.randbytes(24).hex().encode()) for i in range(3000))
    small = b"second execution: one short line\n"
    order = (big, small) if first_longer else (small, big)
    script = {"*": {"quiet": True}}
    for t in cfg["targets"]:
        script["build|%s" % t["path"]] = {"by_visit": [{"chunks": [[1, order[0].hex(), 0], [2, order[0][:2000].hex(), 0]]}, {"chunks": [[1, order[1].hex(), 0], [2, order[1][:2000].hex(), 0]]}]}
    rr = runscen.RunRepo(ctx, cfg, commands=["build"])
    try:
        rr.script = script; rr.write_script()
        rc, out, err, raw = rr.run("-c", "build", "build", timeout=180)
        case = {"twice": True, "first_is_longer": order[0] is big}
        ctx.count("same_command_twice")
        if out is None:
            ctx.record(case, True, False, False, True, detail={"what": "run failed", "rc": rc, "err": err}); return
        try:
            logs = stored_logs(rr, out); decode_err = None
        except Exception as e:
            logs = {}; decode_err = str(e)[:200]
        bad = []
        for t in cfg["targets"]:
            for sname, cands in (("stdout", (order[0], order[1])), ("stderr", (order[0][:2000], order[1][:2000]))):
                got = logs.get(os.path.join("build", runscen.thash(t["path"]), sname + ".zst"))
                if got is None or got not in cands: bad.append({"target": t["path"], "stream": sname, "stored": None if got is None else len(got), "executions_wrote": [len(c) for c in cands]})
        rcl, _, _, rawl = vlib.monorail(rr.repo, "log", "show", "--stdout", "--stderr")
        ok = not bad and decode_err is None and rcl == 0
        ctx.record(case, True, ok, ok, True, sample={"invocation": "run -c build build", "first_is_longer": order[0] is big, "log_show_rc": rcl},
                   detail={"stored_problems": bad[:4], "decode_error": decode_err, "log_show_rc": rcl, "log_show_err": rawl.stderr.decode("utf-8", "replace")[-200:]})
    finally:
        rr.close()

def c08_write_error_case(ctx, rng):
    """The file system refuses part of a log (no space left: every write(2) to one task's stdout.zst fails with ENOSPC, injected by
    strace).  A run that reports the task as `success` must have stored exactly what the task wrote; otherwise it has to report the failure."""
    strace = shutil.which("strace")
    if not strace:
        ctx.count("strace_unavailable"); return
    cfg = {"targets": [{"path": "t00"}, {"path": "t01"}]}
    payload = rng.randbytes(rng.choice([6000, 20000, 200000]))
    script = {"*": {"quiet": True}, "build|t00": {"chunks": [[1, payload.hex(), 0]]}}
    rr = runscen.RunRepo(ctx, cfg, commands=["build"])
    try:
        rr.script = script; rr.write_script()
        rr.run_no += 1; rr.clear_traces()
        env = dict(os.environ); env.update(vlib.GIT_ENV); env.update(rr.env())
        target = os.path.join(rr.out_dir(), "run", "1", "build", runscen.thash("t00"), "stdout.zst")
        try:
            p = subprocess.run([strace, "-f", "-b", "execve", "-o", "/dev/null", "-e", "trace=write,pwrite64,writev", "-e", "inject=write,pwrite64,writev:error=ENOSPC", "-P", target,
                                vlib.BIN_MONORAIL, "-f", os.path.join(rr.repo, "Monorail.json"), "run", "-c", "build"], cwd=rr.repo, env=env, capture_output=True, timeout=120)
        except subprocess.TimeoutExpired:
            ctx.count("strace_timeout"); return
        if b"ptrace" in p.stderr and p.returncode not in (0, 1, 2):
            ctx.count("strace_unusable"); return
        out = None
        for line in reversed(p.stdout.decode("utf-8", "replace").strip().splitlines()):
            try: out = json.loads(line); break
            except Exception: continue
        st = {t: s_ for c, gs in runscen.result_statuses(out) for g in gs for t, s_ in g.items()} if out else {}
        stored = rr.unzstd(target) if os.path.exists(target) else None
        claimed_success = p.returncode == 0 and st.get("t00", ("?",))[0] == "success"
        ok = (stored == payload) if claimed_success else True
        ctx.count("log_write_error_%s" % ("reported_success" if claimed_success else "reported_failure"))
        ctx.record({"log_write_error": True, "bytes": len(payload)}, True, ok, ok, True,
                   sample={"bytes_written_by_the_task": len(payload), "rc": p.returncode, "status": st.get("t00")},
                   detail={"what": "writes to the task's stdout.zst fail with ENOSPC", "rc": p.returncode, "status": st.get("t00"), "stored_bytes": None if stored is None else len(stored),
                           "stderr": p.stderr.decode("utf-8", "replace")[-300:]})
    finally:
        rr.close()

def c08_case(ctx, rng, n_targets, kind, listener="none"):
    """listener: "none" | "alive" (a `log tail` attached and read for the whole run) | a float (attached, then killed that many
    seconds into the run).  What is stored must be what the executables wrote in every one of these situations."""
    # kind "volume": megabytes of text per stream (stored logs AND what `log show` prints must be complete at any size)
    cfg, script, written = make_volume_case(rng, n_targets, 2) if kind == "volume" else make_case(rng, n_targets, kind)
    rr = runscen.RunRepo(ctx, cfg, commands=["build"])
    lst = None
    try:
        rr.script = script; rr.write_script()
        if listener != "none":
            import threading
            lst = start_listener(rr, ["--stdout", "--stderr"])
            threading.Thread(target=lambda: [None for _ in iter(lambda: lst.stdout.read(65536), b"")], daemon=True).start()
            if isinstance(listener, float): threading.Timer(listener, lst.kill).start()
        rc, out, err, raw = rr.run("-c", "build", timeout=180)
        if lst is not None:
            if lst.poll() is None: lst.kill()
            lst.wait()
        case = {"targets": n_targets, "kind": kind, "script": script, "listener": listener}
        ctx.count("kind_" + kind); ctx.count("targets_%d" % n_targets); ctx.count("listener_%s" % (listener if isinstance(listener, str) else "killed_mid_run"))
        if out is None or rc != 0:
            ctx.record(case, True, False, False, True, detail={"what": "run failed", "rc": rc, "err": err}); return
        bad, agree, logs = check_stored(ctx, rr, out, written, case)
        # log show: one header per selected non-empty log followed by its bytes
        rcl, _, _, rawl = vlib.monorail(rr.repo, "log", "show", "--stdout", "--stderr")
        show_bad = []
        if kind in ("text", "volume"):
            blocks, junk = parse_blocks(rawl.stdout)
            for tpath, streams in written.items():
                for sname, chunks in streams.items():
                    want = b"".join(d for d, _ in chunks)
                    got = blocks.get((sname + ".zst", tpath, "build"))
                    if want and got != want: show_bad.append({"target": tpath, "stream": sname, "show": None if got is None else len(got), "wrote": len(want)})
                    if not want and got is not None: show_bad.append({"target": tpath, "stream": sname, "header_for_empty_log": True})
            if junk.strip(): show_bad.append({"output_before_first_header": junk[:80].decode("latin1")})
            # filtered shows: exactly the selected non-empty logs, selection decided by the model of the filter rule (Model.Filter)
            tnames = sorted(written)
            combos = [["--stderr", "-t", tnames[0]], ["--stdout", "--stderr", "-t"] + tnames[:2], ["--stdout", "-c", "build"], ["--stderr", "-c", "nosuchcommand"],
                      ["--stdout", "--stderr", "-c", "build", "-t", tnames[-1]]]
            for flt in (combos if kind == "text" else combos[:2]):
                def sel(flag):
                    if flag not in flt: return None
                    o = []
                    for x in flt[flt.index(flag) + 1:]:
                        if x.startswith("-"): break
                        o.append(x)
                    return o
                tsel, csel = sel("-t"), sel("-c")
                tasks = [(sname, tpath, "build") for tpath in tnames for sname in ("stdout", "stderr")]
                flags = ctx.model.call("filter", True, "--stdout" in flt, "--stderr" in flt, tsel or [], csel or [], [[sn == "stdout", tp, c] for sn, tp, c in tasks])
                rcf, _, _, rawf = vlib.monorail(rr.repo, "log", "show", *flt)
                fblocks, fjunk = parse_blocks(rawf.stdout)
                want_keys = {(sn + ".zst", tp, c): b"".join(d for d, _ in written[tp][sn]) for (sn, tp, c), f in zip(tasks, flags) if f and b"".join(d for d, _ in written[tp][sn])}
                if rcf != 0 or set(fblocks) != set(want_keys) or any(fblocks[k] != v for k, v in want_keys.items() if k in fblocks) or fjunk.strip():
                    show_bad.append({"filtered_show": flt, "rc": rcf, "printed": sorted("%s|%s|%s" % k for k in fblocks)[:8], "selected": sorted("%s|%s|%s" % k for k in want_keys)[:8]})
                ctx.count("log_show_filtered")
        # one selected log at a time: everything after the header line is exactly the bytes written, nothing appended (a log that does not
        # end in a newline gets none), for every kind of output
        singles = [(tp, sn, b"".join(d for d, _ in written[tp][sn])) for tp in sorted(written) for sn in ("stdout", "stderr")]
        singles = [x for x in singles if x[2]]
        unterminated = [x for x in singles if not x[2].endswith(b"\n")]
        for tp, sn, want in (unterminated[:2] + singles[:2]):
            rcs, _, _, raws = vlib.monorail(rr.repo, "log", "show", "--" + sn, "-t", tp, "-c", "build")
            first, _, rest = raws.stdout.partition(b"\n")
            if rcs != 0 or not HDR.match(first) or rest != want:
                show_bad.append({"single_log_show": [sn, tp], "rc": rcs, "printed_after_header": len(rest), "wrote": len(want), "printed_tail": rest[-20:].decode("latin1"), "wrote_tail": want[-20:].decode("latin1")})
            ctx.count("log_show_single_" + ("unterminated" if not want.endswith(b"\n") else "terminated"))
        ok = not bad and not show_bad and rcl == 0
        mid = any(p >= 500 and not d.endswith(b"\n") and d for s in written.values() for ch in s.values() for d, p in ch)
        ctx.record(case, True, agree and not bad, ok, True,
                   sample={"targets": n_targets, "kind": kind, "streams": 2 * n_targets, "bytes_written": sum(len(d) for s in written.values() for ch in s.values() for d, _ in ch),
                           "pause_inside_a_line": mid},
                   detail={"stored_mismatches": bad[:4], "log_show_mismatches": show_bad[:4], "log_show_rc": rcl})
    finally:
        rr.close()

# ---------------------------------------------------------------- listeners
def start_listener(rr, flt):
    env = dict(os.environ); env.update(vlib.GIT_ENV)
    args = [vlib.BIN_MONORAIL, "-f", os.path.join(rr.repo, "Monorail.json"), "log", "tail"] + flt
    p = subprocess.Popen(args, cwd=rr.repo, env=env, stdout=subprocess.PIPE, stderr=subprocess.PIPE)
    t0 = time.time()
    import props.c14 as c14
    while not c14.listening(rr.log_port) and time.time() - t0 < 10 and p.poll() is None: time.sleep(0.01)
    return p

def outcome(rr, rc, out):
    logs = stored_logs(rr, out) if out else {}
    return {"rc": rc, "failed": (out or {}).get("failed"), "statuses": [[c, [{t: list(s) for t, s in g.items()} for g in gs]] for c, gs in runscen.result_statuses(out)] if out else None,
            "logs": {k: (v or b"").hex() for k, v in logs.items()}}

def c15_case(ctx, rng, n_targets, kill_at, flt):
    long_last = "@long" in flt            # a listener filtering on a long, non-ASCII target name
    raw_tail = "@tail" in flt             # output that is not plain lines: binary bytes, and an unterminated tail followed by a pause
    flt = [LONG_NAME if x == "@long" else x for x in flt if x != "@tail"]
    cfg, script, written = make_case(rng, n_targets, "mixed" if raw_tail else "text", layers=2, long_last=long_last)
    if raw_tail:
        for t in cfg["targets"][:2]:
            script["build|%s" % t["path"]]["chunks"] += [[1, b"working...".hex(), 700], [2, b"still going".hex(), 650]]
            written[t["path"]]["stdout"].append((b"working...", 700)); written[t["path"]]["stderr"].append((b"still going", 650))
    if "@burst" in flt:
        flt = [x for x in flt if x != "@burst"]
        t0p_ = cfg["targets"][0]["path"]
        burst = [(b"burst line %05d\n" % i, 0) for i in range(3000)] + [(b"after the burst\n", 700), (b"and a last line\n", 0)]
        script["build|%s" % t0p_] = {"chunks": [[1, b"".join(d for d, _ in burst[:3000]).hex(), 0], [1, burst[3000][0].hex(), 700], [1, burst[3001][0].hex(), 0]]}
        written[t0p_] = {"stdout": burst, "stderr": []}
    if kill_at == "stalled":
        # one task writes steadily for four seconds, so that output is streamed while the listener is suspended and after it is killed
        t0p_ = cfg["targets"][0]["path"]
        steady = [(b"steady line %02d of the long writer\n" % i, 100) for i in range(40)]
        script["build|%s" % t0p_] = {"chunks": [[1, d.hex(), ms] for d, ms in steady]}
        written[t0p_] = {"stdout": steady, "stderr": []}
    if rng.random() < 0.3: script["build|%s" % cfg["targets"][-1]["path"]]["exit"] = 3
    rr = runscen.RunRepo(ctx, cfg, commands=["build"])
    try:
        rr.script = script; rr.write_script()
        rc0, out0, err0, _ = rr.run("-c", "build", timeout=180)
        base = outcome(rr, rc0, out0)
        lst = start_listener(rr, flt)
        if kill_at == "before": lst.kill(); lst.communicate()
        if kill_at == "handshake":
            # the listener's port accepts (kernel backlog) but the listener never answers: it is stopped, and
            # killed while the run waits for its filter line
            lst.send_signal(signal.SIGSTOP)
        env = dict(os.environ); env.update(vlib.GIT_ENV); rr.run_no += 1; rr.clear_traces(); env.update(rr.env())
        p = subprocess.Popen([vlib.BIN_MONORAIL, "-f", os.path.join(rr.repo, "Monorail.json"), "run", "-c", "build"], cwd=rr.repo, env=env,
                             stdout=subprocess.PIPE, stderr=subprocess.PIPE)
        if isinstance(kill_at, float):
            time.sleep(kill_at); lst.kill()
        if kill_at == "handshake":
            time.sleep(0.3); lst.kill()
        if kill_at == "stalled":
            # the listener is suspended in mid-run (Ctrl-Z, a blocked pager), streamed output piles up unread in its socket, then it is
            # killed: the kernel resets the connection instead of closing it, so the run's next write fails in a different way
            time.sleep(0.7); lst.send_signal(signal.SIGSTOP); time.sleep(1.6); lst.kill()
        hung = False
        try: so, se = p.communicate(timeout=90)
        except subprocess.TimeoutExpired:
            # the run without a listener took seconds: not finishing at all is the strongest possible difference
            hung = True; p.kill(); so, se = p.communicate()
            subprocess.run(["pkill", "-f", rr.repo], capture_output=True)
        if lst.poll() is None: lst.kill()
        lst.communicate()
        if hung:
            ctx.count("run_hung")
            ctx.record({"targets": n_targets, "listener_killed": kill_at, "filters": flt, "script": script}, True, False, False, True,
                       detail={"what": "with the listener (killed at %s) the run did not finish within 90 s; without a listener it exited with rc=%s" % (kill_at, base["rc"])})
            return
        try: out1 = json.loads(so.decode().strip().splitlines()[-1])
        except Exception: out1 = None
        got = outcome(rr, p.returncode, out1)
        # a task cancelled because a sibling failed is cut off at a moment that depends on timing alone, listener or not:
        # stored logs are compared for the tasks that ran to completion (C08's scope)
        done = set()
        for cmd, gs in runscen.result_statuses(out0) if out0 else []:
            for g in gs:
                for t, (st, code) in g.items():
                    if st == "success" or (st == "error" and code is not None): done.add(os.path.join(cmd, runscen.thash(t)))
        for o in (base, got):
            o["logs"] = {k: v for k, v in o["logs"].items() if os.path.dirname(k) in done}
        same = got == base
        case = {"targets": n_targets, "listener_killed": kill_at, "filters": flt, "script": script}
        ctx.count("kill_%s" % (kill_at if isinstance(kill_at, str) else "mid")); ctx.count("filters_%d" % len(flt))
        diff = {k: (base[k], got[k]) for k in ("rc", "failed", "statuses") if base[k] != got[k]}
        logdiff = [k for k in set(base["logs"]) | set(got["logs"]) if base["logs"].get(k) != got["logs"].get(k)]
        which = []
        for k in logdiff:
            for tp, st in written.items():
                if runscen.thash(tp) in k:
                    w = b"".join(d for d, _ in st["stdout" if "stdout" in k else "stderr"])
                    a = bytes.fromhex(base["logs"].get(k, "")); b = bytes.fromhex(got["logs"].get(k, ""))
                    which.append({"log": k[-30:], "target": tp, "wrote": len(w), "without_listener": len(a), "with_listener": len(b),
                                  "without_listener_exact": a == w, "with_listener_exact": b == w,
                                  "chunks": [[len(d), p] for d, p in st["stdout" if "stdout" in k else "stderr"]],
                                  "exit": script.get("build|%s" % tp, {}).get("exit", 0)})
        v = ctx.model.call("reader", events_of(written[cfg["targets"][0]["path"]]["stdout"]), True, [0] if kill_at != "never" else [],
                           bytes.fromhex(got["logs"].get(os.path.join("build", runscen.thash(cfg["targets"][0]["path"]), "stdout.zst"), "")), [])
        ctx.record(case, True, bool(v[2]) and same, same, True,
                   sample={"targets": n_targets, "listener_killed": kill_at, "filters": flt, "rc_without": base["rc"], "rc_with": got["rc"]},
                   detail={"differences": diff, "log_differences": logdiff[:5], "which_side_differs_from_what_was_written": which[:5], "stderr": se.decode("utf-8", "replace")[-300:]})
    finally:
        rr.close()

def make_wide_filter_case(rng, n):
    """n targets with paths of ~130 characters; the listener names all but two of them, so its filter line runs to several kilobytes."""
    targets = [{"path": "services/%s-%02d" % ("".join(rng.choice("abcdefghijklmnopqrstuvwxyz") for _ in range(118)), i)} for i in range(n)]
    script, written = {"*": {}}, {}
    for t in targets:
        so = [(b"%s out line %d\n" % (t["path"][-6:].encode(), k), rng.choice([0, 0, 30])) for k in range(3)]
        se = [(b"%s err line %d\n" % (t["path"][-6:].encode(), k), 0) for k in range(2)]
        script["build|%s" % t["path"]] = {"chunks": [[1, d.hex(), ms] for d, ms in so] + [[2, d.hex(), ms] for d, ms in se]}
        written[t["path"]] = {"stdout": so, "stderr": se}
    return {"targets": targets}, script, written

def c20_case(ctx, rng, n_targets, flt, crlf=False, burst=0, paused=0, extra_cmds=(), long_line=0, cancel=False, wide=False, quiet_gap=0):
    """paused > 0: whoever reads the listener's output (a pager, a slow pipe, a stopped job) does not read for that many seconds
    while the run produces far more than the pipe and socket buffers hold; afterwards it reads everything."""
    if wide:
        cfg, script, written = make_wide_filter_case(rng, n_targets)
        flt = ["--stdout", "--stderr", "-t"] + [t["path"] for t in cfg["targets"][:-2]]
    elif cancel: cfg, script, written = make_cancel_case(rng, n_targets)
    elif paused: cfg, script, written = make_volume_case(rng, n_targets, 2)
    else: cfg, script, written = make_burst_case(rng, n_targets, burst) if burst else make_case(rng, n_targets, "text")
    if quiet_gap:
        # all tasks fall silent at the same time for quiet_gap ms, then each writes two more lines
        for t in cfg["targets"]:
            k = "build|%s" % t["path"]
            script[k]["chunks"] = [[1, b"before the gap\n".hex(), quiet_gap], [1, b"after the gap\n".hex(), 0], [2, b"after the gap (err)\n".hex(), 0]]
            written[t["path"]] = {"stdout": [(b"before the gap\n", quiet_gap), (b"after the gap\n", 0)], "stderr": [(b"after the gap (err)\n", 0)]}
        ctx.count("quiet_gap_%ds" % (quiet_gap // 1000))
    if long_line:
        # one newline-terminated line of several megabytes in the middle of a task's output (larger than any single write a
        # relay might make); not on the first target, whose stream is also replayed on the model
        tl = cfg["targets"][min(1, n_targets - 1)]["path"]
        script["build|%s" % tl]["chunks"] += [[1, b"x".hex(), 0, long_line], [1, b" end of the long line\n".hex(), 0], [1, b"and one more line\n".hex(), 0]]
        written[tl]["stdout"] += [(b"x" * long_line + b" end of the long line\n", 0), (b"and one more line\n", 0)]
    if crlf:
        t0 = cfg["targets"][0]["path"]
        script["build|%s" % t0]["chunks"].append([1, b"dos line\r\n".hex(), 0]); written[t0]["stdout"].append((b"dos line\r\n", 0))
    # several commands in one run (those before/after "build" print one default line per stream); the listener may filter on commands
    run_cmds = [c for c in extra_cmds if c < "build"] + ["build"] + [c for c in extra_cmds if c > "build"]
    rr = runscen.RunRepo(ctx, cfg, commands=run_cmds)
    try:
        script["*"] = {}
        rr.script = script; rr.write_script()
        lst = start_listener(rr, flt)
        import threading
        got = bytearray()
        def pump():
            if paused: time.sleep(paused)
            while True:
                b = lst.stdout.read1(65536) if hasattr(lst.stdout, "read1") else lst.stdout.read(65536)
                if not b: break
                got.extend(b)
        th = threading.Thread(target=pump, daemon=True); th.start()
        rc, out, err, raw = rr.run("-c", *run_cmds, timeout=300 if paused else 180)
        # the listener prints line by line; wait until it has drained what the run sent (no growth for 1 s, at most 90 s)
        last, quiet, t0 = -1, 0, time.time()
        while quiet < 5 and time.time() - t0 < 90:
            time.sleep(0.2)
            if len(got) == last: quiet += 1
            else: quiet, last = 0, len(got)
        lst.terminate()
        try: lst.wait(timeout=10)
        except subprocess.TimeoutExpired: lst.kill()
        th.join(timeout=5)
        lo = bytes(got)
        case = {"targets": n_targets, "filters": flt, "crlf": crlf, "burst": burst, "paused": paused, "extra_cmds": list(extra_cmds), "long_line": long_line, "cancel": cancel, "wide": wide, "quiet_gap": quiet_gap, "script": script if not (burst or paused or long_line or cancel or wide) else "generated"}
        if wide: case["filters"] = ["--stdout", "--stderr", "-t", "<all but two of %d paths of ~130 characters>" % n_targets]; ctx.count("filter_line_over_4k")
        if out is None:
            ctx.record(case, True, False, False, True, detail={"what": "run failed", "rc": rc, "err": err}); return
        logs = stored_logs(rr, out)
        # drop the stream header the client writes first (not colored, lists the filters)
        lines = lo.split(b"\n", 1)
        body = lines[1] if len(lines) == 2 and lines[0].startswith(b"[monorail | ") and b"\x1b" not in lines[0] else lo
        blocks, junk = parse_blocks(body)
        want_streams = [s for s in ("stdout", "stderr") if "--" + s in flt]
        def sel(flag):
            if flag not in flt: return None
            out_ = []
            for x in flt[flt.index(flag) + 1:]:
                if x.startswith("-"): break
                out_.append(x)
            return out_
        tsel, csel = sel("-t"), sel("-c")
        # which (stream, target, command) readers the run attaches to the listener: decided by the MODEL of the attachment rule
        # (Model.Filter.attach = is_log_allowed + include_stdout/include_stderr), not by this script
        tasks = [(sname, tpath, cmd) for cmd in run_cmds for tpath in written for sname in ("stdout", "stderr")]
        flags = ctx.model.call("filter", True, "--stdout" in flt, "--stderr" in flt, tsel or [], csel or [],
                               [[sname == "stdout", tpath, cmd] for sname, tpath, cmd in tasks])
        adm = {k: bool(f) for k, f in zip(tasks, flags)}
        problems = []
        for (fname, tpath, cmd), data in blocks.items():
            if not adm.get((fname[:-4], tpath, cmd), False): problems.append({"block_outside_filters": [fname, tpath, cmd]})
        for (sname, tpath, cmd), admitted in adm.items():
            stored = logs.get(os.path.join(cmd, runscen.thash(tpath), sname + ".zst")) or b""
            got_b = blocks.get((sname + ".zst", tpath, cmd), b"")
            if admitted and got_b != stored:
                problems.append({"command": cmd, "target": tpath, "stream": sname, "tailed": len(got_b), "stored": len(stored),
                                 "tailed_tail": got_b[-40:].decode("latin1"), "stored_tail": stored[-40:].decode("latin1")})
        if junk.strip(): problems.append({"output_outside_blocks": junk[:80].decode("latin1")})
        t0p = cfg["targets"][0]["path"]
        adm0 = adm.get(("stdout", t0p, "build"), False)
        v = ctx.model.call("reader", events_of(written[t0p]["stdout"]), adm0, [], logs.get(os.path.join("build", runscen.thash(t0p), "stdout.zst")) or b"",
                           [blocks.get(("stdout.zst", t0p, "build"), b"")])
        ok = not problems
        ctx.count("filters_%s" % ("targets" if tsel is not None else "all")); ctx.count("crlf" if crlf else "lf"); ctx.count("reader_paused_%ds" % paused); ctx.count("commands_in_run_%d" % len(run_cmds)); ctx.count("command_filter" if csel is not None else "no_command_filter")
        ctx.record(case, True, bool(v[2]), ok, True,
                   sample={"targets": n_targets, "filters": flt, "blocks": len(blocks), "tail_bytes": len(lo)},
                   detail={"problems": problems[:5], "model_agrees": bool(v[2])})
    finally:
        rr.close()

def run(ctx, scale, focus):
    rng = ctx.rng
    if focus == "C08":
        plan = [(4, "mixed"), (24, "text"), (8, "mixed"), (2, "mixed"), (12, "mixed"), (2, "volume")] if ctx.quick() else [(n, k) for n in (1, 2, 4, 8, 16, 24) for k in ("text", "mixed")] * 6 + [(3, "volume"), (5, "volume")] * 3
        for n, kind in plan * scale: c08_case(ctx, random.Random(rng.getrandbits(32)), n, kind)
        for i in range((2 if ctx.quick() else 8) * scale): c08_twice_case(ctx, random.Random(rng.getrandbits(32)), first_longer=(i % 2 == 0))
        for i in range((1 if ctx.quick() else 6) * scale): c08_write_error_case(ctx, random.Random(rng.getrandbits(32)))
        # the same with a `log tail` listener attached: alive throughout, or dying while the tasks are still writing
        lplan = [(4, "mixed", "alive"), (6, "text", 0.3), (4, "mixed", 0.8)] if ctx.quick() else [(n, k, l) for n in (2, 6, 12) for k in ("text", "mixed") for l in ("alive", 0.2, 0.6, 1.2)]
        for n, kind, l in lplan * scale: c08_case(ctx, random.Random(rng.getrandbits(32)), n, kind, l)
    elif focus == "C15":
        plan = [("never", ["--stdout", "--stderr"]), (0.25, ["--stdout", "--stderr"]), ("before", ["--stdout"]), (0.7, ["--stderr", "-t", "t00"]), (0.05, ["--stdout", "--stderr"]),
                ("handshake", ["--stdout", "--stderr"]), ("stalled", ["--stdout", "--stderr"]), ("never", ["--stdout", "--stderr", "@burst"]), ("never", ["--stdout", "--stderr", "-t", "@long"]), ("never", ["--stdout", "--stderr", "@tail"])]
        if not ctx.quick(): plan = plan * 10 + [(0.25, ["--stdout", "-t", "@long", "t00", "t01"]), ("never", ["--stderr", "-t"] + ["t%02d" % i for i in range(6)] + ["-c", "build", "lint", "test", "a-very-long-command-name-that-nobody-runs"])] * 3
        for kill_at, flt in plan * scale: c15_case(ctx, random.Random(rng.getrandbits(32)), rng.choice([4, 6]), kill_at, flt)
    else:
        plan = [(6, ["--stdout", "--stderr"], False, 0), (10, ["--stdout"], False, 0), (6, ["--stdout", "--stderr", "-t", "t00", "t03"], False, 0), (8, ["--stderr"], False, 0),
                (3, ["--stdout", "--stderr"], True, 0), (6, ["--stdout", "--stderr"], False, 3000)]
        if not ctx.quick(): plan = plan * 10
        for n, flt, crlf, burst in plan * scale: c20_case(ctx, random.Random(rng.getrandbits(32)), n, flt, crlf, burst)
        # several commands in one run, the listener admitting only some of them (excluded ones come first, last, or in between)
        cplan = [(4, ["--stdout", "--stderr", "-c", "build"], ("a_prep", "z_post")), (3, ["--stdout", "-c", "z_post", "build"], ("a_prep", "z_post")),
                 (4, ["--stdout", "--stderr", "-t", "t00", "t02", "-c", "z_post"], ("a_prep", "z_post"))]      # target AND command filters together
        if not ctx.quick(): cplan = cplan * 5 + [(4, ["--stdout", "--stderr", "-c", "a_prep"], ("a_prep", "z_post")), (4, ["--stderr", "-c", "z_post", "-t", "t00", "t01"], ("a_prep", "z_post"))] * 3
        for n, flt, extra in cplan * scale: c20_case(ctx, random.Random(rng.getrandbits(32)), n, flt, False, 0, 0, extra)
        # a failing task cancels its group while the siblings are in the middle of their output
        for n in ([10, 14] if ctx.quick() else [4, 10, 14, 20] * 3) * scale:
            c20_case(ctx, random.Random(rng.getrandbits(32)), n, ["--stdout", "--stderr"], cancel=True)
        # a filter that names dozens of long target paths (the filter line the run receives is several kilobytes long)
        for n in ([40] if ctx.quick() else [40, 64, 120]) * scale:
            c20_case(ctx, random.Random(rng.getrandbits(32)), n, [], wide=True)
        # every admitted task silent for 31.5 s, then more output: the connection must still be there
        for n in ([3] if ctx.quick() else [3, 2]) * scale:
            c20_case(ctx, random.Random(rng.getrandbits(32)), n, ["--stdout", "--stderr"], quiet_gap=31500)
        for n, size in ([(3, 3000000)] if ctx.quick() else [(3, 3000000), (2, 2097153), (4, 5000000)]) * scale:
            c20_case(ctx, random.Random(rng.getrandbits(32)), n, ["--stdout", "--stderr"], False, 0, 0, (), long_line=size)
        for n, secs in ([(6, 3)] if ctx.quick() else [(6, 3), (8, 5), (4, 2)]) * scale:
            c20_case(ctx, random.Random(rng.getrandbits(32)), n, ["--stdout", "--stderr"], False, 0, paused=secs)

def replay(ctx, case, focus):
    c = case.get("case", case)
    rng = random.Random(ctx.seed)
    if focus == "C08" and c.get("log_write_error"): c08_write_error_case(ctx, rng)
    elif focus == "C08" and c.get("twice"): c08_twice_case(ctx, rng, c.get("first_is_longer", True))
    elif focus == "C08": c08_case(ctx, rng, c.get("targets", 4), c.get("kind", "mixed"), c.get("listener", "none"))
    elif focus == "C15": c15_case(ctx, rng, c.get("targets", 4), c.get("listener_killed", 0.25), c.get("filters", ["--stdout", "--stderr"]))
    else: c20_case(ctx, rng, c.get("targets", 4), c.get("filters", ["--stdout", "--stderr"]), c.get("crlf", False), c.get("burst", 0), c.get("paused", 0), tuple(c.get("extra_cmds", ())), c.get("long_line", 0), c.get("cancel", False), c.get("wide", False), c.get("quiet_gap", 0))
    return {"spec_failures": [d for _, d in ctx.spec_failures][:3], "disagreements": [d for _, d in ctx.tie_breaks][:3]}
