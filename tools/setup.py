#!/usr/bin/env python3
"""MANIFEST.setup_cmd: build everything once from files on disk (offline)."""
import sys, os
sys.path.insert(0, os.path.dirname(os.path.abspath(__file__)))
import vlib
log = []
with vlib.BuildLock():
    ok, problems = vlib.build_coq(log)
    for p in problems: print("SETUP-PROBLEM:", p)
    rok, msg = vlib.build_rust(log)
    if not rok: print(msg)
print("setup: coq %s, rust %s" % ("ok" if ok and not problems else "PROBLEMS", "ok" if rok else "FAILED"))
sys.exit(0 if (ok and rok and not problems) else 1)
