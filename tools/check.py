#!/usr/bin/env python3
"""./check Cnn [--tier quick|thorough] [--replay file]

Decides one property: (1) rebuilds the Coq development and re-checks the property's theorems and their
assumptions, (2) rebuilds /repo's current working tree with the hooks on, (3) runs the correspondence
(model vs implementation vs decidable spec) on generated inputs, (4) prints the verdict:
  exit 0                      proofs check, implementation = model on everything explored
  VIOLATION ... replay=<f>    a concrete input on which the implementation breaks the property
  VIOLATION ... replay=<f> no-failing-input-found
                              a theorem or the correspondence no longer checks, search found no failing input
"""
import argparse, importlib, json, os, sys, time, traceback
sys.path.insert(0, os.path.dirname(os.path.abspath(__file__)))
import vlib

def main():
    ap = argparse.ArgumentParser()
    ap.add_argument("prop")
    ap.add_argument("--tier", default=os.environ.get("VERIF_TIER", "quick"))
    ap.add_argument("--replay")
    ap.add_argument("--no-build", action="store_true")
    a = ap.parse_args()
    prop = a.prop.upper()
    seed = int(os.environ.get("VERIF_SEED", "1"))
    mod = importlib.import_module("props." + prop.lower())
    ctx = vlib.Ctx(prop, a.tier, seed, a.replay)
    log = []
    rc = 1
    try:
        rc = run(ctx, mod, a, log)
    except Exception:
        traceback.print_exc()
        print("ERROR property=%s the check itself failed (see traceback)" % prop)
        rc = 2
    finally:
        ctx.close()
    sys.exit(rc)

def run(ctx, mod, a, log):
    prop = ctx.prop
    problems = []
    with vlib.BuildLock():
        if not a.no_build:
            make_ok, problems = vlib.build_coq(log)
            ok, msg = vlib.build_rust(log)
            if not ok:
                print(msg)
                print("ERROR property=%s /repo does not build with the hooks enabled" % prop)
                return 2
    thm_ok, thm_bad, assum = vlib.check_theorems(prop, mod.THEOREMS)
    theorem_names = ["%s.%s" % t for t in mod.THEOREMS]
    proof_problems = list(problems) + ["theorem %s.%s: %s" % b for b in thm_bad]
    chk_note = None
    if a.tier == "thorough" and not a.replay:
        ok_chk, chk_out = vlib.coqchk(mod.THEOREMS)
        chk_note = "coqchk -o: " + ("Axioms: <none>; no type-in-type, unsafe fixpoints or assumed positivity" if ok_chk else "PROBLEM")
        if not ok_chk: proof_problems.append("coqchk did not confirm the compiled files: " + chk_out[-400:])
        ctx.notes.append(chk_note)
    for p in proof_problems:
        print("PROOF-PROBLEM: " + p.splitlines()[0])

    if a.replay:
        data = json.load(open(a.replay))
        res = mod.replay(ctx, data["case"])
        print(json.dumps(res, indent=1, default=str))
    else:
        mod.run(ctx, 1)

    known = [f for f in vlib.load_known().get("findings", []) if f.get("property") == prop and f.get("status") == "open"]
    classify = getattr(mod, "classify", lambda case, detail: None)
    violations = 0
    reported = set()
    def report_spec_failures():
        nonlocal violations
        attempts, t_start = 0, time.time()
        for case, detail in ctx.spec_failures:
            key = classify(case, detail)
            if key is not None and any(f.get("key") == key for f in known):
                continue
            # at most three replay files; shrinking is best effort and bounded (many failures often shrink to the same case)
            if len(reported) >= 3 or (reported and (attempts >= 8 or time.time() - t_start > 150)): break
            attempts += 1
            shr = getattr(mod, "shrink", None)
            if shr is not None and not a.replay:
                ctx.shrink_deadline = time.time() + 40
                try: case, detail = shr(ctx, case, detail)
                except Exception: traceback.print_exc()
                ctx.shrink_deadline = None
            sig = json.dumps(case, sort_keys=True, default=str)
            if sig in reported: continue
            reported.add(sig)
            fn = vlib.write_replay(prop, "counterexample", case, detail)
            print("VIOLATION property=%s replay=%s" % (prop, fn))
            violations += 1
    report_spec_failures()
    if violations == 0 and (ctx.tie_breaks or proof_problems) and not a.replay:
        # the unbounded claim no longer transfers: search harder for a concrete failing input
        n_before = len(ctx.spec_failures)
        print("NOTE: %d correspondence disagreement(s), %d proof problem(s); searching for a failing input"
              % (len(ctx.tie_breaks), len(proof_problems)))
        try:
            mod.run(ctx, 8)
        except Exception:
            traceback.print_exc()
        ctx.spec_failures = ctx.spec_failures[n_before:]
        report_spec_failures()
        if violations == 0:
            if ctx.tie_breaks:
                case, detail = ctx.tie_breaks[0]
                fn = vlib.write_replay(prop, "correspondence", {"correspondence": getattr(mod, "CORRESPONDENCE", prop), "case": case}, detail)
            else:
                fn = vlib.write_replay(prop, "theorem", {"theorems": theorem_names, "problems": proof_problems}, None)
            print("VIOLATION property=%s replay=%s no-failing-input-found" % (prop, fn))
            violations += 1
    for f in known:
        print("KNOWN-FINDING: property=%s %s" % (prop, f.get("what", f.get("key"))))
    vlib.write_evidence(ctx, mod.LEVEL_NOTE, len(mod.THEOREMS), len(thm_ok), theorem_names,
                        mod.TRUSTED, mod.RULE, violations,
                        extra={"assumptions_per_theorem": assum, "proof_problems": proof_problems,
                               "correspondence_disagreements": len(ctx.tie_breaks),
                               "spec_failures": len(ctx.spec_failures), "notes": ctx.notes})
    print("property=%s tier=%s seed=%d evaluations=%d nontrivial=%d agree=%d theorems=%d/%d wall=%.1fs"
          % (prop, ctx.tier, ctx.seed, ctx.evaluations, len(ctx.nontrivial), ctx.traces_validated,
             len(thm_ok), len(mod.THEOREMS), time.time() - ctx.t0))
    return 1 if violations else 0

if __name__ == "__main__":
    main()
