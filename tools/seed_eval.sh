#!/bin/bash
# usage: seed_eval.sh <id> [extra check ids...]   - confirm a seeded change (patch in /tmp/seed_<id>.out) and run the checks against it
id=$1; shift
out=/tmp/seed_$id.out
log=/tmp/seed_eval_$id.log
: > $log
echo "## confirm: tests pass with the change" | tee -a $log
(cd /tmp/seed_$id && cargo test --offline 2>&1 | grep -E "^test result" | head -1) | tee -a $log
echo "## demo with change (expect 1)" | tee -a $log
(timeout 900 bash $out/demo.sh /tmp/seed_$id >> $log 2>&1 < /dev/null; echo "demo_with_change rc=$?") | tee -a $log
echo "## demo without change (expect 0)" | tee -a $log
(timeout 900 bash $out/demo.sh /tmp/clean >> $log 2>&1 < /dev/null; echo "demo_clean rc=$?") | tee -a $log
echo "## checks with the patch applied to /repo" | tee -a $log
trap "git -C /repo checkout -- ." EXIT
git -C /repo apply $out/patch.diff || { echo "PATCH DOES NOT APPLY"; exit 1; }
for c in $id "$@"; do
  (cd /verif && timeout 3000 ./check $c 2>&1 | grep -E "^VIOLATION|^property=|^ERROR|^NOTE" | head -6) | tee -a $log
done
git -C /repo checkout -- .
git -C /repo status --short | head
