"""Scenarios that execute `monorail run` for real: repositories whose commands are symlinks to the vhelper
executable, scripted through $VHELPER_DIR/script.json; traces, results and stored logs are read back."""
import hashlib, json, os, shutil, subprocess, tempfile, time
import vlib, gen_config as G

def thash(target): return hashlib.sha256(target.encode()).hexdigest()

class RunRepo:
    def __init__(self, ctx, cfg, kinds=None, M=None, extra_cfg=None, commands=("build",)):
        """kinds[(command, target)] in {"exec" (default), "noexec", "undef"}."""
        self.ctx = ctx
        self.cfg = json.loads(json.dumps(cfg))
        if M is not None: self.cfg["max_retained_runs"] = M
        if extra_cfg: self.cfg.update(extra_cfg)
        self.repo = vlib.mk_repo(ctx, self.cfg)
        self.hd = tempfile.mkdtemp(prefix="helper-", dir=ctx.scratch)
        self.kinds = kinds or {}
        self.commands = list(commands)
        for t in self.cfg["targets"]:
            cd = t.get("commands", {}).get("path")            # a target may keep its commands somewhere else
            for c in self.commands:
                self.install(c, t["path"], self.kinds.get((c, t["path"]), "exec"), cmd_dir=os.path.join(self.repo, cd) if cd else None)
        self.script = {"*": {}}
        self.write_script()
        self.run_no = 0
        full = json.load(open(os.path.join(self.repo, "Monorail.json")))
        self.lock_port = full["server"]["lock"]["port"]; self.log_port = full["server"]["log"]["port"]
    def install(self, command, target, kind, cmd_dir=None, ext=""):
        d = cmd_dir or os.path.join(self.repo, target, "monorail", "cmd")
        os.makedirs(d, exist_ok=True)
        p = os.path.join(d, command + ext)
        if os.path.lexists(p): os.remove(p)
        if kind == "exec": os.symlink(vlib.BIN_VHELPER, p)
        elif kind == "noexec":
            open(p, "w").write("#!/bin/sh\nexit 0\n"); os.chmod(p, 0o644)
        elif kind == "noexec_format":
            # execute bits set, but nothing the kernel can start: a text file without a #! line
            open(p, "w").write("echo this file has no interpreter line\n"); os.chmod(p, 0o755)
        elif kind == "noexec_interp":
            # execute bits set, #! names an interpreter that does not exist
            open(p, "w").write("#!/nonexistent/interpreter\nexit 0\n"); os.chmod(p, 0o755)
        elif kind == "noexec_link":
            # a symbolic link (whose own mode is always rwxrwxrwx) to a file without the x bit
            shared = os.path.join(self.repo, "shared"); os.makedirs(shared, exist_ok=True)
            tgt = os.path.join(shared, "%s_%s.sh" % (command, target.replace("/", "_")))
            open(tgt, "w").write("#!/bin/sh\nexit 0\n"); os.chmod(tgt, 0o644)
            os.symlink(tgt, p)
        return p
    def write_script(self):
        json.dump(self.script, open(os.path.join(self.hd, "script.json"), "w"))
    def env(self, extra=None):
        e = {"VHELPER_DIR": self.hd, "VHELPER_ROOT": self.repo, "VERIF_RUN_NO": str(self.run_no)}
        if extra: e.update(extra)
        return e
    def clear_traces(self):
        shutil.rmtree(os.path.join(self.hd, "trace"), ignore_errors=True)
        shutil.rmtree(os.path.join(self.hd, "barrier"), ignore_errors=True)
    def run(self, *args, env=None, timeout=120, prefix=()):
        self.run_no += 1
        self.clear_traces()
        return vlib.monorail(self.repo, "run", *args, env=self.env(env), timeout=timeout, prefix=prefix)
    def traces(self):
        d = os.path.join(self.hd, "trace")
        recs = {}
        if os.path.isdir(d):
            for f in os.listdir(d):
                k = f.split(".")[0]
                try: r = json.load(open(os.path.join(d, f)))
                except Exception: continue
                recs.setdefault(k, {}).update(r)
        out = []
        for r in recs.values():
            r["start_ns"] = int(r["start_ns"]); r["end_ns"] = int(r["end_ns"]) if "end_ns" in r else None
            r["argv_s"] = [bytes.fromhex(a) for a in r.get("argv", [])]
            out.append(r)
        return sorted(out, key=lambda r: r["start_ns"])
    def out_dir(self): return os.path.join(self.repo, self.cfg.get("out_dir", "monorail-out"))
    def unzstd(self, path):
        r = self.ctx.harness.call(fn="unzstd", path=path)
        if "ok" in r: return bytes.fromhex(r["ok"])
        return None
    def pointer(self):
        p = os.path.join(self.out_dir(), "tracking", "run.json")
        if not os.path.exists(p): return None
        raw = open(p, "rb").read()
        try: return json.loads(raw)["id"]
        except Exception: return "corrupt"
    def slots(self):
        """{slot id: {"logs": {relpath: bytes-or-None}, "result": doc-or-None}}"""
        d = os.path.join(self.out_dir(), "run")
        out = {}
        if not os.path.isdir(d): return out
        for sid in os.listdir(d):
            sd = os.path.join(d, sid)
            logs, result = {}, None
            for root, _, files in os.walk(sd):
                for f in files:
                    full = os.path.join(root, f); rel = os.path.relpath(full, sd)
                    data = self.unzstd(full)
                    if rel == "result.json.zst":
                        try: result = json.loads(data) if data else "corrupt"
                        except Exception: result = "corrupt"
                    else:
                        logs[rel] = data
            out[int(sid) if sid.isdigit() else sid] = {"logs": logs, "result": result}
        return out
    def close(self):
        shutil.rmtree(self.repo, ignore_errors=True); shutil.rmtree(self.hd, ignore_errors=True)

def result_statuses(out):
    """[(command, [ {target: (status, code)} per group ])] from a run's result document."""
    res = []
    for crr in (out or {}).get("results", []):
        res.append((crr["command"], [{t: (r["status"], r.get("code")) for t, r in g.items()} for g in crr["target_groups"]]))
    return res

def strip_result(doc):
    """A result document without the parts that differ between printing and storing (timestamp) or are timing."""
    if not isinstance(doc, dict): return doc
    d = json.loads(json.dumps(doc))
    d.pop("timestamp", None)
    for crr in d.get("results", []):
        for g in crr.get("target_groups", []):
            for r in g.values(): r.pop("runtime_secs", None)
    return d
