#!/usr/bin/env python3
"""Re-run the check of every stored seeded change against a scratch checkout that has the change applied (development aid; not a
registered command).  usage: seed_regress.py [lanes] [seed-dir ...]

Each lane owns a scratch git worktree of /repo's HEAD under /tmp (removed at the end, with its build cache .cache/alt-rg<k>); for
every seeded/<id> that is not retired: reset the worktree, `git apply seeded/<id>/patch.diff`, `./check <property>` with
VERIF_ALT=rg<k> VERIF_REPO=<worktree> (the check builds and runs that tree; /repo itself is not touched).  A change counts as caught
when the check exits 1 with a VIOLATION line for its property.  Results: seeded/REGRESSION.json."""
import json, os, subprocess, sys, threading, time, shutil

VERIF = os.path.dirname(os.path.dirname(os.path.abspath(__file__)))
lanes = int(sys.argv[1]) if len(sys.argv) > 1 and sys.argv[1].isdigit() else 3
only = [a for a in sys.argv[1:] if not a.isdigit()]
head = subprocess.run(["git", "-C", "/repo", "rev-parse", "--short", "HEAD"], capture_output=True, text=True).stdout.strip()
seeds = []
for d in sorted(os.listdir(os.path.join(VERIF, "seeded"))):
    mp = os.path.join(VERIF, "seeded", d, "meta.json")
    if not os.path.isfile(mp): continue
    m = json.load(open(mp))
    if m.get("retired"): continue
    if only and d not in only: continue
    seeds.append((d, m["breaks_property"]))
todo, lock, results = list(seeds), threading.Lock(), {}
outp = os.path.join(VERIF, "seeded", "REGRESSION.json")
if only and os.path.exists(outp):
    results = json.load(open(outp)).get("results", {})

def lane(k):
    wt = "/tmp/rg_lane%d" % k
    subprocess.run(["git", "-C", "/repo", "worktree", "remove", "--force", wt], capture_output=True)
    shutil.rmtree(wt, ignore_errors=True)
    subprocess.run(["git", "-C", "/repo", "worktree", "add", "--detach", wt, "HEAD"], capture_output=True, check=True)
    try:
        while True:
            with lock:
                if not todo: return
                sid, prop = todo.pop(0)
            subprocess.run(["git", "-C", wt, "reset", "-q", "--hard", "HEAD"], check=True)
            a = subprocess.run(["git", "-C", wt, "apply", os.path.join(VERIF, "seeded", sid, "patch.diff")], capture_output=True, text=True)
            if a.returncode != 0:
                with lock: results[sid] = {"property": prop, "caught": None, "error": "patch does not apply: " + a.stderr[-200:]}
                continue
            env = dict(os.environ, VERIF_ALT="rg%d" % k, VERIF_REPO=wt, VERIF_SEED=os.environ.get("VERIF_SEED", "1"))
            t0 = time.time()
            try:
                p = subprocess.run(["./check", prop], cwd=VERIF, env=env, capture_output=True, text=True, timeout=3600)
                out, rc = p.stdout + p.stderr, p.returncode
            except subprocess.TimeoutExpired as e:
                out, rc = "TIMEOUT", -1
            lines = [l for l in out.splitlines() if l.startswith(("VIOLATION", "property=", "ERROR", "KNOWN"))]
            caught = rc == 1 and any(l.startswith("VIOLATION property=%s " % prop) for l in lines)
            with lock:
                results[sid] = {"property": prop, "caught": caught, "rc": rc, "seconds": round(time.time() - t0), "lines": [l[:160] for l in lines[:4]]}
                json.dump({"repo_head": head, "results": results}, open(outp, "w"), indent=1, sort_keys=True)
            print("%s %s %s (%ds)" % ("CAUGHT" if caught else "MISSED", sid, prop, time.time() - t0), flush=True)
    finally:
        subprocess.run(["git", "-C", "/repo", "worktree", "remove", "--force", wt], capture_output=True)
        shutil.rmtree(wt, ignore_errors=True)
        shutil.rmtree(os.path.join(VERIF, ".cache", "alt-rg%d" % k), ignore_errors=True)

ths = [threading.Thread(target=lane, args=(k,)) for k in range(lanes)]
for t in ths: t.start()
for t in ths: t.join()
missed = sorted(s for s, r in results.items() if r.get("caught") is not True)
json.dump({"repo_head": head, "results": results, "missed": missed}, open(outp, "w"), indent=1, sort_keys=True)
print("done: %d seeds, %d caught, not caught: %s" % (len(results), len(results) - len(missed), missed))
