"""Graph-level and index-level grouping checks shared by C03 (acyclic => valid layering) and
C09 (cyclic => rejected).  `want_cyclic` selects which half of the quantifier a property claims."""
import itertools, json, os
import vlib, gen_config as G

def enc_groups_impl(r, labels=False):
    if "ok" in r:
        return [1, r["ok"]]
    if "panic" in r:
        return [2, 0]
    msg = r["err"].get("message", "")
    kind = 1 if (r["err"].get("type") == "graph" and "Cycle" in msg) else 2 if "Duplicate label" in msg else 3
    return [0, kind]

def eval_dag(ctx, adj, roots, want_cyclic, via="dag"):
    impl = enc_groups_impl(ctx.harness.call(fn="dag_groups", adj=adj, roots=roots))
    v = ctx.model.call("dag", adj, roots, impl)
    wfb, mv, agree, spec, cyc = bool(v[0]), v[1], bool(v[2]), bool(v[3]), bool(v[4])
    in_scope = wfb and (cyc == want_cyclic)
    ne = sum(len(r) for r in adj)
    nontriv = in_scope and ne >= 2 and len(roots) >= 1
    case = {"kind": "dag", "adj": adj, "roots": roots}
    ctx.count(via); ctx.count("cyclic" if cyc else "acyclic"); ctx.count("nodes_%s" % (len(adj) if len(adj) < 6 else "6+"))
    ctx.record(case, in_scope, agree, spec, nontriv,
               sample={"adj": adj, "roots": roots, "impl": impl} if nontriv else None,
               detail={"impl": impl, "model": mv, "agree": agree, "spec_ok": spec, "cyclic": cyc}, tie_relevant=(cyc == want_cyclic))
    return {"impl": impl, "model": mv, "agree": agree, "spec_ok": spec, "cyclic": cyc, "in_scope": in_scope}

def eval_index(ctx, cfg, visible, want_cyclic):
    impl = enc_groups_impl(ctx.harness.call(fn="index_groups", cfg=G.cfg_json(cfg), mk=[t["path"] for t in cfg["targets"]], visible=visible))
    v = ctx.model.call("index_groups", G.cfg_val(cfg), visible, impl)
    wfb, mv, agree, spec, cyc = bool(v[0]) and G.normalised(cfg), v[1], bool(v[2]), bool(v[3]), bool(v[4])
    in_scope = wfb and (cyc == want_cyclic)
    nontriv = in_scope and len(cfg["targets"]) >= 3 and any(t.get("uses") for t in cfg["targets"])
    case = {"kind": "index", "cfg": cfg, "visible": visible}
    ctx.count("index"); ctx.count("cyclic" if cyc else "acyclic")
    ctx.record(case, in_scope, agree, spec, nontriv,
               sample={"cfg": cfg, "visible": visible, "impl": impl} if nontriv else None,
               detail={"impl": impl, "model": mv, "agree": agree, "spec_ok": spec, "cyclic": cyc}, tie_relevant=(cyc == want_cyclic))
    return {"impl": impl, "model": mv, "agree": agree, "spec_ok": spec, "cyclic": cyc, "in_scope": in_scope}

def eval_analyze(ctx, cfg, changes, want_cyclic):
    r = ctx.harness.call(fn="analyze", cfg=G.cfg_json(cfg), mk=[t["path"] for t in cfg["targets"]], changes=changes, sc=False, sct=False, stg=True)
    if "ok" in r:
        impl = [1, [r["ok"]["targets"], r["ok"].get("target_groups") or []]]
    else:
        impl = enc_groups_impl(r)
    v = ctx.model.call("analyze_groups", G.cfg_val(cfg), [] if changes is None else [changes], impl)
    wfb, mv, agree, spec, cyc = bool(v[0]) and G.normalised(cfg, changes), v[1], bool(v[2]), bool(v[3]), bool(v[4])
    in_scope = wfb and (cyc == want_cyclic)
    nontriv = in_scope and impl[0] == 1 and len(impl[1][1]) >= 2
    case = {"kind": "analyze", "cfg": cfg, "changes": changes}
    ctx.count("analyze_all" if changes is None else "analyze_changed"); ctx.count("cyclic" if cyc else "acyclic")
    ctx.record(case, in_scope, agree, spec, nontriv,
               sample={"cfg": cfg, "changes": changes, "impl": impl} if nontriv else None,
               detail={"impl": impl, "model": mv, "agree": agree, "spec_ok": spec, "cyclic": cyc}, tie_relevant=(cyc == want_cyclic))
    return {"impl": impl, "model": mv, "agree": agree, "spec_ok": spec, "cyclic": cyc, "in_scope": in_scope}

def all_digraphs(n, self_loops=True):
    pairs = [(i, j) for i in range(n) for j in range(n) if self_loops or i != j]
    for mask in range(1 << len(pairs)):
        adj = [[] for _ in range(n)]
        for k, (i, j) in enumerate(pairs):
            if mask >> k & 1: adj[i].append(j)
        yield adj

def root_subsets(n):
    for k in range(1, n + 1):
        for c in itertools.combinations(range(n), k):
            yield list(c)

def rand_graph(rng, n, cyclic):
    order = list(range(n)); rng.shuffle(order)
    pos = {v: i for i, v in enumerate(order)}
    adj = [[] for _ in range(n)]
    dens = rng.choice([0.05, 0.15, 0.3])
    for i in range(n):
        for j in range(n):
            if pos[i] < pos[j] and rng.random() < dens:
                adj[i].append(j)
    # planted diamonds and redundant transitive edges
    for _ in range(rng.randint(0, 3)):
        if n >= 4:
            a, b, c, d = sorted(rng.sample(range(n), 4), key=lambda v: pos[v])
            for (x, y) in ((a, b), (a, c), (b, d), (c, d), (a, d)):
                if y not in adj[x]: adj[x].append(y)
    if cyclic and n >= 2:
        for _ in range(rng.randint(1, 2)):
            i, j = rng.sample(range(n), 2)
            if pos[i] < pos[j]: i, j = j, i
            if j not in adj[i]: adj[i].append(j)     # back edge (may or may not close a cycle)
        if rng.random() < 0.2:
            k = rng.randrange(n)
            if k not in adj[k]: adj[k].append(k)
    for r in adj: rng.shuffle(r)
    return adj

def run(ctx, scale, want_cyclic):
    rng = ctx.rng
    prop = ctx.prop
    cdir = os.path.join(vlib.VERIF, "corpus", prop)
    if os.path.isdir(cdir):
        for f in sorted(os.listdir(cdir)):
            replay(ctx, json.load(open(os.path.join(cdir, f))), want_cyclic)
    # exhaustive small digraphs x all non-empty root subsets
    nmax = 3
    for n in range(1, nmax + 1):
        for adj in all_digraphs(n):
            for roots in root_subsets(n):
                eval_dag(ctx, adj, roots, want_cyclic, via="exhaustive")
    if not ctx.quick():
        for adj in all_digraphs(4, self_loops=False):
            for roots in ([0, 1, 2, 3], [rng.randrange(4)], rng.sample(range(4), 2)):
                eval_dag(ctx, adj, roots, want_cyclic, via="exhaustive4")
        ctx.notes.append("exhaustive: all digraphs on <=3 nodes (self loops included) x all root subsets; all loop-free digraphs on 4 nodes x 3 root sets")
    else:
        ctx.notes.append("exhaustive: all digraphs on <=3 nodes (self loops included) x all non-empty root subsets")
    for _ in range((400 if ctx.quick() else 6000) * scale):
        n = rng.choice([4, 4, 5, 6, 8, 12, 20, 40, 60])
        adj = rand_graph(rng, n, rng.random() < (0.75 if want_cyclic else 0.25))
        k = rng.choice([1, 1, 2, 3, n])
        roots = rng.sample(range(n), min(k, n)); 
        if rng.random() < 0.1: roots = roots + roots[:1]
        eval_dag(ctx, adj, roots, want_cyclic, via="random")
    # index level: configurations, random visible subsets, and analyze --target-groups with/without changes
    for _ in range((250 if ctx.quick() else 4000) * scale):
        cfg = G.gen_config(rng, acyclic_bias=(rng.random() < (0.4 if want_cyclic else 0.9)))
        paths = [t["path"] for t in cfg["targets"]]
        vis = rng.sample(paths, rng.randint(1, len(paths)))
        eval_index(ctx, cfg, vis, want_cyclic)
        changes = None if rng.random() < 0.3 else G.gen_changes(rng, cfg, rng.choice([0, 1, 2, 5, 20]))
        eval_analyze(ctx, cfg, changes, want_cyclic)

def replay(ctx, case, want_cyclic):
    c = case.get("case", case)
    if "correspondence" in c: c = c["case"]
    if c["kind"] == "dag": return eval_dag(ctx, c["adj"], c["roots"], want_cyclic)
    if c["kind"] == "index": return eval_index(ctx, c["cfg"], c["visible"], want_cyclic)
    return eval_analyze(ctx, c["cfg"], c["changes"], want_cyclic)

def shrink(ctx, case, detail, want_cyclic):
    if case["kind"] != "dag": return case, detail
    adj, roots = case["adj"], case["roots"]
    def fails(a, r):
        if ctx.shrink_expired(): return False
        impl = enc_groups_impl(ctx.harness.call(fn="dag_groups", adj=a, roots=r))
        v = ctx.model.call("dag", a, r, impl)
        return bool(v[0]) and bool(v[4]) == want_cyclic and not bool(v[3])
    changed = True
    while changed:
        changed = False
        for i in range(len(adj)):
            for j in range(len(adj[i])):
                a2 = [list(r) for r in adj]; del a2[i][j]
                if fails(a2, roots): adj = a2; changed = True; break
            if changed: break
        if changed: continue
        for k in range(len(roots)):
            r2 = roots[:k] + roots[k + 1:]
            if r2 and fails(adj, r2): roots = r2; changed = True; break
        if changed: continue
        # drop the last node when nothing refers to it
        n = len(adj) - 1
        if n >= 1 and not adj[n] and all(n not in r for r in adj) and n not in roots and fails(adj[:n], roots):
            adj = adj[:n]; changed = True
    d = eval_dag(ctx, adj, roots, want_cyclic)
    return {"kind": "dag", "adj": adj, "roots": roots}, d
