#!/bin/bash
# usage: run_all.sh <seed> [tier]  - every check once on the current tree; one summary line per property
seed=${1:-1}; tier=${2:-quick}
cd "$(dirname "$0")/.."
for p in C01 C02 C03 C04 C05 C06 C07 C08 C09 C10 C11 C12 C13 C14 C15 C16 C17 C18 C19 C20; do
  out=$(VERIF_SEED=$seed timeout 3000 ./check $p --tier $tier 2>&1); rc=$?
  echo "rc=$rc $(echo "$out" | grep -E '^property=' | tail -1)"
  echo "$out" | grep -E '^VIOLATION|^ERROR|^PROOF-PROBLEM|^KNOWN' | head -3
done
